//! A serde `Serializer` that records, for every struct serialised, its name and the names of the
//! fields that were actually emitted (in order). Used to compare the derived `Serialize` of ast.rs
//! with the model's `ser`.
use serde::ser::{self, Serialize};
use std::fmt;

#[derive(Debug)]
pub struct RecErr(String);
impl fmt::Display for RecErr {
    fn fmt(&self, f: &mut fmt::Formatter<'_>) -> fmt::Result {
        write!(f, "{}", self.0)
    }
}
impl std::error::Error for RecErr {}
impl ser::Error for RecErr {
    fn custom<T: fmt::Display>(msg: T) -> Self {
        RecErr(msg.to_string())
    }
}

pub type Log = Vec<(String, Vec<String>)>;

pub struct Rec<'a> {
    pub log: &'a mut Log,
}

pub struct Comp<'a> {
    log: &'a mut Log,
    idx: Option<usize>,
}

pub fn record<T: Serialize>(v: &T) -> Result<Log, RecErr> {
    let mut log = Vec::new();
    v.serialize(Rec { log: &mut log })?;
    Ok(log)
}

impl<'a> ser::Serializer for Rec<'a> {
    type Ok = ();
    type Error = RecErr;
    type SerializeSeq = Comp<'a>;
    type SerializeTuple = Comp<'a>;
    type SerializeTupleStruct = Comp<'a>;
    type SerializeTupleVariant = Comp<'a>;
    type SerializeMap = Comp<'a>;
    type SerializeStruct = Comp<'a>;
    type SerializeStructVariant = Comp<'a>;

    fn serialize_bool(self, _: bool) -> Result<(), RecErr> { Ok(()) }
    fn serialize_i8(self, _: i8) -> Result<(), RecErr> { Ok(()) }
    fn serialize_i16(self, _: i16) -> Result<(), RecErr> { Ok(()) }
    fn serialize_i32(self, _: i32) -> Result<(), RecErr> { Ok(()) }
    fn serialize_i64(self, _: i64) -> Result<(), RecErr> { Ok(()) }
    fn serialize_u8(self, _: u8) -> Result<(), RecErr> { Ok(()) }
    fn serialize_u16(self, _: u16) -> Result<(), RecErr> { Ok(()) }
    fn serialize_u32(self, _: u32) -> Result<(), RecErr> { Ok(()) }
    fn serialize_u64(self, _: u64) -> Result<(), RecErr> { Ok(()) }
    fn serialize_f32(self, _: f32) -> Result<(), RecErr> { Ok(()) }
    fn serialize_f64(self, _: f64) -> Result<(), RecErr> { Ok(()) }
    fn serialize_char(self, _: char) -> Result<(), RecErr> { Ok(()) }
    fn serialize_str(self, _: &str) -> Result<(), RecErr> { Ok(()) }
    fn serialize_bytes(self, _: &[u8]) -> Result<(), RecErr> { Ok(()) }
    fn serialize_none(self) -> Result<(), RecErr> { Ok(()) }
    fn serialize_some<T: ?Sized + Serialize>(self, v: &T) -> Result<(), RecErr> { v.serialize(self) }
    fn serialize_unit(self) -> Result<(), RecErr> { Ok(()) }
    fn serialize_unit_struct(self, _: &'static str) -> Result<(), RecErr> { Ok(()) }
    fn serialize_unit_variant(self, _: &'static str, _: u32, _: &'static str) -> Result<(), RecErr> { Ok(()) }
    fn serialize_newtype_struct<T: ?Sized + Serialize>(self, _: &'static str, v: &T) -> Result<(), RecErr> {
        v.serialize(self)
    }
    fn serialize_newtype_variant<T: ?Sized + Serialize>(self, _: &'static str, _: u32, _: &'static str, v: &T) -> Result<(), RecErr> {
        v.serialize(self)
    }
    fn serialize_seq(self, _: Option<usize>) -> Result<Comp<'a>, RecErr> { Ok(Comp { log: self.log, idx: None }) }
    fn serialize_tuple(self, _: usize) -> Result<Comp<'a>, RecErr> { Ok(Comp { log: self.log, idx: None }) }
    fn serialize_tuple_struct(self, _: &'static str, _: usize) -> Result<Comp<'a>, RecErr> { Ok(Comp { log: self.log, idx: None }) }
    fn serialize_tuple_variant(self, _: &'static str, _: u32, _: &'static str, _: usize) -> Result<Comp<'a>, RecErr> {
        Ok(Comp { log: self.log, idx: None })
    }
    fn serialize_map(self, _: Option<usize>) -> Result<Comp<'a>, RecErr> { Ok(Comp { log: self.log, idx: None }) }
    fn serialize_struct(self, name: &'static str, _: usize) -> Result<Comp<'a>, RecErr> {
        self.log.push((name.to_owned(), Vec::new()));
        let idx = self.log.len() - 1;
        Ok(Comp { log: self.log, idx: Some(idx) })
    }
    fn serialize_struct_variant(self, _: &'static str, _: u32, variant: &'static str, _: usize) -> Result<Comp<'a>, RecErr> {
        self.log.push((variant.to_owned(), Vec::new()));
        let idx = self.log.len() - 1;
        Ok(Comp { log: self.log, idx: Some(idx) })
    }
}

impl<'a> ser::SerializeSeq for Comp<'a> {
    type Ok = ();
    type Error = RecErr;
    fn serialize_element<T: ?Sized + Serialize>(&mut self, v: &T) -> Result<(), RecErr> { v.serialize(Rec { log: &mut *self.log }) }
    fn end(self) -> Result<(), RecErr> { Ok(()) }
}
impl<'a> ser::SerializeTuple for Comp<'a> {
    type Ok = ();
    type Error = RecErr;
    fn serialize_element<T: ?Sized + Serialize>(&mut self, v: &T) -> Result<(), RecErr> { v.serialize(Rec { log: &mut *self.log }) }
    fn end(self) -> Result<(), RecErr> { Ok(()) }
}
impl<'a> ser::SerializeTupleStruct for Comp<'a> {
    type Ok = ();
    type Error = RecErr;
    fn serialize_field<T: ?Sized + Serialize>(&mut self, v: &T) -> Result<(), RecErr> { v.serialize(Rec { log: &mut *self.log }) }
    fn end(self) -> Result<(), RecErr> { Ok(()) }
}
impl<'a> ser::SerializeTupleVariant for Comp<'a> {
    type Ok = ();
    type Error = RecErr;
    fn serialize_field<T: ?Sized + Serialize>(&mut self, v: &T) -> Result<(), RecErr> { v.serialize(Rec { log: &mut *self.log }) }
    fn end(self) -> Result<(), RecErr> { Ok(()) }
}
impl<'a> ser::SerializeMap for Comp<'a> {
    type Ok = ();
    type Error = RecErr;
    fn serialize_key<T: ?Sized + Serialize>(&mut self, v: &T) -> Result<(), RecErr> { v.serialize(Rec { log: &mut *self.log }) }
    fn serialize_value<T: ?Sized + Serialize>(&mut self, v: &T) -> Result<(), RecErr> { v.serialize(Rec { log: &mut *self.log }) }
    fn end(self) -> Result<(), RecErr> { Ok(()) }
}
impl<'a> ser::SerializeStruct for Comp<'a> {
    type Ok = ();
    type Error = RecErr;
    fn serialize_field<T: ?Sized + Serialize>(&mut self, key: &'static str, v: &T) -> Result<(), RecErr> {
        if let Some(i) = self.idx {
            self.log[i].1.push(key.to_owned());
        }
        v.serialize(Rec { log: &mut *self.log })
    }
    fn end(self) -> Result<(), RecErr> { Ok(()) }
}
impl<'a> ser::SerializeStructVariant for Comp<'a> {
    type Ok = ();
    type Error = RecErr;
    fn serialize_field<T: ?Sized + Serialize>(&mut self, key: &'static str, v: &T) -> Result<(), RecErr> {
        if let Some(i) = self.idx {
            self.log[i].1.push(key.to_owned());
        }
        v.serialize(Rec { log: &mut *self.log })
    }
    fn end(self) -> Result<(), RecErr> { Ok(()) }
}
