//! Random generators of documents and multi-file projects (all choices from one `Rng`).
use crate::doc::*;
use crate::rng::Rng;

pub const PRIMITIVES: &[&str] = &["byte", "short", "int", "long", "float", "double", "boolean", "char"];
pub const ORDINARY_NAMES: &[&str] = &["foo", "bar", "x", "getValue", "a1", "_p", "Z9", "send", "m"];
pub const NEAR_KEYWORD_NAMES: &[&str] = &[
    "inout2", "Listing", "int_", "doX", "Maps", "voidx", "in_", "onewayX", "Stringy", "trueish", "imports",
    "enumerate", "constant", "interfaces", "parcelables", "package_", "outer", "CharSequences", "f", "e1",
];
pub const PACKAGES: &[&[&str]] = &[&["a"], &["a", "b"], &["p", "q"], &["other", "pkg"], &["pkg"], &["a", "xpkg"], &["ab"]];
// `Array` is also the synthetic name the tree gives to array types
pub const ITEM_NAMES: &[&str] = &["Foo", "XFoo", "FooX", "Bar", "IFoo", "Foo2", "Array"];
pub const BUILTIN_SIMPLE: &[&str] = &["IBinder", "FileDescriptor", "ParcelFileDescriptor", "ParcelableHolder"];
/// a built-in's simple name under ANOTHER package (the other built-in package, a prefix, a suffix, a longer one, other case):
/// ordinary names, whatever they look like
pub const BUILTIN_NEAR_QUALIFIED: &[&str] = &[
    "java.os.IBinder",
    "java.os.ParcelFileDescriptor",
    "java.os.ParcelableHolder",
    "android.os.FileDescriptor",
    "android.IBinder",
    "os.ParcelFileDescriptor",
    "android.os.x.IBinder",
    "Android.os.ParcelableHolder",
    "java.io.FileDescriptor",
];
pub const BUILTIN_QUALIFIED: &[&str] = &[
    "android.os.IBinder",
    "java.os.FileDescriptor",
    "android.os.ParcelFileDescriptor",
    "android.os.ParcelableHolder",
];
pub const DOC_WORDS: &[&str] = &["hello", "Größe", "日本語", "🎉", "naïve", "wörld", "ok", "x1"];

pub fn split(s: &str) -> Vec<String> {
    s.split('.').map(|x| x.to_owned()).collect()
}

pub fn ident(rng: &mut Rng) -> String {
    if rng.chance(1, 120) {
        // scale: a name far longer than any buffer a reader might keep for one
        let base = *rng.pick(ORDINARY_NAMES);
        return format!("{}_{}", base, "x".repeat(*rng.pick(&[70usize, 300, 5000])));
    }
    if rng.chance(1, 3) {
        (*rng.pick(NEAR_KEYWORD_NAMES)).to_owned()
    } else {
        (*rng.pick(ORDINARY_NAMES)).to_owned()
    }
}

/// pool of names a custom type reference may use
#[derive(Clone, Debug, Default)]
pub struct TypePool {
    pub customs: Vec<Vec<String>>,
}

impl TypePool {
    pub fn default_pool() -> TypePool {
        let mut customs = Vec::new();
        for n in ITEM_NAMES {
            customs.push(vec![(*n).to_owned()]);
        }
        for b in BUILTIN_SIMPLE {
            customs.push(vec![(*b).to_owned()]);
        }
        for b in BUILTIN_QUALIFIED {
            customs.push(split(b));
        }
        for b in BUILTIN_NEAR_QUALIFIED {
            customs.push(split(b));
        }
        for p in PACKAGES {
            for n in &ITEM_NAMES[..3] {
                let mut v: Vec<String> = p.iter().map(|s| (*s).to_owned()).collect();
                v.push((*n).to_owned());
                customs.push(v.clone());
                if v.len() > 2 {
                    customs.push(v[1..].to_vec()); // partial qualification
                }
            }
        }
        customs.push(vec!["Unknown".to_owned()]);
        customs.push(split("z.Nope"));
        TypePool { customs }
    }
}

pub fn gen_ty(rng: &mut Rng, depth: usize, pool: &TypePool, allow_void: bool) -> TyDoc {
    // scale: now and then a tower of generic types much deeper than usual
    if depth >= 2 && rng.chance(1, 150) {
        let mut t = gen_ty(rng, 0, pool, false);
        for _ in 0..rng.range(5, 12) {
            t = match rng.below(3) {
                0 => TyDoc::Array(Box::new(t)),
                1 => TyDoc::List(Some(Box::new(t))),
                _ => TyDoc::Map(Some((Box::new(TyDoc::Str), Box::new(t)))),
            };
        }
        return t;
    }
    let leaf = depth == 0 || rng.chance(1, 2);
    if leaf {
        match rng.below(if allow_void { 10 } else { 9 }) {
            0 | 1 => TyDoc::Primitive(*rng.pick(PRIMITIVES)),
            2 => TyDoc::Str,
            3 => TyDoc::CharSequence,
            4 => TyDoc::List(None),
            5 => TyDoc::Map(None),
            6 | 7 | 8 => TyDoc::Custom(rng.pick(&pool.customs).clone()),
            _ => TyDoc::Void,
        }
    } else {
        match rng.below(3) {
            0 => TyDoc::Array(Box::new(gen_ty(rng, depth - 1, pool, allow_void))),
            1 => TyDoc::List(Some(Box::new(gen_ty(rng, depth - 1, pool, allow_void)))),
            _ => {
                let k = if rng.chance(2, 3) { TyDoc::Str } else { gen_ty(rng, depth - 1, pool, allow_void) };
                TyDoc::Map(Some((Box::new(k), Box::new(gen_ty(rng, depth - 1, pool, allow_void)))))
            }
        }
    }
}

pub fn gen_scalar_value(rng: &mut Rng) -> String {
    match rng.below(8) {
        0 => "0".into(),
        1 => format!("{}", rng.below(100000)),
        2 => "-1.5".into(),
        3 => "+.5f".into(),
        4 => "\"str\"".into(),
        5 => "\"é 日本 // not a comment /* */\"".into(),
        6 => "true".into(),
        _ => "false".into(),
    }
}

pub fn gen_value(rng: &mut Rng, depth: usize) -> ValueDoc {
    match rng.below(8) {
        0 => ValueDoc::EmptyBraces,
        1 if depth > 0 => {
            let n = rng.range(1, 3);
            ValueDoc::Braces((0..n).map(|_| gen_value(rng, depth - 1)).collect(), rng.chance(1, 2))
        }
        2 => ValueDoc::Dotted(ident(rng), ident(rng)),
        _ => ValueDoc::Tok(gen_scalar_value(rng)),
    }
}

pub fn gen_anns(rng: &mut Rng) -> Vec<AnnDoc> {
    if rng.chance(3, 4) {
        return Vec::new();
    }
    let n = rng.range(1, 2);
    (0..n)
        .map(|_| {
            let name = format!("@{}", rng.pick(&["nullable", "utf8InCpp", "Ann_1", "JavaOnly", "in", "List"]));
            let params = if rng.chance(1, 2) {
                let k = if rng.chance(1, 4) { rng.range(3, 5) } else { rng.below(3) };
                let mut ps: Vec<(String, Option<String>)> = Vec::new();
                for _ in 0..k {
                    // one key in three repeats an earlier key of the same annotation (with or without a value: the map
                    // keeps what was written last, a valueless repeat included)
                    let key = if !ps.is_empty() && rng.chance(1, 3) { rng.pick(&ps).0.clone() } else { ident(rng) };
                    ps.push((key, if rng.chance(2, 3) { Some(gen_scalar_value(rng)) } else { None }));
                }
                Some((ps, rng.chance(1, 3)))
            } else {
                None
            };
            AnnDoc { name, params }
        })
        .collect()
}

pub fn gen_doc_comment(rng: &mut Rng) -> Option<String> {
    if rng.chance(3, 4) {
        return None;
    }
    if rng.chance(1, 8) {
        // empty documentation: `doc` becomes Some("")
        return Some((*rng.pick(&["/** */\n", "/***/", "/**\n *\n */\n"])).to_owned());
    }
    let n = rng.range(1, 4);
    let mut s = String::from("/**");
    for i in 0..n {
        s.push_str(if i == 0 { " " } else { "\n * " });
        s.push_str(*rng.pick(DOC_WORDS));
        s.push(' ');
        s.push_str(*rng.pick(DOC_WORDS));
    }
    s.push_str(" */\n");
    Some(s)
}

#[derive(Clone, Debug)]
pub struct DocCfg {
    pub max_depth: usize,
    pub max_members: usize,
    pub docs: bool,
    pub anns: bool,
}

impl Default for DocCfg {
    fn default() -> Self {
        DocCfg { max_depth: 3, max_members: 5, docs: true, anns: true }
    }
}

pub fn gen_arg(rng: &mut Rng, cfg: &DocCfg, pool: &TypePool) -> ArgDoc {
    ArgDoc {
        doc: if cfg.docs && rng.chance(1, 3) { gen_doc_comment(rng) } else { None },
        direction: match rng.below(4) {
            0 => None,
            1 => Some("in"),
            2 => Some("out"),
            _ => Some("inout"),
        },
        annotations: if cfg.anns { gen_anns(rng) } else { vec![] },
        ty: gen_ty(rng, cfg.max_depth, pool, true),
        name: if rng.chance(3, 4) { Some(ident(rng)) } else { None },
    }
}

pub fn gen_method(rng: &mut Rng, cfg: &DocCfg, pool: &TypePool) -> MethodDoc {
    // scale: now and then more arguments than any fixed-width mask or small vector holds
    let nargs = if rng.chance(1, 40) { rng.range(30, 70) } else { rng.below(4) };
    MethodDoc {
        doc: if cfg.docs { gen_doc_comment(rng) } else { None },
        annotations: if cfg.anns { gen_anns(rng) } else { vec![] },
        oneway: rng.chance(1, 4),
        ret: if rng.chance(1, 2) { TyDoc::Void } else { gen_ty(rng, cfg.max_depth, pool, true) },
        name: ident(rng),
        args: (0..nargs).map(|_| gen_arg(rng, cfg, pool)).collect(),
        args_trailing_comma: rng.chance(1, 5),
        code: match rng.below(16) {
            0 | 1 => Some(format!("{}", rng.below(4))),
            2 => Some(format!("00{}", rng.below(4))),
            // a leading zero is not an octal prefix, and 8 and 9 are digits
            6 => Some((*rng.pick(&["010", "012", "018", "08", "09", "0017", "10", "12", "8"])).to_owned()),
            // zero-padded beyond the length of u32::MAX: the value still fits
            3 => Some(format!("000000000000{}", rng.below(4))),
            4 => Some((*rng.pick(&["4294967295", "16777214", "16777215", "16777216", "65535", "65536", "2147483647", "2147483648"])).to_owned()),
            // does not fit u32: reported with an Error of its own, the method stays (code absent)
            5 => Some((*rng.pick(&["4294967296", "99999999999", "18446744073709551616"])).to_owned()),
            _ => None,
        },
    }
}

pub fn gen_const(rng: &mut Rng, cfg: &DocCfg, pool: &TypePool) -> ConstDoc {
    ConstDoc {
        doc: if cfg.docs { gen_doc_comment(rng) } else { None },
        annotations: if cfg.anns { gen_anns(rng) } else { vec![] },
        ty: gen_ty(rng, cfg.max_depth.min(2), pool, true),
        name: ident(rng).to_uppercase(),
        value: gen_value(rng, 2),
    }
}

pub fn gen_field(rng: &mut Rng, cfg: &DocCfg, pool: &TypePool) -> FieldDoc {
    FieldDoc {
        doc: if cfg.docs { gen_doc_comment(rng) } else { None },
        annotations: if cfg.anns { gen_anns(rng) } else { vec![] },
        ty: gen_ty(rng, cfg.max_depth, pool, true),
        name: ident(rng),
        value: if rng.chance(1, 3) { Some(gen_value(rng, 2)) } else { None },
    }
}

pub fn gen_enumel(rng: &mut Rng, cfg: &DocCfg) -> EnumElDoc {
    EnumElDoc {
        doc: if cfg.docs { gen_doc_comment(rng) } else { None },
        annotations: if cfg.anns { gen_anns(rng) } else { vec![] },
        name: ident(rng).to_uppercase(),
        value: if rng.chance(1, 2) { Some(gen_scalar_value(rng)) } else { None },
    }
}

pub fn gen_item(rng: &mut Rng, cfg: &DocCfg, pool: &TypePool, kind: ItemKind, name: &str) -> ItemDoc {
    // scale: now and then far more members than usual (thresholds such as 16 / 20 / 32 / 64 entries)
    let n = if cfg.max_members >= 3 && rng.chance(1, 30) { rng.range(18, 70) } else { rng.below(cfg.max_members + 1) };
    let members = (0..n)
        .map(|_| match kind {
            ItemKind::Interface => {
                if rng.chance(1, 5) {
                    MemberDoc::Const(gen_const(rng, cfg, pool))
                } else {
                    MemberDoc::Method(gen_method(rng, cfg, pool))
                }
            }
            ItemKind::Parcelable => {
                if rng.chance(1, 5) {
                    MemberDoc::Const(gen_const(rng, cfg, pool))
                } else {
                    MemberDoc::Field(gen_field(rng, cfg, pool))
                }
            }
            ItemKind::Enum => MemberDoc::EnumEl(gen_enumel(rng, cfg)),
        })
        .collect();
    ItemDoc {
        kind,
        doc: if cfg.docs { gen_doc_comment(rng) } else { None },
        annotations: if cfg.anns { gen_anns(rng) } else { vec![] },
        oneway: kind == ItemKind::Interface && rng.chance(1, 4),
        name: name.to_owned(),
        members,
        enum_trailing_comma: rng.chance(1, 2),
    }
}

/// does some method carry a transact code that does not fit u32? (such a document is not
/// well-formed: the grammar action reports it with an Error)
pub fn has_overflowing_code(d: &Doc) -> bool {
    d.item.members.iter().any(|m| match m {
        MemberDoc::Method(m) => m.code.as_ref().map(|c| c.parse::<u32>().is_err()).unwrap_or(false),
        _ => false,
    })
}

pub fn gen_kind(rng: &mut Rng) -> ItemKind {
    match rng.below(5) {
        0 | 1 => ItemKind::Interface,
        2 | 3 => ItemKind::Parcelable,
        _ => ItemKind::Enum,
    }
}

/// A stand-alone random well-formed document
pub fn gen_document(rng: &mut Rng, cfg: &DocCfg) -> Doc {
    let pool = TypePool::default_pool();
    let pkg: Vec<String> = rng.pick(PACKAGES).iter().map(|s| (*s).to_owned()).collect();
    let nimp = rng.below(4);
    let imports = (0..nimp).map(|_| gen_import(rng, &[])).collect();
    let ndecl = rng.below(3);
    let decls = (0..ndecl).map(|_| gen_decl(rng, cfg)).collect();
    let kind = gen_kind(rng);
    Doc { package: pkg, imports, decls, item: gen_item(rng, cfg, &pool, kind, *rng.clone().pick(ITEM_NAMES)) }
}

pub fn gen_import(rng: &mut Rng, project_keys: &[String]) -> Vec<String> {
    match rng.below(10) {
        0..=4 if !project_keys.is_empty() => split(rng.pick(project_keys).as_str()),
        5 => {
            if rng.chance(1, 3) {
                split(*rng.pick(BUILTIN_NEAR_QUALIFIED))
            } else {
                split(*rng.pick(BUILTIN_QUALIFIED))
            }
        }
        6 => split(*rng.pick(&["z.Nope", "a.b.Missing", "q.Foo", "a.Unknown", "x.IBinder"])),
        // something INSIDE a project item (a nested name): not a key, whatever the project holds
        7 if !project_keys.is_empty() => {
            let mut v = split(rng.pick(project_keys).as_str());
            if rng.chance(1, 3) {
                // `p.Name.Name`: the nested name repeats the last segment (once or twice)
                let last = v[v.len() - 1].clone();
                v.push(last.clone());
                if rng.chance(1, 3) {
                    v.push(last);
                }
            } else {
                v.push((*rng.pick(&["Inner", "Foo", "Stub"])).to_owned());
            }
            v
        }
        _ => {
            let mut v: Vec<String> = rng.pick(PACKAGES).iter().map(|s| (*s).to_owned()).collect();
            v.push((*rng.pick(ITEM_NAMES)).to_owned());
            v
        }
    }
}

pub fn gen_decl(rng: &mut Rng, cfg: &DocCfg) -> DeclDoc {
    let path = match rng.below(6) {
        0 => {
            let mut v: Vec<String> = rng.pick(PACKAGES).iter().map(|s| (*s).to_owned()).collect();
            v.push((*rng.pick(ITEM_NAMES)).to_owned());
            v
        }
        1 => vec![(*rng.pick(BUILTIN_SIMPLE)).to_owned()],
        _ => vec![(*rng.pick(ITEM_NAMES)).to_owned()],
    };
    DeclDoc { annotations: if cfg.anns && rng.chance(1, 6) { gen_anns(rng) } else { vec![] }, path }
}

/// A multi-file project with adversarial naming relations; returns (id, doc)
pub fn gen_project(rng: &mut Rng, cfg: &DocCfg) -> Vec<(String, Doc)> {
    // scale: now and then many files
    let nfiles = if rng.chance(1, 25) { rng.range(12, 40) } else { rng.range(1, 6) };
    // headers first (package, item name, kind), so imports can target them
    let mut headers: Vec<(Vec<String>, String, ItemKind)> = Vec::new();
    for _ in 0..nfiles {
        let pkg: Vec<String> = rng.pick(PACKAGES).iter().map(|s| (*s).to_owned()).collect();
        // sometimes a project item carries the simple name of an Android built-in (in its own package)
        let name = if rng.chance(1, 8) { (*rng.pick(BUILTIN_SIMPLE)).to_owned() } else { (*rng.pick(ITEM_NAMES)).to_owned() };
        if rng.chance(1, 12) {
            // ... or even its full qualified name: the project defines `android.os.IBinder` itself
            // (a key that is both a project item and a built-in, importable like any other)
            let mut q = if rng.chance(1, 3) { split(*rng.pick(BUILTIN_NEAR_QUALIFIED)) } else { split(*rng.pick(BUILTIN_QUALIFIED)) };
            let n = q.pop().unwrap();
            headers.push((q, n, gen_kind(rng)));
            continue;
        }
        headers.push((pkg, name, gen_kind(rng)));
    }
    let keys: Vec<String> = headers.iter().map(|(p, n, _)| format!("{}.{}", p.join("."), n)).collect();
    let pool = TypePool::default_pool();
    let mut out = Vec::new();
    for (i, (pkg, name, kind)) in headers.iter().enumerate() {
        // scale: now and then many imports (most of them used by the members below)
        let nimp = if rng.chance(1, 12) { rng.range(17, 45) } else { rng.below(6) };
        let mut imports: Vec<Vec<String>> = (0..nimp).map(|_| gen_import(rng, &keys)).collect();
        if !imports.is_empty() && rng.chance(1, 4) {
            // duplicate an import
            let d = rng.pick(&imports).clone();
            imports.push(d);
        }
        let ndecl = if rng.chance(1, 2) { 0 } else { rng.range(1, 3) };
        let mut decls: Vec<DeclDoc> = (0..ndecl).map(|_| gen_decl(rng, cfg)).collect();
        if !decls.is_empty() && rng.chance(1, 4) {
            let d = rng.pick(&decls).clone();
            decls.push(d);
        }
        // references: mostly names that relate to this file's imports / declarations
        let mut fpool = TypePool::default();
        // now and then an import is replaced by one whose LAST SEGMENT merely ends with the name that is referenced
        // (`pkg.Legacy_Config`, `pkg.A9Config`, `pkg.__Config` for `Config`): never a match, whatever precedes the name
        if !imports.is_empty() && rng.chance(1, 6) {
            let k = rng.below(imports.len());
            let n = imports[k].len();
            let last = imports[k][n - 1].clone();
            imports[k][n - 1] = format!("{}{}", *rng.pick(&["Legacy_", "A9", "__", "x_", "My1_"]), last);
            fpool.customs.push(vec![last.clone()]);
            fpool.customs.push(vec![last.clone()]);
            let mut q = imports[k][..n - 1].to_vec();
            q.push(last);
            fpool.customs.push(q);
        }
        for imp in &imports {
            for k in 0..imp.len() {
                fpool.customs.push(imp[k..].to_vec());
            }
            fpool.customs.push(vec![imp[imp.len() - 1].clone()]);
            // near misses: prefixed simple name, other package
            fpool.customs.push(vec![format!("X{}", imp[imp.len() - 1])]);
            // longer than the import: the whole import path is a proper suffix of the reference
            // (`com.pkg.Foo` for `import pkg.Foo`): never a match
            let mut longer = vec![(*rng.pick(&["com", "x", "a"])).to_string()];
            longer.extend(imp.iter().cloned());
            fpool.customs.push(longer);
            // suffixes of the dotted import that do not start at a '.' boundary (`pkg.Foo` for
            // `a.xpkg.Foo`, `oo` for `a.Foo`): they must never match
            let joined = imp.join(".");
            let chars: Vec<char> = joined.chars().collect();
            for _ in 0..2 {
                let i = rng.range(1, chars.len() - 1);
                if chars[i - 1] != '.' && (chars[i].is_ascii_alphabetic() || chars[i] == '_') {
                    let suffix: String = chars[i..].iter().collect();
                    fpool.customs.push(split(&suffix));
                }
            }
        }
        for d in &decls {
            fpool.customs.push(d.path.clone());
            fpool.customs.push(vec![d.path[d.path.len() - 1].clone()]);
            if rng.chance(1, 2) {
                let mut longer = vec![(*rng.pick(&["com", "x", "a"])).to_string()];
                longer.extend(d.path.iter().cloned());
                fpool.customs.push(longer);
            }
        }
        // fully qualified references to items of the project, whether imported or not
        for k in &keys {
            fpool.customs.push(split(k));
        }
        for _ in 0..(fpool.customs.len() / 2 + 3) {
            fpool.customs.push(rng.pick(&pool.customs).clone());
        }
        // many imports come with many members, so that most imports are referenced, some of them repeatedly
        let big_cfg = DocCfg { max_depth: cfg.max_depth, max_members: 60, docs: cfg.docs, anns: cfg.anns };
        let item_cfg = if nimp >= 17 { &big_cfg } else { cfg };
        let doc = Doc { package: pkg.clone(), imports, decls, item: gen_item(rng, item_cfg, &fpool, *kind, name) };
        out.push((format!("f{}", i), doc));
    }
    out
}
