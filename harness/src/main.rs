//! Correspondence harness: generates cases, runs the real library in-process (feature
//! `verif-hooks`), and writes one JSON line per case for the Lean model driver.
mod doc;
mod dump;
mod gen;
mod json;
mod rng;
mod serde_rec;
mod sexpr;
mod store_ops;
mod suites;
mod walk;

use std::io::Write;

fn main() {
    let args: Vec<String> = std::env::args().collect();
    if args.len() < 2 {
        eprintln!("usage: harness gen <suite> <quick|thorough> <seed> <out.jsonl> | replay <file.jsonl>");
        std::process::exit(2);
    }
    // panics of the library are caught per case; keep the default hook quiet
    std::panic::set_hook(Box::new(|_| {}));
    match args[1].as_str() {
        "gen" => {
            let suite = &args[2];
            let thorough = args[3] == "thorough";
            let seed: u64 = args[4].parse().expect("seed");
            let out = &args[5];
            let shard: usize = args.get(6).map(|s| s.parse().expect("shard")).unwrap_or(0);
            let nshards: usize = args.get(7).map(|s| s.parse().expect("nshards")).unwrap_or(1);
            *suites::CURRENT.lock().unwrap() = Some(format!("{}.current", out));
            let mut f = std::io::BufWriter::new(std::fs::File::create(out).expect("create out"));
            let mut n = 0usize;
            suites::run(suite, thorough, seed, shard, nshards, &mut |line: String| {
                f.write_all(line.as_bytes()).unwrap();
                f.write_all(b"\n").unwrap();
                n += 1;
            });
            f.flush().unwrap();
            let _ = std::fs::remove_file(format!("{}.current", out));
            eprintln!("harness: suite={} cases={}", suite, n);
        }
        "rerun" => {
            // re-run the implementation on the inputs of a replay file (one case per line)
            let text = std::fs::read_to_string(&args[2]).expect("read replay");
            let mut out = std::io::stdout();
            for line in text.lines() {
                if let Some(l) = suites::rerun(line) {
                    out.write_all(l.as_bytes()).unwrap();
                    out.write_all(b"\n").unwrap();
                }
            }
        }
        _ => {
            eprintln!("unknown command");
            std::process::exit(2);
        }
    }
}
