//! Minimal JSON value + writer (serde_json cannot be resolved offline against the repo's lock).
use std::fmt::Write;

#[derive(Clone, Debug, PartialEq)]
pub enum Json {
    Null,
    Bool(bool),
    Num(u64),
    Str(String),
    Arr(Vec<Json>),
    Obj(Vec<(String, Json)>),
}

impl Json {
    pub fn s<S: Into<String>>(s: S) -> Json {
        Json::Str(s.into())
    }
    pub fn n(n: usize) -> Json {
        Json::Num(n as u64)
    }
    pub fn opt_s(s: &Option<String>) -> Json {
        match s {
            Some(s) => Json::Str(s.clone()),
            None => Json::Null,
        }
    }
    pub fn obj(v: Vec<(&str, Json)>) -> Json {
        Json::Obj(v.into_iter().map(|(k, v)| (k.to_owned(), v)).collect())
    }
    pub fn write(&self, out: &mut String) {
        match self {
            Json::Null => out.push_str("null"),
            Json::Bool(b) => out.push_str(if *b { "true" } else { "false" }),
            Json::Num(n) => {
                let _ = write!(out, "{}", n);
            }
            Json::Str(s) => write_str(s, out),
            Json::Arr(v) => {
                out.push('[');
                for (i, x) in v.iter().enumerate() {
                    if i > 0 {
                        out.push(',');
                    }
                    x.write(out);
                }
                out.push(']');
            }
            Json::Obj(v) => {
                out.push('{');
                for (i, (k, x)) in v.iter().enumerate() {
                    if i > 0 {
                        out.push(',');
                    }
                    write_str(k, out);
                    out.push(':');
                    x.write(out);
                }
                out.push('}');
            }
        }
    }
    pub fn to_string(&self) -> String {
        let mut s = String::new();
        self.write(&mut s);
        s
    }
}

fn write_str(s: &str, out: &mut String) {
    out.push('"');
    for c in s.chars() {
        match c {
            '"' => out.push_str("\\\""),
            '\\' => out.push_str("\\\\"),
            '\n' => out.push_str("\\n"),
            '\r' => out.push_str("\\r"),
            '\t' => out.push_str("\\t"),
            c if (c as u32) < 0x20 => {
                let _ = write!(out, "\\u{:04x}", c as u32);
            }
            c => out.push(c),
        }
    }
    out.push('"');
}

// ---------------------------------------------------------------------------------------------
// Minimal parser (for replay files)
// ---------------------------------------------------------------------------------------------

pub fn parse(s: &str) -> Result<Json, String> {
    let b: Vec<char> = s.chars().collect();
    let mut p = 0usize;
    let v = parse_value(&b, &mut p)?;
    skip_ws(&b, &mut p);
    if p != b.len() {
        return Err(format!("trailing characters at {}", p));
    }
    Ok(v)
}

fn skip_ws(b: &[char], p: &mut usize) {
    while *p < b.len() && (b[*p] == ' ' || b[*p] == '\n' || b[*p] == '\r' || b[*p] == '\t') {
        *p += 1;
    }
}

fn parse_value(b: &[char], p: &mut usize) -> Result<Json, String> {
    skip_ws(b, p);
    if *p >= b.len() {
        return Err("eof".into());
    }
    match b[*p] {
        'n' => {
            *p += 4;
            Ok(Json::Null)
        }
        't' => {
            *p += 4;
            Ok(Json::Bool(true))
        }
        'f' => {
            *p += 5;
            Ok(Json::Bool(false))
        }
        '"' => Ok(Json::Str(parse_string(b, p)?)),
        '[' => {
            *p += 1;
            let mut v = Vec::new();
            skip_ws(b, p);
            if b[*p] == ']' {
                *p += 1;
                return Ok(Json::Arr(v));
            }
            loop {
                v.push(parse_value(b, p)?);
                skip_ws(b, p);
                match b.get(*p) {
                    Some(',') => *p += 1,
                    Some(']') => {
                        *p += 1;
                        return Ok(Json::Arr(v));
                    }
                    _ => return Err(format!("expected , or ] at {}", p)),
                }
            }
        }
        '{' => {
            *p += 1;
            let mut v = Vec::new();
            skip_ws(b, p);
            if b[*p] == '}' {
                *p += 1;
                return Ok(Json::Obj(v));
            }
            loop {
                skip_ws(b, p);
                let k = parse_string(b, p)?;
                skip_ws(b, p);
                if b.get(*p) != Some(&':') {
                    return Err(format!("expected : at {}", p));
                }
                *p += 1;
                let x = parse_value(b, p)?;
                v.push((k, x));
                skip_ws(b, p);
                match b.get(*p) {
                    Some(',') => *p += 1,
                    Some('}') => {
                        *p += 1;
                        return Ok(Json::Obj(v));
                    }
                    _ => return Err(format!("expected , or }} at {}", p)),
                }
            }
        }
        c if c.is_ascii_digit() => {
            let mut n: u64 = 0;
            while *p < b.len() && b[*p].is_ascii_digit() {
                n = n * 10 + (b[*p] as u64 - '0' as u64);
                *p += 1;
            }
            Ok(Json::Num(n))
        }
        c => Err(format!("unexpected {:?} at {}", c, p)),
    }
}

fn parse_string(b: &[char], p: &mut usize) -> Result<String, String> {
    if b.get(*p) != Some(&'"') {
        return Err(format!("expected string at {}", p));
    }
    *p += 1;
    let mut s = String::new();
    while *p < b.len() {
        let c = b[*p];
        *p += 1;
        match c {
            '"' => return Ok(s),
            '\\' => {
                let e = b[*p];
                *p += 1;
                match e {
                    'n' => s.push('\n'),
                    'r' => s.push('\r'),
                    't' => s.push('\t'),
                    'b' => s.push('\u{8}'),
                    'f' => s.push('\u{c}'),
                    '/' => s.push('/'),
                    '\\' => s.push('\\'),
                    '"' => s.push('"'),
                    'u' => {
                        let hex: String = b[*p..*p + 4].iter().collect();
                        *p += 4;
                        let mut cp = u32::from_str_radix(&hex, 16).map_err(|e| e.to_string())?;
                        if (0xD800..0xDC00).contains(&cp) && b.get(*p) == Some(&'\\') && b.get(*p + 1) == Some(&'u') {
                            let hex2: String = b[*p + 2..*p + 6].iter().collect();
                            let lo = u32::from_str_radix(&hex2, 16).map_err(|e| e.to_string())?;
                            *p += 6;
                            cp = 0x10000 + ((cp - 0xD800) << 10) + (lo - 0xDC00);
                        }
                        s.push(char::from_u32(cp).unwrap_or('\u{FFFD}'));
                    }
                    _ => return Err("bad escape".into()),
                }
            }
            c => s.push(c),
        }
    }
    Err("unterminated string".into())
}

impl Json {
    pub fn get(&self, k: &str) -> Option<&Json> {
        match self {
            Json::Obj(v) => v.iter().find(|(kk, _)| kk == k).map(|(_, x)| x),
            _ => None,
        }
    }
    pub fn as_str(&self) -> Option<&str> {
        match self {
            Json::Str(s) => Some(s),
            _ => None,
        }
    }
    pub fn as_arr(&self) -> Option<&Vec<Json>> {
        match self {
            Json::Arr(v) => Some(v),
            _ => None,
        }
    }
    pub fn as_num(&self) -> Option<u64> {
        match self {
            Json::Num(n) => Some(*n),
            _ => None,
        }
    }
}
