//! SplitMix64: the single source of randomness; every case derives its own sub-seed.
#[derive(Clone, Debug)]
pub struct Rng(pub u64);

impl Rng {
    pub fn new(seed: u64) -> Rng {
        Rng(seed ^ 0x9E37_79B9_7F4A_7C15)
    }
    pub fn next(&mut self) -> u64 {
        self.0 = self.0.wrapping_add(0x9E37_79B9_7F4A_7C15);
        let mut z = self.0;
        z = (z ^ (z >> 30)).wrapping_mul(0xBF58_476D_1CE4_E5B9);
        z = (z ^ (z >> 27)).wrapping_mul(0x94D0_49BB_1331_11EB);
        z ^ (z >> 31)
    }
    /// uniform in 0..n (n > 0)
    pub fn below(&mut self, n: usize) -> usize {
        (self.next() % (n as u64)) as usize
    }
    pub fn range(&mut self, lo: usize, hi_incl: usize) -> usize {
        lo + self.below(hi_incl - lo + 1)
    }
    /// true with probability num/den
    pub fn chance(&mut self, num: usize, den: usize) -> bool {
        self.below(den) < num
    }
    pub fn pick<'a, T>(&mut self, v: &'a [T]) -> &'a T {
        &v[self.below(v.len())]
    }
    pub fn fork(&mut self) -> Rng {
        Rng::new(self.next())
    }
    pub fn shuffle<T>(&mut self, v: &mut [T]) {
        for i in (1..v.len()).rev() {
            let j = self.below(i + 1);
            v.swap(i, j);
        }
    }
}
