//! Position-erased S-expression of a real tree (same shape as `doc::sx_doc`).
use aidl_parser::ast::*;

pub fn kind_str(k: &TypeKind) -> String {
    match k {
        TypeKind::Primitive => "primitive".into(),
        TypeKind::Void => "void".into(),
        TypeKind::Array => "array".into(),
        TypeKind::Map => "map".into(),
        TypeKind::List => "list".into(),
        TypeKind::String => "string".into(),
        TypeKind::CharSequence => "char_sequence".into(),
        TypeKind::AndroidType(a) => format!("android:{}", a.get_name()),
        TypeKind::ResolvedItem(k, r) => format!("resolved:{}:{}", k, crate::dump::rkind(r)),
        TypeKind::Unresolved => "unresolved".into(),
    }
}

pub fn sx_ty(t: &Type) -> String {
    let mut s = format!("(ty {} {}", t.name, kind_str(&t.kind));
    for g in &t.generic_types {
        s.push(' ');
        s.push_str(&sx_ty(g));
    }
    s.push(')');
    s
}

pub fn sx_anns(v: &[Annotation]) -> String {
    let mut s = String::from("(anns");
    for a in v {
        s.push_str(&format!(" ({}", a.name));
        let mut kv: Vec<_> = a.key_values.iter().collect();
        kv.sort();
        for (k, v) in kv {
            match v {
                Some(v) => s.push_str(&format!(" {}={}", k, v)),
                None => s.push_str(&format!(" {}", k)),
            }
        }
        s.push(')');
    }
    s.push(')');
    s
}

fn dir_str(d: &Direction) -> &'static str {
    match d {
        Direction::In(_) => "in",
        Direction::Out(_) => "out",
        Direction::InOut(_) => "inout",
        Direction::Unspecified => "-",
    }
}

pub fn sx_method(m: &Method) -> String {
    let mut s = format!("(method {} oneway={} {} {} (args", m.name, m.oneway, sx_anns(&m.annotations), sx_ty(&m.return_type));
    for a in &m.args {
        s.push_str(&format!(
            " (arg {} {} {} {})",
            dir_str(&a.direction),
            a.name.clone().unwrap_or_else(|| "-".into()),
            sx_anns(&a.annotations),
            sx_ty(&a.arg_type)
        ));
    }
    s.push_str(&format!(") code={})", m.transact_code.map(|c| c.to_string()).unwrap_or_else(|| "-".into())));
    s
}

pub fn sx_const(c: &Const) -> String {
    format!("(const {} {} {} value={})", c.name, sx_anns(&c.annotations), sx_ty(&c.const_type), c.value)
}

pub fn sx_field(f: &Field) -> String {
    format!("(field {} {} {} value={})", f.name, sx_anns(&f.annotations), sx_ty(&f.field_type), f.value.clone().unwrap_or_else(|| "-".into()))
}

pub fn sx_enumel(e: &EnumElement) -> String {
    format!("(enumel {} value={})", e.name, e.value.clone().unwrap_or_else(|| "-".into()))
}

pub fn members(a: &Aidl) -> Vec<String> {
    match &a.item {
        Item::Interface(i) => i
            .elements
            .iter()
            .map(|e| match e {
                InterfaceElement::Method(m) => sx_method(m),
                InterfaceElement::Const(c) => sx_const(c),
            })
            .collect(),
        Item::Parcelable(p) => p
            .elements
            .iter()
            .map(|e| match e {
                ParcelableElement::Field(f) => sx_field(f),
                ParcelableElement::Const(c) => sx_const(c),
            })
            .collect(),
        Item::Enum(e) => e.elements.iter().map(sx_enumel).collect(),
    }
}

pub fn sx_aidl(a: &Aidl) -> String {
    let mut s = format!("(aidl (package {})", a.package.name);
    for i in &a.imports {
        s.push_str(&format!(" (import path={} name={})", i.path, i.name));
    }
    for i in &a.declared_parcelables {
        s.push_str(&format!(" (decl path={} name={})", i.path, i.name));
    }
    let (kind, name, oneway, anns) = match &a.item {
        Item::Interface(i) => ("interface", &i.name, i.oneway, &i.annotations),
        Item::Parcelable(p) => ("parcelable", &p.name, false, &p.annotations),
        Item::Enum(e) => ("enum", &e.name, false, &e.annotations),
    };
    s.push_str(&format!(" ({} {} oneway={} {}", kind, name, oneway, sx_anns(anns)));
    for m in members(a) {
        s.push(' ');
        s.push_str(&m);
    }
    s.push_str("))");
    s
}
