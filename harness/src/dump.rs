//! The harness's own printer of trees and diagnostics (public fields only; no serde).
use crate::json::Json;
use aidl_parser::ast::*;
use aidl_parser::diagnostic::{Diagnostic, DiagnosticKind};
use aidl_parser::ParseFileResult;

pub fn range(r: &Range) -> Json {
    Json::Arr(vec![
        Json::n(r.start.offset),
        Json::n(r.start.line_col.0),
        Json::n(r.start.line_col.1),
        Json::n(r.end.offset),
        Json::n(r.end.line_col.0),
        Json::n(r.end.line_col.1),
    ])
}

pub fn rkind(k: &ResolvedItemKind) -> &'static str {
    match k {
        ResolvedItemKind::Interface => "interface",
        ResolvedItemKind::Parcelable => "parcelable",
        ResolvedItemKind::Enum => "enum",
        ResolvedItemKind::ForwardDeclaredParcelable => "fwd",
        ResolvedItemKind::UnknownImport => "unknown_import",
    }
}

pub fn type_kind(k: &TypeKind) -> Json {
    let v = match k {
        TypeKind::Primitive => vec![Json::s("primitive")],
        TypeKind::Void => vec![Json::s("void")],
        TypeKind::Array => vec![Json::s("array")],
        TypeKind::Map => vec![Json::s("map")],
        TypeKind::List => vec![Json::s("list")],
        TypeKind::String => vec![Json::s("string")],
        TypeKind::CharSequence => vec![Json::s("char_sequence")],
        TypeKind::Unresolved => vec![Json::s("unresolved")],
        TypeKind::AndroidType(a) => vec![Json::s("android"), Json::s(a.get_name())],
        TypeKind::ResolvedItem(key, rk) => vec![Json::s("resolved"), Json::s(key.clone()), Json::s(rkind(rk))],
    };
    Json::Arr(v)
}

pub fn ty(t: &Type) -> Json {
    Json::obj(vec![
        ("n", Json::s(t.name.clone())),
        ("k", type_kind(&t.kind)),
        ("g", Json::Arr(t.generic_types.iter().map(ty).collect())),
        ("s", range(&t.symbol_range)),
        ("f", range(&t.full_range)),
    ])
}

pub fn annotations(v: &[Annotation]) -> Json {
    Json::Arr(
        v.iter()
            .map(|a| {
                let mut kv: Vec<(&String, &Option<String>)> = a.key_values.iter().collect();
                kv.sort();
                Json::obj(vec![
                    ("n", Json::s(a.name.clone())),
                    (
                        "kv",
                        Json::Arr(
                            kv.into_iter()
                                .map(|(k, v)| Json::Arr(vec![Json::s(k.clone()), Json::opt_s(v)]))
                                .collect(),
                        ),
                    ),
                ])
            })
            .collect(),
    )
}

pub fn direction(d: &Direction) -> Json {
    match d {
        Direction::In(r) => Json::Arr(vec![Json::s("in"), range(r)]),
        Direction::Out(r) => Json::Arr(vec![Json::s("out"), range(r)]),
        Direction::InOut(r) => Json::Arr(vec![Json::s("inout"), range(r)]),
        Direction::Unspecified => Json::Arr(vec![Json::s("unspecified")]),
    }
}

pub fn arg(a: &Arg) -> Json {
    Json::obj(vec![
        ("dir", direction(&a.direction)),
        ("name", Json::opt_s(&a.name)),
        ("ty", ty(&a.arg_type)),
        ("ann", annotations(&a.annotations)),
        ("doc", Json::opt_s(&a.doc)),
        ("s", range(&a.symbol_range)),
        ("f", range(&a.full_range)),
    ])
}

pub fn method(m: &Method) -> Json {
    Json::obj(vec![
        ("oneway", Json::Bool(m.oneway)),
        ("name", Json::s(m.name.clone())),
        ("ret", ty(&m.return_type)),
        ("args", Json::Arr(m.args.iter().map(arg).collect())),
        ("ann", annotations(&m.annotations)),
        ("code", m.transact_code.map(|c| Json::Num(c as u64)).unwrap_or(Json::Null)),
        ("doc", Json::opt_s(&m.doc)),
        ("s", range(&m.symbol_range)),
        ("f", range(&m.full_range)),
        ("cr", range(&m.transact_code_range)),
        ("or", range(&m.oneway_range)),
    ])
}

pub fn const_(c: &Const) -> Json {
    Json::obj(vec![
        ("name", Json::s(c.name.clone())),
        ("ty", ty(&c.const_type)),
        ("value", Json::s(c.value.clone())),
        ("ann", annotations(&c.annotations)),
        ("doc", Json::opt_s(&c.doc)),
        ("s", range(&c.symbol_range)),
        ("f", range(&c.full_range)),
    ])
}

pub fn field(f: &Field) -> Json {
    Json::obj(vec![
        ("name", Json::s(f.name.clone())),
        ("ty", ty(&f.field_type)),
        ("value", Json::opt_s(&f.value)),
        ("ann", annotations(&f.annotations)),
        ("doc", Json::opt_s(&f.doc)),
        ("s", range(&f.symbol_range)),
        ("f", range(&f.full_range)),
    ])
}

pub fn enum_element(e: &EnumElement) -> Json {
    Json::obj(vec![
        ("name", Json::s(e.name.clone())),
        ("value", Json::opt_s(&e.value)),
        ("doc", Json::opt_s(&e.doc)),
        ("s", range(&e.symbol_range)),
        ("f", range(&e.full_range)),
    ])
}

pub fn item(i: &Item) -> Json {
    match i {
        Item::Interface(i) => Json::Arr(vec![
            Json::s("interface"),
            Json::obj(vec![
                ("oneway", Json::Bool(i.oneway)),
                ("name", Json::s(i.name.clone())),
                (
                    "els",
                    Json::Arr(
                        i.elements
                            .iter()
                            .map(|el| match el {
                                InterfaceElement::Method(m) => Json::Arr(vec![Json::s("method"), method(m)]),
                                InterfaceElement::Const(c) => Json::Arr(vec![Json::s("const"), const_(c)]),
                            })
                            .collect(),
                    ),
                ),
                ("ann", annotations(&i.annotations)),
                ("doc", Json::opt_s(&i.doc)),
                ("f", range(&i.full_range)),
                ("s", range(&i.symbol_range)),
            ]),
        ]),
        Item::Parcelable(p) => Json::Arr(vec![
            Json::s("parcelable"),
            Json::obj(vec![
                ("name", Json::s(p.name.clone())),
                (
                    "els",
                    Json::Arr(
                        p.elements
                            .iter()
                            .map(|el| match el {
                                ParcelableElement::Field(f) => Json::Arr(vec![Json::s("field"), field(f)]),
                                ParcelableElement::Const(c) => Json::Arr(vec![Json::s("const"), const_(c)]),
                            })
                            .collect(),
                    ),
                ),
                ("ann", annotations(&p.annotations)),
                ("doc", Json::opt_s(&p.doc)),
                ("f", range(&p.full_range)),
                ("s", range(&p.symbol_range)),
            ]),
        ]),
        Item::Enum(e) => Json::Arr(vec![
            Json::s("enum"),
            Json::obj(vec![
                ("name", Json::s(e.name.clone())),
                ("els", Json::Arr(e.elements.iter().map(enum_element).collect())),
                ("ann", annotations(&e.annotations)),
                ("doc", Json::opt_s(&e.doc)),
                ("f", range(&e.full_range)),
                ("s", range(&e.symbol_range)),
            ]),
        ]),
    }
}

pub fn import(i: &Import) -> Json {
    Json::obj(vec![
        ("path", Json::s(i.path.clone())),
        ("name", Json::s(i.name.clone())),
        ("s", range(&i.symbol_range)),
        ("f", range(&i.full_range)),
    ])
}

pub fn aidl(a: &Aidl) -> Json {
    Json::obj(vec![
        (
            "pkg",
            Json::obj(vec![
                ("name", Json::s(a.package.name.clone())),
                ("s", range(&a.package.symbol_range)),
                ("f", range(&a.package.full_range)),
            ]),
        ),
        ("imports", Json::Arr(a.imports.iter().map(import).collect())),
        ("decls", Json::Arr(a.declared_parcelables.iter().map(import).collect())),
        ("item", item(&a.item)),
    ])
}

pub fn diag(d: &Diagnostic) -> Json {
    Json::obj(vec![
        (
            "kind",
            Json::s(match d.kind {
                DiagnosticKind::Error => "E",
                DiagnosticKind::Warning => "W",
            }),
        ),
        ("r", range(&d.range)),
        ("msg", Json::s(d.message.clone())),
        ("ctx", Json::opt_s(&d.context_message)),
        ("hint", Json::opt_s(&d.hint)),
        (
            "rel",
            Json::Arr(
                d.related_infos
                    .iter()
                    .map(|r| Json::Arr(vec![range(&r.range), Json::s(r.message.clone())]))
                    .collect(),
            ),
        ),
    ])
}

pub fn file_result(fr: &ParseFileResult<String>) -> Json {
    Json::obj(vec![
        ("id", Json::s(fr.id.clone())),
        ("ast", fr.ast.as_ref().map(aidl).unwrap_or(Json::Null)),
        ("diags", Json::Arr(fr.diagnostics.iter().map(diag).collect())),
    ])
}

/// results of a map, sorted by id
pub fn results(m: &std::collections::HashMap<String, ParseFileResult<String>>) -> Json {
    let mut v: Vec<&ParseFileResult<String>> = m.values().collect();
    v.sort_by(|a, b| a.id.cmp(&b.id));
    Json::Arr(v.into_iter().map(file_result).collect())
}
