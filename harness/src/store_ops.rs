//! Ops for C11 (determinism), C12 (history independence), C13 (locality).
use crate::dump;
use crate::json::Json;
use crate::rng::Rng;
use crate::suites::{files_json, mark_current, panic_msg, Files};
use aidl_parser::{ParseFileResult, Parser};
use std::collections::HashMap;
use std::panic::{catch_unwind, AssertUnwindSafe};
use std::path::PathBuf;

fn validate_sorted(files: &Files) -> (Json, Json) {
    let mut p: Parser<String> = Parser::new();
    for (id, text) in files {
        p.add_content(id.clone(), text);
    }
    let stage1 = dump::results(p.verif_parse_results());
    (stage1, dump::results(&p.validate()))
}

/// C11: the same set of (id, content) pairs validated repeatedly, by fresh parsers with shuffled
/// insertion orders, and on another thread. Every std HashMap/HashSet instance has a fresh seed.
pub fn determinism_case(files: &Files, rng: &mut Rng) -> Vec<(&'static str, Json)> {
    mark_current("determinism", vec![("files", files_json(files))]);
    let r = catch_unwind(AssertUnwindSafe(|| {
        let (stage1, first) = validate_sorted(files);
        let mut runs = 1usize;
        let mut differing: Option<(String, Json)> = None;
        // repeated calls on one parser
        let mut p: Parser<String> = Parser::new();
        for (id, text) in files {
            p.add_content(id.clone(), text);
        }
        for _ in 0..3 {
            let o = dump::results(&p.validate());
            runs += 1;
            if o != first && differing.is_none() {
                differing = Some(("repeated call".to_owned(), o));
            }
        }
        // fresh parsers, shuffled insertion orders
        for _ in 0..5 {
            let mut fs = files.clone();
            rng.shuffle(&mut fs);
            let (_, o) = validate_sorted(&fs);
            runs += 1;
            if o != first && differing.is_none() {
                differing = Some(("shuffled insertion".to_owned(), o));
            }
        }
        // the same contents reached through a history of additions, replacements, removals and calls
        // (the later content of an id wins; `through_history` ends by adding every file in order)
        for k in 0..2u64 {
            let (_, o, ops) = crate::suites::through_history(files, rng.next() ^ k);
            runs += 1;
            if o != first && differing.is_none() {
                differing = Some((format!("history {}", ops.to_string()), o));
            }
        }
        // another thread (new base key for the hash seeds)
        let fs = files.clone();
        let o = std::thread::spawn(move || validate_sorted(&fs).1).join().unwrap();
        runs += 1;
        if o != first && differing.is_none() {
            differing = Some(("other thread".to_owned(), o));
        }
        Json::obj(vec![
            ("outcome", Json::s("ok")),
            ("stage1", stage1),
            ("out", first),
            ("runs", Json::n(runs)),
            (
                "differing",
                match differing {
                    Some((how, o)) => Json::obj(vec![("how", Json::s(how)), ("out", o)]),
                    None => Json::Null,
                },
            ),
        ])
    }));
    let imp = match r {
        Ok(j) => j,
        Err(e) => Json::obj(vec![("outcome", Json::s("panic")), ("msg", Json::s(panic_msg(e)))]),
    };
    vec![("op", Json::s("determinism")), ("files", files_json(files)), ("impl", imp)]
}

#[derive(Clone, Debug)]
pub enum HOp {
    Add(String, String),
    Remove(String),
    Validate,
    /// path (relative name) and what the file system holds: Some(bytes) or None (missing)
    AddFile(String, Option<Vec<u8>>),
}

pub fn path_results(m: &HashMap<PathBuf, ParseFileResult<PathBuf>>) -> Json {
    let mut v: Vec<(&PathBuf, &ParseFileResult<PathBuf>)> = m.iter().collect();
    v.sort_by(|a, b| a.0.cmp(b.0));
    Json::Arr(
        v.into_iter()
            .map(|(k, fr)| {
                Json::obj(vec![
                    ("key", Json::s(k.to_string_lossy().to_string())),
                    ("id", Json::s(fr.id.to_string_lossy().to_string())),
                    ("ast", fr.ast.as_ref().map(dump::aidl).unwrap_or(Json::Null)),
                    ("diags", Json::Arr(fr.diagnostics.iter().map(dump::diag).collect())),
                ])
            })
            .collect(),
    )
}

/// C12: run a history on one parser; after every step compare `validate()` with a fresh parser
/// built from the abstract id -> latest content map.
fn history_ops_json(ops: &[HOp], dir: &std::path::Path) -> Json {
    Json::Arr(
        ops.iter()
            .map(|op| match op {
                HOp::Add(id, c) => Json::Arr(vec![Json::s("add"), Json::s(id.clone()), Json::s(c.clone())]),
                HOp::Remove(id) => Json::Arr(vec![Json::s("remove"), Json::s(id.clone())]),
                HOp::Validate => Json::Arr(vec![Json::s("validate")]),
                HOp::AddFile(name, bytes) => Json::Arr(vec![
                    Json::s("add_file"),
                    Json::s(dir.join(name).to_string_lossy().to_string()),
                    match bytes {
                        None => Json::s("missing"),
                        Some(b) => match String::from_utf8(b.clone()) {
                            Ok(s) => Json::Arr(vec![Json::s("text"), Json::s(s)]),
                            Err(_) => Json::s("invalid_utf8"),
                        },
                    },
                ]),
            })
            .collect(),
    )
}

pub fn history_case(ops: &[HOp], dir: &std::path::Path) -> Vec<(&'static str, Json)> {
    mark_current("history", vec![("ops", history_ops_json(ops, dir))]);
    let r = catch_unwind(AssertUnwindSafe(|| {
        let mut p: Parser<PathBuf> = Parser::new();
        let mut abs: Vec<(String, String)> = Vec::new(); // id -> latest content (ids unique)
        let mut steps: Vec<Json> = Vec::new();
        let mut contents: Vec<String> = Vec::new();
        let set = |abs: &mut Vec<(String, String)>, id: &str, c: &str| {
            if let Some(e) = abs.iter_mut().find(|e| e.0 == id) {
                e.1 = c.to_owned();
            } else {
                abs.push((id.to_owned(), c.to_owned()));
            }
        };
        let mut first_bad: Option<(usize, Json, Json)> = None;
        for (i, op) in ops.iter().enumerate() {
            let mut io_result = Json::Null;
            match op {
                HOp::Add(id, c) => {
                    p.add_content(PathBuf::from(id), c);
                    set(&mut abs, id, c);
                    contents.push(c.clone());
                }
                HOp::Remove(id) => {
                    p.remove_content(PathBuf::from(id));
                    abs.retain(|e| e.0 != *id);
                }
                HOp::Validate => {
                    let _ = p.validate();
                }
                HOp::AddFile(name, bytes) => {
                    let path = dir.join(name);
                    let _ = std::fs::remove_file(&path);
                    if let Some(b) = bytes {
                        std::fs::write(&path, b).unwrap();
                    }
                    let id = path.to_string_lossy().to_string();
                    match p.add_file(&path) {
                        Ok(()) => {
                            let text = String::from_utf8(bytes.clone().unwrap_or_default()).unwrap_or_default();
                            set(&mut abs, &id, &text);
                            contents.push(text);
                            io_result = Json::s("ok");
                        }
                        Err(_) => io_result = Json::s("err"),
                    }
                }
            }
            // C01: exactly one result per id currently in the parser, each tagged with its own id
            let validated = p.validate();
            let mut ids_ok = validated.len() == abs.len();
            for (id, _) in abs.iter() {
                match validated.get(&PathBuf::from(id)) {
                    Some(fr) => {
                        if fr.id != PathBuf::from(id) {
                            ids_ok = false;
                        }
                    }
                    None => ids_ok = false,
                }
            }
            // compare with a fresh parser holding only the surviving pairs
            let got = path_results(&validated);
            let mut fresh: Parser<PathBuf> = Parser::new();
            for (id, c) in abs.iter().rev() {
                fresh.add_content(PathBuf::from(id), c);
            }
            let want = path_results(&fresh.validate());
            let same = got == want;
            if !same && first_bad.is_none() {
                first_bad = Some((i, got.clone(), want));
            }
            steps.push(Json::obj(vec![
                ("same_as_fresh", Json::Bool(same)),
                ("ids_ok", Json::Bool(ids_ok)),
                ("io", io_result),
            ]));
        }
        // syntax stage of every distinct content ever added (the model's `parse` table)
        contents.sort();
        contents.dedup();
        let table: Vec<Json> = contents
            .iter()
            .map(|c| {
                let mut q: Parser<String> = Parser::new();
                q.add_content("x".to_owned(), c);
                let fr = &q.verif_parse_results()["x"];
                Json::obj(vec![("content", Json::s(c.clone())), ("result", dump::file_result(fr))])
            })
            .collect();
        Json::obj(vec![
            ("outcome", Json::s("ok")),
            ("steps", Json::Arr(steps)),
            ("final", path_results(&p.validate())),
            ("parse_table", Json::Arr(table)),
            (
                "first_bad",
                match first_bad {
                    Some((i, got, want)) => Json::obj(vec![("step", Json::n(i)), ("got", got), ("want", want)]),
                    None => Json::Null,
                },
            ),
        ])
    }));
    let imp = match r {
        Ok(j) => j,
        Err(e) => Json::obj(vec![("outcome", Json::s("panic")), ("msg", Json::s(panic_msg(e)))]),
    };
    let ops_json = history_ops_json(ops, dir);
    vec![("op", Json::s("history")), ("ops", ops_json), ("impl", imp)]
}

/// C13: the same target file validated inside two projects
pub fn perturb_case(files1: &Files, files2: &Files, target: &str, how: &str) -> Vec<(&'static str, Json)> {
    mark_current("perturb", vec![("files", files_json(files1)), ("files_b", files_json(files2))]);
    let r = catch_unwind(AssertUnwindSafe(|| {
        let (s1, o1) = validate_sorted(files1);
        let (s2, o2) = validate_sorted(files2);
        // the target parsed alone, by a parser that never held anything else (on another thread: no thread-local
        // left-overs either): the syntax stage of a file depends on its text alone
        let solo = match files1.iter().find(|f| f.0 == target) {
            Some((id, text)) => {
                let (id, text) = (id.clone(), text.clone());
                std::thread::spawn(move || {
                    let mut q: Parser<String> = Parser::new();
                    q.add_content(id, &text);
                    dump::results(q.verif_parse_results())
                })
                .join()
                .unwrap()
            }
            None => Json::Null,
        };
        // the contents of project A reached through a history on one parser: same answers
        let mut h: u64 = 0xcbf29ce484222325;
        for (id, t) in files1 {
            for b in id.bytes().chain(t.bytes()) {
                h = (h ^ b as u64).wrapping_mul(0x100000001b3);
            }
        }
        let (s1h, o1h, hops) = crate::suites::through_history(files1, h);
        let history_same = s1h == s1 && o1h == o1;
        Json::obj(vec![
            ("outcome", Json::s("ok")),
            ("stage1_a", s1),
            ("out_a", o1),
            ("stage1_b", s2),
            ("out_b", o2),
            ("solo", solo),
            ("history_same", Json::Bool(history_same)),
            ("history_ops", if history_same { Json::Null } else { hops }),
        ])
    }));
    let imp = match r {
        Ok(j) => j,
        Err(e) => Json::obj(vec![("outcome", Json::s("panic")), ("msg", Json::s(panic_msg(e)))]),
    };
    vec![
        ("op", Json::s("perturb")),
        ("files", files_json(files1)),
        ("files_b", files_json(files2)),
        ("target", Json::s(target)),
        ("how", Json::s(how)),
        ("impl", imp),
    ]
}
