//! Abstract AIDL documents, their rendering to token sequences, layouts, and the expected
//! position-erased tree (as an S-expression string).
use crate::rng::Rng;

#[derive(Clone, Debug, PartialEq)]
pub enum TyDoc {
    Void,
    Primitive(&'static str),
    Str,
    CharSequence,
    Array(Box<TyDoc>),
    List(Option<Box<TyDoc>>),
    Map(Option<(Box<TyDoc>, Box<TyDoc>)>),
    Custom(Vec<String>),
}

#[derive(Clone, Debug, PartialEq)]
pub enum ValueDoc {
    Tok(String),               // INTEGER / FLOAT / QUOTED_STRING / BOOLEAN as written
    EmptyBraces,               // {}
    Braces(Vec<ValueDoc>, bool), // { v (, v)* ,? }
    Dotted(String, String),    // a.b
}

#[derive(Clone, Debug, PartialEq)]
pub struct AnnDoc {
    pub name: String, // with '@'
    pub params: Option<(Vec<(String, Option<String>)>, bool)>, // params, trailing comma
}

#[derive(Clone, Debug, PartialEq)]
pub struct ArgDoc {
    pub doc: Option<String>, // raw comment text placed before the arg (incl. delimiters)
    pub direction: Option<&'static str>,
    pub annotations: Vec<AnnDoc>,
    pub ty: TyDoc,
    pub name: Option<String>,
}

#[derive(Clone, Debug, PartialEq)]
pub struct MethodDoc {
    pub doc: Option<String>,
    pub annotations: Vec<AnnDoc>,
    pub oneway: bool,
    pub ret: TyDoc,
    pub name: String,
    pub args: Vec<ArgDoc>,
    pub args_trailing_comma: bool,
    pub code: Option<String>,
}

#[derive(Clone, Debug, PartialEq)]
pub struct ConstDoc {
    pub doc: Option<String>,
    pub annotations: Vec<AnnDoc>,
    pub ty: TyDoc,
    pub name: String,
    pub value: ValueDoc,
}

#[derive(Clone, Debug, PartialEq)]
pub struct FieldDoc {
    pub doc: Option<String>,
    pub annotations: Vec<AnnDoc>,
    pub ty: TyDoc,
    pub name: String,
    pub value: Option<ValueDoc>,
}

#[derive(Clone, Debug, PartialEq)]
pub struct EnumElDoc {
    pub doc: Option<String>,
    pub annotations: Vec<AnnDoc>,
    pub name: String,
    pub value: Option<String>,
}

#[derive(Clone, Debug, PartialEq)]
pub enum MemberDoc {
    Method(MethodDoc),
    Const(ConstDoc),
    Field(FieldDoc),
    EnumEl(EnumElDoc),
    /// raw token texts (used for malformed members); terminated like its neighbours
    Garbage(Vec<String>),
}

#[derive(Clone, Copy, Debug, PartialEq, Eq)]
pub enum ItemKind {
    Interface,
    Parcelable,
    Enum,
}

#[derive(Clone, Debug, PartialEq)]
pub struct ItemDoc {
    pub kind: ItemKind,
    pub doc: Option<String>,
    pub annotations: Vec<AnnDoc>,
    pub oneway: bool,
    pub name: String,
    pub members: Vec<MemberDoc>,
    pub enum_trailing_comma: bool,
}

#[derive(Clone, Debug, PartialEq)]
pub struct DeclDoc {
    pub annotations: Vec<AnnDoc>,
    pub path: Vec<String>,
}

#[derive(Clone, Debug, PartialEq)]
pub struct Doc {
    pub package: Vec<String>,
    pub imports: Vec<Vec<String>>,
    pub decls: Vec<DeclDoc>,
    pub item: ItemDoc,
}

/// What a token is, for layout decisions and for range expectations
#[derive(Clone, Debug, PartialEq)]
pub struct Tok {
    pub text: String,
    /// raw comment that must be placed (verbatim) in the gap *before* this token
    pub pre_comment: Option<String>,
}

/// A construct with expected ranges, expressed in token indices (inclusive)
#[derive(Clone, Debug, PartialEq)]
pub struct Span {
    pub what: &'static str, // package import decl item method arg const field enumel type
    pub name: String,
    pub name_first: usize,
    pub name_last: usize,
    /// first token of the construct after its annotations (for arg: first token incl. direction)
    pub first: usize,
    /// first token including annotations / doc attach point
    pub first_with_ann: usize,
    pub last: usize,               // last token, excluding the terminator
    pub terminator: Option<usize>, // index of `;` (or `,`) if the construct has one
    pub has_ann: bool,
    pub depth: usize,
}

pub struct Rendered {
    pub toks: Vec<Tok>,
    pub spans: Vec<Span>, // in traversal order (package, imports, decls, item, members, args, types…)
}

struct R {
    toks: Vec<Tok>,
    spans: Vec<Span>,
    pending_comment: Option<String>,
}

impl R {
    fn t(&mut self, s: &str) -> usize {
        let pre = self.pending_comment.take();
        self.toks.push(Tok { text: s.to_owned(), pre_comment: pre });
        self.toks.len() - 1
    }
    fn next(&self) -> usize {
        self.toks.len()
    }
    fn doc(&mut self, d: &Option<String>) {
        if let Some(d) = d {
            self.pending_comment = Some(d.clone());
        }
    }
    fn anns(&mut self, v: &[AnnDoc]) {
        for a in v {
            self.t(&a.name);
            if let Some((params, trailing)) = &a.params {
                self.t("(");
                for (i, (k, val)) in params.iter().enumerate() {
                    if i > 0 {
                        self.t(",");
                    }
                    self.t(k);
                    if let Some(val) = val {
                        self.t("=");
                        self.t(val);
                    }
                }
                if *trailing && !params.is_empty() {
                    self.t(",");
                }
                self.t(")");
            }
        }
    }
    fn qname(&mut self, v: &[String]) -> (usize, usize) {
        let first = self.next();
        for (i, s) in v.iter().enumerate() {
            if i > 0 {
                self.t(".");
            }
            self.t(s);
        }
        (first, self.next() - 1)
    }
    fn ty(&mut self, t: &TyDoc, depth: usize) {
        // spans are pushed in the symbol-walk order: array => element first, then the array
        match t {
            TyDoc::Void | TyDoc::Primitive(_) | TyDoc::Str | TyDoc::CharSequence => {
                let s = match t {
                    TyDoc::Void => "void",
                    TyDoc::Primitive(p) => p,
                    TyDoc::Str => "String",
                    _ => "CharSequence",
                };
                let i = self.t(s);
                self.spans.push(Span {
                    what: "type", name: s.to_owned(), name_first: i, name_last: i, first: i,
                    first_with_ann: i, last: i, terminator: None, has_ann: false, depth,
                });
            }
            TyDoc::Custom(v) => {
                let (a, b) = self.qname(v);
                self.spans.push(Span {
                    what: "type", name: v.join("."), name_first: a, name_last: b, first: a,
                    first_with_ann: a, last: b, terminator: None, has_ann: false, depth,
                });
            }
            TyDoc::Array(el) => {
                let a = self.next();
                self.ty(el, depth + 1);
                let b = self.next() - 1;
                self.t("[");
                let last = self.t("]");
                self.spans.push(Span {
                    what: "type", name: "Array".to_owned(), name_first: a, name_last: b, first: a,
                    first_with_ann: a, last, terminator: None, has_ann: false, depth,
                });
            }
            TyDoc::List(p) => {
                let a = self.t("List");
                let idx = self.spans.len();
                self.spans.push(Span {
                    what: "type", name: "List".to_owned(), name_first: a, name_last: a, first: a,
                    first_with_ann: a, last: a, terminator: None, has_ann: false, depth,
                });
                if let Some(p) = p {
                    self.t("<");
                    self.ty(p, depth + 1);
                    let last = self.t(">");
                    self.spans[idx].last = last;
                }
            }
            TyDoc::Map(kv) => {
                let a = self.t("Map");
                let idx = self.spans.len();
                self.spans.push(Span {
                    what: "type", name: "Map".to_owned(), name_first: a, name_last: a, first: a,
                    first_with_ann: a, last: a, terminator: None, has_ann: false, depth,
                });
                if let Some((k, v)) = kv {
                    self.t("<");
                    self.ty(k, depth + 1);
                    self.t(",");
                    self.ty(v, depth + 1);
                    let last = self.t(">");
                    self.spans[idx].last = last;
                }
            }
        }
    }
    fn value(&mut self, v: &ValueDoc) {
        match v {
            ValueDoc::Tok(s) => {
                self.t(s);
            }
            ValueDoc::EmptyBraces => {
                self.t("{");
                self.t("}");
            }
            ValueDoc::Braces(vs, trailing) => {
                self.t("{");
                for (i, x) in vs.iter().enumerate() {
                    if i > 0 {
                        self.t(",");
                    }
                    self.value(x);
                }
                if *trailing {
                    self.t(",");
                }
                self.t("}");
            }
            ValueDoc::Dotted(a, b) => {
                self.t(a);
                self.t(".");
                self.t(b);
            }
        }
    }
    fn member(&mut self, m: &MemberDoc, enum_sep: Option<bool>) {
        match m {
            MemberDoc::Method(m) => {
                self.doc(&m.doc);
                let fwa = self.next();
                self.anns(&m.annotations);
                let first = self.next();
                if m.oneway {
                    self.t("oneway");
                }
                let idx = self.spans.len();
                self.spans.push(Span {
                    what: "method", name: m.name.clone(), name_first: 0, name_last: 0, first,
                    first_with_ann: fwa, last: 0, terminator: None, has_ann: !m.annotations.is_empty(), depth: 0,
                });
                self.ty(&m.ret, 0);
                let n = self.t(&m.name);
                self.spans[idx].name_first = n;
                self.spans[idx].name_last = n;
                self.t("(");
                for (i, a) in m.args.iter().enumerate() {
                    if i > 0 {
                        self.t(",");
                    }
                    self.doc(&a.doc);
                    let afirst = self.next();
                    if let Some(d) = a.direction {
                        self.t(d);
                    }
                    self.anns(&a.annotations);
                    let aidx = self.spans.len();
                    self.spans.push(Span {
                        what: "arg", name: a.name.clone().unwrap_or_default(), name_first: 0, name_last: 0,
                        first: afirst, first_with_ann: afirst, last: 0, terminator: None,
                        has_ann: !a.annotations.is_empty(), depth: 0,
                    });
                    self.ty(&a.ty, 0);
                    if let Some(n) = &a.name {
                        let i = self.t(n);
                        self.spans[aidx].name_first = i;
                        self.spans[aidx].name_last = i;
                    } else {
                        // empty name range right after the type: marked by name_first > name_last
                        self.spans[aidx].name_first = self.next();
                        self.spans[aidx].name_last = self.next() - 1;
                    }
                    self.spans[aidx].last = self.next() - 1;
                }
                if m.args_trailing_comma && !m.args.is_empty() {
                    self.t(",");
                }
                self.t(")");
                if let Some(c) = &m.code {
                    self.t("=");
                    self.t(c);
                }
                self.spans[idx].last = self.next() - 1;
                let term = self.t(";");
                self.spans[idx].terminator = Some(term);
            }
            MemberDoc::Const(c) => {
                self.doc(&c.doc);
                let fwa = self.next();
                self.anns(&c.annotations);
                let first = self.t("const");
                let idx = self.spans.len();
                self.spans.push(Span {
                    what: "const", name: c.name.clone(), name_first: 0, name_last: 0, first,
                    first_with_ann: fwa, last: 0, terminator: None, has_ann: !c.annotations.is_empty(), depth: 0,
                });
                self.ty(&c.ty, 0);
                let n = self.t(&c.name);
                self.spans[idx].name_first = n;
                self.spans[idx].name_last = n;
                self.t("=");
                self.value(&c.value);
                self.spans[idx].last = self.next() - 1;
                let term = self.t(";");
                self.spans[idx].terminator = Some(term);
            }
            MemberDoc::Field(f) => {
                self.doc(&f.doc);
                let fwa = self.next();
                self.anns(&f.annotations);
                let first = self.next();
                let idx = self.spans.len();
                self.spans.push(Span {
                    what: "field", name: f.name.clone(), name_first: 0, name_last: 0, first,
                    first_with_ann: fwa, last: 0, terminator: None, has_ann: !f.annotations.is_empty(), depth: 0,
                });
                self.ty(&f.ty, 0);
                let n = self.t(&f.name);
                self.spans[idx].name_first = n;
                self.spans[idx].name_last = n;
                if let Some(v) = &f.value {
                    self.t("=");
                    self.value(v);
                }
                self.spans[idx].last = self.next() - 1;
                let term = self.t(";");
                self.spans[idx].terminator = Some(term);
            }
            MemberDoc::EnumEl(e) => {
                self.doc(&e.doc);
                let fwa = self.next();
                self.anns(&e.annotations);
                let n = self.t(&e.name);
                let idx = self.spans.len();
                self.spans.push(Span {
                    what: "enumel", name: e.name.clone(), name_first: n, name_last: n, first: n,
                    first_with_ann: fwa, last: n, terminator: None, has_ann: !e.annotations.is_empty(), depth: 0,
                });
                if let Some(v) = &e.value {
                    self.t("=");
                    let l = self.t(v);
                    self.spans[idx].last = l;
                }
                if enum_sep == Some(true) {
                    let term = self.t(",");
                    self.spans[idx].terminator = Some(term);
                }
            }
            MemberDoc::Garbage(toks) => {
                let first = self.next();
                for t in toks {
                    self.t(t);
                }
                let last = self.next().max(first + 1) - 1;
                let mut sp = Span {
                    what: "garbage", name: String::new(), name_first: first, name_last: last, first,
                    first_with_ann: first, last, terminator: None, has_ann: false, depth: 0,
                };
                match enum_sep {
                    None => sp.terminator = Some(self.t(";")),
                    Some(true) => sp.terminator = Some(self.t(",")),
                    Some(false) => {}
                }
                self.spans.push(sp);
            }
        }
    }
}

pub fn render(d: &Doc) -> Rendered {
    let mut r = R { toks: Vec::new(), spans: Vec::new(), pending_comment: None };
    // package
    let first = r.t("package");
    let (a, b) = r.qname(&d.package);
    let term = r.t(";");
    r.spans.push(Span {
        what: "package", name: d.package.join("."), name_first: a, name_last: b, first,
        first_with_ann: first, last: b, terminator: Some(term), has_ann: false, depth: 0,
    });
    for imp in &d.imports {
        let first = r.t("import");
        let (a, b) = r.qname(imp);
        let term = r.t(";");
        r.spans.push(Span {
            what: "import", name: imp.join("."), name_first: a, name_last: b, first,
            first_with_ann: first, last: b, terminator: Some(term), has_ann: false, depth: 0,
        });
    }
    for dp in &d.decls {
        let fwa = r.next();
        r.anns(&dp.annotations);
        let first = r.t("parcelable");
        let (a, b) = r.qname(&dp.path);
        let term = r.t(";");
        r.spans.push(Span {
            what: "decl", name: dp.path.join("."), name_first: a, name_last: b, first,
            first_with_ann: fwa, last: b, terminator: Some(term), has_ann: !dp.annotations.is_empty(), depth: 0,
        });
    }
    // item
    let it = &d.item;
    r.doc(&it.doc);
    let fwa = r.next();
    r.anns(&it.annotations);
    let first = r.next();
    if it.oneway && it.kind == ItemKind::Interface {
        r.t("oneway");
    }
    r.t(match it.kind {
        ItemKind::Interface => "interface",
        ItemKind::Parcelable => "parcelable",
        ItemKind::Enum => "enum",
    });
    let n = r.t(&it.name);
    let idx = r.spans.len();
    r.spans.push(Span {
        what: "item", name: it.name.clone(), name_first: n, name_last: n, first, first_with_ann: fwa,
        last: 0, terminator: None, has_ann: !it.annotations.is_empty(), depth: 0,
    });
    r.t("{");
    let nm = it.members.len();
    for (i, m) in it.members.iter().enumerate() {
        let sep = if it.kind == ItemKind::Enum {
            Some(i + 1 < nm || it.enum_trailing_comma)
        } else {
            None
        };
        r.member(m, sep);
    }
    let last = r.t("}");
    r.spans[idx].last = last;
    Rendered { toks: r.toks, spans: r.spans }
}

// ---------------------------------------------------------------------------------------------
// Layout
// ---------------------------------------------------------------------------------------------

fn is_word(c: char) -> bool {
    c.is_ascii_alphanumeric() || c == '_'
}

/// must the two tokens be separated to lex as two tokens?
pub fn needs_sep(left: &str, right: &str) -> bool {
    let l = left.chars().last().unwrap_or(' ');
    let r = right.chars().next().unwrap_or(' ');
    if is_word(l) && is_word(r) {
        return true;
    }
    // number followed by '.' or '.' followed by digit could merge into a FLOAT; '+'/'-' signs too
    if (l.is_ascii_digit() || l == '.') && (r == '.' || r.is_ascii_digit()) {
        return true;
    }
    if (l == '-' || l == '+') && (r.is_ascii_digit() || r == '.') {
        return true;
    }
    // '/' next to '/' or '*' would open a comment (no token contains '/', but garbage might)
    if l == '/' && (r == '/' || r == '*') {
        return true;
    }
    // '@' followed by a word is an annotation
    if l == '@' && is_word(r) {
        return true;
    }
    false
}

#[derive(Clone, Copy, Debug, PartialEq, Eq)]
pub enum LayoutStyle {
    /// single spaces, newline after ; { }
    Plain,
    /// nothing where legal, otherwise one space
    Tight,
    /// random trivia: spaces, tabs, LF/CRLF/CR, Unicode whitespace, comments with any text
    Wild,
    /// like Wild but only whitespace (no comments): used where doc attachment matters
    WildNoComments,
}

pub const UNICODE_WS: &[char] = &[
    '\u{0B}', '\u{0C}', '\u{85}', '\u{A0}', '\u{1680}', '\u{2000}', '\u{2003}', '\u{200A}', '\u{2028}',
    '\u{2029}', '\u{202F}', '\u{205F}', '\u{3000}',
];

pub const COMMENT_WORDS: &[&str] = &[
    "plain", "interface", "é", "Größe", "日本語", "🎉", "👨\u{200D}👩\u{200D}👧", "a;b", "{", "}", "\"", "x/y",
    "in out", "e\u{301}", "\u{1F1E9}\u{1F1EA}", "@tag",
];

fn random_ws(rng: &mut Rng, out: &mut String) {
    let n = rng.range(1, 3);
    for _ in 0..n {
        match rng.below(12) {
            0..=3 => out.push(' '),
            4 => out.push('\t'),
            5 | 6 => out.push('\n'),
            7 => out.push_str("\r\n"),
            8 => out.push('\r'),
            9 => out.push(*rng.pick(UNICODE_WS)),
            _ => out.push_str("  "),
        }
    }
}

fn random_comment(rng: &mut Rng, out: &mut String) {
    let nwords = rng.below(4);
    let mut text = String::new();
    for i in 0..nwords {
        if i > 0 {
            text.push(' ');
        }
        text.push_str(*rng.pick(COMMENT_WORDS));
    }
    if rng.chance(1, 2) {
        // line comment (ends the line)
        out.push_str("//");
        out.push_str(&text);
        // LF, CRLF, or a lone CR (which also ends a line comment)
        out.push_str(match rng.below(8) { 0 | 1 => "\r\n", 2 => "\r", _ => "\n" });
    } else {
        // block comment; never starts with "/**" unless empty "/**/"; text must not contain "*/"
        out.push_str("/*");
        if !text.is_empty() {
            out.push(' ');
        }
        out.push_str(&text.replace("*/", "* /"));
        if rng.chance(1, 4) {
            out.push('*'); // "**/" endings
        }
        out.push_str("*/");
    }
}

pub struct Laid {
    pub text: String,
    /// byte span of every token
    pub tok_spans: Vec<(usize, usize)>,
}

pub fn layout(toks: &[Tok], style: LayoutStyle, rng: &mut Rng) -> Laid {
    let mut text = String::new();
    let mut spans = Vec::with_capacity(toks.len());
    // leading trivia
    if matches!(style, LayoutStyle::Wild | LayoutStyle::WildNoComments) && rng.chance(1, 2) {
        random_ws(rng, &mut text);
    }
    for (i, t) in toks.iter().enumerate() {
        if i > 0 {
            let prev = &toks[i - 1].text;
            let must = needs_sep(prev, &t.text);
            match style {
                LayoutStyle::Plain => {
                    if t.pre_comment.is_none() {
                        if prev == ";" || prev == "{" || prev == "}" {
                            text.push('\n');
                        } else if must || !(t.text == ";" || t.text == "," || t.text == "." || prev == "." || t.text == ")" || prev == "(") {
                            text.push(' ');
                        }
                    } else {
                        text.push('\n');
                    }
                }
                LayoutStyle::Tight => {
                    if must {
                        text.push(' ');
                    }
                }
                LayoutStyle::Wild | LayoutStyle::WildNoComments => {
                    let mut gap = String::new();
                    let k = rng.below(10);
                    if k < 3 && !must {
                        // nothing
                    } else if k < 8 || style == LayoutStyle::WildNoComments {
                        random_ws(rng, &mut gap);
                    } else {
                        if rng.chance(1, 2) {
                            random_ws(rng, &mut gap);
                        }
                        random_comment(rng, &mut gap);
                        if rng.chance(1, 2) {
                            random_ws(rng, &mut gap);
                        }
                    }
                    // a gap consisting only of a block comment separates tokens as well
                    text.push_str(&gap);
                }
            }
        }
        if let Some(c) = &t.pre_comment {
            text.push_str(c);
        }
        let a = text.len();
        text.push_str(&t.text);
        spans.push((a, text.len()));
    }
    if matches!(style, LayoutStyle::Wild | LayoutStyle::WildNoComments) && rng.chance(1, 2) {
        random_ws(rng, &mut text);
    } else if style == LayoutStyle::Plain {
        text.push('\n');
    }
    Laid { text, tok_spans: spans }
}

// ---------------------------------------------------------------------------------------------
// Expected position-erased tree (S-expression); the same shape is printed from the real tree
// by `sexpr.rs`.
// ---------------------------------------------------------------------------------------------

pub fn sx_ty(t: &TyDoc) -> String {
    match t {
        TyDoc::Void => "(ty void void)".into(),
        TyDoc::Primitive(p) => format!("(ty {} primitive)", p),
        TyDoc::Str => "(ty String string)".into(),
        TyDoc::CharSequence => "(ty CharSequence char_sequence)".into(),
        TyDoc::Array(e) => format!("(ty Array array {})", sx_ty(e)),
        TyDoc::List(None) => "(ty List list)".into(),
        TyDoc::List(Some(e)) => format!("(ty List list {})", sx_ty(e)),
        TyDoc::Map(None) => "(ty Map map)".into(),
        TyDoc::Map(Some((k, v))) => format!("(ty Map map {} {})", sx_ty(k), sx_ty(v)),
        TyDoc::Custom(v) => format!("(ty {} unresolved)", v.join(".")),
    }
}

pub fn sx_value(v: &ValueDoc) -> String {
    match v {
        ValueDoc::Tok(s) => s.clone(),
        ValueDoc::EmptyBraces => "{}".into(),
        ValueDoc::Braces(..) => "{...}".into(),
        ValueDoc::Dotted(a, b) => format!("{}.{}", a, b),
    }
}

pub fn sx_anns(v: &[AnnDoc]) -> String {
    let mut s = String::from("(anns");
    for a in v {
        s.push_str(&format!(" ({}", a.name));
        if let Some((params, _)) = &a.params {
            // HashMap semantics: last value wins, printed sorted by key
            let mut m: std::collections::BTreeMap<&String, &Option<String>> = Default::default();
            for (k, v) in params {
                m.insert(k, v);
            }
            for (k, v) in m {
                match v {
                    Some(v) => s.push_str(&format!(" {}={}", k, v)),
                    None => s.push_str(&format!(" {}", k)),
                }
            }
        }
        s.push(')');
    }
    s.push(')');
    s
}

pub fn sx_member(m: &MemberDoc) -> Option<String> {
    Some(match m {
        MemberDoc::Method(m) => {
            let mut s = format!("(method {} oneway={} {} {} (args", m.name, m.oneway, sx_anns(&m.annotations), sx_ty(&m.ret));
            for a in &m.args {
                s.push_str(&format!(
                    " (arg {} {} {} {})",
                    a.direction.unwrap_or("-"),
                    a.name.clone().unwrap_or_else(|| "-".into()),
                    sx_anns(&a.annotations),
                    sx_ty(&a.ty)
                ));
            }
            let code = match &m.code {
                Some(c) => match c.parse::<u32>() {
                    Ok(v) => format!("{}", v),
                    Err(_) => "-".into(),
                },
                None => "-".into(),
            };
            s.push_str(&format!(") code={})", code));
            s
        }
        MemberDoc::Const(c) => format!("(const {} {} {} value={})", c.name, sx_anns(&c.annotations), sx_ty(&c.ty), sx_value(&c.value)),
        MemberDoc::Field(f) => format!(
            "(field {} {} {} value={})",
            f.name,
            sx_anns(&f.annotations),
            sx_ty(&f.ty),
            f.value.as_ref().map(sx_value).unwrap_or_else(|| "-".into())
        ),
        MemberDoc::EnumEl(e) => format!("(enumel {} value={})", e.name, e.value.clone().unwrap_or_else(|| "-".into())),
        MemberDoc::Garbage(_) => return None,
    })
}

pub fn sx_doc(d: &Doc) -> String {
    let mut s = format!("(aidl (package {})", d.package.join("."));
    for i in &d.imports {
        let (name, path) = i.split_last().unwrap();
        s.push_str(&format!(" (import path={} name={})", path.join("."), name));
    }
    for dp in &d.decls {
        let (name, path) = dp.path.split_last().unwrap();
        s.push_str(&format!(" (decl path={} name={})", path.join("."), name));
    }
    let it = &d.item;
    let kind = match it.kind {
        ItemKind::Interface => "interface",
        ItemKind::Parcelable => "parcelable",
        ItemKind::Enum => "enum",
    };
    s.push_str(&format!(" ({} {} oneway={} {}", kind, it.name, it.oneway && it.kind == ItemKind::Interface, sx_anns(&it.annotations)));
    for m in &it.members {
        if let Some(x) = sx_member(m) {
            s.push(' ');
            s.push_str(&x);
        }
    }
    s.push_str("))");
    s
}
