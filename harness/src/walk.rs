//! The `walk` op: what the real traversal / symbol API reports for every validated file.
use crate::dump;
use crate::json::Json;
use aidl_parser::ast;
use aidl_parser::symbol::Symbol;
use aidl_parser::traverse::{self, SymbolFilter};

pub fn tag(s: &Symbol) -> &'static str {
    match s {
        Symbol::Package(..) => "package",
        Symbol::Import(..) => "import",
        Symbol::Interface(..) => "interface",
        Symbol::Parcelable(..) => "parcelable",
        Symbol::Enum(..) => "enum",
        Symbol::Method(..) => "method",
        Symbol::Arg(..) => "arg",
        Symbol::Const(..) => "const",
        Symbol::Field(..) => "field",
        Symbol::EnumElement(..) => "enum_element",
        Symbol::Type(..) => "type",
    }
}

fn addr(s: &Symbol) -> usize {
    match s {
        Symbol::Package(p) => *p as *const _ as usize,
        Symbol::Import(p) => *p as *const _ as usize,
        Symbol::Interface(p, _) => *p as *const _ as usize,
        Symbol::Parcelable(p, _) => *p as *const _ as usize,
        Symbol::Enum(p, _) => *p as *const _ as usize,
        Symbol::Method(p, _) => *p as *const _ as usize,
        Symbol::Arg(p, _) => *p as *const _ as usize,
        Symbol::Const(p, _) => *p as *const _ as usize,
        Symbol::Field(p, _) => *p as *const _ as usize,
        Symbol::EnumElement(p, _) => *p as *const _ as usize,
        Symbol::Type(p) => *p as *const _ as usize,
    }
}

fn sym_json(s: &Symbol) -> Json {
    Json::obj(vec![
        ("tag", Json::s(tag(s))),
        ("name", Json::opt_s(&s.get_name())),
        ("qn", Json::opt_s(&s.get_qualified_name())),
        ("det", Json::opt_s(&s.get_details())),
        ("sig", Json::s(s.get_signature())),
        ("r", dump::range(s.get_range())),
        ("fr", dump::range(s.get_full_range())),
    ])
}

fn index_of(all: &[(usize, &'static str)], s: &Symbol) -> Json {
    let key = (addr(s), tag(s));
    match all.iter().position(|k| *k == key) {
        Some(i) => Json::n(i),
        None => Json::s("not-in-visit-list"),
    }
}

fn opt_index(all: &[(usize, &'static str)], s: &Option<Symbol>) -> Json {
    match s {
        Some(s) => index_of(all, s),
        None => Json::Null,
    }
}

const FILTERS: [(&str, SymbolFilter); 3] = [
    ("items", SymbolFilter::ItemsOnly),
    ("elements", SymbolFilter::ItemsAndItemElements),
    ("all", SymbolFilter::All),
];

pub fn walk_file(a: &ast::Aidl, text: &str, with_positions: bool) -> Json {
    // visit list at the detailed level: identity of every symbol
    let mut all_keys: Vec<(usize, &'static str)> = Vec::new();
    let mut all_syms: Vec<Json> = Vec::new();
    traverse::walk_symbols(a, SymbolFilter::All, |s| {
        all_keys.push((addr(&s), tag(&s)));
        all_syms.push(sym_json(&s));
    });
    let mut levels: Vec<(&str, Json)> = Vec::new();
    let mut finds: Vec<Json> = Vec::new();
    for (fname, filter) in FILTERS {
        // visit list of this level, as indices into the detailed one
        let mut idxs: Vec<Json> = Vec::new();
        let mut names: Vec<String> = Vec::new();
        traverse::walk_symbols(a, filter, |s| {
            idxs.push(index_of(&all_keys, &s));
            if let Some(n) = s.get_name() {
                if !names.contains(&n) {
                    names.push(n);
                }
            }
        });
        let n = idxs.len();
        levels.push((fname, Json::Arr(idxs)));
        // predicates: "is the k-th visited symbol" (stateful), "is of kind K", "name equals N"
        for k in 0..=n {
            let mut c = 0usize;
            let found = traverse::find_symbol(a, filter, |_| {
                c += 1;
                c - 1 == k
            });
            let calls_find = c;
            let mut c2 = 0usize;
            let filtered = traverse::filter_symbols(a, filter, |_| {
                c2 += 1;
                c2 - 1 == k
            });
            finds.push(Json::obj(vec![
                ("filter", Json::s(fname)),
                ("pred", Json::Arr(vec![Json::s("kth"), Json::n(k)])),
                ("find", opt_index(&all_keys, &found)),
                ("find_calls", Json::n(calls_find)),
                ("filter_result", Json::Arr(filtered.iter().map(|s| index_of(&all_keys, s)).collect())),
            ]));
        }
        for kind in ["package", "import", "interface", "parcelable", "enum", "method", "arg", "const", "field", "enum_element", "type"] {
            let found = traverse::find_symbol(a, filter, |s| tag(s) == kind);
            let filtered = traverse::filter_symbols(a, filter, |s| tag(s) == kind);
            finds.push(Json::obj(vec![
                ("filter", Json::s(fname)),
                ("pred", Json::Arr(vec![Json::s("kind"), Json::s(kind)])),
                ("find", opt_index(&all_keys, &found)),
                ("filter_result", Json::Arr(filtered.iter().map(|s| index_of(&all_keys, s)).collect())),
            ]));
        }
        names.push("no_such_name".to_owned());
        for nm in names.iter().take(12) {
            let found = traverse::find_symbol(a, filter, |s| s.get_name().as_deref() == Some(nm.as_str()));
            let filtered = traverse::filter_symbols(a, filter, |s| s.get_name().as_deref() == Some(nm.as_str()));
            finds.push(Json::obj(vec![
                ("filter", Json::s(fname)),
                ("pred", Json::Arr(vec![Json::s("name"), Json::s(nm.clone())])),
                ("find", opt_index(&all_keys, &found)),
                ("filter_result", Json::Arr(filtered.iter().map(|s| index_of(&all_keys, s)).collect())),
            ]));
        }
    }
    // the three other walkers
    let mut types: Vec<Json> = Vec::new();
    traverse::walk_types(a, |t| types.push(Json::Arr(vec![Json::s(t.name.clone()), dump::range(&t.symbol_range)])));
    let mut methods: Vec<Json> = Vec::new();
    traverse::walk_methods(a, |m| methods.push(Json::Arr(vec![Json::s(m.name.clone()), dump::range(&m.symbol_range)])));
    let mut args: Vec<Json> = Vec::new();
    traverse::walk_args(a, |m, arg| {
        args.push(Json::Arr(vec![Json::s(m.name.clone()), dump::range(&arg.symbol_range)]))
    });
    // position lookup at every character position (and the position just after the last one)
    let mut positions: Vec<Json> = Vec::new();
    let mut at: Vec<(&str, Vec<Json>)> = FILTERS.iter().map(|(n, _)| (*n, Vec::new())).collect();
    if with_positions {
        let lookup = line_col::LineColLookup::new(text);
        let mut offs: Vec<usize> = text.char_indices().map(|(i, _)| i).collect();
        offs.push(text.len());
        for o in offs {
            let lc = lookup.get_by_cluster(o);
            positions.push(Json::Arr(vec![Json::n(o), Json::n(lc.0), Json::n(lc.1)]));
            for (i, (_, filter)) in FILTERS.iter().enumerate() {
                let r = traverse::find_symbol_at_line_col(a, *filter, lc);
                at[i].1.push(opt_index(&all_keys, &r));
            }
        }
    }
    Json::obj(vec![
        ("key", Json::s(a.get_key())),
        ("symbols", Json::Arr(all_syms)),
        ("levels", Json::obj(levels)),
        ("finds", Json::Arr(finds)),
        ("types", Json::Arr(types)),
        ("methods", Json::Arr(methods)),
        ("args", Json::Arr(args)),
        ("positions", Json::Arr(positions)),
        ("at", Json::obj(at.into_iter().map(|(n, v)| (n, Json::Arr(v))).collect())),
    ])
}
