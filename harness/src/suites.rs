//! Case suites. A suite emits JSON lines `{"case":n,"seed":s,"suite":..,"op":..,…}`; the `impl`
//! member holds what the real library did on the case's input.
use crate::doc::{self, LayoutStyle};
use crate::dump;
use crate::gen;
use crate::json::Json;
use crate::rng::Rng;
use aidl_parser::Parser;
use std::panic::{catch_unwind, AssertUnwindSafe};

pub type Files = Vec<(String, String)>;

/// where the input of the case being run is recorded before the library is called: if the process
/// is killed (abort, stack overflow) or does not return (hang), the check finds the input here
pub static CURRENT: std::sync::Mutex<Option<String>> = std::sync::Mutex::new(None);

pub fn mark_current(op: &str, input: Vec<(&'static str, Json)>) {
    if let Ok(g) = CURRENT.lock() {
        if let Some(p) = g.as_ref() {
            let mut v = vec![("op", Json::s(op))];
            v.extend(input);
            let _ = std::fs::write(p, Json::obj(v).to_string());
        }
    }
}

pub fn files_json(files: &Files) -> Json {
    Json::Arr(
        files
            .iter()
            .map(|(id, text)| Json::obj(vec![("id", Json::s(id.clone())), ("text", Json::s(text.clone()))]))
            .collect(),
    )
}

pub fn panic_msg(e: Box<dyn std::any::Any + Send>) -> String {
    if let Some(s) = e.downcast_ref::<&str>() {
        (*s).to_owned()
    } else if let Some(s) = e.downcast_ref::<String>() {
        s.clone()
    } else {
        "panic".to_owned()
    }
}

/// add the files to a fresh parser (in the given order), dump the syntax stage, validate, dump
/// The same final contents reached through a HISTORY on one parser: replacements (by other files' contents, by
/// texts that do not parse, by the final content itself once more), `validate()` calls in between, removals, an
/// extra id that comes and goes. Returns the syntax-stage dump, the validated dump and the operations.
/// What the library returns must depend on what it holds now (C12) — and every other property speaks about what
/// it returns in ANY use, not only on a fresh parser.
pub fn through_history(files: &Files, seed: u64) -> (Json, Json, Json) {
    let mut r = Rng::new(seed ^ 0x5DEE_CE66_D1CE_CAFE);
    let mut p: Parser<String> = Parser::new();
    let mut log: Vec<Json> = Vec::new();
    let broken = ["package p;\ninterface Broken {\n", "interface NoPackage {}\n", "package p; parcelable P { int x; } trailing\n"];
    let mut extra = false;
    if !files.is_empty() {
        for _ in 0..r.range(2, 7) {
            match r.below(7) {
                0 | 1 | 2 => {
                    let id = r.pick(files).0.clone();
                    let c = r.pick(files).1.clone();
                    log.push(Json::Arr(vec![Json::s("add"), Json::s(id.clone()), Json::s(c.clone())]));
                    p.add_content(id, &c);
                }
                3 => {
                    let id = r.pick(files).0.clone();
                    let c = (*r.pick(&broken)).to_owned();
                    log.push(Json::Arr(vec![Json::s("add"), Json::s(id.clone()), Json::s(c.clone())]));
                    p.add_content(id, &c);
                }
                4 => {
                    log.push(Json::Arr(vec![Json::s("validate")]));
                    let _ = p.validate();
                }
                5 => {
                    let id = r.pick(files).0.clone();
                    log.push(Json::Arr(vec![Json::s("remove"), Json::s(id.clone())]));
                    p.remove_content(id);
                }
                _ => {
                    let c = r.pick(files).1.clone();
                    log.push(Json::Arr(vec![Json::s("add"), Json::s("zz_extra"), Json::s(c.clone())]));
                    p.add_content("zz_extra".to_owned(), &c);
                    extra = true;
                }
            }
        }
    }
    // an id whose final content has no tree held, before, a definition of something another file imports:
    // what it defined then is gone now
    if files.iter().any(|f| f.0 == "zbroken") && r.chance(2, 3) {
        let mut targets: Vec<String> = Vec::new();
        for (_, t) in files {
            for line in t.lines() {
                let l = line.trim();
                if let Some(rest) = l.strip_prefix("import ") {
                    if let Some(path) = rest.strip_suffix(';') {
                        let path = path.trim();
                        if path.contains('.') && path.chars().all(|c| c.is_ascii_alphanumeric() || c == '.' || c == '_') {
                            targets.push(path.to_owned());
                        }
                    }
                }
            }
        }
        if !targets.is_empty() {
            let path = r.pick(&targets).clone();
            let k = path.rfind('.').unwrap();
            let kind = *r.pick(&["parcelable", "interface", "enum"]);
            let body = if kind == "enum" { "{ A }" } else { "{}" };
            let c = format!("package {};\n{} {} {}\n", &path[..k], kind, &path[k + 1..], body);
            log.push(Json::Arr(vec![Json::s("add"), Json::s("zbroken"), Json::s(c.clone())]));
            p.add_content("zbroken".to_owned(), &c);
            if r.chance(1, 2) {
                log.push(Json::Arr(vec![Json::s("validate")]));
                let _ = p.validate();
            }
        }
    }
    // an id whose final content defines `pkg.Name` as one kind held, before, the SAME key as another kind
    // (replaced in place: whatever was derived from the earlier kind must be gone)
    if !files.is_empty() && r.chance(1, 2) {
        for _ in 0..r.range(1, 2) {
            let (id, text) = r.pick(files).clone();
            let mut q: Parser<String> = Parser::new();
            q.add_content(id.clone(), &text);
            let keys: Vec<(String, &'static str)> = q.verif_item_keys().iter().map(|(k, v)| (k.clone(), dump::rkind(v))).collect();
            if let Some((key, kind)) = keys.first() {
                if let Some(k) = key.rfind('.') {
                    let others: Vec<&str> = ["parcelable", "interface", "enum"].iter().copied().filter(|x| x != kind).collect();
                    let nk = *r.pick(&others);
                    let body = if nk == "enum" { "{ A }" } else { "{}" };
                    let c = format!("package {};\n{} {} {}\n", &key[..k], nk, &key[k + 1..], body);
                    log.push(Json::Arr(vec![Json::s("add"), Json::s(id.clone()), Json::s(c.clone())]));
                    p.add_content(id.clone(), &c);
                    if r.chance(1, 2) {
                        log.push(Json::Arr(vec![Json::s("validate")]));
                        let _ = p.validate();
                    }
                }
            }
        }
    }
    if extra && !files.iter().any(|f| f.0 == "zz_extra") {
        log.push(Json::Arr(vec![Json::s("remove"), Json::s("zz_extra")]));
        p.remove_content("zz_extra".to_owned());
    }
    // ids the final state does not hold are gone already (only final ids and zz_extra were used)
    // Now and then the files whose final content has NO tree come last, after a call of `validate`: whatever an
    // earlier content of such an id defined (and whatever a call computed from it) must be gone afterwards.
    let mut ids: Vec<&String> = files.iter().map(|f| &f.0).collect();
    ids.sort();
    ids.dedup();
    let unique = ids.len() == files.len();
    let mut order: Vec<&(String, String)> = files.iter().collect();
    let mut treeless_from = order.len();
    if unique && r.chance(1, 2) {
        let has_tree = |f: &(String, String)| -> bool {
            let mut q: Parser<String> = Parser::new();
            q.add_content(f.0.clone(), &f.1);
            q.verif_parse_results().get(&f.0).map(|x| x.ast.is_some()).unwrap_or(false)
        };
        let (with, without): (Vec<&(String, String)>, Vec<&(String, String)>) = files.iter().partition(|f| has_tree(f));
        treeless_from = with.len();
        order = with;
        order.extend(without);
    }
    for (k, (id, text)) in order.into_iter().enumerate() {
        if k == treeless_from && r.chance(2, 3) {
            log.push(Json::Arr(vec![Json::s("validate")]));
            let _ = p.validate();
        }
        log.push(Json::Arr(vec![Json::s("add"), Json::s(id.clone()), Json::s("<final>")]));
        p.add_content(id.clone(), text);
    }
    if !files.is_empty() && r.chance(1, 2) {
        log.push(Json::Arr(vec![Json::s("validate")]));
        let _ = p.validate();
        let (id, text) = r.pick(files).clone();
        log.push(Json::Arr(vec![Json::s("add"), Json::s(id.clone()), Json::s("<final again>")]));
        p.add_content(id, &text);
    }
    let stage1 = dump::results(p.verif_parse_results());
    let out = dump::results(&p.validate());
    (stage1, out, Json::Arr(log))
}

/// The same texts read from DISK: every file is written to a scratch directory and added with `add_file` by one parser,
/// and added with `add_content` under the same path by another; both must report the same (trees, diagnostics, ids).
/// `add_file` is the other way contents enter the library: it must not change a byte of what it reads.
pub fn file_same(files: &Files, seed: u64) -> bool {
    use std::path::PathBuf;
    let dir = std::env::temp_dir().join(format!("aidl-verif-files-{}-{:x}", std::process::id(), seed));
    if std::fs::create_dir_all(&dir).is_err() {
        return true;
    }
    let mut a: Parser<PathBuf> = Parser::new();
    let mut b: Parser<PathBuf> = Parser::new();
    let mut ok = true;
    for (k, (_, text)) in files.iter().enumerate() {
        let path = dir.join(format!("f{}.aidl", k));
        if std::fs::write(&path, text.as_bytes()).is_err() {
            continue;
        }
        if a.add_file(&path).is_err() {
            ok = false;
        }
        b.add_content(path.clone(), text);
    }
    if ok {
        ok = crate::store_ops::path_results(&a.validate()) == crate::store_ops::path_results(&b.validate());
    }
    let _ = std::fs::remove_dir_all(&dir);
    ok
}

/// Every file parsed ALONE, each by a parser that never held anything else, each on a thread of its own (no
/// thread-local left-overs): does the syntax stage of the multi-file parser (`stage1`) hold exactly these?
pub fn solo_same(files: &Files, stage1: &Json) -> bool {
    // the same id twice: the later content wins, as in the parser
    let mut last: Vec<(String, String)> = Vec::new();
    for (id, text) in files {
        last.retain(|e| e.0 != *id);
        last.push((id.clone(), text.clone()));
    }
    let mut all: std::collections::HashMap<String, aidl_parser::ParseFileResult<String>> = std::collections::HashMap::new();
    for (id, text) in last {
        let r = std::thread::spawn(move || {
            let mut q: Parser<String> = Parser::new();
            q.add_content(id.clone(), &text);
            q.verif_parse_results().get(&id).cloned()
        })
        .join();
        match r {
            Ok(Some(fr)) => {
                all.insert(fr.id.clone(), fr);
            }
            _ => return true, // a panic shows up in the main run as well
        }
    }
    dump::results(&all) == *stage1
}

fn text_seed(files: &Files) -> u64 {
    let mut h: u64 = 0xcbf29ce484222325;
    for (id, t) in files {
        for b in id.bytes().chain(t.bytes()) {
            h = (h ^ b as u64).wrapping_mul(0x100000001b3);
        }
    }
    h
}

pub fn impl_validate(files: &Files) -> Json {
    impl_validate_after(files, None)
}

/// as `impl_validate`, but the parser first held `prev` (other contents under the same and other
/// ids, validated once) before it was brought to `files` by replacing / removing / adding: what it
/// reports must depend on its current contents only
pub fn impl_validate_after(files: &Files, prev: Option<&Files>) -> Json {
    mark_current("validate", vec![("files", files_json(files)), ("prev", prev.map(files_json).unwrap_or(Json::Null))]);
    let r = catch_unwind(AssertUnwindSafe(|| {
        let mut p: Parser<String> = Parser::new();
        if let Some(prev) = prev {
            for (id, text) in prev {
                p.add_content(id.clone(), text);
            }
            let _ = p.validate();
            for (id, _) in prev {
                if !files.iter().any(|(i, _)| i == id) {
                    p.remove_content(id.clone());
                }
            }
        }
        for (id, text) in files {
            p.add_content(id.clone(), text);
        }
        let stage1 = dump::results(p.verif_parse_results());
        let mut keys: Vec<(String, &'static str)> =
            p.verif_item_keys().iter().map(|(k, v)| (k.clone(), dump::rkind(v))).collect();
        keys.sort();
        let out = p.validate();
        // C01: one result per id, each tagged with its own id
        let mut tags_ok = out.len() == p.verif_parse_results().len();
        for (k, v) in out.iter() {
            if *k != v.id || !p.verif_parse_results().contains_key(k) {
                tags_ok = false;
            }
        }
        let out_json = dump::results(&out);
        // one case in three: the same contents reached through a history must give the same answers
        let sd = text_seed(files);
        let (history_same, history_ops) = if sd % 3 == 0 {
            let (s1h, oh, ops) = through_history(files, sd);
            (s1h == stage1 && oh == out_json, ops)
        } else {
            (true, Json::Null)
        };
        let solo = if sd % 3 == 1 && files.len() > 1 { solo_same(files, &stage1) } else { true };
        let fsame = if sd % 4 == 2 || files.iter().any(|f| f.1.len() > 4000) { file_same(files, sd) } else { true };
        Json::obj(vec![
            ("outcome", Json::s("ok")),
            ("file_same", Json::Bool(fsame)),
            ("solo_same", Json::Bool(solo)),
            ("stage1", stage1),
            ("keys", Json::Arr(keys.into_iter().map(|(k, v)| Json::Arr(vec![Json::s(k), Json::s(v)])).collect())),
            ("history_same", Json::Bool(history_same)),
            ("history_ops", history_ops),
            ("out", out_json),
            ("tags_ok", Json::Bool(tags_ok)),
        ])
    }));
    match r {
        Ok(j) => j,
        Err(e) => Json::obj(vec![("outcome", Json::s("panic")), ("msg", Json::s(panic_msg(e)))]),
    }
}

/// validate the project, then report what the traversal / symbol API says about every file
pub fn impl_walk(files: &Files, with_positions: bool) -> Json {
    mark_current("walk", vec![("files", files_json(files))]);
    let r = catch_unwind(AssertUnwindSafe(|| {
        let mut p: Parser<String> = Parser::new();
        for (id, text) in files {
            p.add_content(id.clone(), text);
        }
        let stage1 = dump::results(p.verif_parse_results());
        let out = p.validate();
        let mut ids: Vec<&String> = out.keys().collect();
        ids.sort();
        let mut walks = Vec::new();
        for id in ids {
            let fr = &out[id];
            let text = &files.iter().find(|(i, _)| i == id).unwrap().1;
            if let Some(a) = &fr.ast {
                walks.push(Json::Arr(vec![Json::s(id.clone()), crate::walk::walk_file(a, text, with_positions)]));
            }
        }
        let solo = solo_same(files, &stage1);
        Json::obj(vec![
            ("outcome", Json::s("ok")),
            ("solo_same", Json::Bool(solo)),
            ("stage1", stage1),
            ("out", dump::results(&out)),
            ("walks", Json::Arr(walks)),
        ])
    }));
    match r {
        Ok(j) => j,
        Err(e) => Json::obj(vec![("outcome", Json::s("panic")), ("msg", Json::s(panic_msg(e)))]),
    }
}

pub fn walk_case(files: &Files, with_positions: bool) -> Vec<(&'static str, Json)> {
    vec![
        ("op", Json::s("walk")),
        ("files", files_json(files)),
        ("lc", lc_of(files)),
        ("positions", Json::Bool(with_positions)),
        ("impl", impl_walk(files, with_positions)),
    ]
}

/// C19: every tree (syntax stage and validated) through a RON round trip, plus the log of the
/// fields the derived `Serialize` actually emits
pub fn impl_serde(files: &Files) -> Json {
    mark_current("serde", vec![("files", files_json(files))]);
    let r = catch_unwind(AssertUnwindSafe(|| {
        let mut p: Parser<String> = Parser::new();
        for (id, text) in files {
            p.add_content(id.clone(), text);
        }
        let out = p.validate();
        let mut ids: Vec<&String> = out.keys().collect();
        ids.sort();
        let mut trees = Vec::new();
        let mut check = |id: &str, stage: &str, a: &aidl_parser::ast::Aidl, trees: &mut Vec<Json>| {
            let text = ron::to_string(a);
            let (rt_ok, err) = match &text {
                Ok(t) => match ron::from_str::<aidl_parser::ast::Aidl>(t) {
                    Ok(b) => (&b == a, String::new()),
                    Err(e) => (false, format!("deserialise: {}", e)),
                },
                Err(e) => (false, format!("serialise: {}", e)),
            };
            let log = crate::serde_rec::record(a).unwrap_or_default();
            trees.push(Json::obj(vec![
                ("id", Json::s(id)),
                ("stage", Json::s(stage)),
                ("ast", dump::aidl(a)),
                ("roundtrip_equal", Json::Bool(rt_ok)),
                ("error", Json::s(err)),
                ("ron", Json::s(if rt_ok { String::new() } else { text.unwrap_or_default() })),
                (
                    "emitted",
                    Json::Arr(
                        log.into_iter()
                            .map(|(n, fs)| Json::Arr(vec![Json::s(n), Json::Arr(fs.into_iter().map(Json::s).collect())]))
                            .collect(),
                    ),
                ),
            ]));
        };
        for id in ids {
            if let Some(a) = &p.verif_parse_results()[id].ast {
                check(id, "parsed", a, &mut trees);
            }
            if let Some(a) = &out[id].ast {
                check(id, "validated", a, &mut trees);
            }
        }
        Json::obj(vec![("outcome", Json::s("ok")), ("trees", Json::Arr(trees))])
    }));
    match r {
        Ok(j) => j,
        Err(e) => Json::obj(vec![("outcome", Json::s("panic")), ("msg", Json::s(panic_msg(e)))]),
    }
}

/// (offset, line, column) of every character boundary of the text, from the same crate the
/// library uses (grapheme clusters)
pub fn lc_table(text: &str) -> Json {
    let lookup = line_col::LineColLookup::new(text);
    let mut offs: Vec<usize> = text.char_indices().map(|(i, _)| i).collect();
    offs.push(text.len());
    Json::Arr(
        offs.into_iter()
            .map(|o| {
                let lc = lookup.get_by_cluster(o);
                Json::Arr(vec![Json::n(o), Json::n(lc.0), Json::n(lc.1)])
            })
            .collect(),
    )
}

/// the generator's expectations about names and extents, in byte offsets of the laid-out text
pub fn spans_json(rd: &doc::Rendered, laid: &doc::Laid) -> Json {
    let ts = &laid.tok_spans;
    Json::Arr(
        rd.spans
            .iter()
            .map(|sp| {
                let has_name = sp.name_first <= sp.name_last && sp.name_last < ts.len();
                // end of the last annotation token (the full range may start anywhere from there on)
                let ann_end = if sp.has_ann && sp.first > 0 { Json::n(ts[sp.first - 1].1) } else { Json::Null };
                Json::obj(vec![
                    ("what", Json::s(sp.what)),
                    ("name", Json::s(sp.name.clone())),
                    ("ns", if has_name { Json::n(ts[sp.name_first].0) } else { Json::Null }),
                    ("ne", if has_name { Json::n(ts[sp.name_last].1) } else { Json::Null }),
                    ("first", Json::n(ts[sp.first.min(ts.len() - 1)].0)),
                    ("last_end", Json::n(ts[sp.last.min(ts.len() - 1)].1)),
                    ("term_end", sp.terminator.map(|t| Json::n(ts[t].1)).unwrap_or(Json::Null)),
                    ("ann_end", ann_end),
                ])
            })
            .collect(),
    )
}

/// the syntax stage alone: what `add_content` stores for each text
pub fn parse_case(files: &Files, extra: Vec<(&'static str, Json)>) -> Vec<(&'static str, Json)> {
    mark_current("parse", vec![("files", files_json(files))]);
    let r = catch_unwind(AssertUnwindSafe(|| {
        let mut p: Parser<String> = Parser::new();
        for (id, text) in files {
            p.add_content(id.clone(), text);
        }
        let out = p.validate();
        let mut tags_ok = out.len() == p.verif_parse_results().len();
        for (k, v) in out.iter() {
            if *k != v.id {
                tags_ok = false;
            }
        }
        let stage1 = dump::results(p.verif_parse_results());
        let out_json = dump::results(&out);
        let sd = text_seed(files);
        let (history_same, history_ops) = if sd % 3 == 0 {
            let (s1h, oh, ops) = through_history(files, sd);
            (s1h == stage1 && oh == out_json, ops)
        } else {
            (true, Json::Null)
        };
        // one case in four: the same texts read from disk
        let fsame = if sd % 4 == 2 || files.iter().any(|f| f.1.len() > 4000) { file_same(files, sd) } else { true };
        Json::obj(vec![
            ("outcome", Json::s("ok")),
            ("stage1", stage1),
            ("out", out_json),
            ("tags_ok", Json::Bool(tags_ok)),
            ("history_same", Json::Bool(history_same)),
            ("history_ops", history_ops),
            ("file_same", Json::Bool(fsame)),
        ])
    }));
    let imp = match r {
        Ok(j) => j,
        Err(e) => Json::obj(vec![("outcome", Json::s("panic")), ("msg", Json::s(panic_msg(e)))]),
    };
    let mut v = vec![
        ("op", Json::s("parse")),
        ("files", files_json(files)),
        ("lc", Json::Arr(files.iter().map(|(id, t)| Json::Arr(vec![Json::s(id.clone()), lc_table(t)])).collect())),
        ("impl", imp),
    ];
    v.extend(extra);
    v
}

/// line / column of every character boundary of every file (the `line-col` crate's answer: the truth the
/// positions of the implementation's trees and diagnostics are compared with)
pub fn lc_of(files: &Files) -> Json {
    Json::Arr(files.iter().map(|(id, t)| Json::Arr(vec![Json::s(id.clone()), lc_table(t)])).collect())
}

pub fn validate_case(files: &Files) -> Vec<(&'static str, Json)> {
    vec![("op", Json::s("validate")), ("files", files_json(files)), ("lc", lc_of(files)), ("impl", impl_validate(files))]
}

/// what the syntax stage must have read from documents generated from `proj` (position-erased trees)
pub fn expect_sx_of(proj: &[(String, doc::Doc)]) -> Json {
    Json::Arr(proj.iter().map(|(id, d)| Json::obj(vec![("id", Json::s(id.clone())), ("sx", Json::s(doc::sx_doc(d)))])).collect())
}

pub fn validate_case_after(files: &Files, prev: &Files) -> Vec<(&'static str, Json)> {
    vec![
        ("op", Json::s("validate")),
        ("files", files_json(files)),
        ("lc", lc_of(files)),
        ("prev", files_json(prev)),
        ("impl", impl_validate_after(files, Some(prev))),
    ]
}

/// source text of a type of each of the 17 categories (given `CATEGORY_PRELUDE` and `category_defs`)
pub const CATEGORY_TYPES: &[(&str, &str)] = &[
    ("primitive", "int"),
    ("void", "void"),
    ("string", "String"),
    ("char_sequence", "CharSequence"),
    ("array", "int[]"),
    ("list", "List<String>"),
    ("map", "Map<String, String>"),
    ("ibinder", "IBinder"),
    ("file_descriptor", "FileDescriptor"),
    ("parcel_file_descriptor", "ParcelFileDescriptor"),
    ("parcelable_holder", "ParcelableHolder"),
    ("parcelable", "Parc"),
    ("interface", "IFace"),
    ("enum", "En"),
    ("fwd", "Fwd"),
    ("unknown_import", "Unknown"),
    ("unresolved", "Nope"),
];

pub const CATEGORY_PRELUDE: &str =
    "import d.IFace;\nimport d.Parc;\nimport d.En;\nimport u.Unknown;\nparcelable Fwd;";

pub fn category_defs() -> Files {
    vec![
        ("d_iface".to_owned(), "package d;\ninterface IFace {}\n".to_owned()),
        ("d_parc".to_owned(), "package d;\nparcelable Parc {}\n".to_owned()),
        ("d_en".to_owned(), "package d;\nenum En { A }\n".to_owned()),
    ]
}

struct Emitter<'a> {
    suite: String,
    n: usize,
    emit: &'a mut dyn FnMut(String),
}

impl<'a> Emitter<'a> {
    fn case(&mut self, seed: u64, mut fields: Vec<(&'static str, Json)>) {
        let mut v = vec![("case", Json::n(self.n)), ("seed", Json::Num(seed)), ("suite", Json::s(self.suite.clone()))];
        v.append(&mut fields);
        (self.emit)(Json::obj(v).to_string());
        self.n += 1;
    }
}

pub fn render_project(proj: &[(String, doc::Doc)], style: LayoutStyle, rng: &mut Rng) -> Files {
    let mut files: Files = proj
        .iter()
        .map(|(id, d)| {
            let r = doc::render(d);
            (id.clone(), doc::layout(&r.toks, style, rng).text)
        })
        .collect();
    // now and then the project also holds a file that does not parse (no tree, or a tree after error recovery),
    // added before, between or after the others: it defines nothing and must not disturb anything
    if !files.is_empty() && rng.chance(1, 4) {
        const BROKEN: &[&str] = &[
            "// TODO\n$ x",
            "$",
            "package ;",
            "package a.b; interface {",
            "import ;\npackage a; parcelable Foo {}",
            "package a.b;\ninterface Foo { void f(in ; }\n",
            "package a;\nparcelable Foo { int x; } trailing",
            "package p;\n\n\n   é $",
            "",
        ];
        // half of them: the error at byte offset 8 of a second line, where `package x` has its name in a plain layout
        const AT8: &[&str] = &["// TODO\n$ x", "/* c */\n$", "//34567\n#", "\n\n\n\n\n\n\n\n$"];
        let text = if rng.chance(1, 2) { (*rng.pick(AT8)).to_owned() } else { (*rng.pick(BROKEN)).to_owned() };
        let at = rng.below(files.len() + 1);
        files.insert(at, ("zbroken".to_owned(), text));
    }
    files
}

pub fn run(suite: &str, thorough: bool, seed: u64, shard: usize, nshards: usize, emit: &mut dyn FnMut(String)) {
    let mut em = Emitter { suite: suite.to_owned(), n: 0, emit };
    let mut rng = Rng::new(seed.wrapping_mul(0x1000_0000_01B3).wrapping_add(shard as u64));
    // random suites: each shard runs its share; exhaustive suites: indices congruent to the shard
    // the thorough tier multiplies every random suite (VERIF_THOROUGH_SCALE, default 4)
    let scale: usize = if thorough { std::env::var("VERIF_THOROUGH_SCALE").ok().and_then(|v| v.parse().ok()).unwrap_or(4) } else { 1 };
    let share = |total: usize| -> usize { (total * scale + nshards - 1) / nshards };
    let mine = |idx: usize| -> bool { idx % nshards == shard };
    let _ = &mine;
    match suite {
        // random multi-file projects, validated
        "proj" => {
            let n = share(if thorough { 20000 } else { 400 });
            for _ in 0..n {
                let s = rng.next();
                let mut r = Rng::new(s);
                let cfg = gen::DocCfg { docs: false, ..Default::default() };
                let proj = gen::gen_project(&mut r, &cfg);
                let style = if r.chance(1, 4) { LayoutStyle::Wild } else { LayoutStyle::Plain };
                // what a file imports was once defined by an id whose content is replaced LAST by a text without a tree:
                // the definition is gone with it (nothing added afterwards refreshes anything)
                let all_imports: Vec<Vec<String>> = proj.iter().flat_map(|(_, d)| d.imports.iter().cloned()).filter(|i| i.len() > 1).collect();
                if !all_imports.is_empty() && r.chance(1, 8) {
                    let imp = r.pick(&all_imports).clone();
                    let kind = *r.pick(&["parcelable", "interface", "enum"]);
                    let body = if kind == "enum" { "{ A }" } else { "{}" };
                    let definer = format!("package {};\n{} {} {}\n", imp[..imp.len() - 1].join("."), kind, imp[imp.len() - 1], body);
                    let prev: Files = vec![("zlast".to_owned(), definer)];
                    let mut files = render_project(&proj, style, &mut r);
                    files.push(("zlast".to_owned(), (*r.pick(&["$", "package ;", "package a.b; interface {", ""])).to_owned()));
                    let mut c = validate_case_after(&files, &prev);
                    c.push(("expect_sx", expect_sx_of(&proj)));
                    em.case(s, c);
                    continue;
                }
                if r.chance(1, 4) {
                    // the parser held other contents under the same ids before: another project,
                    // or (mostly) THIS project before some of its items were renamed / moved to
                    // another package / changed kind and one file was dropped — references that
                    // resolved before must not resolve to what is no longer there
                    if r.chance(1, 4) {
                        let files = render_project(&proj, style, &mut r);
                        let prev_proj = gen::gen_project(&mut r, &cfg);
                        let prev = render_project(&prev_proj, LayoutStyle::Plain, &mut r);
                        let mut c = validate_case_after(&files, &prev);
                        c.push(("expect_sx", expect_sx_of(&proj)));
                        em.case(s, c);
                    } else {
                        let prev = render_project(&proj, LayoutStyle::Plain, &mut r);
                        let mut now = proj.clone();
                        for (_, d) in now.iter_mut() {
                            match r.below(4) {
                                0 => {
                                    let kind = gen::gen_kind(&mut r);
                                    let name = d.item.name.clone();
                                    d.item = gen::gen_item(&mut r, &cfg, &gen::TypePool::default_pool(), kind, &name);
                                }
                                1 => d.item.name = format!("{}New", d.item.name),
                                2 => d.package.push("moved".to_owned()),
                                _ => {}
                            }
                        }
                        if now.len() > 1 && r.chance(1, 3) {
                            let k = r.below(now.len());
                            now.remove(k);
                        }
                        let files = render_project(&now, style, &mut r);
                        let mut c = validate_case_after(&files, &prev);
                        c.push(("expect_sx", expect_sx_of(&now)));
                        em.case(s, c);
                    }
                } else {
                    let files = render_project(&proj, style, &mut r);
                    let mut c = validate_case(&files);
                    c.push(("expect_sx", expect_sx_of(&proj)));
                    em.case(s, c);
                }
            }
        }
        // C07: exhaustive 17 categories x 4 directions x method oneway x interface oneway x position
        "dirs" => {
            let mut idx = 0usize;
            for (_cname, ty) in CATEGORY_TYPES {
                for dir in ["", "in ", "out ", "inout "] {
                    for mo in [false, true] {
                        for io in [false, true] {
                            for pos in 0..3usize {
                                idx += 1;
                                if !mine(idx) {
                                    continue;
                                }
                                let mut args: Vec<String> = Vec::new();
                                for k in 0..3usize {
                                    if k == pos {
                                        args.push(format!("{}{} a{}", dir, ty, k));
                                    } else if k < pos || pos == 1 {
                                        args.push(format!("int a{}", k));
                                    }
                                }
                                let main = format!(
                                    "package m;\n{}\n{}interface Main {{\n    {}void f({});\n}}\n",
                                    CATEGORY_PRELUDE,
                                    if io { "oneway " } else { "" },
                                    if mo { "oneway " } else { "" },
                                    args.join(", ")
                                );
                                let mut files = category_defs();
                                files.push(("main".to_owned(), main));
                                em.case(idx as u64, validate_case(&files));
                            }
                        }
                    }
                }
            }
        }
        // C10: exhaustive interfaces of up to 2 (quick) / 3 (thorough) methods:
        // interface oneway x per-method oneway x return type over the 17 categories
        "oneway" => {
            let maxm = if thorough { 3 } else { 2 };
            let per = CATEGORY_TYPES.len() * 2;
            let mut idx = 0usize;
            for io in [false, true] {
                for nm in 1..=maxm {
                    let total = per.pow(nm as u32);
                    for code in 0..total {
                        idx += 1;
                        if !mine(idx) {
                            continue;
                        }
                        let mut c = code;
                        let mut body = String::new();
                        for k in 0..nm {
                            let sel = c % per;
                            c /= per;
                            let (mo, ty) = (sel % 2 == 1, CATEGORY_TYPES[sel / 2].1);
                            if k == 1 {
                                body.push_str("    const int C = 1;\n");
                            }
                            // every third case repeats the name of the first method
                            let name = if idx % 3 == 0 { 0 } else { k };
                            body.push_str(&format!("    {}{} m{}(int a);\n", if mo { "oneway " } else { "" }, ty, name));
                        }
                        let main = format!(
                            "package m;\n{}\n{}interface Main {{\n{}}}\n",
                            CATEGORY_PRELUDE,
                            if io { "oneway " } else { "" },
                            body
                        );
                        let mut files = category_defs();
                        files.push(("main".to_owned(), main));
                        em.case(idx as u64, validate_case(&files));
                    }
                }
            }
        }
        // C09: exhaustive method sequences over 3 names x {no code, 3 codes}, constants interleaved
        "ids" => {
            let maxm = if thorough { 5 } else { 3 };
            let names = ["a", "b", "c"];
            let codes = ["", " = 1", " = 2", " = 01"];
            let per = names.len() * codes.len();
            let mut idx = 0usize;
            for nm in 1..=maxm {
                let total = per.pow(nm as u32);
                for code in 0..total {
                    idx += 1;
                    if !mine(idx) {
                        continue;
                    }
                    let mut c = code;
                    let mut body = String::new();
                    let mut expect: Vec<Json> = Vec::new();
                    for k in 0..nm {
                        let sel = c % per;
                        c /= per;
                        if (code + k) % 4 == 1 {
                            body.push_str(&format!("    const int K{} = {};\n", k, k));
                        }
                        body.push_str(&format!("    void {}(){};\n", names[sel % 3], codes[sel / 3]));
                        let ec = match sel / 3 { 0 => Json::Null, 1 | 3 => Json::n(1), _ => Json::n(2) };
                        expect.push(Json::Arr(vec![Json::s(names[sel % 3]), ec]));
                    }
                    let main = format!("package m;\ninterface Main {{\n{}}}\n", body);
                    let mut cse = validate_case(&vec![("main".to_owned(), main)]);
                    cse.push(("expect_codes", Json::Arr(expect)));
                    em.case(idx as u64, cse);
                }
            }
            // random longer sequences with large and zero-padded codes
            let n = share(if thorough { 20000 } else { 300 });
            for _ in 0..n {
                let sd = rng.next();
                let mut r = Rng::new(sd);
                let len = r.range(4, 12);
                let mut body = String::new();
                let mut expect: Vec<Json> = Vec::new();
                for _ in 0..len {
                    // (source text of the code, the value the tree must hold)
                    let (code, ec): (String, Json) = match r.below(9) {
                        0 => (" = 4294967295".to_owned(), Json::Num(4294967295)),
                        1 => (" = 4294967296".to_owned(), Json::Null), // does not fit u32: Error, counts as absent
                        2 => {
                            let k = r.below(3);
                            (format!(" = 000{}", k), Json::n(k))
                        }
                        3 | 4 => {
                            let k = r.below(4);
                            (format!(" = {}", k), Json::n(k))
                        }
                        5 => (" = 2147483648".to_owned(), Json::Num(2147483648)), // beyond i32, inside u32
                        6 => (" = 3000000000".to_owned(), Json::Num(3000000000)),
                        _ => (String::new(), Json::Null),
                    };
                    if r.chance(1, 5) {
                        body.push_str(&format!("    const int K{} = 1;\n", r.below(3)));
                    }
                    let nm = *r.pick(&["a", "b", "c", "d", "e", "f"]);
                    body.push_str(&format!("    void {}(){};\n", nm, code));
                    expect.push(Json::Arr(vec![Json::s(nm), ec]));
                }
                let main = format!("package m;\ninterface Main {{\n{}}}\n", body);
                let mut cse = validate_case(&vec![("main".to_owned(), main)]);
                cse.push(("expect_codes", Json::Arr(expect)));
                em.case(sd, cse);
            }
        }
        // C08: exhaustive container shapes over the 17 leaf categories, in every syntactic position
        "containers" => {
            let leaves: Vec<String> = CATEGORY_TYPES.iter().map(|(_, t)| (*t).to_owned()).collect();
            // depth-1 shapes
            let mut d1: Vec<String> = vec!["List".to_owned(), "Map".to_owned()];
            for l in &leaves {
                d1.push(format!("{}[]", l));
                d1.push(format!("List<{}>", l));
                for k in ["String", "int", "List"] {
                    d1.push(format!("Map<{}, {}>", k, l));
                }
            }
            let mut shapes: Vec<String> = leaves.clone();
            shapes.extend(d1.iter().cloned());
            let mut d2: Vec<String> = Vec::new();
            for s1 in &d1 {
                d2.push(format!("{}[]", s1));
                d2.push(format!("List<{}>", s1));
                d2.push(format!("Map<String, {}>", s1));
                d2.push(format!("Map<{}, String>", s1));
            }
            shapes.extend(d2.iter().cloned());
            if thorough {
                // depth 3 with restricted keys
                for s2 in &d2 {
                    shapes.push(format!("{}[]", s2));
                    shapes.push(format!("List<{}>", s2));
                    shapes.push(format!("Map<String, {}>", s2));
                }
            }
            let mut idx = 0usize;
            for sh in &shapes {
                for pos in 0..4usize {
                    idx += 1;
                    if !mine(idx) {
                        continue;
                    }
                    let item = match pos {
                        0 => format!("parcelable Main {{\n    {} f;\n}}\n", sh),
                        1 => format!("interface Main {{\n    {} f();\n}}\n", sh),
                        2 => format!("interface Main {{\n    void f(int a, in {} b);\n}}\n", sh),
                        _ => format!("interface Main {{\n    const {} C = 1;\n    void g();\n}}\n", sh),
                    };
                    let main = format!("package m;\n{}\n{}", CATEGORY_PRELUDE, item);
                    let mut files = category_defs();
                    files.push(("main".to_owned(), main));
                    em.case(idx as u64, validate_case(&files));
                }
            }
        }
        // C15/C16/C17: traversal, position lookup and names over validated random projects
        "walk" | "walkpos" => {
            let n = share(if thorough { 4000 } else if suite == "walk" { 480 } else { 120 });
            for _ in 0..n {
                let s = rng.next();
                let mut r = Rng::new(s);
                let cfg = gen::DocCfg { docs: r.chance(1, 3), max_members: 4, ..Default::default() };
                let mut proj = gen::gen_project(&mut r, &cfg);
                if suite == "walkpos" {
                    proj.truncate(2);
                }
                let style = match r.below(3) {
                    0 => LayoutStyle::Plain,
                    1 => LayoutStyle::Wild,
                    _ => LayoutStyle::Tight,
                };
                let files = render_project(&proj, style, &mut r);
                let mut c = walk_case(&files, suite == "walkpos");
                c.push(("expect_sx", expect_sx_of(&proj)));
                em.case(s, c);
            }
        }
        // C11: determinism over fresh seeds / insertion orders / threads
        "determinism" => {
            let n = share(if thorough { 6000 } else { 150 });
            for i in 0..n {
                let s = rng.next();
                let mut r = Rng::new(s);
                let cfg = gen::DocCfg { docs: false, ..Default::default() };
                let mut proj = gen::gen_project(&mut r, &cfg);
                let mut files = render_project(&proj, if i % 3 == 0 { LayoutStyle::Tight } else { LayoutStyle::Plain }, &mut r);
                if i % 4 == 1 {
                    // several imports / declarations on one line, ambiguous imports, duplicate keys
                    let extra = "package a;\nimport a.Foo; import b.Foo; import a.Foo.Foo; import c.Unknown; import android.os.IBinder; parcelable Foo; parcelable X; parcelable Y;\ninterface Dup { void f(Foo a, X b, Y c, IBinder d, a.Foo e, Foo.Foo g); }\n";
                    files.push(("extra".to_owned(), extra.to_owned()));
                    files.push(("dup1".to_owned(), "package a;\ninterface Foo {}\n".to_owned()));
                    files.push(("dup2".to_owned(), "package a;\nenum Foo { A }\n".to_owned()));
                    files.push(("dup3".to_owned(), "package a;\nparcelable Foo {}\n".to_owned()));
                    files.push(("broken".to_owned(), "package a;\ninterface Broken { void f( ; oops\n".to_owned()));
                }
                if i % 4 == 2 {
                    // many diagnostics in one file (more than 20), several of them hash-ordered import
                    // warnings, and pairs that start at the same offset (`List x`: raw list + missing direction)
                    let mut big = String::from("package big;\n");
                    let nimp = r.range(18, 30);
                    for k in 0..nimp {
                        big.push_str(&format!("import u{}.Unknown{};\n", k % 7, k));
                    }
                    big.push_str("interface Big {\n");
                    for k in 0..r.range(3, 8) {
                        big.push_str(&format!("    void m{}(List x, Map y);\n", k));
                    }
                    big.push_str("}\n");
                    files.push(("big".to_owned(), big));
                }
                proj.clear();
                em.case(s, crate::store_ops::determinism_case(&files, &mut r));
            }
        }
        // C12: operation histories; exhaustive short ones over 3 ids x 4 contents, random long ones
        "history" => {
            use crate::store_ops::HOp;
            let dir = std::env::temp_dir().join(format!("aidl-verif-{}-{}", std::process::id(), shard));
            std::fs::create_dir_all(&dir).unwrap();
            let contents = [
                "package p;\ninterface A { void f(in Q q); }\n",
                "package p;\nimport p.A;\nparcelable Q { A a; }\n",
                "package p;\nimport p.Q;\nimport p.A;\nenum A { X }\n",
                "package p;\ninterface Broken {\n",
            ];
            let ids = ["i1", "i2", "i3"];
            // alphabet of single operations
            let mut alphabet: Vec<HOp> = Vec::new();
            for id in ids {
                for c in contents {
                    alphabet.push(HOp::Add(id.to_owned(), c.to_owned()));
                }
                alphabet.push(HOp::Remove(id.to_owned()));
            }
            alphabet.push(HOp::Validate);
            alphabet.push(HOp::AddFile("f_ok.aidl".to_owned(), Some(contents[1].as_bytes().to_vec())));
            // the same file through a path with a `..` component: a different id (ids are never normalised)
            std::fs::create_dir_all(dir.join("sub")).unwrap();
            alphabet.push(HOp::AddFile("sub/../f_ok.aidl".to_owned(), Some(contents[0].as_bytes().to_vec())));
            alphabet.push(HOp::AddFile("f_missing.aidl".to_owned(), None));
            alphabet.push(HOp::AddFile("f_bad.aidl".to_owned(), Some(vec![0x70, 0xff, 0xfe, 0x20])));
            // a file that starts with a byte-order mark is read as it is (the mark is not white space for the lexer)
            alphabet.push(HOp::AddFile("f_bom.aidl".to_owned(), Some(format!("{}{}", '\u{FEFF}', contents[0]).into_bytes())));
            let a = alphabet.len();
            let maxlen = if thorough { 4 } else { 3 };
            let mut idx = 0usize;
            for len in 1..=maxlen {
                let total = a.pow(len as u32);
                // quick: sample the length-3 space
                let stride = if !thorough && len == 3 { 7 } else if thorough && len == 4 { 5 } else { 1 };
                let mut code = 0usize;
                while code < total {
                    idx += 1;
                    if mine(idx) {
                        let mut c = code;
                        let mut ops = Vec::new();
                        for _ in 0..len {
                            ops.push(alphabet[c % a].clone());
                            c /= a;
                        }
                        em.case(code as u64, crate::store_ops::history_case(&ops, &dir));
                    }
                    code += stride;
                }
            }
            // three files in place (every combination of the three well-formed contents: same qualified
            // name defined twice with different kinds, importers of it), then every single operation
            for x in 0..3usize {
                for y in 0..3usize {
                    for z in 0..3usize {
                        for last in alphabet.iter() {
                            idx += 1;
                            if mine(idx) {
                                let ops = vec![
                                    HOp::Add("i1".to_owned(), contents[x].to_owned()),
                                    HOp::Add("i2".to_owned(), contents[y].to_owned()),
                                    HOp::Add("i3".to_owned(), contents[z].to_owned()),
                                    last.clone(),
                                ];
                                em.case((1000000 + idx) as u64, crate::store_ops::history_case(&ops, &dir));
                            }
                        }
                    }
                }
            }
            // add_file over the size range of I/O buffers: valid UTF-8 files of about 20 KiB and 140 KiB whose
            // middle is filled with 2-, 3- or 4-byte characters at every alignment, so that every power-of-two
            // offset from 4 KiB to 128 KiB falls inside some character (a reader that decodes block-wise fails)
            for (w, ch) in [(2usize, "é"), (3, "日"), (4, "🎉")] {
                for align in 0..w {
                    for target in [20 * 1024usize, 140 * 1024] {
                        idx += 1;
                        if !mine(idx) {
                            continue;
                        }
                        let head = format!("package p;\n/* {}", "x".repeat(align));
                        let tail = " */\ninterface A { void f(in Q q); }\n";
                        let mut text = String::with_capacity(target + 64);
                        text.push_str(&head);
                        // make the first filler character start at an offset congruent to `align` modulo w
                        while text.len() % w != align {
                            text.push('y');
                        }
                        while text.len() + tail.len() < target {
                            text.push_str(ch);
                        }
                        text.push_str(tail);
                        let ops = vec![
                            HOp::Add("i2".to_owned(), contents[1].to_owned()),
                            HOp::AddFile("big.aidl".to_owned(), Some(text.into_bytes())),
                            HOp::Validate,
                        ];
                        em.case((2000000 + idx) as u64, crate::store_ops::history_case(&ops, &dir));
                    }
                }
            }
            // replace a big content by one of the same length that differs only near its end (a change
            // detector that samples the head, a length, or a truncated hash would miss it)
            for size in [3000usize, 5000, 9000, 17000, 70000, 140000] {
                idx += 1;
                if !mine(idx) {
                    continue;
                }
                let mk = |last: &str| -> String {
                    let mut t = String::from("package p;\ninterface A {\n");
                    let mut k = 0usize;
                    while t.len() < size {
                        t.push_str(&format!("    void m{}(in int a);\n", k));
                        k += 1;
                    }
                    t.push_str(&format!("    void {}(in Q q);\n}}\n", last));
                    t
                };
                let (c1, c2) = (mk("tailA"), mk("tailB"));
                let ops = vec![
                    HOp::Add("i1".to_owned(), c1.clone()),
                    HOp::Validate,
                    HOp::Add("i1".to_owned(), c2.clone()),
                    HOp::AddFile("big2.aidl".to_owned(), Some(c1.into_bytes())),
                    HOp::AddFile("big2.aidl".to_owned(), Some(c2.into_bytes())),
                ];
                em.case((3000000 + idx) as u64, crate::store_ops::history_case(&ops, &dir));
            }
            // two contents with the SAME tree, ranges included, that differ in a recovered syntax error only
            // (a stray `;`, a stray `,`, a blank): replacing one by the other must replace the diagnostics too
            {
                let variants = [
                    "package p;\ninterface A { void f(in Q q); ; }\n",
                    "package p;\ninterface A { void f(in Q q);   }\n",
                    "package p;\ninterface A { void f(in Q q); , }\n",
                ];
                for x in 0..3usize {
                    for y in 0..3usize {
                        if x == y {
                            continue;
                        }
                        idx += 1;
                        if !mine(idx) {
                            continue;
                        }
                        let ops = vec![
                            HOp::Add("i1".to_owned(), variants[x].to_owned()),
                            HOp::Validate,
                            HOp::Add("i1".to_owned(), variants[y].to_owned()),
                        ];
                        em.case((4000000 + idx) as u64, crate::store_ops::history_case(&ops, &dir));
                    }
                }
            }
            // random long histories over generated projects
            let n = share(if thorough { 3000 } else { 60 });
            for _ in 0..n {
                let s = rng.next();
                let mut r = Rng::new(s);
                let cfg = gen::DocCfg { docs: false, max_members: 3, ..Default::default() };
                let proj = gen::gen_project(&mut r, &cfg);
                let files = render_project(&proj, LayoutStyle::Plain, &mut r);
                let len = r.range(5, 40);
                let mut ops = Vec::new();
                for _ in 0..len {
                    let f = r.pick(&files).clone();
                    let id = format!("id{}", r.below(4));
                    ops.push(match r.below(10) {
                        0..=4 => HOp::Add(id, f.1),
                        5 | 6 => HOp::Remove(id),
                        7 => HOp::Validate,
                        8 => HOp::AddFile(format!("g{}.aidl", r.below(2)), if r.chance(2, 3) { Some(f.1.into_bytes()) } else { None }),
                        _ => HOp::AddFile("bad.aidl".to_owned(), Some(vec![0xc3, 0x28])),
                    });
                }
                em.case(s, crate::store_ops::history_case(&ops, &dir));
            }
            let _ = std::fs::remove_dir_all(&dir);
        }
        // C13: single-file perturbations of the rest of the project
        "perturb" => {
            let n = share(if thorough { 6000 } else { 600 });
            for _ in 0..n {
                let s = rng.next();
                let mut r = Rng::new(s);
                let cfg = gen::DocCfg { docs: r.chance(1, 3), ..Default::default() };
                let proj = gen::gen_project(&mut r, &cfg);
                let t = r.below(proj.len());
                let target = proj[t].0.clone();
                let mut proj2 = proj.clone();
                let how;
                let mut relayout = false;
                match r.below(9) {
                    6..=8 if proj.len() > 1 => {
                        // lay the OTHER files out differently (other blanks, line breaks and comments, with
                        // non-ASCII words in them): same documents, so nothing the target depends on changes
                        relayout = true;
                        how = "re-layout other files";
                    }
                    0 => {
                        // add an unrelated file — one time in two its key is a NEAR MISS of something the target imports:
                        // the import's path with a package prefix in front (`x.a.b.C` for `a.b.C`) or without its first
                        // segment (`b.C`); neither is what the target imports
                        let mut d = gen::gen_document(&mut r, &cfg);
                        let timps: Vec<Vec<String>> = proj[t].1.imports.iter().filter(|i| i.len() > 1).cloned().collect();
                        if !timps.is_empty() && r.chance(1, 2) {
                            let imp = r.pick(&timps).clone();
                            let n = imp.len();
                            d.item.name = imp[n - 1].clone();
                            d.package = if n > 2 && r.chance(1, 2) {
                                imp[1..n - 1].to_vec()
                            } else {
                                let mut v = vec![(*r.pick(&["x", "com", "zz"])).to_owned()];
                                v.extend(imp[..n - 1].iter().cloned());
                                v
                            };
                        }
                        proj2.push(("added".to_owned(), d));
                        how = "add file";
                    }
                    1 if proj.len() > 1 => {
                        let mut k = r.below(proj.len());
                        if k == t {
                            k = (k + 1) % proj.len();
                        }
                        proj2.remove(k);
                        how = "remove other file";
                    }
                    2 | 3 if proj.len() > 1 => {
                        // rewrite body / imports / docs of another file keeping package, name and kind
                        let mut k = r.below(proj.len());
                        if k == t {
                            k = (k + 1) % proj.len();
                        }
                        let old = &proj[k].1;
                        let pool = gen::TypePool::default_pool();
                        let mut nd = old.clone();
                        nd.item = gen::gen_item(&mut r, &cfg, &pool, old.item.kind, &old.item.name);
                        nd.imports = (0..r.below(3)).map(|_| gen::gen_import(&mut r, &[])).collect();
                        // its forward declarations change too: some of them name, fully qualified, what the
                        // target file imports (a declaration in ANOTHER file defines nothing)
                        nd.decls = (0..r.below(3)).map(|_| gen::gen_decl(&mut r, &cfg)).collect();
                        for imp in proj[t].1.imports.iter() {
                            if r.chance(1, 2) {
                                nd.decls.push(doc::DeclDoc { annotations: vec![], path: imp.clone() });
                            }
                        }
                        proj2[k].1 = nd;
                        how = "rewrite other file (same package, name, kind)";
                    }
                    4 if proj.len() > 1 => {
                        // negative control: change the kind of another file
                        let mut k = r.below(proj.len());
                        if k == t {
                            k = (k + 1) % proj.len();
                        }
                        let old = &proj[k].1;
                        let pool = gen::TypePool::default_pool();
                        let nk = match old.item.kind {
                            doc::ItemKind::Interface => doc::ItemKind::Parcelable,
                            doc::ItemKind::Parcelable => doc::ItemKind::Enum,
                            doc::ItemKind::Enum => doc::ItemKind::Interface,
                        };
                        let mut nd = old.clone();
                        nd.item = gen::gen_item(&mut r, &cfg, &pool, nk, &old.item.name);
                        proj2[k].1 = nd;
                        how = "change kind of other file (control)";
                    }
                    _ => {
                        // rename another file's id only (ids never influence one another)
                        for (i, e) in proj2.iter_mut().enumerate() {
                            if i != t {
                                e.0 = format!("renamed{}", i);
                            }
                        }
                        how = "rename other ids";
                    }
                }
                // one layout seed per file; a third of the projects in a wild layout (comments with multi-byte
                // words before tokens on the same line)
                let style = if relayout || r.chance(1, 3) { LayoutStyle::Wild } else { LayoutStyle::Plain };
                let base = r.next();
                let lay = |proj: &[(String, doc::Doc)], other_seed: u64| -> Files {
                    proj.iter()
                        .map(|(id, d)| {
                            let sd = if *id == target { base } else { base ^ other_seed };
                            let mut lr = Rng::new(sd.wrapping_add(id.len() as u64));
                            (id.clone(), doc::layout(&doc::render(d).toks, style, &mut lr).text)
                        })
                        .collect()
                };
                let mut f1 = lay(&proj, 0);
                let mut f2 = lay(&proj2, if relayout { 0x9E37_79B9_7F4A_7C15 } else { 0 });
                if r.chance(1, 3) {
                    // both projects also hold a file that does not parse
                    let text = (*r.pick(&["package a.b; interface {", "// TODO\n$ x", "package ;", "$"])).to_owned();
                    f1.insert(0, ("zbroken".to_owned(), text.clone()));
                    f2.insert(0, ("zbroken".to_owned(), text));
                }
                // what the syntax stage must have read in both projects (the implementation's own reading of the OTHER
                // files is not a reference: a re-layout changes nothing, an edit changes exactly what was edited)
                let mut c = crate::store_ops::perturb_case(&f1, &f2, &target, how);
                c.push(("expect_sx", expect_sx_of(&proj)));
                c.push(("expect_sx_b", expect_sx_of(&proj2)));
                em.case(s, c);
            }
        }
        // C20: every proper prefix of generated documents followed by an unacceptable token or
        // end of input, and recovered errors inside mutated documents
        "expected" => {
            let n = share(if thorough { 3000 } else { 60 });
            let bad = [";", "}", ")", "{", "interface", "foo", "123", "@A", "=", ",", "<", ">", "class", "in", "void", "\"s\"", "1.5", ".", "oneway", "List", "[", "true", "\"🎉🎉🎉🎉🎉🎉🎉🎉🎉🎉🎉🎉🎉🎉🎉🎉🎉🎉🎉🎉🎉🎉🎉🎉🎉🎉🎉🎉🎉🎉🎉🎉🎉\"", "a_very_long_identifier_that_goes_on_and_on_and_on_for_more_than_one_hundred_bytes_to_cross_any_small_fixed_buffer_size"];
            for _ in 0..n {
                let sd = rng.next();
                let mut r = Rng::new(sd);
                let cfg = gen::DocCfg { docs: false, max_members: 3, max_depth: 2, ..Default::default() };
                let d = gen::gen_document(&mut r, &cfg);
                let rd = doc::render(&d);
                let mut pairs: Vec<Json> = Vec::new();
                let mut texts: Vec<Json> = Vec::new();
                let _ = aidl_parser::diagnostic::verif_take_expected();
                // spelt like token kinds: lexed as identifiers, rejected wherever no identifier may stand
                let kinds = ["FLOAT", "INTEGER", "INTERFACE", "PACKAGE", "ONEWAY", "ENUM", "PARCELABLE", "IMPORT", "IDENT", "VOID", "PRIMITIVE", "DIRECTION", "ANNOTATION", "CONST", "STRING"];
                let mut run = |text: String, pairs: &mut Vec<Json>, texts: &mut Vec<Json>| -> Option<(Vec<String>, String)> {
                    let res = catch_unwind(AssertUnwindSafe(|| {
                        let mut p: Parser<String> = Parser::new();
                        p.add_content("x".to_owned(), &text);
                    }));
                    let got = aidl_parser::diagnostic::verif_take_expected();
                    if res.is_err() {
                        pairs.push(Json::s("panic"));
                    }
                    let first = got.first().cloned();
                    for (v, m) in got {
                        pairs.push(Json::Arr(vec![Json::Arr(v.into_iter().map(Json::s).collect()), Json::s(m)]));
                    }
                    if texts.len() < 3 {
                        texts.push(Json::s(text));
                    }
                    first
                };
                for k in 0..rd.toks.len() {
                    let prefix = doc::layout(&rd.toks[..k], LayoutStyle::Plain, &mut r).text;
                    // end of input
                    run(prefix.clone(), &mut pairs, &mut texts);
                    // an unacceptable (or acceptable: then no error is reported here) token
                    let b = *r.pick(&bad);
                    let e1 = run(format!("{} {}", prefix, b), &mut pairs, &mut texts);
                    // an identifier spelt like a token kind
                    let b2 = *r.pick(&kinds);
                    let e2 = run(format!("{} {}", prefix, b2), &mut pairs, &mut texts);
                    let _ = (e1, e2);
                }
                // mutated complete documents: recovered errors
                for _ in 0..6 {
                    let mut toks = rd.toks.clone();
                    let i = r.below(toks.len());
                    match r.below(3) {
                        0 => {
                            toks.remove(i);
                        }
                        1 => toks[i].text = (*r.pick(&bad)).to_owned(),
                        _ => toks.insert(i, doc::Tok { text: (*r.pick(&bad)).to_owned(), pre_comment: None }),
                    }
                    run(doc::layout(&toks, LayoutStyle::Plain, &mut r).text, &mut pairs, &mut texts);
                }
                em.case(
                    sd,
                    vec![
                        ("op", Json::s("expected")),
                        ("texts", Json::Arr(texts)),
                        ("impl", Json::obj(vec![("outcome", Json::s("ok")), ("pairs", Json::Arr(pairs))])),
                    ],
                );
            }
        }
        // C20, against the tables: the same kind of texts as parse cases — the messages of the syntax diagnostics
        // must be the ones the model derives from the regenerated tables (what the parser can accept at that point)
        "expectedparse" => {
            let n = share(if thorough { 600 } else { 40 });
            let bad = [";", "}", ")", "{", "interface", "foo", "123", "@A", "=", ",", "<", ">", "class", "in", "void", "\"s\"", "1.5", ".", "oneway", "List", "[", "true", "\"🎉🎉🎉🎉🎉🎉🎉🎉🎉🎉🎉🎉🎉🎉🎉🎉🎉🎉🎉🎉🎉🎉🎉🎉🎉🎉🎉🎉🎉🎉🎉🎉🎉\"", "a_very_long_identifier_that_goes_on_and_on_and_on_for_more_than_one_hundred_bytes_to_cross_any_small_fixed_buffer_size"];
            let kinds = ["FLOAT", "INTEGER", "INTERFACE", "PACKAGE", "ONEWAY", "ENUM", "PARCELABLE", "IMPORT", "IDENT", "VOID", "PRIMITIVE", "DIRECTION", "ANNOTATION", "CONST", "STRING"];
            for _ in 0..n {
                let sd = rng.next();
                let mut r = Rng::new(sd);
                let cfg = gen::DocCfg { docs: false, max_members: 3, max_depth: 2, ..Default::default() };
                let d = gen::gen_document(&mut r, &cfg);
                let rd = doc::render(&d);
                let mut k = r.below(2);
                while k < rd.toks.len() {
                    let prefix = doc::layout(&rd.toks[..k], LayoutStyle::Plain, &mut r).text;
                    let text = match r.below(3) {
                        0 => prefix.clone(),
                        1 => format!("{} {}", prefix, *r.pick(&bad)),
                        _ => format!("{} {}", prefix, *r.pick(&kinds)),
                    };
                    em.case(sd ^ (k as u64), parse_case(&vec![("x".to_owned(), text)], vec![]));
                    k += 2;
                }
            }
        }
        // C19: serde round trip of parsed and validated trees
        "serde" => {
            let n = share(if thorough { 8000 } else { 200 });
            for _ in 0..n {
                let s = rng.next();
                let mut r = Rng::new(s);
                let cfg = gen::DocCfg::default();
                let proj = gen::gen_project(&mut r, &cfg);
                // one project in three in a wild layout: types, names and members spread over lines, multi-byte comments
                // inside them (a serialised position must not assume that a construct stays on its line)
                let style = if r.chance(1, 3) { LayoutStyle::Wild } else { LayoutStyle::Plain };
                let files = render_project(&proj, style, &mut r);
                em.case(s, vec![("op", Json::s("serde")), ("files", files_json(&files)), ("impl", impl_serde(&files))]);
            }
            // the 17 categories and every direction / oneway combination once
            let mut files = category_defs();
            let args: Vec<String> = CATEGORY_TYPES.iter().enumerate().map(|(i, (_, t))| format!("{}{} a{}", ["", "in ", "out ", "inout "][i % 4], t, i)).collect();
            files.push(("main".to_owned(), format!("package m;\n{}\n/** doc */\n@A(x=1) oneway interface Main {{\n    /** d */ oneway void f({}) = 3;\n    void g();\n    const int C = 1;\n}}\n", CATEGORY_PRELUDE, args.join(", "))));
            if mine(0) {
                em.case(0, vec![("op", Json::s("serde")), ("files", files_json(&files)), ("impl", impl_serde(&files))]);
            }
        }
        // parse-level correspondence: generated documents in all layouts
        "parse" => {
            // degenerate documents: nothing, white space, comments only, a byte-order mark, a document that ends
            // right after its package, an item with an empty body
            if shard == 0 {
                for (k, t) in ["", " ", "\n", " \n\t\r\n", "// x\n", "//", "/* x */", "/** d */", "/**/", "\u{FEFF}", "\u{FEFF}package a;\ninterface I {}\n",
                    "package a;", "package a;\n// only\n", "package a; interface I {}", "package a; parcelable P {}", "package a; enum E {}", "package a; enum E { }",
                    "\u{3000}", "\u{85}\u{2028}"].iter().enumerate()
                {
                    em.case(900000 + k as u64, parse_case(&vec![("f".to_owned(), (*t).to_owned())], vec![]));
                }
            }
            let n = share(if thorough { 20000 } else { 300 });
            for i in 0..n {
                let s = rng.next();
                let mut r = Rng::new(s);
                let cfg = gen::DocCfg::default();
                let d = gen::gen_document(&mut r, &cfg);
                let rd = doc::render(&d);
                let style = match i % 4 {
                    0 => LayoutStyle::Plain,
                    1 => LayoutStyle::Tight,
                    _ => LayoutStyle::Wild,
                };
                let text = doc::layout(&rd.toks, style, &mut r).text;
                em.case(s, parse_case(&vec![("f".to_owned(), text)], vec![("expect_sx", Json::s(doc::sx_doc(&d)))]));
            }
        }
        // C02: every document in three layouts; C04: exact name / extent expectations
        "layouts" => {
            let n = share(if thorough { 8000 } else { 150 });
            for _ in 0..n {
                let s = rng.next();
                let mut r = Rng::new(s);
                let cfg = gen::DocCfg { max_depth: 4, ..Default::default() };
                let d = gen::gen_document(&mut r, &cfg);
                let rd = doc::render(&d);
                // the reference layout: every layout of the document must lex to ITS token sequence (the
                // hypothesis of `C02Layout.layout_independent`, evaluated by the driver)
                let mut ref_text: Option<String> = None;
                for style in [LayoutStyle::Plain, LayoutStyle::Tight, LayoutStyle::Wild, LayoutStyle::Wild] {
                    let laid = doc::layout(&rd.toks, style, &mut r);
                    if ref_text.is_none() {
                        ref_text = Some(laid.text.clone());
                    }
                    let extra = vec![
                        ("ref_text", Json::s(ref_text.clone().unwrap())),
                        ("expect_sx", Json::s(doc::sx_doc(&d))),
                        ("expect_spans", spans_json(&rd, &laid)),
                        ("verdict", Json::s(if gen::has_overflowing_code(&d) { "bad" } else { "wf" })),
                        ("how", Json::s(if gen::has_overflowing_code(&d) { "transact code does not fit u32" } else { "wf" })),
                    ];
                    em.case(s, parse_case(&vec![("f".to_owned(), laid.text)], extra));
                }
            }
        }
        // C03: documents that are malformed by construction
        "malformed" => {
            // forms just outside the grammar, fixed: an import without a dot, an empty package, a name ending in a dot,
            // a number where a name must stand — each in a few layouts
            if shard == 0 {
                for (k, t) in [
                    "package p;\nimport Foo;\ninterface I {}\n",
                    "package p;\nimport /*c*/ Foo ;\ninterface I {}\n",
                    "package p;\nimport\n   Foo;\nparcelable P { int x; }\n",
                    "package p;\nimport a.b.;\ninterface I {}\n",
                    "package ;\ninterface I {}\n",
                    "package p.;\ninterface I {}\n",
                    "package p;\ninterface 1I {}\n",
                    "package p;\ninterface I { void f() = 0x1F; }\n",
                    "package p;\ninterface I { void f() = 1_000; }\n",
                ]
                .iter()
                .enumerate()
                {
                    em.case(910000 + k as u64, parse_case(&vec![("f".to_owned(), (*t).to_owned())], vec![("verdict", Json::s("bad")), ("how", Json::s("just outside the grammar"))]));
                }
            }
            let n = share(if thorough { 6000 } else { 150 });
            let words: Vec<&str> = vec![
                "package", "import", "interface", "parcelable", "enum", "oneway", "const", "inout", "in", "out", "void",
                "byte", "short", "int", "long", "float", "double", "boolean", "char", "String", "CharSequence", "List", "Map",
                "true", "false", "break", "case", "catch", "class", "continue", "default", "do", "else", "for", "goto", "if",
                "new", "private", "protected", "public", "return", "static", "switch", "this", "throw", "try", "volatile", "while",
            ];
            for i in 0..n {
                let s = rng.next();
                let mut r = Rng::new(s);
                let cfg = gen::DocCfg { max_members: 4, ..Default::default() };
                let d = gen::gen_document(&mut r, &cfg);
                let rd = doc::render(&d);
                let mut toks = rd.toks.clone();
                let how;
                match i % 6 {
                    5 => {
                        // a non-ASCII letter / digit / mark inside (or at either end of) a name: the
                        // grammar's identifiers are ASCII only
                        let named: Vec<&doc::Span> = rd.spans.iter().filter(|sp| sp.name_first <= sp.name_last).collect();
                        let sp = *r.pick(&named);
                        let k = r.range(sp.name_first, sp.name_last);
                        if toks[k].text == "." {
                            continue;
                        }
                        let extra = *r.pick(&['é', 'ß', '٣', 'ı', 'Ω', '字', 'ａ', '\u{0301}', '\u{200D}', 'ǅ', 'ⅷ', '_'.max('ª')]);
                        let chars: Vec<char> = toks[k].text.chars().collect();
                        let at = r.below(chars.len() + 1);
                        let mut t: String = chars[..at].iter().collect();
                        t.push(extra);
                        t.extend(chars[at..].iter());
                        toks[k].text = t;
                        how = "non-ASCII character in a name";
                    }
                    0 | 1 => {
                        // a keyword / reserved word in a name slot (any span's name token)
                        let named: Vec<&doc::Span> = rd.spans.iter().filter(|sp| sp.name_first <= sp.name_last && sp.what != "type").collect();
                        let sp = *r.pick(&named);
                        let k = r.range(sp.name_first, sp.name_last);
                        if toks[k].text == "." {
                            continue;
                        }
                        toks[k].text = (*r.pick(&words)).to_owned();
                        how = "keyword as name";
                    }
                    2 => {
                        // omit the package statement
                        let end = rd.spans[0].terminator.unwrap();
                        toks.drain(0..=end);
                        how = "package omitted";
                    }
                    3 => {
                        // a second item after the first
                        let d2 = gen::gen_document(&mut r, &cfg);
                        let rd2 = doc::render(&d2);
                        let item = rd2.spans.iter().find(|sp| sp.what == "item").unwrap();
                        toks.extend(rd2.toks[item.first_with_ann..=item.last].iter().cloned());
                        how = "several items";
                    }
                    _ => {
                        // trailing text
                        for _ in 0..r.range(1, 3) {
                            toks.push(doc::Tok { text: (*r.pick(&[";", "foo", "}", "interface", "12", "@A", "{"])).to_owned(), pre_comment: None });
                        }
                        how = "trailing text";
                    }
                }
                let style = if r.chance(1, 2) { LayoutStyle::Plain } else { LayoutStyle::Wild };
                let text = doc::layout(&toks, style, &mut r).text;
                em.case(s, parse_case(&vec![("f".to_owned(), text)], vec![("verdict", Json::s("bad")), ("how", Json::s(how))]));
            }
        }
        // C01: sets of 1-6 files through the parse-level op
        "projparse" => {
            let n = share(if thorough { 4000 } else { 100 });
            for _ in 0..n {
                let s = rng.next();
                let mut r = Rng::new(s);
                let cfg = gen::DocCfg::default();
                let proj = gen::gen_project(&mut r, &cfg);
                let style = if r.chance(1, 2) { LayoutStyle::Wild } else { LayoutStyle::Plain };
                let mut files = render_project(&proj, style, &mut r);
                if r.chance(1, 3) && !files.is_empty() {
                    // one of the files is broken
                    let k = r.below(files.len());
                    let cut = files[k].1.len() / 2;
                    let mut c = cut;
                    while !files[k].1.is_char_boundary(c) {
                        c += 1;
                    }
                    files[k].1.truncate(c);
                }
                em.case(s, parse_case(&files, vec![]));
            }
        }
        // C01: long inputs and deep generic nesting
        "big" => {
            let n = share(if thorough { 64 } else { 12 });
            for i in 0..n {
                let sd = rng.next();
                let mut r = Rng::new(sd);
                let text = if i % 2 == 0 {
                    // nesting up to depth 64
                    let depth = r.range(8, 64);
                    let mut t = String::from("String");
                    for k in 0..depth {
                        t = match (k + i) % 3 {
                            0 => format!("List<{}>", t),
                            1 => format!("Map<String, {}>", t),
                            _ => format!("{}[]", t),
                        };
                    }
                    format!("package a;\ninterface I {{\n    {} f(in {} x);\n}}\n", t, t)
                } else {
                    // a long interface (to 64 KiB in thorough)
                    let target = if thorough { 65536 } else { 6000 };
                    let cfg = gen::DocCfg { max_members: 6, ..Default::default() };
                    let pool = gen::TypePool::default_pool();
                    let mut d = gen::gen_document(&mut r, &cfg);
                    d.item.kind = doc::ItemKind::Interface;
                    d.item.members.clear();
                    let mut text = String::new();
                    while text.len() < target {
                        for _ in 0..20 {
                            d.item.members.push(doc::MemberDoc::Method(gen::gen_method(&mut r, &cfg, &pool)));
                        }
                        text = doc::layout(&doc::render(&d).toks, LayoutStyle::Plain, &mut r).text;
                    }
                    if r.chance(1, 2) {
                        // damage it somewhere
                        let cut = r.below(text.len());
                        let mut k = cut;
                        while !text.is_char_boundary(k) {
                            k += 1;
                        }
                        text.insert_str(k, " ) é ");
                    }
                    text
                };
                em.case(sd, parse_case(&vec![("f".to_owned(), text)], vec![]));
            }
            // constructs that start far into the file, with multi-byte text at every alignment before them:
            // a reader that looks back over a fixed window (4 KiB … 128 KiB) lands inside a character
            for (w, ch) in [(2usize, "é"), (3, "日"), (4, "🎉")] {
                for target in [6 * 1024usize, 140 * 1024] {
                    if (w + target / 1024) % nshards != shard {
                        continue;
                    }
                    let mut text = String::from("package p;\ninterface I {\n");
                    let mut k = 0usize;
                    while text.len() < target {
                        // a comment whose length varies, so that the members start at every residue modulo w
                        text.push_str("    /* ");
                        for _ in 0..(40 + k % 7) {
                            text.push_str(ch);
                        }
                        text.push_str(&"x".repeat(k % w));
                        text.push_str(" */\n    /** doc ");
                        text.push_str(ch);
                        text.push_str(&format!(" */ void m{}(in int a{});\n", k, k));
                        k += 1;
                    }
                    text.push_str("}\n");
                    em.case((w * 1000 + target) as u64, parse_case(&vec![("f".to_owned(), text)], vec![]));
                }
            }
        }
        // C14: one malformed member inside an otherwise well-formed item
        "garbage" => {
            let n = share(if thorough { 30000 } else { 500 });
            let vocab: Vec<&str> = vec![
                "package", "import", "interface", "parcelable", "enum", "oneway", "const", "in", "out", "inout", "void",
                "int", "String", "List", "Map", "true", "class", "static", "double", "(", ")", "[", "]", "<", ">", "=", ".",
                "-", "@Ann", "foo", "Bar", "x1", "12", "1.5", "\"s\"", "CharSequence", "boolean", "do", "new",
            ];
            let mut made = 0usize;
            let mut attempts = 0usize;
            while made < n && attempts < n * 20 {
                attempts += 1;
                let sd = rng.next();
                let mut r = Rng::new(sd);
                let cfg = gen::DocCfg { max_members: 4, docs: false, ..Default::default() };
                let mut d = gen::gen_document(&mut r, &cfg);
                if gen::has_overflowing_code(&d) {
                    continue; // the siblings must be well-formed
                }
                let is_enum = matches!(d.item.kind, doc::ItemKind::Enum);
                // malformed by construction (no need to ask the implementation under test)
                let mut known_malformed = false;
                let g: Vec<String> = if !is_enum && r.chance(1, 6) {
                    // generic types with the wrong number of parameters, written as a member would be
                    let tys = ["String", "int", "Foo", "a.B", "List<String>", "int[]"];
                    let n = *r.pick(&[1usize, 3, 4]);
                    let params: Vec<String> = (0..n).map(|_| (*r.pick(&tys)).to_owned()).collect();
                    let bad = if r.chance(2, 3) {
                        format!("Map < {} >", params.join(" , "))
                    } else {
                        format!("List < {} >", (0..(if n == 1 { 2 } else { n })).map(|_| (*r.pick(&tys)).to_owned()).collect::<Vec<_>>().join(" , "))
                    };
                    let text = match r.below(4) {
                        0 => format!("{} x", bad),
                        1 => format!("{} f ( )", bad),
                        2 => format!("void f ( in {} m )", bad),
                        _ => format!("List < {} > y", bad),
                    };
                    text.split(' ').filter(|t| !t.is_empty()).map(|t| t.to_owned()).collect()
                } else if r.chance(1, 2) {
                    let len = r.range(1, 6);
                    (0..len).map(|_| (*r.pick(&vocab)).to_owned()).collect()
                } else {
                    // a near miss: a well-formed member of this kind of item (annotations with
                    // parameters more often than not) with one token deleted / replaced / inserted
                    let pool = gen::TypePool::default_pool();
                    let mut mcfg = gen::DocCfg { docs: false, max_depth: 2, ..Default::default() };
                    mcfg.anns = true;
                    let mut tmp = d.clone();
                    let mut m = match d.item.kind {
                        doc::ItemKind::Interface => doc::MemberDoc::Method(gen::gen_method(&mut r, &mcfg, &pool)),
                        doc::ItemKind::Parcelable => doc::MemberDoc::Field(gen::gen_field(&mut r, &mcfg, &pool)),
                        doc::ItemKind::Enum => doc::MemberDoc::EnumEl(gen::gen_enumel(&mut r, &mcfg)),
                    };
                    if r.chance(2, 3) {
                        let ann = doc::AnnDoc {
                            name: "@Foo".to_owned(),
                            params: Some((vec![("a".to_owned(), Some("1".to_owned()))], false)),
                        };
                        match &mut m {
                            doc::MemberDoc::Method(x) => x.annotations = vec![ann],
                            doc::MemberDoc::Field(x) => x.annotations = vec![ann],
                            doc::MemberDoc::EnumEl(x) => x.annotations = vec![ann],
                            _ => {}
                        }
                    }
                    tmp.item.members = vec![m];
                    tmp.item.enum_trailing_comma = true;
                    let rt = doc::render(&tmp);
                    let sp = rt.spans.iter().find(|sp| matches!(sp.what, "method" | "field" | "enumel")).unwrap();
                    let mut toks: Vec<String> = rt.toks[sp.first_with_ann..=sp.last].iter().map(|t| t.text.clone()).collect();
                    let k = r.below(toks.len());
                    let open = toks.iter().position(|t| t == "(");
                    let close = toks.iter().position(|t| t == ")");
                    match r.below(if is_enum { 7 } else { 5 }) {
                        4..=6 if open.is_some() && close.is_some() && open < close => {
                            // an error inside or right after a parenthesised annotation parameter list, the
                            // parentheses staying balanced: the member still ends at its own terminator
                            let (i, j) = (open.unwrap(), close.unwrap());
                            let plain = ["=", "x1", "12", "void", "@Ann", ".", "foo", "\"s\"", "in", "-"];
                            let at = r.range(i + 1, j + 1);
                            if at < j && r.chance(1, 2) {
                                toks[at] = (*r.pick(&plain)).to_owned();
                            } else {
                                toks.insert(at, (*r.pick(&plain)).to_owned());
                            }
                        }
                        0 | 4..=6 => {
                            toks.remove(k);
                        }
                        1 => toks[k] = (*r.pick(&vocab)).to_owned(),
                        2 => toks.insert(k, (*r.pick(&vocab)).to_owned()),
                        _ => {
                            // a junk prefix that could begin a member, directly followed by a complete
                            // member: recovery resumes on the unexpected token without dropping anything
                            let starts = ["foo", "Bar", "int", "String", "x1", "a.B", "List"];
                            if !is_enum && r.chance(1, 3) {
                                // the complete member begins with a RAW `List` / `Map`: validation has something of its own to
                                // say about exactly the token the syntax Error sits on
                                let raw = *r.pick(&["List", "Map"]);
                                toks = if matches!(d.item.kind, doc::ItemKind::Interface) {
                                    vec![raw.to_owned(), "g".to_owned(), "(".to_owned(), ")".to_owned()]
                                } else {
                                    vec![raw.to_owned(), "y".to_owned()]
                                };
                            }
                            for _ in 0..r.range(1, 2) {
                                toks.insert(0, (*r.pick(&starts)).to_owned());
                            }
                            known_malformed = !is_enum;
                        }
                    }
                    // no terminator or brace inside
                    toks.retain(|t| t != ";" && (t != "," || !is_enum) && t != "{" && t != "}");
                    if toks.is_empty() {
                        continue;
                    }
                    toks
                };
                // it must not itself be a well-formed member: parse it alone in the same kind of item
                let mut probe = d.clone();
                probe.item.members = vec![doc::MemberDoc::Garbage(g.clone())];
                probe.item.enum_trailing_comma = true;
                let ptext = doc::layout(&doc::render(&probe).toks, LayoutStyle::Plain, &mut r).text;
                let mut pp: Parser<String> = Parser::new();
                pp.add_content("p".to_owned(), &ptext);
                let pres = &pp.verif_parse_results()["p"];
                if pres.diagnostics.is_empty() && !known_malformed {
                    continue; // a well-formed member
                }
                let pos = r.below(d.item.members.len() + 1);
                let gtoks: Vec<Json> = g.iter().map(|t| Json::s(t.clone())).collect();
                d.item.members.insert(pos, doc::MemberDoc::Garbage(g));
                d.item.enum_trailing_comma = true;
                let rd = doc::render(&d);
                let style = if r.chance(1, 2) { LayoutStyle::Plain } else { LayoutStyle::WildNoComments };
                let laid = doc::layout(&rd.toks, style, &mut r);
                let gs = rd.spans.iter().find(|sp| sp.what == "garbage").unwrap();
                let siblings: Vec<Json> = d.item.members.iter().filter_map(doc::sx_member).map(Json::s).collect();
                let extra = vec![(
                    "garbage",
                    Json::obj(vec![
                        ("start", Json::n(laid.tok_spans[gs.first].0)),
                        ("end", Json::n(laid.tok_spans[gs.terminator.unwrap()].1)),
                        ("position", Json::n(pos)),
                        ("siblings", Json::Arr(siblings)),
                        ("tokens", Json::Arr(gtoks)),
                        ("enum", Json::Bool(is_enum)),
                    ]),
                )];
                em.case(sd, parse_case(&vec![("f".to_owned(), laid.text)], extra));
                made += 1;
            }
        }
        // C18: documentation comments in the six situations
        "docs" => {
            let n = share(if thorough { 12000 } else { 250 });
            // the last four begin or end with white space that is NOT decoration (only blank, tab, CR, LF and `*` are)
            let words = [
                "hello", "Größe", "日本語", "🎉", "naïve", "wörld", "ok", "x1", "the", "value", "é", "中文字",
                "\u{3000}概要", "x\u{A0}", "\u{2003}em\u{2003}", "\u{0C}ff",
            ];
            for _ in 0..n {
                let sd = rng.next();
                let mut r = Rng::new(sd);
                let crlf = r.chance(1, 3);
                let eol = if crlf { "\r\n" } else { "\n" };
                let cfg = gen::DocCfg { max_members: 4, docs: false, ..Default::default() };
                let mut d = gen::gen_document(&mut r, &cfg);
                let mut expected: Vec<Json> = Vec::new();
                let mut situations: Vec<Json> = Vec::new();
                // build one documentation situation; returns (raw text placed before the construct, expected doc)
                let mut make = |r: &mut Rng| -> (Option<String>, Option<String>, &'static str) {
                    let gen_doc = |r: &mut Rng| -> (String, String) {
                        let np = r.range(1, 3);
                        let mut raw = String::from("/**");
                        let mut exp_pars: Vec<String> = Vec::new();
                        let same_line = r.chance(1, 3);
                        for p in 0..np {
                            let nl = r.range(1, 3);
                            let mut lines: Vec<String> = Vec::new();
                            for _ in 0..nl {
                                let nw = r.range(1, 4);
                                lines.push((0..nw).map(|_| *r.pick(&words)).collect::<Vec<_>>().join(" "));
                            }
                            for (li, l) in lines.iter().enumerate() {
                                if p == 0 && li == 0 && same_line {
                                    raw.push(' ');
                                } else {
                                    raw.push_str(eol);
                                    raw.push_str(" * ");
                                }
                                raw.push_str(l);
                            }
                            if p + 1 < np {
                                raw.push_str(eol);
                                raw.push_str(" *");
                            }
                            exp_pars.push(lines.join(" "));
                        }
                        let ntags = r.below(3);
                        let mut exp = exp_pars.join("\n");
                        for t in 0..ntags {
                            let clause = format!("@param p{} {}", t, *r.pick(&words));
                            if r.chance(1, 3) {
                                // a tag clause that follows words (or another clause) on the SAME source line is a clause all the same
                                raw.push_str(*r.pick(&[" ", "  ", "\t"]));
                            } else {
                                raw.push_str(eol);
                                raw.push_str(" * ");
                            }
                            raw.push_str(&clause);
                            exp.push('\n');
                            exp.push_str(&clause);
                        }
                        raw.push_str(eol);
                        raw.push_str(" */");
                        raw.push_str(eol);
                        (raw, exp)
                    };
                    // 1-3 ordinary comments (no '/' or '*' in their text): block comments with or
                    // without text, line comments with text, with blanks only, or empty
                    let ordinary = |r: &mut Rng| -> String {
                        let mut o = String::new();
                        for _ in 0..r.range(1, 3) {
                            match r.below(7) {
                                0 => o.push_str("/* note é */"),
                                1 => o.push_str("/* */"),
                                2 => o.push_str("/**/"),
                                3 => o.push_str("// line 中"),
                                4 => o.push_str("//"),
                                5 => o.push_str("//  \t"),
                                _ => o.push_str("/* a\n   b */"),
                            }
                            o.push_str(eol);
                        }
                        o
                    };
                    match r.below(6) {
                        0 => (None, None, "no comment"),
                        1 => (Some(ordinary(r)), None, "ordinary comments only"),
                        2 => {
                            let (raw, exp) = gen_doc(r);
                            (Some(raw), Some(exp), "doc comment")
                        }
                        3 => {
                            let (raw, exp) = gen_doc(r);
                            (Some(format!("{}{}", raw, ordinary(r))), Some(exp), "doc then ordinary comments")
                        }
                        4 => {
                            let (raw1, _) = gen_doc(r);
                            let (raw2, exp2) = gen_doc(r);
                            (Some(format!("{}{}", raw1, raw2)), Some(exp2), "two doc comments")
                        }
                        _ => (None, None, "doc of the previous member"), // the previous member carries its own doc
                    }
                };
                let (raw, exp, sit) = make(&mut r);
                d.item.doc = raw;
                expected.push(exp.map(Json::s).unwrap_or(Json::Null));
                situations.push(Json::s(sit));
                for m in d.item.members.iter_mut() {
                    let (raw, exp, sit) = make(&mut r);
                    situations.push(Json::s(sit));
                    match m {
                        doc::MemberDoc::Method(x) => {
                            x.doc = raw;
                            expected.push(exp.map(Json::s).unwrap_or(Json::Null));
                            for a in x.args.iter_mut() {
                                let (raw, exp, sit) = make(&mut r);
                                situations.push(Json::s(sit));
                                a.doc = raw;
                                expected.push(exp.map(Json::s).unwrap_or(Json::Null));
                            }
                        }
                        doc::MemberDoc::Const(x) => {
                            x.doc = raw;
                            expected.push(exp.map(Json::s).unwrap_or(Json::Null));
                        }
                        doc::MemberDoc::Field(x) => {
                            x.doc = raw;
                            expected.push(exp.map(Json::s).unwrap_or(Json::Null));
                        }
                        doc::MemberDoc::EnumEl(x) => {
                            x.doc = raw;
                            expected.push(exp.map(Json::s).unwrap_or(Json::Null));
                        }
                        doc::MemberDoc::Garbage(_) => {}
                    }
                }
                let rd = doc::render(&d);
                let style = if crlf { LayoutStyle::WildNoComments } else if r.chance(1, 2) { LayoutStyle::Plain } else { LayoutStyle::WildNoComments };
                let mut text = doc::layout(&rd.toks, style, &mut r).text;
                if crlf {
                    // a CRLF file: normalise every line ending
                    text = text.replace("\r\n", "\n").replace('\r', "\n").replace('\n', "\r\n");
                }
                if r.chance(1, 10) {
                    // a long file: an ASCII comment in front, sized so that the first multi-byte character of the document
                    // starts at byte 4095 (whoever reads files in blocks must not cut characters in two)
                    if let Some(i) = text.char_indices().find(|(_, c)| c.len_utf8() > 1).map(|(i, _)| i) {
                        if i + 4 < 4095 {
                            let h = 4095 - i;
                            let header = format!("//{}\n", "x".repeat(h - 3));
                            text = format!("{}{}", header, text);
                        }
                    }
                }
                let extra = vec![("docs", Json::obj(vec![("expected", Json::Arr(expected)), ("situations", Json::Arr(situations)), ("crlf", Json::Bool(crlf))]))];
                em.case(sd, parse_case(&vec![("f".to_owned(), text)], extra));
            }
        }
        // malformed inputs: token mutations of well-formed documents, token soups, character soups,
        // unterminated strings / comments, multi-byte injection
        "mutate" => {
            let vocab: Vec<&str> = vec![
                "package", "import", "interface", "parcelable", "enum", "oneway", "const", "in", "out", "inout", "void",
                "int", "String", "CharSequence", "List", "Map", "true", "false", "class", "static", "double", "do",
                ";", ",", "{", "}", "(", ")", "[", "]", "<", ">", "=", ".", "-", "@Ann", "foo", "Bar", "x1", "12", "007",
                "1.5", "-3", "+.5f", "\"s\"", "\"unterminated", "/* open", "// line", "é", "日本", "\u{3000}", "#", "$", "\\",
                "/**/", "/***/", "/** doc */", "*/", "/", "*", "99999999999", "4294967295", "4294967296",
                // long tokens with multi-byte characters at every alignment (a message that quotes or truncates the
                // offending token at a fixed byte count lands inside a character): string literals, names, numbers
                "\"Длинная строка с юникодом, которая заметно длиннее сорока байт\"",
                "\"xДлинная строка с юникодом, которая заметно длиннее сорока байт\"",
                "\"日本語の長い文字列リテラル、四十バイトをはるかに超える長さのもの\"",
                "\"xx日本語の長い文字列リテラル、四十バイトをはるかに超える長さのもの\"",
                "\"🎉🎉🎉🎉🎉🎉🎉🎉🎉🎉🎉🎉🎉🎉🎉🎉🎉🎉🎉🎉🎉🎉🎉🎉🎉🎉🎉🎉🎉🎉🎉🎉🎉\"",
                "\"x🎉🎉🎉🎉🎉🎉🎉🎉🎉🎉🎉🎉🎉🎉🎉🎉🎉🎉🎉🎉🎉🎉🎉🎉🎉🎉🎉🎉🎉🎉🎉🎉🎉\"",
                "\"xx🎉🎉🎉🎉🎉🎉🎉🎉🎉🎉🎉🎉🎉🎉🎉🎉🎉🎉🎉🎉🎉🎉🎉🎉🎉🎉🎉🎉🎉🎉🎉🎉🎉\"",
                "\"xxx🎉🎉🎉🎉🎉🎉🎉🎉🎉🎉🎉🎉🎉🎉🎉🎉🎉🎉🎉🎉🎉🎉🎉🎉🎉🎉🎉🎉🎉🎉🎉🎉🎉\"",
                "a_very_long_identifier_that_goes_on_and_on_and_on_for_more_than_one_hundred_bytes_to_cross_any_small_fixed_buffer_size",
                "123456789012345678901234567890123456789012345678901234567890.5",
            ];
            // every word of every lexer entry with a finite language (written by the translator from
            // THIS run's lexer table: keywords, punctuation, the direction words) in every syntactic
            // slot of a few fixed frames
            if shard == 0 {
                let path = concat!(env!("CARGO_MANIFEST_DIR"), "/../lean/AidlVerif/Gen/lexwords.txt");
                let words: Vec<String> = std::fs::read_to_string(path)
                    .map(|t| t.lines().filter_map(|l| l.split('\t').nth(1).map(|w| w.to_owned())).collect())
                    .unwrap_or_default();
                let frames = [
                    "package p; interface I { void f(@ int x); }",
                    "package p; interface I { void f(in @ x); }",
                    "package p; interface I { void f(@ x, out @[] y); }",
                    "package p; interface I { void @(); }",
                    "package p; interface I { @ int f(); }",
                    "package p; interface I { const int X = @; }",
                    "package p; parcelable P { @ x; }",
                    "package p; parcelable P { int @ = 1; }",
                    "package p; enum E { @, B = @ }",
                    "package @; interface I {}",
                    "package p; import @.Q; @ I {}",
                    "@",
                ];
                let mut seen = std::collections::BTreeSet::new();
                for w in words.iter() {
                    if !seen.insert(w.clone()) {
                        continue;
                    }
                    for fr in frames.iter() {
                        let sd = rng.next();
                        em.case(sd, parse_case(&vec![("f".to_owned(), fr.replace('@', w))], vec![]));
                    }
                }
            }
            let n = share(if thorough { 40000 } else { 600 });
            for i in 0..n {
                let sd = rng.next();
                let mut r = Rng::new(sd);
                let cfg = gen::DocCfg { max_members: 4, ..Default::default() };
                let text = match i % 5 {
                    0..=2 => {
                        // 1-3 token mutations
                        let d = gen::gen_document(&mut r, &cfg);
                        let mut toks = doc::render(&d).toks;
                        for _ in 0..r.range(1, 3) {
                            if toks.is_empty() {
                                break;
                            }
                            let k = r.below(toks.len());
                            match r.below(4) {
                                0 => {
                                    toks.remove(k);
                                }
                                1 => toks[k].text = (*r.pick(&vocab)).to_owned(),
                                2 => toks.insert(k, doc::Tok { text: (*r.pick(&vocab)).to_owned(), pre_comment: None }),
                                _ => {
                                    let j = r.below(toks.len());
                                    toks.swap(k, j);
                                }
                            }
                        }
                        let style = if r.chance(1, 2) { LayoutStyle::Plain } else { LayoutStyle::Wild };
                        doc::layout(&toks, style, &mut r).text
                    }
                    3 => {
                        // token soup
                        let len = r.range(0, 40);
                        let mut t = String::new();
                        for _ in 0..len {
                            t.push_str(*r.pick(&vocab));
                            t.push_str(*r.pick(&[" ", "", "\n", " ", "\t", "\r\n"]));
                        }
                        t
                    }
                    _ => {
                        // character soup
                        let len = r.range(0, 60);
                        let alphabet: Vec<char> = "ab_Z09 \t\n\r;,{}()[]<>=.-+@\"/*#é日🎉\u{3000}\u{85}\u{301}f".chars().collect();
                        (0..len).map(|_| *r.pick(&alphabet)).collect()
                    }
                };
                em.case(sd, parse_case(&vec![("f".to_owned(), text)], vec![]));
            }
        }
        _ => {
            eprintln!("unknown suite {}", suite);
            std::process::exit(2);
        }
    }
}

/// re-run the implementation on the inputs of a stored case
pub fn rerun(line: &str) -> Option<String> {
    let j = crate::json::parse(line).ok()?;
    let op = j.get("op")?.as_str()?.to_owned();
    let files: Files = j
        .get("files")?
        .as_arr()?
        .iter()
        .filter_map(|f| Some((f.get("id")?.as_str()?.to_owned(), f.get("text")?.as_str()?.to_owned())))
        .collect();
    let mut v: Vec<(&str, Json)> = vec![
        ("case", j.get("case").cloned().unwrap_or(Json::Num(0))),
        ("seed", j.get("seed").cloned().unwrap_or(Json::Num(0))),
        ("suite", j.get("suite").cloned().unwrap_or(Json::s("replay"))),
    ];
    match op.as_str() {
        "validate" => {
            let prev: Option<Files> = j.get("prev").and_then(|p| p.as_arr()).map(|a| {
                a.iter()
                    .filter_map(|f| Some((f.get("id")?.as_str()?.to_owned(), f.get("text")?.as_str()?.to_owned())))
                    .collect()
            });
            match prev {
                Some(prev) => v.append(&mut validate_case_after(&files, &prev)),
                None => v.append(&mut validate_case(&files)),
            }
        }
        "walk" => {
            let wp = matches!(j.get("positions"), Some(Json::Bool(true)));
            v.append(&mut walk_case(&files, wp))
        }
        "parse" => {
            let mut extra = Vec::new();
            for k in ["expect_sx", "expect_spans", "verdict", "how", "garbage", "docs"] {
                if let Some(x) = j.get(k) {
                    let key: &'static str = match k {
                        "expect_sx" => "expect_sx",
                        "expect_spans" => "expect_spans",
                        "verdict" => "verdict",
                        "how" => "how",
                        "garbage" => "garbage",
                        _ => "docs",
                    };
                    extra.push((key, x.clone()));
                }
            }
            v.append(&mut parse_case(&files, extra))
        }
        "serde" => v.append(&mut vec![("op", Json::s("serde")), ("files", files_json(&files)), ("impl", impl_serde(&files))]),
        "determinism" => v.append(&mut crate::store_ops::determinism_case(&files, &mut Rng::new(1))),
        _ => return None,
    }
    Some(Json::obj(v).to_string())
}
