#!/usr/bin/env python3
"""benigncheck.py <id> <patch.diff> [props...]
Applies a behaviour-preserving change to /repo, runs the quick checks, reverts, restores the evidence.
Prints which checks fire (a check that fires on a harmless change without a failing input is a broken
obligation by design; one that fires WITH a failing input is a false alarm to investigate)."""
import json, os, subprocess, sys
bid, patch = sys.argv[1], sys.argv[2]
props = sys.argv[3:] or [f"C{i:02d}" for i in range(1, 21)]
ROOT = "/verif"
env = dict(os.environ, CARGO_NET_OFFLINE="true")
def sh(cmd, cwd=None):
    r = subprocess.run(cmd, cwd=cwd, shell=True, env=env, stdout=subprocess.PIPE, stderr=subprocess.STDOUT, text=True)
    return r.returncode, r.stdout
rc, o = sh("git -C /repo status --porcelain")
if o.strip():
    print("benigncheck: /repo is not clean"); sys.exit(2)
rc, o = sh(f"git -C /repo apply {patch}")
if rc != 0:
    print("patch does not apply:", o); sys.exit(2)
res = {}
try:
    for p in props:
        rc, o = sh(f"./check {p} quick", ROOT)
        lines = [l for l in o.splitlines() if l.startswith("VIOLATION") or "no longer checks" in l or "quick:" in l]
        res[p] = {"rc": rc, "lines": lines[-4:]}
        print(bid, p, rc, [l for l in lines if "VIOLATION" in l or "no longer" in l][:2], flush=True)
finally:
    sh("git -C /repo checkout -- .")
for p in props:
    if res.get(p, {}).get("rc"):
        sh(f"./check {p} quick", ROOT)
os.makedirs(os.path.join(ROOT, "seeded", "benign"), exist_ok=True)
json.dump(res, open(os.path.join(ROOT, "seeded", "benign", bid + ".json"), "w"), indent=1)
