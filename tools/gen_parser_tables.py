#!/usr/bin/env python3
"""
gen_parser_tables.py <cargo OUT_DIR of aidl-parser> <lean Gen dir>

Extracts from the generated `aidl.rs` (module `__parse__OptAidl`, `__intern_token`, the
`__actionN` functions) everything the Lean parser model runs on:

  Gen/LexTable.lean   the 37 (regex, skip) entries as `Regex.Re` terms, token index -> column,
                      terminal names
  Gen/LrTables.lean   ACTION rows, EOF actions, GOTO, productions (lhs, rhs, pops, nonterminal,
                      action function, fallible, accept)
  Gen/Actions.lean    every `__actionN`: composite (location plumbing as data), generic builder
                      (one of 11 shapes), or user action (arity + SHA-256 print of its body)

Anything unrecognised is a failure (exit 1).
"""
import hashlib
import os
import re
import sys


def fail(msg):
    print("gen_parser_tables: " + msg)
    sys.exit(1)


def write_if_changed(path, text):
    if os.path.exists(path) and open(path).read() == text:
        return False
    os.makedirs(os.path.dirname(path), exist_ok=True)
    open(path, "w").write(text)
    return True


def lean_str(s):
    out = []
    for c in s:
        if c == "\\":
            out.append("\\\\")
        elif c == '"':
            out.append('\\"')
        elif c == "\n":
            out.append("\\n")
        elif c == "\r":
            out.append("\\r")
        elif c == "\t":
            out.append("\\t")
        elif ord(c) < 0x20 or ord(c) == 0x7F:
            out.append("\\x%02x" % ord(c))
        else:
            out.append(c)
    return '"' + "".join(out) + '"'


def re_words(r, limit=64):
    """the finite language of an expression built from single characters, sequence, alternative and `?`
    (None for anything else, or when it has more than `limit` words)"""
    k = r[0]
    if k == "eps":
        return [""]
    if k == "cls":
        if len(r[1]) == 1 and r[1][0][0] == r[1][0][1]:
            return [chr(r[1][0][0])]
        return None
    if k == "alts":
        out = []
        for x in r[1]:
            w = re_words(x, limit)
            if w is None:
                return None
            out += w
        return out if len(out) <= limit else None
    if k == "seqs":
        out = [""]
        for x in r[1]:
            w = re_words(x, limit)
            if w is None:
                return None
            out = [a + b for a in out for b in w]
            if len(out) > limit:
                return None
        return out
    if k == "opt":
        w = re_words(r[1], limit)
        return None if w is None else [""] + w
    return None


# ------------------------------------------------------------------------------------------------
# Rust string literal -> text
# ------------------------------------------------------------------------------------------------
def unescape_rust(s):
    out, i = [], 0
    while i < len(s):
        c = s[i]
        if c == "\\":
            n = s[i + 1]
            if n == "u":
                j = s.index("}", i)
                out.append(chr(int(s[i + 3:j], 16)))
                i = j + 1
                continue
            table = {"n": "\n", "r": "\r", "t": "\t", "0": "\0", "\\": "\\", '"': '"', "'": "'"}
            if n not in table:
                fail(f"unknown escape \\{n} in Rust string literal")
            out.append(table[n])
            i += 2
            continue
        out.append(c)
        i += 1
    return "".join(out)


# ------------------------------------------------------------------------------------------------
# regex-syntax printed pattern -> Re term (as nested python tuples)
# ------------------------------------------------------------------------------------------------
class RegexParser:
    SPECIAL = set("\\.+*?()|[]{}^$#&-~")

    def __init__(self, pat):
        self.p, self.i = pat, 0

    def peek(self):
        return self.p[self.i] if self.i < len(self.p) else None

    def parse(self):
        r = self.alt()
        if self.i != len(self.p):
            fail(f"regex: trailing input at {self.i} in {self.p!r}")
        return r

    def alt(self):
        branches = [self.concat()]
        while self.peek() == "|":
            self.i += 1
            branches.append(self.concat())
        return branches[0] if len(branches) == 1 else ("alts", branches)

    def concat(self):
        items = []
        while self.peek() is not None and self.peek() not in "|)":
            items.append(self.repeat())
        if not items:
            return ("eps",)
        return items[0] if len(items) == 1 else ("seqs", items)

    def repeat(self):
        a = self.atom()
        while self.peek() in ("*", "+", "?"):
            op = self.peek()
            self.i += 1
            if self.peek() == "?":
                fail("regex: lazy quantifiers are not supported")
            a = {"*": ("star", a), "+": ("plus", a), "?": ("opt", a)}[op]
        if self.peek() == "{":
            fail("regex: counted repetition is not supported")
        return a

    def atom(self):
        c = self.peek()
        if c == "(":
            self.i += 1
            if self.p.startswith("?:", self.i):
                self.i += 2
            elif self.peek() == "?":
                fail("regex: group flags are not supported")
            r = self.alt()
            if self.peek() != ")":
                fail("regex: missing )")
            self.i += 1
            return r
        if c == "[":
            return self.cls()
        if c == "\\":
            self.i += 1
            e = self.peek()
            self.i += 1
            if e in self.SPECIAL or e in '"/':
                return ("cls", [(ord(e), ord(e))])
            fail(f"regex: unsupported escape \\{e}")
        if c in ".^$":
            fail(f"regex: unsupported metacharacter {c!r} (regex-syntax prints classes explicitly)")
        self.i += 1
        return ("cls", [(ord(c), ord(c))])

    def cls_char(self):
        c = self.peek()
        if c == "\\":
            self.i += 1
            e = self.peek()
            self.i += 1
            if e in self.SPECIAL or e in '"/':
                return ord(e)
            fail(f"regex: unsupported class escape \\{e}")
        self.i += 1
        return ord(c)

    def cls(self):
        self.i += 1  # [
        if self.peek() == "^":
            fail("regex: negated class (regex-syntax prints the complement explicitly)")
        ranges = []
        while self.peek() != "]":
            if self.peek() is None:
                fail("regex: unterminated class")
            if self.peek() == "[":
                fail("regex: nested class")
            lo = self.cls_char()
            hi = lo
            if self.peek() == "-" and self.p[self.i + 1] != "]":
                self.i += 1
                hi = self.cls_char()
            ranges.append((lo, hi))
        self.i += 1
        return ("cls", ranges)


def re_to_lean(r):
    k = r[0]
    if k == "eps":
        return ".eps"
    if k == "cls":
        return "(.cls [" + ", ".join(f"({a}, {b})" for a, b in r[1]) + "])"
    if k == "alts":
        return "(Re.alts [" + ", ".join(re_to_lean(x) for x in r[1]) + "])"
    if k == "seqs":
        return "(Re.seqs [" + ", ".join(re_to_lean(x) for x in r[1]) + "])"
    if k in ("star", "plus", "opt"):
        return f"(Re.{k} {re_to_lean(r[1])})" if k != "star" else f"(.star {re_to_lean(r[1])})"
    fail("re_to_lean: " + k)


# ------------------------------------------------------------------------------------------------
def main():
    out_dir, gen_dir = sys.argv[1], sys.argv[2]
    path = os.path.join(out_dir, "aidl.rs")
    if not os.path.exists(path):
        fail(f"generated parser not found: {path}")
    full = open(path).read()
    a = full.index("mod __parse__OptAidl {")
    b = full.index("pub use self::__parse__OptAidl::OptAidlParser;")
    src = full[a:b]

    # ---------------- lexer ----------------
    m = re.search(r"let __strs: &\[\(&str, bool\)\] = &\[(.*?)\n        \];", full, re.S)
    if not m:
        fail("__strs not found")
    entries = []
    for mm in re.finditer(r'\n            \("((?:[^"\\]|\\.)*)", (true|false)\),', m.group(1)):
        pat = unescape_rust(mm.group(1))
        if not (pat.startswith("^(") and pat.endswith(")")):
            fail(f"lexer entry not of the form ^(...): {pat!r}")
        entries.append((RegexParser(pat[2:-1]).parse(), mm.group(2) == "true", pat))
    if not entries:
        fail("no lexer entries")
    mterm = re.search(r"const __TERMINAL: &\[&str\] = &\[(.*?)\];", src, re.S)
    terms = re.findall(r'r###"(.*?)"###', mterm.group(1))
    mt = re.search(r"fn __token_to_integer<.*?match \*__token \{(.*?)_ => None", src, re.S)
    tok2col = [(int(x), int(y)) for x, y in re.findall(r"Token\((\d+), _\) if true => Some\((\d+)\)", mt.group(1))]
    if len(tok2col) != len(terms):
        fail("token_to_integer / terminal count mismatch")

    lex = ["import AidlVerif.Model.Lexer", "",
           "/-! GENERATED by tools/gen_parser_tables.py from the generated parser — do not edit. -/", "",
           "namespace Aidl.Gen", "open Aidl.Regex", ""]
    for i, (r, skip, pat) in enumerate(entries):
        lex.append(f"def lexRe{i} : Re := {re_to_lean(r)}")
    lex.append("")
    lex.append("def lexTable : Aidl.Lexer.LexTable := #[" + ", ".join(
        f"(lexRe{i}, {'true' if skip else 'false'})" for i, (_, skip, _) in enumerate(entries)) + "]")
    lex.append("")
    lex.append("/-- lexer entry index ↦ column of the ACTION table -/")
    lex.append("def tokToCol : List (Nat × Nat) := [" + ", ".join(f"({a}, {b})" for a, b in tok2col) + "]")
    lex.append("")
    lex.append("def terminals : Array String := #[" + ", ".join(lean_str(t) for t in terms) + "]")
    lex.append("")
    lex.append("end Aidl.Gen")
    lex.append("")
    # the words of every lexer entry with a finite language (keywords, punctuation, DIRECTION): the
    # harness substitutes each of them into every syntactic slot of fixed frames
    col_of = dict(tok2col)
    words = []
    for i, (r, skip, pat) in enumerate(entries):
        w = None if skip else re_words(r)
        if w and i in col_of:
            for x in w:
                if x and not any(ch in x for ch in "\t\n\r"):
                    words.append(f"{terms[col_of[i]]}\t{x}")
    write_if_changed(os.path.join(gen_dir, "lexwords.txt"), "\n".join(words) + "\n")

    # ---------------- LR tables ----------------
    m = re.search(r"const __ACTION: &\[i16\] = &\[(.*?)\];", src, re.S)
    nums = [int(x) for x in re.findall(r"-?\d+", re.sub(r"//.*", "", m.group(1)))]
    ncols = int(re.search(r"__ACTION\[\(state as usize\) \* (\d+) \+ integer\]", src).group(1))
    if len(nums) % ncols:
        fail("ACTION size is not a multiple of the row width")
    nstates = len(nums) // ncols
    m = re.search(r"const __EOF_ACTION: &\[i16\] = &\[(.*?)\];", src, re.S)
    eof = [int(x) for x in re.findall(r"-?\d+", re.sub(r"//.*", "", m.group(1)))]
    if len(eof) != nstates:
        fail("EOF_ACTION length")
    merr = re.search(r"fn error_action\(&self, state: i16\) -> i16 \{\s*__action\(state, (\d+) - 1\)", src)
    if not merr or int(merr.group(1)) != ncols:
        fail("error_action column")
    if "fn uses_error_recovery(&self) -> bool {\n            true" not in src:
        fail("uses_error_recovery is not `true`")
    # goto
    m = re.search(r"fn __goto\(state: i16, nt: usize\) -> i16 \{\s*match nt \{(.*?)\n            _ => 0,\n        \}\n    \}", src, re.S)
    goto = []
    for mm in re.finditer(r"\n            (\d+) => (?:(\d+),|match state \{(.*?)\n            \},)", m.group(1), re.S):
        nt = int(mm.group(1))
        if mm.group(2) is not None:
            goto.append((nt, int(mm.group(2)), []))
        else:
            cases, default = [], None
            for line in mm.group(3).strip().split("\n"):
                lhs, rhs = line.strip().rstrip(",").split(" => ")
                if lhs == "_":
                    default = int(rhs)
                else:
                    for s in lhs.split(" | "):
                        if "..=" in s:
                            x, y = s.split("..=")
                            cases += [(k, int(rhs)) for k in range(int(x), int(y) + 1)]
                        else:
                            cases.append((int(s), int(rhs)))
            if default is None:
                fail(f"goto nt {nt}: no default")
            goto.append((nt, default, cases))
    # simulate_reduce
    m = re.search(r"fn __simulate_reduce<.*?match __reduce_index \{(.*?)\n            _ => panic!", src, re.S)
    sim = {}
    for mm in re.finditer(r"\n            (\d+) => (?:\{\s*__state_machine::SimulatedReduce::Reduce \{\s*states_to_pop: (\d+),\s*nonterminal_produced: (\d+),\s*\}\s*\}|__state_machine::SimulatedReduce::Accept,)", m.group(1)):
        sim[int(mm.group(1))] = None if mm.group(2) is None else (int(mm.group(2)), int(mm.group(3)))
    # productions: from the __reduceN functions and the in-dispatcher arms
    prods = {}
    bodies = {}
    for mm in re.finditer(r"fn __reduce(\d+)<.*?\) -> \(usize, usize\)\s*\{(.*?)\n    \}", src, re.S):
        bodies[int(mm.group(1))] = mm.group(2)
    mdisp = re.search(r"pub\(crate\) fn __reduce<.*?let \(__pop_states, __nonterminal\) = match __action \{(.*?)\n            _ => panic!", src, re.S)
    for mm in re.finditer(r"\n            (\d+) => \{\n(                // .*?)\n            \}", mdisp.group(1), re.S):
        bodies[int(mm.group(1))] = mm.group(2)
    for idx, body in bodies.items():
        mc = re.search(r"// (.*?) = (.*?) => ActionFn\((\d+)\);", body)
        if not mc:
            fail(f"reduce {idx}: production comment not found")
        lhs, rhs, act = mc.group(1).strip(), mc.group(2).strip(), int(mc.group(3))
        rhs_syms = rhs.split(", ") if rhs else []
        pops = re.findall(r"let __sym(\d+) = __pop_Variant(\d+)\(__symbols\);", body)
        if len(pops) != len(rhs_syms):
            fail(f"reduce {idx}: {len(pops)} pops for {len(rhs_syms)} symbols")
        fallible = "Err(e) => return Some(Err(e))" in body
        accept = "return Some(Ok(__nt));" in body
        # how the action is called
        call = re.search(r"super::__action(\d+)::<>\(lookup, diagnostics, input,?\s*(.*?)\)", body, re.S)
        if not call or int(call.group(1)) != act:
            fail(f"reduce {idx}: action call")
        args = [x.strip() for x in call.group(2).split(",") if x.strip()]
        if rhs_syms:
            if args != [f"__sym{k}" for k in range(len(rhs_syms))]:
                fail(f"reduce {idx}: unexpected argument list {args}")
            if "let __start = __sym0.0.clone();" not in body or f"let __end = __sym{len(rhs_syms)-1}.2.clone();" not in body:
                fail(f"reduce {idx}: unexpected span computation")
        else:
            if args != ["&__start", "&__end"]:
                fail(f"reduce {idx}: unexpected argument list for an empty production {args}")
            if "let __start = __lookahead_start.cloned().or_else(|| __symbols.last().map(|s| s.2.clone())).unwrap_or_default();" not in body \
                    or "let __end = __start.clone();" not in body:
                fail(f"reduce {idx}: unexpected span computation for an empty production")
        if accept:
            ret = None
        else:
            mr = re.search(r"\((\d+), (\d+)\)\s*$", body.strip())
            if not mr:
                fail(f"reduce {idx}: return value")
            ret = (int(mr.group(1)), int(mr.group(2)))
            if sim.get(idx) != ret:
                fail(f"reduce {idx}: simulate_reduce disagrees with the reduce function")
        prods[idx] = (lhs, rhs_syms, act, fallible, accept, ret)
    if sorted(prods) != list(range(len(prods))) or set(prods) != set(sim):
        fail("production indices are not contiguous / differ from simulate_reduce")

    lr = ["import AidlVerif.Model.Lr", "",
          "/-! GENERATED by tools/gen_parser_tables.py from the generated parser — do not edit. -/", "",
          "namespace Aidl.Gen", "open Aidl.Lr", ""]
    for s in range(nstates):
        row = nums[s * ncols:(s + 1) * ncols]
        lr.append(f"def actionRow{s} : Array Int := #[" + ", ".join(str(x) for x in row) + "]")
    lr.append("")
    lr.append("def actionTable : Array (Array Int) := #[" + ", ".join(f"actionRow{s}" for s in range(nstates)) + "]")
    lr.append("")
    lr.append("def eofAction : Array Int := #[" + ", ".join(str(x) for x in eof) + "]")
    lr.append("")
    lr.append("def gotoTable : List (Nat × Nat × List (Nat × Nat)) := [")
    lr.append(",\n".join("  (" + f"{nt}, {d}, [" + ", ".join(f"({a}, {b})" for a, b in cs) + "])" for nt, d, cs in goto) + "]")
    lr.append("")
    # symbol ids: terminal = its ACTION column, `error` = the last column, non-terminal = ncols + index
    nt_of = {}
    for i in range(len(prods)):
        lhs, rhs, act, fallible, accept, ret = prods[i]
        pops, nt = ret if ret else (len(rhs), 0)
        if nt_of.setdefault(lhs, nt) != nt:
            fail(f"non-terminal {lhs} has two indices")
    def sym_id(name):
        if name in terms:
            return terms.index(name)
        if name == "error":
            return ncols - 1
        if name in nt_of:
            return ncols + nt_of[name]
        fail(f"symbol {name} is neither a terminal nor a non-terminal")
    lr.append("def productions : Array Production := #[")
    rows = []
    prod_info = []
    for i in range(len(prods)):
        lhs, rhs, act, fallible, accept, ret = prods[i]
        pops, nt = ret if ret else (len(rhs), 0)
        ids = [sym_id(x) for x in rhs]
        prod_info.append((ids, nt, accept))
        rows.append("  { lhs := %s, rhs := [%s], rhsIds := [%s], pops := %d, nt := %d, action := %d, fallible := %s, accept := %s }" % (
            lean_str(lhs), ", ".join(lean_str(x) for x in rhs), ", ".join(str(x) for x in ids), pops, nt, act,
            "true" if fallible else "false", "true" if accept else "false"))
    lr.append(",\n".join(rows) + "]")
    lr.append("")
    lr.append(f"def ncols : Nat := {ncols}")
    lr.append("")

    # ---------------- LR stack-shape certificate (checked in Lean, not trusted) ----------------
    # edges (q, X, t): transitions that can actually occur on the parse stack. Shift edges come
    # straight from ACTION; GOTO edges are the least fixpoint: (q, A, goto(q, A)) whenever some
    # state t reduces by A -> X1..Xk and q is k edges below t.
    def goto_of(state, nt):
        for n, d, cs in goto:
            if n == nt:
                for a, b in cs:
                    if a == state:
                        return b
                return d
        return 0
    succ = {q: set() for q in range(nstates)}
    for q in range(nstates):
        for c in range(ncols):
            a = nums[q * ncols + c]
            if a > 0:
                succ[q].add((c, a - 1))
    reduces = {}
    for t in range(nstates):
        rs = set()
        for c in range(ncols):
            a = nums[t * ncols + c]
            if a < 0:
                rs.add(-(a + 1))
        if eof[t] < 0:
            rs.add(-(eof[t] + 1))
        reduces[t] = sorted(rs)
    changed = True
    while changed:
        changed = False
        preds = {t: set() for t in range(nstates)}
        for q in range(nstates):
            for (x, t) in succ[q]:
                preds[t].add(q)
        for t in range(nstates):
            for p in reduces[t]:
                ids, nt, accept = prod_info[p]
                qs = {t}
                for _x in reversed(ids):
                    qs = set().union(*[preds[q] for q in qs]) if qs else set()
                if accept:
                    continue
                for q in qs:
                    e = (ncols + nt, goto_of(q, nt))
                    if e not in succ[q]:
                        succ[q].add(e)
                        changed = True
    preds = {t: set() for t in range(nstates)}
    acc = {}
    for q in range(nstates):
        for (x, t) in succ[q]:
            preds[t].add(q)
            if acc.setdefault(t, x) != x:
                fail(f"LR certificate: state {t} is entered by two different symbols")
    lr.append("/-- LR stack-shape certificate (computed by the translator, CHECKED by `Props/LrSafe.lean`):")
    lr.append("    per state the outgoing transitions (symbol id, target), the predecessor states and the accessing symbol -/")
    lr.append("def certSucc : Array (List (Nat × Nat)) := #[" + ", ".join(
        "[" + ", ".join(f"({x}, {t})" for x, t in sorted(succ[q])) + "]" for q in range(nstates)) + "]")
    lr.append("")
    lr.append("def certPreds : Array (List Nat) := #[" + ", ".join(
        "[" + ", ".join(str(q) for q in sorted(preds[t])) + "]" for t in range(nstates)) + "]")
    lr.append("")
    lr.append("def certAcc : Array Nat := #[" + ", ".join(str(acc.get(t, 1000000)) for t in range(nstates)) + "]")
    lr.append("")
    lr.append("def certReds : Array (List Nat) := #[" + ", ".join(
        "[" + ", ".join(str(p) for p in reduces[t]) + "]" for t in range(nstates)) + "]")
    lr.append("")
    # ---------------- termination certificate (checked in Lean, not trusted) ----------------
    # a potential  phi(stack) = sum of w(state) over the stack + r(top state)  that every reduction
    # decreases by at least 1: for every certified transition q --A--> g and every production
    # A -> X1..Xk, with q, s1, .., sk = t the certified path from q over X1..Xk:
    #     w(s1) + .. + w(sk) + r(t)  >=  1 + w(g) + r(g).
    # w is uniform; r is the longest-path solution of the resulting difference constraints.
    nxt = [dict(succ[q]) for q in range(nstates)]
    nnt = max(nt for _ids, nt, _acc in prod_info) + 1
    prods_of = [[p for p in range(len(prod_info)) if prod_info[p][1] == n] for n in range(nnt)]
    def potential(wc):
        edges = set()
        for q in range(nstates):
            for x, g in succ[q]:
                if x < ncols:
                    continue
                for p in prods_of[x - ncols]:
                    ids, nt, accept = prod_info[p]
                    if accept:
                        continue
                    t, c = q, 0
                    for y in ids:
                        t = nxt[t].get(y)
                        if t is None:
                            break
                        c += wc
                    if t is not None:
                        edges.add((g, t, 1 + wc - c))
        r = [0] * nstates
        for _it in range(nstates + 2):
            changed = False
            for g, t, d in edges:
                if r[g] + d > r[t]:
                    r[t] = r[g] + d
                    changed = True
            if not changed:
                return [wc] * nstates, r
        return None
    pot = None
    for wc in (1, 2, 3, 4):
        pot = potential(wc)
        if pot:
            break
    if pot is None:
        # no certificate: emit the zero potential; the Lean check then fails and says so
        pot = ([0] * nstates, [0] * nstates)

    def tree(leaves, lo, hi, var, indent):
        # balanced decision tree over the index, built from kernel-accelerated comparisons
        if hi - lo == 1:
            return leaves[lo]
        mid = (lo + hi) // 2
        pad = " " * indent
        return (f"cond (Nat.blt {var} {mid})\n{pad}  (" + tree(leaves, lo, mid, var, indent + 2) + f")\n{pad}  ("
                + tree(leaves, mid, hi, var, indent + 2) + ")")
    def table_fn(name, var, ty, leaves, default, doc):
        lr.append(f"/-- {doc} -/")
        lr.append(f"def {name} ({var} : Nat) : {ty} :=")
        lr.append(f"  cond (Nat.blt {var} {len(leaves)})\n    (" + tree(leaves, 0, len(leaves), var, 4) + f")\n    ({default})")
        lr.append("")
    lr.append("/-! termination certificate (computed by the translator, CHECKED by `Props/LrTerm.lean`), as decision")
    lr.append("    trees the kernel evaluates quickly: state weights `w` and top-of-stack ranks `r` such that every")
    lr.append("    reduction decreases  Σ w(stack) + r(top);  the transition function; the productions -/")
    lr.append("")
    table_fn("certWf", "s", "Nat", [str(x) for x in pot[0]], "0", "state ↦ weight")
    table_fn("certRf", "s", "Nat", [str(x) for x in pot[1]], "0", "state ↦ rank")
    table_fn("certNext", "q", "List (Nat × Nat)",
             ["[" + ", ".join(f"({x}, {t})" for x, t in sorted(succ[q])) + "]" for q in range(nstates)], "[]",
             "state ↦ its outgoing transitions (symbol id, target)")
    table_fn("certInfo", "p", "Option (List Nat × Nat × Bool)",
             ["some ([" + ", ".join(str(x) for x in ids) + f"], {nt}, {'true' if accept else 'false'})"
              for ids, nt, accept in prod_info], "none",
             "production ↦ (symbol ids of the right-hand side, non-terminal index, accept)")
    table_fn("certProdsOf", "n", "List Nat",
             ["[" + ", ".join(str(p) for p in ps) + "]" for ps in prods_of], "[]",
             "non-terminal index ↦ its productions")
    lr.append(f"def certWMax : Nat := {max(pot[0])}")
    lr.append("")
    lr.append(f"def certRMax : Nat := {max(pot[1])}")
    lr.append("")
    lr.append("end Aidl.Gen")
    lr.append("")

    # ---------------- completeness certificate: LR(1) items (checked in Lean, not trusted) ----------------
    # The items of every state are reconstructed from the productions and the tables: closure under
    # the productions of the symbol after the dot (lookaheads: FIRST of what follows), transitions by
    # shift / GOTO, propagated to a fixpoint. `Items.ok` (Props/LrComplete.lean) then checks the
    # conditions of Jourdan-Pottier-Leroy's validator on the result.
    EOFB = ncols
    nsym = ncols + nnt
    nullable = [False] * nsym
    first = [0] * nsym
    for c in range(ncols):
        first[c] = 1 << c
    changed = True
    while changed:
        changed = False
        for ids, nt, accept in prod_info:
            if accept:
                continue
            X = ncols + nt
            allnull, f = True, 0
            for y in ids:
                f |= first[y]
                if not nullable[y]:
                    allnull = False
                    break
            if allnull and not nullable[X]:
                nullable[X] = True
                changed = True
            if f | first[X] != first[X]:
                first[X] |= f
                changed = True
    def first_seq(ids, amask):
        f = 0
        for y in ids:
            f |= first[y]
            if not nullable[y]:
                return f
        return f | amask
    def delta(q, X):
        if X < ncols:
            a = nums[q * ncols + X]
            return a - 1 if a > 0 else None
        return goto_of(q, X - ncols)
    items = [dict() for _ in range(nstates)]
    def add_item(q, p, dot, m):
        old = items[q].get((p, dot), 0)
        if old | m != old:
            items[q][(p, dot)] = old | m
            return True
        return False
    for p, (ids, nt, accept) in enumerate(prod_info):
        if accept:
            add_item(0, p, 0, 1 << EOFB)
    work = True
    while work:
        work = False
        for q in range(nstates):
            for (p, dot), m in list(items[q].items()):
                ids = prod_info[p][0]
                if dot < len(ids):
                    X = ids[dot]
                    if X >= ncols:
                        fm = first_seq(ids[dot + 1:], m)
                        for p2 in prods_of[X - ncols]:
                            if not prod_info[p2][2] and add_item(q, p2, 0, fm):
                                work = True
                    q2 = delta(q, X)
                    if q2 is not None and 0 <= q2 < nstates and add_item(q2, p, dot + 1, m):
                        work = True
    li = ["import AidlVerif.Model.Lr", "",
          "/-! GENERATED by tools/gen_parser_tables.py from the generated parser — do not edit. -/", "",
          "namespace Aidl.Gen", ""]
    def table_fn2(name, var, ty, leaves, default, doc):
        li.append(f"/-- {doc} -/")
        li.append(f"def {name} ({var} : Nat) : {ty} :=")
        li.append(f"  cond (Nat.blt {var} {len(leaves)})\n    (" + tree(leaves, 0, len(leaves), var, 4) + f")\n    ({default})")
        li.append("")
    table_fn2("certItems", "q", "List (Nat × Nat × Nat)",
              ["[" + ", ".join(f"({p}, {dot}, {m})" for (p, dot), m in sorted(items[q].items())) + "]" for q in range(nstates)],
              "[]", "state ↦ LR(1) items (production, dot, lookahead mask; bit ncols = end of input)")
    table_fn2("certActRow", "q", "List (Nat × Int)",
              ["[" + ", ".join(f"({c}, {nums[q * ncols + c]})" for c in range(ncols) if nums[q * ncols + c] != 0) + "]"
               for q in range(nstates)], "[]", "state ↦ non-zero ACTION entries")
    table_fn2("certEofAct", "q", "Int", [str(x) if x >= 0 else f"({x})" for x in eof], "0", "state ↦ EOF_ACTION")
    table_fn2("certNullable", "x", "Bool", ["true" if b else "false" for b in nullable], "false", "symbol ↦ nullable")
    table_fn2("certFirst", "x", "Nat", [str(m) for m in first], "0", "symbol ↦ FIRST (mask of terminal columns)")
    li.append(f"def certNStates : Nat := {nstates}")
    li.append("")
    li.append("end Aidl.Gen")
    li.append("")

    # ---------------- actions ----------------
    i0 = full.index("pub(crate) use self::__lalrpop_util::lexer::Token;")
    tail = full[i0:]
    acts = {}
    for mm in re.finditer(r"fn __action(\d+)<\s*'input,\s*'err,\s*>\(\s*lookup: &line_col::LineColLookup<'input>,\s*diagnostics: &'err mut Vec<Diagnostic>,\s*input: &'input str,(.*?)\n\) -> (.*?)\n\{\n(.*?)\n\}\n", tail, re.S):
        n = int(mm.group(1))
        params = [p.strip() for p in re.findall(r"\n    (.*?),(?=\n|$)", mm.group(2))]
        acts[n] = (params, mm.group(3), mm.group(4))
    if sorted(acts) != list(range(len(acts))):
        fail("action indices are not contiguous")
    used = {p[2] for p in prods.values()}

    def param_names(params):
        names = []
        for p in params:
            m1 = re.match(r"\(_, (?:mut )?(\w+), _\): ", p)
            m2 = re.match(r"(__\d+): \(usize, ", p)
            m3 = re.match(r"(__lookbehind|__lookahead): &usize", p)
            if m1:
                names.append(m1.group(1))
            elif m2:
                names.append(m2.group(1))
            elif m3:
                names.append(m3.group(1))
            else:
                fail(f"unrecognised action parameter `{p}`")
        return names

    PRIM_SHAPES = {
        "__0": "arg0", "Some(__0)": "some0", "None": "none", "alloc::vec![]": "nil", "v": "argV",
        "alloc::vec![__0]": "sing0", "{ let mut v = v; v.push(e); v }": "push",
        "match e { None => v, Some(e) => { v.push(e); v } }": "pushOpt", "(__0, __1)": "pair01",
        "__lookbehind.clone()": "lookbehind", "__lookahead.clone()": "lookahead",
    }
    comp_re = re.compile(r"((let __(start|end)\d+ = [^;]+; )|(let __temp\d+ = __action\d+\( lookup, diagnostics, input,[^;]*\); )|(let __temp\d+ = \(__start\d+, __temp\d+, __end\d+\); ))*__action\d+\( lookup, diagnostics, input,[^;]*\)")
    defs, prints, user_src = [], [], []
    # An action is `prim` when its body is one of the 11 generic shapes (whoever wrote it: identities
    # such as `Type = { TypeVoid, … }` included), `composite` when it is pure location plumbing, and
    # `user` otherwise: those carry text of aidl.lalrpop and are pinned by their print.
    for n in range(len(acts)):
        params, ret, body = acts[n]
        names = param_names(params)
        norm = re.sub(r"\s+", " ", body).strip()
        if comp_re.fullmatch(norm):
            # composite: location plumbing
            stmts = []
            for st in [s.strip() for s in norm.split(";")]:
                m1 = re.fullmatch(r"let (__(?:start|end)\d+) = (.*)", st)
                m2 = re.fullmatch(r"let (__temp\d+) = __action(\d+)\( lookup, diagnostics, input,(.*)\)", st)
                m3 = re.fullmatch(r"let (__temp\d+) = \((__start\d+), (__temp\d+), (__end\d+)\)", st)
                m4 = re.fullmatch(r"__action(\d+)\( lookup, diagnostics, input,(.*)\)", st)

                def loc_expr(e):
                    e = e.strip()
                    mm1 = re.fullmatch(r"(__\d+)\.(0|2)\.clone\(\)", e)
                    if mm1:
                        return f".param {names.index(mm1.group(1))} {'true' if mm1.group(2) == '0' else 'false'}"
                    mm2 = re.fullmatch(r"(__lookbehind|__lookahead)\.clone\(\)", e)
                    if mm2:
                        return f".param {names.index(mm2.group(1))} true"
                    mm3 = re.fullmatch(r"(__(?:start|end)\d+)\.clone\(\)", e) or re.fullmatch(r"(__(?:start|end)\d+)", e)
                    if mm3:
                        return f".var {lean_str(mm3.group(1))}"
                    fail(f"action {n}: unrecognised location expression `{e}`")

                def arg_expr(e):
                    e = e.strip()
                    if re.fullmatch(r"__\d+", e) or e in ("__lookbehind", "__lookahead"):
                        return f".param {names.index(e)}"
                    if re.fullmatch(r"__temp\d+", e):
                        return f".temp {lean_str(e)}"
                    mm1 = re.fullmatch(r"&(__(?:start|end)\d+)", e)
                    if mm1:
                        return f".loc {lean_str(mm1.group(1))}"
                    fail(f"action {n}: unrecognised argument `{e}`")

                if m1:
                    stmts.append(f".letLoc {lean_str(m1.group(1))} ({loc_expr(m1.group(2))})")
                elif m2:
                    a = [arg_expr(x) for x in m2.group(3).split(",") if x.strip()]
                    stmts.append(f".letCall {lean_str(m2.group(1))} {m2.group(2)} [{', '.join(a)}]")
                elif m3:
                    if m3.group(1) != m3.group(3):
                        fail(f"action {n}: unexpected triple")
                    stmts.append(f".letTriple {lean_str(m3.group(1))} {lean_str(m3.group(2))} {lean_str(m3.group(4))}")
                elif m4:
                    a = [arg_expr(x) for x in m4.group(2).split(",") if x.strip()]
                    stmts.append(f".ret {m4.group(1)} [{', '.join(a)}]")
                else:
                    fail(f"action {n}: unrecognised composite statement `{st}`")
            defs.append(f"  .composite {len(params)} [{', '.join(stmts)}]")
        elif norm in PRIM_SHAPES:
            shape = PRIM_SHAPES[norm]
            idx = {nm: i for i, nm in enumerate(names)}
            if shape in ("arg0", "some0", "sing0"):
                defs.append(f"  .prim {len(params)} (.{shape[:-1]} {idx['__0']})")
            elif shape == "argV":
                defs.append(f"  .prim {len(params)} (.arg {idx['v']})")
            elif shape in ("push", "pushOpt"):
                defs.append(f"  .prim {len(params)} (.{shape} {idx['v']} {idx['e']})")
            elif shape == "pair01":
                defs.append(f"  .prim {len(params)} (.pair {idx['__0']} {idx['__1']})")
            elif shape in ("none", "nil"):
                defs.append(f"  .prim {len(params)} .{shape}")
            else:
                defs.append(f"  .prim {len(params)} (.arg {idx['__' + shape]})")
        else:
            # the print covers the parameter list (names and order), the return type and the body,
            # so it does not change when lalrpop merely renumbers the actions
            # parameter names are replaced by their positions (`_p0`, `_p1`, …) in the signature and in
            # the body: renaming a capture is harmless, swapping two captures is not — and changes the print
            body_n = norm
            for k, nm in sorted(enumerate(names), key=lambda kn: -len(kn[1])):
                body_n = re.sub(r"(?<![A-Za-z0-9_])" + re.escape(nm) + r"(?![A-Za-z0-9_])", f"_p{k}", body_n)
            sig = str(len(names)) + " -> " + ret + " : " + body_n
            h = int(hashlib.sha256(sig.encode()).hexdigest()[:15], 16)
            defs.append(f"  .user {len(params)} {h}")
            prints.append((n, len(params), h))
            user_src.append((n, names, ret, norm))

    ac = ["import AidlVerif.Model.Actions", "",
          "/-! GENERATED by tools/gen_parser_tables.py from the generated parser — do not edit. -/", "",
          "namespace Aidl.Gen", "open Aidl.Actions", "",
          "def actionDefs : Array ActionDef := #["]
    ac.append(",\n".join(defs) + "]")
    ac.append("")
    ac.append("/-- (action index, arity, print of the whitespace-normalised body) of every action that carries")
    ac.append("    text of `aidl.lalrpop` — the hand-written Lean versions in `Model/Actions.lean` are pinned to these -/")
    ac.append("def userActionPrints : List (Nat × Nat × Nat) := [")
    ac.append(",\n".join(f"  ({n}, {k}, {h})" for n, k, h in prints) + "]")
    ac.append("")
    ac.append("/-")
    for n, names, ret, norm in user_src:
        ac.append(f"action {n} ({', '.join(names)}) -> {ret}")
        ac.append("    " + norm.replace("-/", "- /"))
    ac.append("-/")
    ac.append("")
    ac.append("end Aidl.Gen")
    ac.append("")

    # ---------------- typing: signatures of the actions, types of the symbols, call depth ----------------
    LEAF = {"ast::Aidl": ".aidl", "ast::Annotation": ".ann", "ast::Arg": ".arg", "ast::Const": ".const",
            "ast::Direction": ".dir", "ast::Enum": ".enm", "ast::EnumElement": ".enumEl", "ast::Field": ".field",
            "ast::Import": ".import_", "ast::Interface": ".iface", "ast::InterfaceElement": ".iel", "ast::Item": ".item",
            "ast::Method": ".method", "ast::Package": ".package", "ast::Parcelable": ".parc",
            "ast::ParcelableElement": ".pel", "ast::Type": ".ty"}

    def split_top(t):
        parts, depth, cur = [], 0, ""
        for ch in t:
            if ch in "<(":
                depth += 1
            elif ch in ">)":
                depth -= 1
            if ch == "," and depth == 0:
                parts.append(cur.strip())
                cur = ""
            else:
                cur += ch
        if cur.strip():
            parts.append(cur.strip())
        return parts

    def vty(t):
        t = t.strip()
        if t.startswith("Result<"):
            return vty(split_top(t[len("Result<"):-1])[0])
        if t in ("&'input str",):
            return ".tok"
        if t == "usize":
            return ".loc"
        if t == "String":
            return ".str"
        if t.startswith("__lalrpop_util::ErrorRecovery<"):
            return ".recovery"
        if t in LEAF:
            return LEAF[t]
        for pre in ("core::option::Option<",):
            if t.startswith(pre) and t.endswith(">"):
                return f"(.opt {vty(t[len(pre):-1])})"
        if t.startswith("Option<") and t.endswith(">"):
            inner = t[len("Option<"):-1]
            # an `Option<ast::…>` written in aidl.lalrpop: `None` comes from error recovery only
            return f"(.optNS {vty(inner)})" if inner.startswith("ast::") else f"(.opt {vty(inner)})"
        for pre in ("alloc::vec::Vec<", "Vec<"):
            if t.startswith(pre) and t.endswith(">"):
                return f"(.list {vty(t[len(pre):-1])})"
        if t.startswith("(") and t.endswith(")"):
            parts = split_top(t[1:-1])
            if len(parts) == 2:
                return f"(.pair {vty(parts[0])} {vty(parts[1])})"
        fail(f"unrecognised Rust type `{t}`")

    def aty(p):
        ty = p.split(": ", 1)[1]
        if ty == "&usize":
            return ".locRef"
        m1 = re.fullmatch(r"\(usize, (.*), usize\)", ty)
        if not m1:
            fail(f"unrecognised parameter type `{ty}`")
        return f".triple {vty(m1.group(1))}"

    sig_params = [[aty(p) for p in acts[n][0]] for n in range(len(acts))]
    sig_ret = [vty(acts[n][1]) for n in range(len(acts))]

    # ---- refinement `tok` -> `dtok` (the text of a DIRECTION token), claimed here and CHECKED in Lean:
    # the Rust types do not distinguish a DIRECTION token from any other `&str`; the flow of its value
    # from the terminal through the generic builders into the action of `Direction` is followed, and
    # the slots it passes through are given the refined type. Any inconsistency drops the refinement
    # (the Lean check of the signature of `Direction`'s action then fails and says so).
    def structure(n):
        params, ret, body = acts[n]
        names = param_names(params)
        norm = re.sub(r"\s+", " ", body).strip()
        def arg_of(e):
            e = e.strip()
            if re.fullmatch(r"__\d+", e) or e in ("__lookbehind", "__lookahead"):
                return ("param", names.index(e))
            if re.fullmatch(r"__temp\d+", e):
                return ("temp", e)
            return ("loc",)
        if comp_re.fullmatch(norm):
            out = []
            for st in [x.strip() for x in norm.split(";")]:
                m2 = re.fullmatch(r"let (__temp\d+) = __action(\d+)\( lookup, diagnostics, input,(.*)\)", st)
                m4 = re.fullmatch(r"__action(\d+)\( lookup, diagnostics, input,(.*)\)", st)
                if m2:
                    out.append(("call", m2.group(1), int(m2.group(2)), [arg_of(x) for x in m2.group(3).split(",") if x.strip()]))
                elif m4:
                    out.append(("ret", None, int(m4.group(1)), [arg_of(x) for x in m4.group(2).split(",") if x.strip()]))
            return ("composite", out)
        if norm in PRIM_SHAPES:
            shape = PRIM_SHAPES[norm]
            idx = {nm: i for i, nm in enumerate(names)}
            if shape in ("arg0", "some0"):
                return ("prim", shape[:-1], idx["__0"])
            if shape == "argV":
                return ("prim", "arg", idx["v"])
            if shape == "none":
                return ("prim", "none", None)
            return ("prim", "other", None)
        return ("user",)
    struct = [structure(n) for n in range(len(acts))]
    def refined(t):
        return t.replace(".tok", ".dtok")
    def refine():
        if "DIRECTION" not in terms:
            return None
        msym = {terms.index("DIRECTION")}          # symbol ids
        mparam, mret = set(), set()                 # (action, index), action
        nt_prods = {}
        for i in range(len(prods)):
            lhs, rhs, act, fallible, accept, ret = prods[i]
            if not accept:
                nt_prods.setdefault(nt_of[lhs], []).append(i)
        changed = True
        while changed:
            changed = False
            def mark(st, x):
                nonlocal changed
                if x not in st:
                    st.add(x)
                    changed = True
            for i in range(len(prods)):
                lhs, rhs, act, fallible, accept, ret = prods[i]
                for j, x in enumerate(rhs):
                    if sym_id(x) in msym:
                        if accept:
                            return None
                        mark(mparam, (act, j))
                if not accept and act in mret:
                    mark(msym, ncols + nt_of[lhs])
                if not accept and ncols + nt_of[lhs] in msym and struct[act] == ("prim", "none", None):
                    mark(mret, act)
            for n in range(len(acts)):
                k = struct[n]
                mine = [i for (a, i) in mparam if a == n]
                if k[0] == "prim":
                    if k[1] in ("arg", "some"):
                        if k[2] in mine:
                            mark(mret, n)
                    elif mine:
                        return None                  # a builder this flow is not followed through
                elif k[0] == "composite":
                    temps = {}
                    for kind, tmp, callee, args in k[1]:
                        for pos, a in enumerate(args):
                            if (a[0] == "param" and a[1] in mine) or (a[0] == "temp" and temps.get(a[1])):
                                mark(mparam, (callee, pos))
                        if kind == "call":
                            temps[tmp] = callee in mret
                        elif callee in mret:
                            mark(mret, n)
        # consistency: all productions of a refined non-terminal return the refined type
        for sid in msym:
            if sid >= ncols:
                for i in nt_prods.get(sid - ncols, []):
                    if prods[i][2] not in mret:
                        return None
        return msym, mparam, mret
    ref = refine()
    if ref:
        msym, mparam, mret = ref
        for (a, i) in mparam:
            sig_params[a][i] = refined(sig_params[a][i])
        for a in mret:
            sig_ret[a] = refined(sig_ret[a])
    sigs = []
    for n in range(len(acts)):
        sigs.append("  { params := [" + ", ".join(sig_params[n]) + "], ret := " + sig_ret[n] + " }")
    # type of every symbol id: terminals are tokens, `error` is the recovery record, a non-terminal
    # has the return type of the actions of its productions
    nt_ty = {}
    for i in range(len(prods)):
        lhs, rhs, act, fallible, accept, ret = prods[i]
        if accept:
            continue
        t = sig_ret[act]
        if nt_ty.setdefault(nt_of[lhs], t) != t:
            fail(f"non-terminal {lhs} has two types")
    nnt = max(nt_ty) + 1
    sym_tys = [".tok"] * (ncols - 1) + [".recovery"] + [nt_ty.get(k, ".tok") for k in range(nnt)]
    if ref:
        for sid in ref[0]:
            if sid < ncols - 1:
                sym_tys[sid] = ".dtok"
    # call depth of every action (0 for generic builders and actions with user text)
    calls = {}
    for n in range(len(acts)):
        norm = re.sub(r"\s+", " ", acts[n][2]).strip()
        calls[n] = [int(x) for x in re.findall(r"__action(\d+)\(", norm)] if comp_re.fullmatch(norm) else []
    rank = {}
    def rank_of(n, seen=()):
        if n in rank:
            return rank[n]
        if n in seen:
            fail(f"action {n} calls itself")
        r = 0 if not calls[n] else 1 + max(rank_of(c, seen + (n,)) for c in calls[n])
        rank[n] = r
        return r
    for n in range(len(acts)):
        rank_of(n)
    ty = ["import AidlVerif.Model.Typing", "",
          "/-! GENERATED by tools/gen_parser_tables.py from the generated parser — do not edit. -/", "",
          "namespace Aidl.Gen", "open Aidl.Typing", "",
          "/-- parameter and return types of every `__actionN`, from its Rust signature -/",
          "def actionSigs : Array Sig := #["]
    ty.append(",\n".join(sigs) + "]")
    ty.append("")
    ty.append("/-- type of the value of every grammar symbol, by symbol id -/")
    ty.append("def symTys : Array VTy := #[" + ", ".join(sym_tys) + "]")
    ty.append("")
    ty.append("/-- nesting depth of the calls of every action -/")
    ty.append("def actionRanks : Array Nat := #[" + ", ".join(str(rank[n]) for n in range(len(acts))) + "]")
    ty.append("")
    # claimed (checked in Lean): running this action reports an Error — it is an error-recovery action
    # of aidl.lalrpop (`Diagnostic::from_error_recovery`) or a composite action that calls one
    reports = {}
    def reports_of(n):
        if n in reports:
            return reports[n]
        if calls[n]:
            r = any(reports_of(c) for c in calls[n])
        else:
            r = "from_error_recovery" in acts[n][2]
        reports[n] = r
        return r
    for n in range(len(acts)):
        reports_of(n)
    ty.append("/-- claimed: running this action reports an Error (checked by `TyTables.actionsOk`) -/")
    ty.append("def actionReports : Array Bool := #[" + ", ".join("true" if reports[n] else "false" for n in range(len(acts))) + "]")
    ty.append("")
    ty.append("end Aidl.Gen")
    ty.append("")

    changed = []
    if write_if_changed(os.path.join(gen_dir, "Typing.lean"), "\n".join(ty)):
        changed.append("Typing")
    if write_if_changed(os.path.join(gen_dir, "LexTable.lean"), "\n".join(lex)):
        changed.append("LexTable")
    if write_if_changed(os.path.join(gen_dir, "LrTables.lean"), "\n".join(lr)):
        changed.append("LrTables")
    if write_if_changed(os.path.join(gen_dir, "Actions.lean"), "\n".join(ac)):
        changed.append("Actions")
    if write_if_changed(os.path.join(gen_dir, "LrItems.lean"), "\n".join(li)):
        changed.append("LrItems")
    print(f"gen_parser_tables: {nstates} states x {ncols} columns, {len(prods)} productions, {len(acts)} actions "
          f"({len(prints)} with user text), {len(entries)} lexer entries" + (" (rewritten: " + ", ".join(changed) + ")" if changed else " (unchanged)"))


if __name__ == "__main__":
    main()
