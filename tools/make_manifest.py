#!/usr/bin/env python3
"""Regenerates /verif/MANIFEST.json from tools/props.py (claimed properties) and properties.jsonl."""
import json, os, sys
ROOT = os.path.dirname(os.path.dirname(os.path.abspath(__file__)))
sys.path.insert(0, os.path.join(ROOT, "tools"))
from props import PROPS, NOT_CLAIMED_REASON

props = [json.loads(l) for l in open(os.path.join(ROOT, "properties.jsonl"))]
claimed = sorted(PROPS.keys())
m = {
    "version": 1,
    "setup_cmd": "./check setup",
    "hooks": {
        "guard": "verif-hooks",
        "enable": "cargo feature `verif-hooks` of aidl-parser, switched on by the path dependency in /verif/harness/Cargo.toml (`cargo build --offline` in /verif/harness)",
        "baseline_off_cmd": "cd /repo && cargo test --workspace --no-fail-fast --offline",
        "source_commits": ["1c9b6fb", "3c5c81a"],
        "add_only": True,
    },
    "engines": [
        {"name": "lean-model", "path": "/verif/lean", "serves_properties": claimed,
         "kind_free_text": "Lean 4 model of the library + property theorems; compiled model driver `aidl_model` (JSON lines)"},
        {"name": "harness", "path": "/verif/harness", "serves_properties": claimed,
         "kind_free_text": "Rust correspondence harness: generators, the real library in-process with feature verif-hooks, own tree printer"},
    ],
    "checks": [],
    "notes": "See DESIGN.md. Every check builds the harness against /repo's working tree, regenerates the tables, rebuilds the Lean property module, audits the axioms of every theorem in it, runs the correspondence suites through the compiled Lean model and evaluates the proved executable specification on the implementation's output.",
    "not_applicable": [],
}
for p in props:
    pid = p["id"]
    if pid in PROPS:
        c = PROPS[pid]
        m["checks"].append({
            "property_id": pid,
            "quick_cmd": f"./check {pid} quick",
            "thorough_cmd": f"./check {pid} thorough",
            "evidence_file": f"/verif/evidence/{pid}.json",
            "replay_cmd_template": f"./check {pid} quick --replay {{path}}",
            "engine": "lean-model",
            "level_claimed": {"category": "proof", "text": c["level_text"], "design_ref": f"DESIGN.md §7 {pid}"},
            "level_note": c["level_note"],
            "technique": c.get("technique", "Lean 4 theorems about an executable model of the code + differential correspondence (model vs. implementation) + proved executable specification evaluated on the implementation's output"),
        })
    else:
        m["not_applicable"].append({"property_id": pid, "reason": NOT_CLAIMED_REASON.get(pid, "check under construction in this session (not yet claimed); DESIGN.md §11 gives the build order")})
json.dump(m, open(os.path.join(ROOT, "MANIFEST.json"), "w"), indent=1)
print("claimed:", " ".join(claimed))
