"""Per-property configuration of ./check (suites, Lean modules, verdict keys)."""

ALLOWED_AXIOMS = {"propext", "Classical.choice", "Quot.sound"}

COMMON_TB = [
    "hand-written Lean model of validation.rs / traverse.rs / symbol.rs / parser.rs (AidlVerif/Model), tied to the code by the correspondence check on every run",
    "std HashMap/HashSet semantics (insert/get/remove); iteration order is a universally quantified parameter of the model",
    "rustc, lalrpop (the parse stage is taken from the implementation for validation-level properties)",
]

NOT_CLAIMED_REASON = {}

TRAV_TB = [
    "hand-written Lean model of traverse.rs / symbol.rs (AidlVerif/Model/Traverse.lean, Symbol.lean); closures are modelled as state-passing functions, ControlFlow::Break as `some`",
    "trees are the implementation's validated trees (so the parser and validation are outside this check)",
]

PROPS = {
    "C15": {
        "modules": ["AidlVerif.Props.C15"],
        "theorems": ["Aidl.Props.C15.walk_eq", "Aidl.Props.C15.find_eq", "Aidl.Props.C15.filter_eq", "Aidl.Props.C15.level_sublist", "Aidl.Props.C15.all_types_once", "Aidl.Props.C15.walk_types_eq", "Aidl.Props.C15.walk_args_eq"],
        "suites": ["walk"],
        "keys": {"corr": ["C15"], "spec": ["C15"], "outcome": True},
        "trusted_base": TRAV_TB,
        "assumptions": ["symbols are identified by address in the harness and by structural equality in the driver (distinct nodes of one tree have distinct ranges or names)"],
        "level_text": "Theorems (all trees, all three filter levels, ALL closures incl. stateful ones, all break values): the control-flow walker is the short-circuit fold of the closure over the declarative visit list `Spec.C15.symbols` — package, imports, item, members, per method the return type then each argument followed by its type, every type at any nesting depth, an array's element before the array (`walk_eq`, mutual induction over the nested type tree); hence `find_symbol` returns the first visited symbol on which the predicate answers true and stops there, also for the package (`find_eq`, `find_pure`), `filter_symbols` returns exactly the satisfying symbols in visit order (`filter_eq`), the coarser levels are sub-sequences (`level_sublist`, `level_items`), the type symbols of the detailed level are exactly all type nodes once each (`all_types_once`), and the type / method / argument walkers are folds over all types (any depth) / methods / arguments in source order.",
        "level_note": "Trusted: Lean kernel (+ propext, Classical.choice, Quot.sound), the model of traverse.rs tied to the code by the correspondence run (visit lists, level lists, find/filter results incl. number of predicate calls, three walkers), the harness.",
        "rule": "suite walk: validated random multi-file projects (all item kinds, member mixes, types nested to depth 3) x 3 filter levels x predicates 'is the k-th visited symbol' for every k (stateful), 'is of kind K' for the 11 kinds, 'name equals N' for up to 12 names. distinct = distinct input digest; non-trivial = more than 3 symbols",
    },
    "C16": {
        "modules": ["AidlVerif.Props.C16"],
        "theorems": ["Aidl.Props.C16.contains_iff", "Aidl.Props.C16.find_at_eq", "Aidl.Props.C16.point_inside_finds", "Aidl.Props.C16.nothing_outside", "Aidl.Props.C16.offsets_inside"],
        "suites": ["walkpos"],
        "keys": {"corr": ["C16"], "spec": ["C16"], "assume": ["C16"], "outcome": True},
        "trusted_base": TRAV_TB + ["line/column of an offset come from the line-col crate (grapheme clusters); only monotonicity in the offset is assumed (`LcMonotone`), and it is checked for every generated text"],
        "assumptions": ["LcMonotone: (line, column) is lexicographically monotone in the byte offset — evaluated on the position table of every case"],
        "level_text": "Theorems (all trees, filters, positions): the four early returns of `range_contains` are exactly start <=lex position <=lex end (`contains_iff`); position lookup returns the FIRST visited symbol whose reported range contains the position, else nothing (`find_at_eq`, through C15's refinement); a position inside any visited symbol is always answered with a symbol containing it (`point_inside_finds`), a position outside all of them with nothing (`nothing_outside`); with a monotone line/column lookup every offset from the first character of a name range through the position after its last character is such a position (`offsets_inside`).",
        "level_note": "Trusted: Lean kernel (+ propext, Classical.choice, Quot.sound), the model of traverse.rs tied to the code by the correspondence run at EVERY character position of every generated document x 3 filter levels, the harness, the line-col crate.",
        "rule": "suite walkpos: validated random projects (<= 2 files) in plain / tight / wild layouts (multi-line, CRLF, Unicode whitespace, multi-byte comment text before names on the same line) x every character position (and the end position) x 3 filter levels. distinct = distinct input digest; non-trivial = at least one position looked up",
    },
    "C17": {
        "modules": ["AidlVerif.Props.C17"],
        "theorems": ["Aidl.Props.C17.item_qname_is_key", "Aidl.Props.C17.qualified_eq", "Aidl.Props.C17.defined_from_project", "Aidl.Props.C17.resolved_to_item"],
        "suites": ["walk"],
        "keys": {"corr": ["C17"], "spec": ["C17"], "outcome": True},
        "trusted_base": TRAV_TB + COMMON_TB[:1],
        "assumptions": ["`hparser` of resolved_to_item: the parser never produces resolved kinds (custom types come out `unresolved`) — true of the grammar actions, and of every tree the harness feeds"],
        "level_text": "Theorems: the qualified name of a file's item symbol is `package.Name` = the key under which the file is registered, for the three kinds alike (`item_qname_is_key`); `get_qualified_name` is what the statement prescribes for every symbol variant — `Owner::member`, dotted names for imports and the package, the stored identifier for plain names (`qualified_eq`, `item_name`); every key consulted by validation is the key of a file currently in the parser (`defined_from_project`, induction over the key-collecting fold); and in any validated file, under any hash order, a type node at any depth whose kind is an item kind with key k comes with a project file of key k whose item symbol reports the same qualified name as the type symbol (`resolved_to_item`, through C05's `nodes_validated` and `classify_item_kind`).",
        "level_note": "Trusted: Lean kernel (+ propext, Classical.choice, Quot.sound), the models of symbol.rs / ast.rs get_key / validation.rs tied to the code by the correspondence run (tag, plain name, qualified name of every visited symbol of every file), the harness.",
        "rule": "suite walk: validated random multi-file projects: every item kind x package depth 1-2 x references from other files at depth <= 3 (simple, partially and fully qualified). distinct = distinct input digest; non-trivial = more than 3 symbols",
    },
    "C06": {
        "modules": ["AidlVerif.Props.C06"],
        "theorems": ["Aidl.Props.C06.checkImports_spec", "Aidl.Props.C06.checkDecls_spec", "Aidl.Props.C06.resolved_is_deep", "Aidl.Props.C06.holds"],
        "suites": ["proj", "dirs"],
        "keys": {"corr": ["C06"], "spec": ["C06"], "assume": ["C06"], "outcome": True},
        "trusted_base": COMMON_TB,
        "assumptions": [
            "hypothesis `Fresh` of Props.C06.holds (no diagnostic of another step sits on an import / declaration statement range) is decidable and evaluated on every case",
            "a declaration conflicting with several imports points to the one with the smallest qualified name (the repaired code's deterministic choice)",
        ],
        "level_text": "Theorems (all import lists, all declaration lists, all resolved sets, all defined sets, ALL hash orders): `check_imports` keeps the FIRST occurrence of each qualified name, flags every repeat with an Error pointing back to the first, and pushes — as a multiset independent of the hash order — one 'unresolved' or 'unused' Warning per first occurrence exactly as specified (`checkImports_spec`); the same for forward declarations: conflict with an import, repeat, unused (name range) or usage (full range) (`checkDecls_spec`); the `resolved` set they consult is the set of keys of ALL type nodes at any depth of the validated tree (`resolved_is_deep`); `holds`: the diagnostics sitting on import/declaration statements of any validated file are exactly the specified multiset of (severity, range, range pointed back to).",
        "level_note": "Trusted: Lean kernel (+ propext, Classical.choice, Quot.sound), the hand-written model of check_imports / check_declared_parcelables tied to the code by the correspondence run, the harness.",
        "rule": "suite proj: random multi-file projects with import lists (project keys, near misses, unresolvable, built-in, duplicates) and forward-declaration lists (qualified/unqualified, duplicated, shadowed by imports, built-in names) and references at depth <= 3; suite dirs: fixed prelude with every kind of import. distinct = distinct input digest; non-trivial = at least one import or declaration",
    },
    "C08": {
        "modules": ["AidlVerif.Props.C08"],
        "theorems": ["Aidl.Props.C08.container_rule", "Aidl.Props.C08.checkContainers_eq", "Aidl.Props.C08.holds"],
        "suites": ["containers", "proj"],
        "keys": {"corr": ["C08"], "spec": ["C08"], "assume": ["C08"], "outcome": True},
        "trusted_base": COMMON_TB,
        "assumptions": [
            "a container diagnostic is recognised by its context message (one of: unsupported array, invalid parameter, invalid element, invalid map key, invalid map value, non-generic list, non-generic map); hypothesis `Fresh` (no diagnostic of another step carries one of them) is decidable and evaluated on every case",
            "arity of generic lists (arrays/lists 1, maps 2) is guaranteed by the grammar; the model makes a violation an explicit panic outcome",
        ],
        "level_text": "Theorems (all trees at any nesting depth, all positions): per container node `check_container` reports exactly one Error per offending element on that element and one Warning per raw List/Map, per the four element tables written from the statement over the 17 categories (`container_rule`, case analysis); `check_containers` applies it to EVERY type node at ANY depth in field, constant, return and argument position (`checkContainers_eq`, through `walkTypes_eq`: the walker is a fold over all nodes); `holds`: in the validated file the container diagnostics are, as a multiset of (severity, range), exactly those.",
        "level_note": "Trusted: Lean kernel (+ propext, Classical.choice, Quot.sound), the hand-written model of check_container(s)/walk_types tied to the code by the correspondence run, the harness.",
        "rule": "suite containers: exhaustive container shapes to nesting depth 2 (quick) / 3 with restricted keys (thorough) over the 17 leaf categories, each in field, return, argument and constant position, through real parsing and multi-file resolution; suite proj: random projects. distinct = distinct input digest; non-trivial = at least one array/list/map node",
    },
    "C09": {
        "modules": ["AidlVerif.Props.C09"],
        "theorems": ["Aidl.Props.C09.step_spec", "Aidl.Props.C09.ids_spec", "Aidl.Props.C09.holds"],
        "suites": ["ids", "proj"],
        "keys": {"corr": ["C09"], "spec": ["C09"], "assume": ["C09"], "outcome": True},
        "trusted_base": COMMON_TB,
        "assumptions": [
            "hypothesis `Fresh` of Props.C09.holds (the Errors with related information on a method's name/code range are exactly the id diagnostics, in ascending position) is decidable and evaluated on every case",
            "a code is 'explicit' when the tree's transact_code is present; a literal that does not fit u32 is an Error of its own and counts as absent, as in the code",
        ],
        "level_text": "Theorems (all method lists of any length, any names and codes): the single-pass bookkeeping of check_methods, started from the abstraction of ANY prefix, yields the abstraction of the longer prefix and exactly the declaratively specified reports (`step_spec`; invariant: names = first occurrences, first method with / without code, first method per code), hence for the whole list the reports (range, range pointed back to) equal `Spec.C09.spec` and the two `unwrap()`s never fail (`ids_spec`); `holds` lifts this to the sorted diagnostics of any validated file. Duplicate names are flagged against the FIRST occurrence and take no further part; 'mixed' is raised once, at the first method that makes the kept methods mixed.",
        "level_note": "Trusted: Lean kernel (+ propext, Classical.choice, Quot.sound), the hand-written model of check_methods tied to the code by the correspondence run, the harness.",
        "rule": "suite ids: exhaustive method sequences of length <= 3 (quick) / <= 5 (thorough) over 3 names x {no code, =1, =2, =01} with constants interleaved, plus random sequences of length 4-12 with large, overflowing and zero-padded codes; suite proj: random projects. distinct = distinct input digest; non-trivial = at least two methods",
    },
    "C10": {
        "modules": ["AidlVerif.Props.C10"],
        "theorems": ["Aidl.Props.C10.flags", "Aidl.Props.C10.warningsAt_setUpOneway", "Aidl.Props.C10.errorsAt_returnDiags", "Aidl.Props.C10.holds"],
        "suites": ["oneway", "proj"],
        "keys": {"corr": ["C10"], "spec": ["C10"], "assume": ["C10"], "outcome": True},
        "trusted_base": COMMON_TB,
        "assumptions": [
            "hypothesis `Fresh` of Props.C10.holds (no other Warning on a method's oneway range, no other Error on a method's return-type name, e.g. an unresolved return type) is decidable and evaluated on every case; where it fails only the model-vs-implementation projection is compared",
        ],
        "level_text": "Theorems (all interfaces, all member mixes, all hash orders): in the validated tree a method is oneway iff the source says so or the interface is oneway (`flags`, via `methodsOf_validated`: nothing else in a method changes except type kinds); the Warnings of the propagation step are exactly one per method of a oneway interface that spells `oneway`, on its oneway range (`warningsAt_setUpOneway`); the return rule pushes one Error on the return type iff the method is oneway AFTER propagation and not void (`errorsAt_returnDiags`, resolution never creates or removes `void`: `newKind_void`); `holds` puts them together for the sorted diagnostics of any file.",
        "level_note": "Trusted: Lean kernel (+ propext, Classical.choice, Quot.sound), the hand-written model of validation.rs tied to the code by the correspondence run, the harness.",
        "rule": "suite oneway: exhaustive interfaces of <= 2 (quick) / <= 3 (thorough) methods x interface oneway x per-method oneway x return type over the 17 categories, with a constant interleaved; suite proj: random projects. distinct = distinct input digest; non-trivial = at least one method in a parsed interface",
        "exhaustive": False,
    },
    "C05": {
        "modules": ["AidlVerif.Props.C05"],
        "theorems": ["Aidl.Props.C05.classify_eq", "Aidl.Props.C05.resolveTypes_eq", "Aidl.Props.C05.holds"],
        "suites": ["proj", "dirs"],
        "keys": {"corr": ["C05"], "spec": ["C05"], "assume": ["C05"], "outcome": True},
        "trusted_base": COMMON_TB,
        "assumptions": [
            "hypothesis `Fresh` of Props.C05.holds (no diagnostic of another validation step carries the context message 'unknown type') is decidable and evaluated on every case",
            "an 'unknown type' Error is recognised by kind = Error and context message 'unknown type'",
            "where the statement leaves precedence open (several matching imports; a qualified built-in name that is also a suffix of an import) the specification takes the repaired code's choice (smallest qualified name; built-in first), see DESIGN.md §6",
        ],
        "level_text": "Theorems (all trees, all import/declaration lists, all sets of defined keys, all hash orders): `resolve_type` computes the scoping rule `classify` written from the statement (`classify_eq`); `resolve_types` rewrites EVERY type node at ANY depth by that rule and pushes exactly one 'unknown type' Error per node left unresolved, in order (`resolveTypes_eq`, mutual structural induction over the nested type tree); in the validated file the kinds of all nodes and the 'unknown type' Errors are exactly those (`holds`).",
        "level_note": "Trusted: Lean kernel (+ propext, Classical.choice, Quot.sound), the hand-written model of validation.rs/traverse.rs tied to the code by the correspondence run (kinds of all type nodes and unknown-type ranges, model vs implementation), the harness. `defined` is recomputed by the model from the syntax-stage trees.",
        "rule": "suite proj: random multi-file projects (1-6 files) with imports/declarations drawn from project keys, near misses, unresolvable and built-in names, and type references (depth <= 3) biased towards names related to the file's imports; suite dirs: the 17-category product. distinct = distinct input digest; non-trivial = at least one user-type reference in a parsed tree",
    },
    "C07": {
        "modules": ["AidlVerif.Props.C07"],
        "theorems": ["Aidl.Props.C07.arg_rule", "Aidl.Props.C07.holds"],
        "suites": ["dirs", "proj"],
        "keys": {"corr": ["C07"], "spec": ["C07"], "assume": ["C07"], "outcome": True},
        "trusted_base": COMMON_TB,
        "assumptions": [
            "hypothesis `Fresh` of Props.C07.holds (no other Error sits on an argument's direction range) is decidable and evaluated on every case (assume_fail counts its failures)",
            "`void` arguments follow the rule of primitives (the statement does not name void)",
        ],
        "level_text": "Theorems (all inputs, all hash orders): per argument `check_method_args` pushes exactly the Errors the statement's table calls for, all on the direction keyword / empty range at the type (`arg_rule`, 17 categories x 4 directions x oneway by case analysis), and in the validated file every argument of every method carries exactly that many Errors on its direction range, with oneway taken after propagation (`holds`). The finite table is additionally covered exhaustively through the real parser and multi-file resolution, so for the table the correspondence is complete.",
        "level_note": "Trusted: Lean kernel (+ propext, Classical.choice, Quot.sound), the hand-written model of validation.rs tied to the code by the correspondence run, the harness. Hypothesis `Fresh` (no unrelated Error on a direction range) is evaluated on every case.",
        "rule": "suite dirs: exhaustive product 17 type categories x 4 directions x method oneway x interface oneway x argument position through real parsing and multi-file resolution; suite proj: random multi-file projects. distinct = distinct input digest; non-trivial = the project has at least one method argument",
    },
}
