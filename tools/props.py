"""Per-property configuration of ./check (suites, Lean modules, verdict keys)."""

ALLOWED_AXIOMS = {"propext", "Classical.choice", "Quot.sound"}

COMMON_TB = [
    "hand-written Lean model of validation.rs / traverse.rs / symbol.rs / parser.rs (AidlVerif/Model), tied to the code by the correspondence check on every run",
    "std HashMap/HashSet semantics (insert/get/remove); iteration order is a universally quantified parameter of the model",
    "rustc, lalrpop (the parse stage is taken from the implementation for validation-level properties)",
]

NOT_CLAIMED_REASON = {}

PROPS = {
    "C07": {
        "modules": ["AidlVerif.Props.C07"],
        "theorems": ["Aidl.Props.C07.arg_rule", "Aidl.Props.C07.holds"],
        "suites": ["dirs", "proj"],
        "keys": {"corr": ["C07"], "spec": ["C07"], "assume": ["C07"], "outcome": True},
        "trusted_base": COMMON_TB,
        "assumptions": [
            "hypothesis `Fresh` of Props.C07.holds (no other Error sits on an argument's direction range) is decidable and evaluated on every case (assume_fail counts its failures)",
            "`void` arguments follow the rule of primitives (the statement does not name void)",
        ],
        "level_text": "Theorems (all inputs, all hash orders): per argument `check_method_args` pushes exactly the Errors the statement's table calls for, all on the direction keyword / empty range at the type (`arg_rule`, 17 categories x 4 directions x oneway by case analysis), and in the validated file every argument of every method carries exactly that many Errors on its direction range, with oneway taken after propagation (`holds`). The finite table is additionally covered exhaustively through the real parser and multi-file resolution, so for the table the correspondence is complete.",
        "level_note": "Trusted: Lean kernel (+ propext, Classical.choice, Quot.sound), the hand-written model of validation.rs tied to the code by the correspondence run, the harness. Hypothesis `Fresh` (no unrelated Error on a direction range) is evaluated on every case.",
        "rule": "suite dirs: exhaustive product 17 type categories x 4 directions x method oneway x interface oneway x argument position through real parsing and multi-file resolution; suite proj: random multi-file projects. distinct = distinct input digest; non-trivial = the project has at least one method argument",
    },
}
