#!/usr/bin/env python3
"""
gen_tables.py <cargo OUT_DIR of aidl-parser or ''> <path to ast.rs> <lean Gen dir>

Translator: regenerates the Lean tables under AidlVerif/Gen from what cargo just built from
/repo's working tree (generated parser `aidl.rs`) and from `src/ast.rs` (serde attributes).
Deliberately dumb: anything it does not recognise is a failure (exit 1), never papered over.
Files are rewritten only when their content changes.
"""
import os
import re
import sys


def write_if_changed(path, text):
    if os.path.exists(path) and open(path).read() == text:
        return False
    os.makedirs(os.path.dirname(path), exist_ok=True)
    open(path, "w").write(text)
    return True


def fail(msg):
    print("gen_tables: " + msg)
    sys.exit(1)


def lean_str(s):
    return '"' + s.replace("\\", "\\\\").replace('"', '\\"') + '"'


# ------------------------------------------------------------------------------------------------
# serde attributes of ast.rs
# ------------------------------------------------------------------------------------------------
KNOWN_PREDS = {
    "Vec::is_empty": "vecIsEmpty",
    "Option::is_none": "optionIsNone",
    "HashMap::is_empty": "hashMapIsEmpty",
    "Direction::is_unspecified": "directionIsUnspecified",
    "BoolExt::is_true": "boolIsTrue",
}


def strip_comments(src):
    src = re.sub(r"/\*.*?\*/", "", src, flags=re.S)
    return re.sub(r"//[^\n]*", "", src)


def parse_serde(ast_rs):
    src = strip_comments(open(ast_rs).read())
    structs, enums = [], []
    # items with a derive containing Serialize and Deserialize
    for m in re.finditer(r"((?:#\[[^\]]*\]\s*)+)pub\s+(struct|enum)\s+(\w+)\s*\{", src):
        attrs, kind, name = m.group(1), m.group(2), m.group(3)
        if "Serialize" not in attrs or "Deserialize" not in attrs:
            continue
        # body up to the matching brace
        i, depth = m.end(), 1
        while depth > 0:
            c = src[i]
            depth += (c == "{") - (c == "}")
            i += 1
        body = src[m.end():i - 1]
        rename_all = None
        ra = re.search(r'serde\(\s*rename_all\s*=\s*"(\w+)"\s*\)', attrs)
        if ra:
            rename_all = ra.group(1)
        if kind == "struct":
            fields = []
            for fm in re.finditer(r"((?:#\[[^\]]*\]\s*)*)pub\s+(\w+)\s*:\s*([^,\n]+(?:<[^>]*>)?[^,\n]*),", body):
                fattrs, fname, ftype = fm.group(1), fm.group(2), fm.group(3).strip()
                ser_name, default, skip = fname, None, None
                for am in re.finditer(r"#\[serde\((.*?)\)\]", fattrs, flags=re.S):
                    for part in re.findall(r'(\w+)(?:\s*=\s*"([^"]*)")?', am.group(1)):
                        key, val = part
                        if key == "rename":
                            ser_name = val
                        elif key == "default":
                            default = val if val else "std"
                        elif key == "skip_serializing_if":
                            skip = val
                        else:
                            fail(f"unknown serde field attribute `{key}` on {name}.{fname}")
                fields.append((fname, ser_name, ftype, default, skip))
            if not fields:
                fail(f"struct {name}: no fields recognised")
            structs.append((name, fields))
        else:
            variants = []
            for vm in re.finditer(r"(\w+)\s*(\(([^)]*)\))?\s*,", body):
                variants.append((vm.group(1), [t.strip() for t in (vm.group(3) or "").split(",") if t.strip()]))
            enums.append((name, rename_all, variants))
    # bodies of default functions and of `impl Default`
    defaults = {}
    for m in re.finditer(r"fn\s+(\w+)\s*\(\s*\)\s*->\s*(\w+)\s*\{\s*([^{}]*?)\s*\}", src):
        defaults[m.group(1)] = (m.group(2), m.group(3).strip())
    impl_defaults = {}
    for m in re.finditer(r"impl\s+Default\s+for\s+(\w+)\s*\{\s*fn\s+default\s*\(\s*\)\s*->\s*Self\s*\{\s*([^{}]*?)\s*\}\s*\}", src):
        impl_defaults[m.group(1)] = m.group(2).strip()
    # bodies of the predicates defined in ast.rs
    preds = {}
    m = re.search(r"fn\s+is_unspecified\s*\(&self\)\s*->\s*bool\s*\{\s*(.*?)\s*\}", src, flags=re.S)
    if m:
        preds["Direction::is_unspecified"] = re.sub(r"\s+", " ", m.group(1))
    m = re.search(r"impl\s+BoolExt\s+for\s+bool\s*\{\s*fn\s+is_true\s*\(&self\)\s*->\s*bool\s*\{\s*(.*?)\s*\}", src, flags=re.S)
    if m:
        preds["BoolExt::is_true"] = re.sub(r"\s+", " ", m.group(1))
    return structs, enums, defaults, impl_defaults, preds


def default_value(ftype, default, defaults, impl_defaults, where):
    """Lean `DefaultV` term for the value a missing field deserialises to"""
    if default is None:
        return "none"
    if default == "std":
        t = ftype
        if t.startswith("Vec<"):
            return "(some .emptySeq)"
        if t.startswith("Option<"):
            return "(some .noneOpt)"
        if t.startswith("HashMap<"):
            return "(some .emptyMap)"
        if t == "bool":
            return "(some (.bool false))"
        if t in impl_defaults:
            body = impl_defaults[t]
            mm = re.fullmatch(r"(\w+)::(\w+)", body)
            if not mm:
                fail(f"{where}: cannot read `impl Default for {t}` body `{body}`")
            return f"(some (.unitVariant {lean_str(mm.group(2))}))"
        fail(f"{where}: `default` on a field of type `{t}` whose Default is not known")
    if default not in defaults:
        fail(f"{where}: default function `{default}` not found in ast.rs")
    ret, body = defaults[default]
    if ret == "bool" and body in ("true", "false"):
        return f"(some (.bool {body}))"
    fail(f"{where}: cannot read body `{body}` of default function `{default}`")


def gen_serde(ast_rs, gen_dir):
    structs, enums, defaults, impl_defaults, preds = parse_serde(ast_rs)
    # fixed reading of the predicates defined in ast.rs: their bodies must be the expected ones
    expected_bodies = {
        "Direction::is_unspecified": "matches!(self, Self::Unspecified)",
        "BoolExt::is_true": "*self",
    }
    for k, want in expected_bodies.items():
        if preds.get(k) != want:
            fail(f"body of `{k}` is `{preds.get(k)}`, expected `{want}`")
    out = ["import AidlVerif.Model.Serde", "",
           "/-! GENERATED by tools/gen_tables.py from /repo/src/ast.rs — do not edit. -/", "",
           "namespace Aidl.Gen", "open Aidl.Serde", "", "def schema : Schema := ["]
    rows = []
    for name, fields in structs:
        frows = []
        for fname, ser_name, ftype, default, skip in fields:
            where = f"{name}.{fname}"
            if skip is None:
                pred = "none"
            elif skip in KNOWN_PREDS:
                pred = f"(some .{KNOWN_PREDS[skip]})"
            else:
                fail(f"{where}: unknown skip_serializing_if predicate `{skip}`")
            dv = default_value(ftype, default, defaults, impl_defaults, where)
            frows.append(f"    {{ name := {lean_str(ser_name)}, skipIf := {pred}, default := {dv} }}")
        rows.append(f"  ({lean_str(name)}, [\n" + ",\n".join(frows) + "])")
    out.append(",\n".join(rows) + "]")
    out.append("")
    out.append("/-- enums with their `rename_all` and variants (for the reader; externally tagged) -/")
    out.append("def enums : List (String × Option String × List (String × Nat)) := [")
    out.append(",\n".join(
        f"  ({lean_str(n)}, {('some ' + lean_str(ra)) if ra else 'none'}, [" +
        ", ".join(f"({lean_str(v)}, {len(ts)})" for v, ts in vs) + "])" for n, ra, vs in enums) + "]")
    out.append("")
    out.append("end Aidl.Gen")
    out.append("")
    return write_if_changed(os.path.join(gen_dir, "SerdeSpec.lean"), "\n".join(out))


def main():
    out_dir, ast_rs, gen_dir = sys.argv[1], sys.argv[2], sys.argv[3]
    changed = []
    if gen_serde(ast_rs, gen_dir):
        changed.append("SerdeSpec")
    lr = os.path.join(os.path.dirname(os.path.abspath(__file__)), "gen_parser_tables.py")
    if os.path.exists(lr):
        import subprocess
        r = subprocess.run([sys.executable, lr, out_dir, gen_dir], stdout=subprocess.PIPE, stderr=subprocess.STDOUT, text=True)
        print(r.stdout.strip())
        if r.returncode != 0:
            sys.exit(1)
    print("gen_tables: ok" + (" (rewritten: " + ", ".join(changed) + ")" if changed else " (unchanged)"))


if __name__ == "__main__":
    main()
