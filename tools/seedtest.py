#!/usr/bin/env python3
"""seedtest.py <seed-id> <property> <worktree> [tier]
Confirms a seeded breaking change (compiles, existing tests pass, demo fails with / passes without),
stores it under /verif/seeded/<seed-id>/, runs ./check <property> against it in /repo and records the result."""
import json, os, shutil, subprocess, sys, time
sid, prop, wt = sys.argv[1], sys.argv[2], sys.argv[3]
tier = sys.argv[4] if len(sys.argv) > 4 else "quick"
ROOT = "/verif"
dst = os.path.join(ROOT, "seeded", sid)
os.makedirs(dst, exist_ok=True)
env = dict(os.environ, CARGO_NET_OFFLINE="true")
def sh(cmd, cwd=None):
    r = subprocess.run(cmd, cwd=cwd, shell=True, env=env, stdout=subprocess.PIPE, stderr=subprocess.STDOUT, text=True)
    return r.returncode, r.stdout
meta = {"seed": sid, "property": prop}
# 1. the delivered patch is the source of truth (git stash is shared between worktrees, so the
#    worktree itself may have been disturbed by a concurrent agent): reset and re-apply
deliver = os.path.join(wt, "deliver")
shutil.copy(os.path.join(deliver, "patch.diff"), os.path.join(dst, "patch.diff"))
shutil.copy(os.path.join(deliver, "seeded_demo.rs"), os.path.join(dst, "seeded_demo.rs"))
if os.path.exists(os.path.join(deliver, "notes.md")):
    shutil.copy(os.path.join(deliver, "notes.md"), os.path.join(dst, "notes.md"))
sh("git checkout -- src", wt)
rc, o = sh(f"git apply {dst}/patch.diff", wt)
if rc != 0:
    meta["apply_in_worktree_failed"] = o
shutil.copy(os.path.join(dst, "seeded_demo.rs"), os.path.join(wt, "tests", "seeded_demo.rs"))
# 2. confirm
rc, out = sh("cargo test --offline --no-fail-fast 2>&1", wt)
lines = [l for l in out.splitlines() if l.startswith("test result") or "Running" in l or "Doc-tests" in l]
meta["with_change_full_suite"] = lines
demo_fails = False
others_pass = True
cur = None
for l in out.splitlines():
    if "Running" in l or "Doc-tests" in l:
        cur = l
    if l.startswith("test result"):
        failed = " 0 failed" not in l
        if cur and "seeded_demo" in cur:
            demo_fails = failed
        elif failed:
            others_pass = False
meta["with_change_demo_fails"] = demo_fails
meta["with_change_existing_tests_pass"] = others_pass
sh(f"git apply -R {dst}/patch.diff", wt)
rc2, out2 = sh("cargo test --offline --test seeded_demo 2>&1", wt)
meta["without_change_demo_passes"] = (rc2 == 0)
sh(f"git apply {dst}/patch.diff", wt)
confirmed = demo_fails and others_pass and rc2 == 0
meta["confirmed"] = confirmed
# 3. run the check against it in /repo
if confirmed:
    rc, o = sh(f"git -C /repo apply {dst}/patch.diff")
    if rc != 0:
        meta["apply_failed"] = o
    else:
        try:
            t = time.time()
            rc, o = sh(f"./check {prop} {tier}", ROOT)
            meta["check"] = {"cmd": f"./check {prop} {tier}", "rc": rc, "wall_s": round(time.time() - t, 1),
                             "lines": [l for l in o.splitlines() if l.startswith("VIOLATION") or l.startswith("KNOWN") or "[check]" in l][-6:]}
            meta["detected"] = (rc == 1 and "VIOLATION" in o)
            meta["with_failing_input"] = (rc == 1 and "no-failing-input-found" not in o)
        finally:
            sh("git -C /repo checkout -- .")
    # restore the evidence of the unchanged tree
    if os.environ.get("SEEDCHECK_NO_RESTORE") != "1":
        sh(f"./check {prop} quick", ROOT)
json.dump(meta, open(os.path.join(dst, "meta.json"), "w"), indent=1)
print(json.dumps(meta, indent=1))
