#!/usr/bin/env python3
"""seedcheck.py <seed-id> <property> [tier]
Re-runs ./check <property> against an already confirmed seeded change (/verif/seeded/<seed-id>/patch.diff):
applies it to /repo, runs the check, reverts, restores the evidence, updates meta.json["check"]."""
import json, os, subprocess, sys, time
sid, prop = sys.argv[1], sys.argv[2]
tier = sys.argv[3] if len(sys.argv) > 3 else "quick"
ROOT = "/verif"
dst = os.path.join(ROOT, "seeded", sid)
env = dict(os.environ, CARGO_NET_OFFLINE="true")
def sh(cmd, cwd=None):
    r = subprocess.run(cmd, cwd=cwd, shell=True, env=env, stdout=subprocess.PIPE, stderr=subprocess.STDOUT, text=True)
    return r.returncode, r.stdout
meta = json.load(open(os.path.join(dst, "meta.json")))
rc, o = sh("git -C /repo status --porcelain")
if o.strip():
    print("seedcheck: /repo is not clean"); sys.exit(2)
rc, o = sh(f"git -C /repo apply {dst}/patch.diff")
if rc != 0:
    print("seedcheck: patch does not apply:", o); sys.exit(2)
try:
    t = time.time()
    rc, o = sh(f"./check {prop} {tier}", ROOT)
    key = "check" if prop == meta.get("property") else f"check_{prop}"
    meta[key] = {"cmd": f"./check {prop} {tier}", "rc": rc, "wall_s": round(time.time() - t, 1),
                 "lines": [l for l in o.splitlines() if l.startswith("VIOLATION") or l.startswith("KNOWN") or "[check]" in l][-6:]}
    if prop == meta.get("property"):
        meta["detected"] = (rc == 1 and "VIOLATION" in o)
        meta["with_failing_input"] = (rc == 1 and "no-failing-input-found" not in o)
finally:
    sh("git -C /repo checkout -- .")
if os.environ.get("SEEDCHECK_NO_RESTORE") != "1":
    sh(f"./check {prop} quick", ROOT)
json.dump(meta, open(os.path.join(dst, "meta.json"), "w"), indent=1)
print(sid, prop, meta[key]["rc"], [l for l in meta[key]["lines"] if "VIOLATION" in l or tier + ":" in l])
