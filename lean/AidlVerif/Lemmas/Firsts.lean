import AidlVerif.Model.Validation

/-! First occurrences of a key in a list, and the association list a `HashMap::entry` fold builds. -/

namespace Aidl

/-- elements whose key does not repeat an earlier one (`seen` = keys already met) -/
def firstsAux {α} (key : α → String) (seen : List String) : List α → List α
  | [] => []
  | x :: xs => if seen.contains (key x) then firstsAux key seen xs else x :: firstsAux key (key x :: seen) xs

def firsts {α} (key : α → String) (l : List α) : List α := firstsAux key [] l

theorem firstsAux_append {α} (key : α → String) (seen : List String) (pre : List α) (m : α) :
    firstsAux key seen (pre ++ [m]) =
      firstsAux key seen pre ++ (if seen.contains (key m) || pre.any (fun p => key p == key m) then [] else [m]) := by
  induction pre generalizing seen with
  | nil => simp [firstsAux]
  | cons p ps ih =>
    simp only [List.cons_append, firstsAux]
    split
    · rename_i hp
      rw [ih seen]
      simp only [List.any_cons]
      by_cases hpm : (key p == key m) = true
      · have : seen.contains (key m) = true := by
          have : key p = key m := by simpa using hpm
          rw [← this]; exact hp
        have hm' : key m ∈ seen := by simpa using this
        simp [hm']
      · have : (key p == key m) = false := by simpa using hpm
        simp [this]
    · rename_i hp
      rw [ih (key p :: seen)]
      simp only [List.cons_append, List.any_cons, List.contains_cons]
      congr 2
      by_cases hpm : (key p == key m) = true
      · have e : key m = key p := by
          have : key p = key m := by simpa using hpm
          exact this.symm
        simp [e]
      · have h1 : (key p == key m) = false := by simpa using hpm
        have h2 : (key m == key p) = false := by
          have : ¬ key p = key m := by simpa using hpm
          simpa using fun h => this h.symm
        simp [h1, h2]

theorem firsts_snoc {α} (key : α → String) (pre : List α) (m : α) :
    firsts key (pre ++ [m]) = firsts key pre ++ (if pre.any (fun p => key p == key m) then [] else [m]) := by
  unfold firsts; rw [firstsAux_append]; simp

theorem find_firstsAux {α} (key : α → String) (seen : List String) (pre : List α) (n : String)
    (hn : seen.contains n = false) :
    (firstsAux key seen pre).find? (fun p => key p == n) = pre.find? (fun p => key p == n) := by
  induction pre generalizing seen with
  | nil => rfl
  | cons p ps ih =>
    simp only [firstsAux]
    split
    · rename_i hp
      have hne : (key p == n) = false := by
        by_cases h : key p = n
        · rw [h, hn] at hp; cases hp
        · simpa using h
      simp [hne, ih seen hn]
    · simp only [List.find?_cons]
      by_cases h : (key p == n) = true
      · simp [h]
      · have h' : (key p == n) = false := by simpa using h
        simp only [h']
        apply ih
        simp only [List.contains_cons, hn, Bool.or_false]
        have : ¬ key p = n := by simpa using h
        simpa using fun e => this e.symm

theorem find_firsts {α} (key : α → String) (pre : List α) (n : String) :
    (firsts key pre).find? (fun p => key p == n) = pre.find? (fun p => key p == n) :=
  find_firstsAux key [] pre n rfl

theorem lookup_keyed {α} (key : α → String) (K : List α) (n : String) :
    (K.map (fun m => (key m, m))).lookup n = K.find? (fun p => key p == n) := by
  induction K with
  | nil => rfl
  | cons m ms ih =>
    simp only [List.map_cons, List.lookup_cons, List.find?_cons]
    by_cases h : n = key m
    · subst h; simp
    · have h1 : (n == key m) = false := by simpa using h
      have h2 : (key m == n) = false := by simpa using fun e : key m = n => h e.symm
      simp [h1, h2, ih]

theorem find_none_any' {α} (l : List α) (p : α → Bool) : l.find? p = none ↔ l.any p = false := by
  induction l with
  | nil => simp
  | cons x xs ih => by_cases h : p x = true <;> simp_all

end Aidl
