import AidlVerif.Model.Validation

/-! `collect_item_keys`: the kind registered under a key does not depend on the order of the files. -/

namespace Aidl

/-- the kind with the smaller rank (left-biased on ties; ranks are injective) -/
def rmin (a b : RKind) : RKind := if a.rank < b.rank then a else b

theorem rmin_comm_assoc : ∀ a b v : RKind, rmin a (rmin b v) = rmin b (rmin a v) := by
  intro a b v; cases a <;> cases b <;> cases v <;> rfl

theorem rmin_comm' : ∀ a b : RKind, rmin a b = rmin b a := by
  intro a b; cases a <;> cases b <;> rfl

theorem get_insertMin_eq (d : Defined) (key : String) (kind : RKind) (k : String) :
    (d.insertMin key kind).get k =
      if k = key then some (match d.get key with | some v => rmin kind v | none => kind) else d.get k := by
  induction d with
  | nil =>
    simp only [Defined.insertMin, Defined.get, List.lookup_cons, List.lookup_nil]
    by_cases e : k = key
    · simp [e]
    · have : (k == key) = false := by simpa using e
      simp [e, this]
  | cons p rest ih =>
    obtain ⟨k', v'⟩ := p
    simp only [Defined.insertMin]
    by_cases e : k' = key
    · subst e
      simp only [if_true, Defined.get, List.lookup_cons, beq_self_eq_true]
      by_cases e2 : k = k'
      · simp [e2, rmin]
      · have : (k == k') = false := by simpa using e2
        simp [e2, this]
    · simp only [e, if_false, Defined.get, List.lookup_cons] at ih ⊢
      have hkk : (key == k') = false := by simpa using fun h : key = k' => e h.symm
      by_cases e2 : k = k'
      · subst e2
        simp only [beq_self_eq_true, e, if_false]
      · have h2 : (k == k') = false := by simpa using e2
        simp only [h2, hkk]
        exact ih

/-- two key tables that answer every lookup alike -/
def Defined.Equiv (d₁ d₂ : Defined) : Prop := ∀ k, d₁.get k = d₂.get k

def keyStep (d : Defined) (fr : FileResult) : Defined :=
  match fr.ast with
  | some a => Defined.insertMin d a.key a.item.kind
  | none => d

theorem collectItemKeys_eq (files : List FileResult) : collectItemKeys files = files.foldl keyStep [] := rfl

theorem keyStep_congr (d₁ d₂ : Defined) (h : d₁.Equiv d₂) (fr : FileResult) :
    (keyStep d₁ fr).Equiv (keyStep d₂ fr) := by
  unfold keyStep
  cases fr.ast with
  | none => exact h
  | some a =>
    intro k
    simp only [get_insertMin_eq, h k, h a.key]

theorem keyStep_comm (d : Defined) (x y : FileResult) :
    (keyStep (keyStep d x) y).Equiv (keyStep (keyStep d y) x) := by
  unfold keyStep
  cases hx : x.ast with
  | none => cases y.ast <;> exact fun _ => rfl
  | some a =>
    cases hy : y.ast with
    | none => exact fun _ => rfl
    | some b =>
      intro k
      simp only [get_insertMin_eq]
      by_cases e1 : k = b.key <;> by_cases e2 : k = a.key
      · -- same key for both files
        have e3 : b.key = a.key := e1.symm.trans e2
        simp only [e1, e3, if_true]
        cases d.get a.key with
        | none => simp [rmin_comm']
        | some v => simp [rmin_comm_assoc]
      · have e3 : ¬ b.key = a.key := fun h => e2 (e1.trans h)
        simp [e1, e3]
      · have e3 : ¬ a.key = b.key := fun h => e1 (e2.trans h)
        simp [e1, e2, e3]
      · simp [e1, e2]

theorem foldl_keyStep_congr (l : List FileResult) (d₁ d₂ : Defined) (h : d₁.Equiv d₂) :
    (l.foldl keyStep d₁).Equiv (l.foldl keyStep d₂) := by
  induction l generalizing d₁ d₂ with
  | nil => exact h
  | cons x xs ih => exact ih _ _ (keyStep_congr d₁ d₂ h x)

theorem foldl_keyStep_perm {l₁ l₂ : List FileResult} (hp : l₁.Perm l₂) (d₁ d₂ : Defined) (h : d₁.Equiv d₂) :
    (l₁.foldl keyStep d₁).Equiv (l₂.foldl keyStep d₂) := by
  induction hp generalizing d₁ d₂ with
  | nil => exact h
  | cons x _ ih => exact ih _ _ (keyStep_congr d₁ d₂ h x)
  | swap x y l =>
    simp only [List.foldl_cons]
    apply foldl_keyStep_congr
    intro k
    rw [keyStep_comm d₁ y x k]
    exact keyStep_congr _ _ (keyStep_congr d₁ d₂ h x) y k
  | trans _ _ ih1 ih2 =>
    intro k
    rw [ih1 d₁ d₂ h k]
    exact ih2 d₂ d₂ (fun _ => rfl) k

/-- **The key table does not depend on the order in which the files are visited.** -/
theorem collectItemKeys_perm {l₁ l₂ : List FileResult} (hp : l₁.Perm l₂) :
    (collectItemKeys l₁).Equiv (collectItemKeys l₂) := by
  rw [collectItemKeys_eq, collectItemKeys_eq]
  exact foldl_keyStep_perm hp [] [] (fun _ => rfl)

end Aidl
