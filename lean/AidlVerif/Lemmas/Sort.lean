import AidlVerif.Model.Validation

/-! Lemmas about the stable insertion sort used for `sort_by_key`. -/

namespace Aidl

theorem insertByKey_perm {α} (key : α → Nat) (x : α) (l : List α) :
    (insertByKey key x l).Perm (x :: l) := by
  induction l with
  | nil => simp [insertByKey]
  | cons y ys ih =>
    unfold insertByKey
    split
    · exact List.Perm.refl _
    · exact (List.Perm.cons y ih).trans (List.Perm.swap x y ys)

theorem foldl_insertByKey_perm {α} (key : α → Nat) (l acc : List α) :
    (l.foldl (fun acc x => insertByKey key x acc) acc).Perm (acc ++ l) := by
  induction l generalizing acc with
  | nil => simp
  | cons x xs ih =>
    simp only [List.foldl_cons]
    refine (ih _).trans ?_
    have h1 : (insertByKey key x acc ++ xs).Perm ((x :: acc) ++ xs) :=
      List.Perm.append_right xs (insertByKey_perm key x acc)
    refine h1.trans ?_
    simp only [List.cons_append]
    exact (List.perm_middle).symm

theorem stableSortBy_perm {α} (key : α → Nat) (l : List α) : (stableSortBy key l).Perm l := by
  unfold stableSortBy
  simpa using foldl_insertByKey_perm key l []

theorem sortDiags_perm (ds : List Diag) : (sortDiags ds).Perm ds := stableSortBy_perm _ ds

/-- sortedness -/
def SortedBy {α} (key : α → Nat) (l : List α) : Prop := l.Pairwise (fun a b => key a ≤ key b)

theorem insertByKey_sorted {α} (key : α → Nat) (x : α) (l : List α) (h : SortedBy key l) :
    SortedBy key (insertByKey key x l) := by
  induction l with
  | nil => simp [insertByKey, SortedBy]
  | cons y ys ih =>
    unfold insertByKey
    have hy := List.pairwise_cons.mp h
    split
    · rename_i hlt
      refine List.pairwise_cons.mpr ⟨?_, h⟩
      intro z hz
      rcases List.mem_cons.mp hz with rfl | hz
      · omega
      · have := hy.1 z hz; omega
    · rename_i hnlt
      refine List.pairwise_cons.mpr ⟨?_, ih hy.2⟩
      intro z hz
      have hz' := (insertByKey_perm key x ys).mem_iff.mp hz
      rcases List.mem_cons.mp hz' with rfl | hz'
      · omega
      · exact hy.1 z hz'

theorem foldl_insertByKey_sorted {α} (key : α → Nat) (l acc : List α) (h : SortedBy key acc) :
    SortedBy key (l.foldl (fun acc x => insertByKey key x acc) acc) := by
  induction l generalizing acc with
  | nil => simpa
  | cons x xs ih => exact ih _ (insertByKey_sorted key x acc h)

theorem stableSortBy_sorted {α} (key : α → Nat) (l : List α) : SortedBy key (stableSortBy key l) :=
  foldl_insertByKey_sorted key l [] (by simp [SortedBy])

/-- stability: elements with a given key keep their relative order -/
theorem insertByKey_filter {α} (key : α → Nat) (x : α) (l : List α) (k : Nat) (h : SortedBy key l) :
    (insertByKey key x l).filter (fun a => key a = k) = l.filter (fun a => key a = k) ++ (if key x = k then [x] else []) := by
  induction l with
  | nil => simp [insertByKey, List.filter]; split <;> simp_all
  | cons y ys ih =>
    unfold insertByKey
    have hy := List.pairwise_cons.mp h
    split
    · rename_i hlt
      -- x goes first: every element of y :: ys has key > key x, so none has key = key x
      by_cases hk : key x = k
      · have hnone : (y :: ys).filter (fun a => key a = k) = [] := by
          apply List.filter_eq_nil_iff.mpr
          intro z hz
          rcases List.mem_cons.mp hz with rfl | hz
          · simp; omega
          · have := hy.1 z hz; simp; omega
        simp [hk, hnone]
      · simp [List.filter_cons, hk]
    · simp only [List.filter_cons]
      split <;> simp [ih hy.2]

theorem foldl_insertByKey_filter {α} (key : α → Nat) (l acc : List α) (k : Nat) (h : SortedBy key acc) :
    (l.foldl (fun acc x => insertByKey key x acc) acc).filter (fun a => key a = k)
      = acc.filter (fun a => key a = k) ++ l.filter (fun a => key a = k) := by
  induction l generalizing acc with
  | nil => simp
  | cons x xs ih =>
    simp only [List.foldl_cons]
    rw [ih _ (insertByKey_sorted key x acc h), insertByKey_filter key x acc k h]
    by_cases hk : key x = k <;> simp [hk]

theorem stableSortBy_filter {α} (key : α → Nat) (l : List α) (k : Nat) :
    (stableSortBy key l).filter (fun a => key a = k) = l.filter (fun a => key a = k) := by
  unfold stableSortBy
  simpa using foldl_insertByKey_filter key l [] k (by simp [SortedBy])

/-- A list sorted by key is determined by its per-key subsequences. -/
theorem sorted_ext {α} (key : α → Nat) (a b : List α) (ha : SortedBy key a) (hb : SortedBy key b)
    (h : ∀ k, a.filter (fun x => key x = k) = b.filter (fun x => key x = k)) : a = b := by
  induction a generalizing b with
  | nil =>
    cases b with
    | nil => rfl
    | cons y ys =>
      have := h (key y)
      simp at this
  | cons x xs ih =>
    cases b with
    | nil =>
      have := h (key x)
      simp at this
    | cons y ys =>
      have hx := List.pairwise_cons.mp ha
      have hy := List.pairwise_cons.mp hb
      -- y occurs in x :: xs and x occurs in y :: ys
      have hyin : y ∈ (x :: xs) := by
        have := h (key y)
        have hm : y ∈ (y :: ys).filter (fun z => key z = key y) := by simp
        rw [← this] at hm
        exact (List.mem_filter.mp hm).1
      have hxin : x ∈ (y :: ys) := by
        have := h (key x)
        have hm : x ∈ (x :: xs).filter (fun z => key z = key x) := by simp
        rw [this] at hm
        exact (List.mem_filter.mp hm).1
      have hle1 : key x ≤ key y := by
        rcases List.mem_cons.mp hyin with rfl | hm
        · exact Nat.le_refl _
        · exact hx.1 y hm
      have hle2 : key y ≤ key x := by
        rcases List.mem_cons.mp hxin with rfl | hm
        · exact Nat.le_refl _
        · exact hy.1 x hm
      have hkey : key x = key y := Nat.le_antisymm hle1 hle2
      have hh := h (key x)
      simp only [List.filter_cons, hkey, decide_true, if_true] at hh
      have hxy : x = y := by
        have := List.cons.inj hh
        simpa using this.1
      subst hxy
      congr 1
      apply ih ys hx.2 hy.2
      intro k
      have := h k
      simp only [List.filter_cons] at this
      split at this
      · exact List.tail_eq_of_cons_eq this
      · exact this

/-- The stable sort erases any reordering that keeps each key class in order. -/
theorem stableSortBy_congr {α} (key : α → Nat) (l₁ l₂ : List α)
    (h : ∀ k, l₁.filter (fun x => key x = k) = l₂.filter (fun x => key x = k)) :
    stableSortBy key l₁ = stableSortBy key l₂ := by
  apply sorted_ext key _ _ (stableSortBy_sorted key l₁) (stableSortBy_sorted key l₂)
  intro k
  rw [stableSortBy_filter, stableSortBy_filter, h k]

end Aidl

namespace Aidl

/-- counting in the sorted diagnostics: what is pushed outside a group does not count when the
    predicate never holds there -/
theorem countP_sorted_group (p : Diag → Bool) (all others grp : List Diag)
    (hperm : all.Perm (others ++ grp)) (hz : ∀ d ∈ others, p d = false) :
    (sortDiags all).countP p = grp.countP p := by
  rw [(sortDiags_perm all).countP_eq, hperm.countP_eq, List.countP_append]
  have : others.countP p = 0 := by
    apply List.countP_eq_zero.mpr
    intro d hd hp
    rw [hz d hd] at hp
    cases hp
  omega

end Aidl

namespace Aidl

theorem stableSortBy_of_sorted {α} (key : α → Nat) (l : List α) (h : SortedBy key l) :
    stableSortBy key l = l := by
  apply sorted_ext key _ _ (stableSortBy_sorted key l) h
  intro k
  exact stableSortBy_filter key l k

/-- the stable sort commutes with filtering -/
theorem stableSortBy_filter_comm {α} (key : α → Nat) (l : List α) (p : α → Bool) :
    (stableSortBy key l).filter p = stableSortBy key (l.filter p) := by
  apply sorted_ext key
  · exact List.Pairwise.sublist List.filter_sublist (stableSortBy_sorted key l)
  · exact stableSortBy_sorted key _
  · intro k
    rw [stableSortBy_filter, List.filter_filter, List.filter_filter]
    have : (fun a => decide (key a = k) && p a) = (fun a => p a && decide (key a = k)) := by
      funext a; exact Bool.and_comm _ _
    rw [this, ← List.filter_filter, stableSortBy_filter, List.filter_filter]

end Aidl
