import AidlVerif.Spec.Common

/-!
Declarative descriptions of the type walkers:

* `Ty.preorder` / `allTypesPre` — the order of `walk_types_mut` (node, then its generic types);
* `Ty.walkOrder` / `allTypesWalk` — the order of `walk_types` (array: element first);
* `Ty.mapKind` / `mapTypes` — node-wise rewrite of `kind` at every depth.
-/

namespace Aidl

mutual
def Ty.preorder : Ty → List Ty
  | .mk n k g s f => .mk n k g s f :: Ty.preorderList g
def Ty.preorderList : List Ty → List Ty
  | [] => []
  | t :: ts => Ty.preorder t ++ Ty.preorderList ts
end

mutual
def Ty.walkOrder : Ty → List Ty
  | .mk n k g s f =>
    if k = .array then Ty.walkOrderList g ++ [.mk n k g s f] else .mk n k g s f :: Ty.walkOrderList g
def Ty.walkOrderList : List Ty → List Ty
  | [] => []
  | t :: ts => Ty.walkOrder t ++ Ty.walkOrderList ts
end

mutual
def Ty.mapKind (h : Ty → TypeKind) : Ty → Ty
  | .mk n k g s f => .mk n (h (.mk n k g s f)) (Ty.mapKindList h g) s f
def Ty.mapKindList (h : Ty → TypeKind) : List Ty → List Ty
  | [] => []
  | t :: ts => Ty.mapKind h t :: Ty.mapKindList h ts
end

theorem Ty.preorderList_eq (l : List Ty) : Ty.preorderList l = l.flatMap Ty.preorder := by
  induction l with
  | nil => rfl
  | cons t ts ih => simp [Ty.preorderList, ih]

theorem Ty.walkOrderList_eq (l : List Ty) : Ty.walkOrderList l = l.flatMap Ty.walkOrder := by
  induction l with
  | nil => rfl
  | cons t ts ih => simp [Ty.walkOrderList, ih]

theorem Ty.mapKindList_eq (h : Ty → TypeKind) (l : List Ty) : Ty.mapKindList h l = l.map (Ty.mapKind h) := by
  induction l with
  | nil => rfl
  | cons t ts ih => simp [Ty.mapKindList, ih]

/-! ### `walk_types_mut` is a fold over the pre-order plus a node-wise map -/

section walkMut
variable {σ : Type} (f : σ → Ty → σ × TypeKind) (u : σ → Ty → σ) (h : Ty → TypeKind)
  (hf : ∀ s t, f s t = (u s t, h t))
include hf

mutual
theorem Ty.walkMut_eq (s : σ) : (t : Ty) →
    Ty.walkMut f s t = ((Ty.preorder t).foldl u s, Ty.mapKind h t)
  | .mk n k g sy fu => by
    simp only [Ty.walkMut, Ty.preorder, Ty.mapKind, List.foldl_cons, hf]
    rw [Ty.walkMutList_eq (u s (.mk n k g sy fu)) g]
theorem Ty.walkMutList_eq (s : σ) : (l : List Ty) →
    Ty.walkMutList f s l = ((Ty.preorderList l).foldl u s, Ty.mapKindList h l)
  | [] => by simp [Ty.walkMutList, Ty.preorderList, Ty.mapKindList]
  | t :: ts => by
    simp only [Ty.walkMutList, Ty.preorderList, Ty.mapKindList, List.foldl_append]
    rw [Ty.walkMut_eq s t]
    simp only
    rw [Ty.walkMutList_eq _ ts]
end

end walkMut

/-! ### `walk_types` is a fold over the walk order -/

mutual
theorem Ty.walk_eq {σ} (f : σ → Ty → σ) (s : σ) : (t : Ty) →
    Ty.walk f s t = (Ty.walkOrder t).foldl f s
  | .mk n k g sy fu => by
    simp only [Ty.walk, Ty.walkOrder]
    split
    · rw [Ty.walkList_eq f s g]; simp [List.foldl_append]
    · rw [Ty.walkList_eq f _ g]; simp
theorem Ty.walkList_eq {σ} (f : σ → Ty → σ) (s : σ) : (l : List Ty) →
    Ty.walkList f s l = (Ty.walkOrderList l).foldl f s
  | [] => by simp [Ty.walkList, Ty.walkOrderList]
  | t :: ts => by
    simp only [Ty.walkList, Ty.walkOrderList, List.foldl_append]
    rw [Ty.walk_eq f s t, Ty.walkList_eq f _ ts]
end

/-! ### top-level types of a file -/

def Method.topTypes (m : Method) : List Ty := m.returnType :: m.args.map (·.argType)

def InterfaceElement.topTypes : InterfaceElement → List Ty
  | .method m => m.topTypes
  | .const c => [c.constType]

def ParcelableElement.topTypes : ParcelableElement → List Ty
  | .field f => [f.fieldType]
  | .const c => [c.constType]

/-- the types written directly in members (return types, argument types, field and constant types),
    in source order -/
def topTypes (ast : AidlFile) : List Ty :=
  match ast.item with
  | .interface i => i.elements.flatMap InterfaceElement.topTypes
  | .parcelable p => p.elements.flatMap ParcelableElement.topTypes
  | .enum _ => []

/-- every type node of the file at any depth, in the order of `walk_types_mut` -/
def allTypesPre (ast : AidlFile) : List Ty := (topTypes ast).flatMap Ty.preorder

/-- every type node of the file at any depth, in the order of `walk_types` -/
def allTypesWalk (ast : AidlFile) : List Ty := (topTypes ast).flatMap Ty.walkOrder

/-! ### the two walk orders visit the same nodes -/

mutual
theorem Ty.mem_walkOrder_of_preorder (u : Ty) : (t : Ty) → u ∈ Ty.preorder t → u ∈ Ty.walkOrder t
  | .mk n k g sy fu => by
    intro h
    simp only [Ty.preorder, List.mem_cons] at h
    simp only [Ty.walkOrder]
    split
    · rcases h with h | h
      · exact List.mem_append.mpr (Or.inr (by simp [h]))
      · exact List.mem_append.mpr (Or.inl (Ty.mem_walkOrderList_of_preorderList u g h))
    · rcases h with h | h
      · exact List.mem_cons.mpr (Or.inl h)
      · exact List.mem_cons.mpr (Or.inr (Ty.mem_walkOrderList_of_preorderList u g h))
theorem Ty.mem_walkOrderList_of_preorderList (u : Ty) : (l : List Ty) → u ∈ Ty.preorderList l → u ∈ Ty.walkOrderList l
  | [] => by simp [Ty.preorderList]
  | t :: ts => by
    intro h
    simp only [Ty.preorderList, List.mem_append] at h
    simp only [Ty.walkOrderList, List.mem_append]
    rcases h with h | h
    · exact Or.inl (Ty.mem_walkOrder_of_preorder u t h)
    · exact Or.inr (Ty.mem_walkOrderList_of_preorderList u ts h)
end

theorem mem_allTypesWalk_of_pre (ast : AidlFile) (u : Ty) (h : u ∈ allTypesPre ast) : u ∈ allTypesWalk ast := by
  unfold allTypesPre at h
  unfold allTypesWalk
  obtain ⟨t, ht, hu⟩ := List.mem_flatMap.mp h
  exact List.mem_flatMap.mpr ⟨t, ht, Ty.mem_walkOrder_of_preorder u t hu⟩

theorem foldl_flatMap_foldl {α β σ} (g : α → List β) (f : σ → β → σ) (s : σ) (l : List α) :
    l.foldl (fun s x => (g x).foldl f s) s = (l.flatMap g).foldl f s := by
  induction l generalizing s with
  | nil => rfl
  | cons x xs ih => simp [List.foldl_cons, List.flatMap_cons, List.foldl_append, ih]

theorem InterfaceElement.walkTypes_eq {σ} (f : σ → Ty → σ) (s : σ) (el : InterfaceElement) :
    el.walkTypes f s = (el.topTypes.flatMap Ty.walkOrder).foldl f s := by
  cases el with
  | const c => simp [InterfaceElement.walkTypes, InterfaceElement.topTypes, Ty.walk_eq]
  | method m =>
    simp only [InterfaceElement.walkTypes, InterfaceElement.topTypes, Method.topTypes,
      List.flatMap_cons, List.foldl_append, Ty.walk_eq, List.flatMap_map]
    exact foldl_flatMap_foldl (fun a => Ty.walkOrder a.argType) f _ m.args

theorem ParcelableElement.walkTypes_eq {σ} (f : σ → Ty → σ) (s : σ) (el : ParcelableElement) :
    el.walkTypes f s = (el.topTypes.flatMap Ty.walkOrder).foldl f s := by
  cases el with
  | const c => simp [ParcelableElement.walkTypes, ParcelableElement.topTypes, Ty.walk_eq]
  | field fi => simp [ParcelableElement.walkTypes, ParcelableElement.topTypes, Ty.walk_eq]

theorem walkTypes_eq {σ} (ast : AidlFile) (f : σ → Ty → σ) (s : σ) :
    walkTypes ast f s = (allTypesWalk ast).foldl f s := by
  unfold walkTypes allTypesWalk topTypes
  cases ast.item with
  | interface i =>
    simp only [InterfaceElement.walkTypes_eq, List.flatMap_assoc]
    exact foldl_flatMap_foldl (fun el => el.topTypes.flatMap Ty.walkOrder) f s i.elements
  | parcelable p =>
    simp only [ParcelableElement.walkTypes_eq, List.flatMap_assoc]
    exact foldl_flatMap_foldl (fun el => el.topTypes.flatMap Ty.walkOrder) f s p.elements
  | enum e => rfl


/-! ### `walk_types_mut` at file level -/

def Arg.mapTypes (h : Ty → TypeKind) (a : Arg) : Arg := { a with argType := Ty.mapKind h a.argType }

def Method.mapTypes (h : Ty → TypeKind) (m : Method) : Method :=
  { m with returnType := Ty.mapKind h m.returnType, args := m.args.map (Arg.mapTypes h) }

def InterfaceElement.mapTypes (h : Ty → TypeKind) : InterfaceElement → InterfaceElement
  | .method m => .method (m.mapTypes h)
  | .const c => .const { c with constType := Ty.mapKind h c.constType }

def ParcelableElement.mapTypes (h : Ty → TypeKind) : ParcelableElement → ParcelableElement
  | .field fi => .field { fi with fieldType := Ty.mapKind h fi.fieldType }
  | .const c => .const { c with constType := Ty.mapKind h c.constType }

/-- rewrite the kind of every type node of the file, at every depth -/
def mapTypes (h : Ty → TypeKind) (ast : AidlFile) : AidlFile :=
  match ast.item with
  | .interface i => { ast with item := .interface { i with elements := i.elements.map (InterfaceElement.mapTypes h) } }
  | .parcelable p => { ast with item := .parcelable { p with elements := p.elements.map (ParcelableElement.mapTypes h) } }
  | .enum _ => ast

theorem mapAccum_eq {α β γ σ} (g : σ → α → σ × β) (u : σ → γ → σ) (tys : α → List γ) (m : α → β)
    (hg : ∀ s x, g s x = ((tys x).foldl u s, m x)) (s : σ) (l : List α) :
    mapAccum g s l = ((l.flatMap tys).foldl u s, l.map m) := by
  induction l generalizing s with
  | nil => rfl
  | cons x xs ih => simp [mapAccum, hg, ih, List.foldl_append]

section walkMutFile
variable {σ : Type} (f : σ → Ty → σ × TypeKind) (u : σ → Ty → σ) (h : Ty → TypeKind)
  (hf : ∀ s t, f s t = (u s t, h t))
include hf

theorem Arg.walkTypesMut_eq (s : σ) (a : Arg) :
    Arg.walkTypesMut f s a = ((Ty.preorder a.argType).foldl u s, a.mapTypes h) := by
  simp [Arg.walkTypesMut, Arg.mapTypes, Ty.walkMut_eq f u h hf]

theorem InterfaceElement.walkTypesMut_eq (s : σ) (el : InterfaceElement) :
    el.walkTypesMut f s = ((el.topTypes.flatMap Ty.preorder).foldl u s, el.mapTypes h) := by
  cases el with
  | const c =>
    simp [InterfaceElement.walkTypesMut, InterfaceElement.topTypes, InterfaceElement.mapTypes,
      Ty.walkMut_eq f u h hf]
  | method m =>
    simp only [InterfaceElement.walkTypesMut, InterfaceElement.topTypes, InterfaceElement.mapTypes,
      Method.topTypes, Method.mapTypes, Ty.walkMut_eq f u h hf, List.flatMap_cons, List.foldl_append]
    rw [mapAccum_eq (Arg.walkTypesMut f) u (fun a => Ty.preorder a.argType) (Arg.mapTypes h)
      (Arg.walkTypesMut_eq f u h hf)]
    simp [List.flatMap_map]

theorem ParcelableElement.walkTypesMut_eq (s : σ) (el : ParcelableElement) :
    el.walkTypesMut f s = ((el.topTypes.flatMap Ty.preorder).foldl u s, el.mapTypes h) := by
  cases el with
  | const c =>
    simp [ParcelableElement.walkTypesMut, ParcelableElement.topTypes, ParcelableElement.mapTypes,
      Ty.walkMut_eq f u h hf]
  | field fi =>
    simp [ParcelableElement.walkTypesMut, ParcelableElement.topTypes, ParcelableElement.mapTypes,
      Ty.walkMut_eq f u h hf]

/-- `walk_types_mut` visits every type node in pre-order and rewrites kinds node-wise -/
theorem walkTypesMut_eq (ast : AidlFile) (s : σ) :
    walkTypesMut ast f s = ((allTypesPre ast).foldl u s, mapTypes h ast) := by
  unfold walkTypesMut allTypesPre topTypes mapTypes
  cases ast.item with
  | interface i =>
    simp only
    rw [mapAccum_eq (InterfaceElement.walkTypesMut f) u (fun el => el.topTypes.flatMap Ty.preorder)
      (InterfaceElement.mapTypes h) (InterfaceElement.walkTypesMut_eq f u h hf)]
    simp [List.flatMap_assoc]
  | parcelable p =>
    simp only
    rw [mapAccum_eq (ParcelableElement.walkTypesMut f) u (fun el => el.topTypes.flatMap Ty.preorder)
      (ParcelableElement.mapTypes h) (ParcelableElement.walkTypesMut_eq f u h hf)]
    simp [List.flatMap_assoc]
  | enum e => rfl

end walkMutFile

end Aidl

namespace Aidl

mutual
theorem Ty.preorder_mapKind (h : Ty → TypeKind) : (t : Ty) →
    Ty.preorder (Ty.mapKind h t) = (Ty.preorder t).map (fun x => Ty.mapKind h x)
  | .mk n k g s f => by
    simp only [Ty.mapKind, Ty.preorder, List.map_cons]
    rw [Ty.preorderList_mapKind h g]
theorem Ty.preorderList_mapKind (h : Ty → TypeKind) : (l : List Ty) →
    Ty.preorderList (Ty.mapKindList h l) = (Ty.preorderList l).map (fun x => Ty.mapKind h x)
  | [] => by simp [Ty.mapKindList, Ty.preorderList]
  | t :: ts => by
    simp only [Ty.mapKindList, Ty.preorderList, List.map_append]
    rw [Ty.preorder_mapKind h t, Ty.preorderList_mapKind h ts]
end

theorem Ty.mapKind_name (h : Ty → TypeKind) (t : Ty) : (Ty.mapKind h t).name = t.name := by
  cases t; rfl
theorem Ty.mapKind_sym (h : Ty → TypeKind) (t : Ty) : (Ty.mapKind h t).sym = t.sym := by
  cases t; rfl
theorem Ty.mapKind_kind (h : Ty → TypeKind) (t : Ty) : (Ty.mapKind h t).kind = h t := by
  cases t; rfl

theorem topTypes_mapTypes (h : Ty → TypeKind) (ast : AidlFile) :
    topTypes (mapTypes h ast) = (topTypes ast).map (Ty.mapKind h) := by
  unfold topTypes mapTypes
  cases hitem : ast.item with
  | interface i =>
    simp only [List.flatMap_map, List.map_flatMap]
    congr 1
    funext el
    cases el with
    | const c => simp [InterfaceElement.mapTypes, InterfaceElement.topTypes]
    | method m =>
      simp [InterfaceElement.mapTypes, InterfaceElement.topTypes, Method.mapTypes, Method.topTypes,
        Arg.mapTypes, Function.comp_def]
  | parcelable p =>
    simp only [List.flatMap_map, List.map_flatMap]
    congr 1
    funext el
    cases el with
    | const c => simp [ParcelableElement.mapTypes, ParcelableElement.topTypes]
    | field fi => simp [ParcelableElement.mapTypes, ParcelableElement.topTypes]
  | enum e => simp [*]

/-- all type nodes after a node-wise kind rewrite -/
theorem allTypesPre_mapTypes (h : Ty → TypeKind) (ast : AidlFile) :
    allTypesPre (mapTypes h ast) = (allTypesPre ast).map (fun x => Ty.mapKind h x) := by
  unfold allTypesPre
  rw [topTypes_mapTypes, List.flatMap_map, List.map_flatMap]
  congr 1
  funext t
  exact Ty.preorder_mapKind h t

theorem setUpOnewayElement_topTypes (i : Interface) (el : InterfaceElement) :
    (setUpOnewayElement i el).1.topTypes = el.topTypes := by
  cases el with
  | const c => rfl
  | method m =>
    simp only [setUpOnewayElement, InterfaceElement.topTypes, setUpOnewayMethod]
    split <;> rfl

theorem topTypes_setUpOneway (ast : AidlFile) : topTypes (setUpOneway ast).1 = topTypes ast := by
  unfold setUpOneway topTypes
  cases h : ast.item with
  | interface i =>
    simp only [setUpOnewayInterface]
    split
    · simp [h]
    · simp only [List.map_map, List.flatMap_map]
      congr 1
      funext el
      exact setUpOnewayElement_topTypes i el
  | parcelable p => simp [h]
  | enum e => simp [h]

theorem allTypesPre_setUpOneway (ast : AidlFile) : allTypesPre (setUpOneway ast).1 = allTypesPre ast := by
  unfold allTypesPre; rw [topTypes_setUpOneway]

theorem allTypesWalk_setUpOneway (ast : AidlFile) : allTypesWalk (setUpOneway ast).1 = allTypesWalk ast := by
  unfold allTypesWalk; rw [topTypes_setUpOneway]

end Aidl
