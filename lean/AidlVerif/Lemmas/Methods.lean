import AidlVerif.Spec.Common

/-! Structure of the diagnostics pushed by `check_methods`. -/

namespace Aidl
open Aidl.Spec

/-- the id bookkeeping alone, over a list of methods -/
def idDiagsLoop : IdState → List Method → Except String (List Diag)
  | _, [] => .ok []
  | s, m :: ms =>
    match checkMethodIdsStep s m with
    | .error e => .error e
    | .ok (s', new) =>
      match idDiagsLoop s' ms with
      | .error e => .error e
      | .ok rest => .ok (new ++ rest)

theorem walkMethods_eq_foldl {σ} (ast : AidlFile) (f : σ → Method → σ) (s : σ) :
    walkMethods ast f s = (methodsOf ast).foldl f s := by
  unfold walkMethods methodsOf
  cases ast.item with
  | interface i =>
    simp only [Interface.methods]
    generalize i.elements = els
    induction els generalizing s with
    | nil => rfl
    | cons el els ih =>
      cases el with
      | const c => simpa [List.filterMap_cons] using ih s
      | method m => simpa [List.filterMap_cons] using ih (f s m)
  | parcelable p => rfl
  | enum e => rfl

theorem foldl_checkMethodsStep_error (ms : List Method) (e : String) :
    ms.foldl checkMethodsStep (.error e) = .error e := by
  induction ms with
  | nil => rfl
  | cons m ms ih => simpa [checkMethodsStep] using ih

/-- the diagnostics of `check_methods` are those of `check_method` for every method interleaved
    with the id diagnostics -/
theorem foldl_checkMethodsStep (ms : List Method) (st : IdState) (acc : List Diag) (st' : IdState)
    (ds : List Diag) (h : ms.foldl checkMethodsStep (.ok (st, acc)) = .ok (st', ds)) :
    ∃ ids, idDiagsLoop st ms = .ok ids ∧ ds.Perm (acc ++ ms.flatMap checkMethod ++ ids) := by
  induction ms generalizing st acc with
  | nil =>
    simp only [List.foldl_nil] at h
    cases h
    exact ⟨[], rfl, by simp⟩
  | cons m ms ih =>
    simp only [List.foldl_cons] at h
    have hs : checkMethodsStep (.ok (st, acc)) m =
        (match checkMethodIdsStep st m with
         | .error e => .error e
         | .ok (st', new) => .ok (st', acc ++ checkMethod m ++ new)) := rfl
    rw [hs] at h
    cases hstep : checkMethodIdsStep st m with
    | error e =>
      rw [hstep] at h
      simp only at h
      rw [foldl_checkMethodsStep_error] at h
      cases h
    | ok r =>
      obtain ⟨s1, new⟩ := r
      rw [hstep] at h
      simp only at h
      obtain ⟨ids, hids, hperm⟩ := ih s1 (acc ++ checkMethod m ++ new) h
      refine ⟨new ++ ids, ?_, ?_⟩
      · simp [idDiagsLoop, hstep, hids]
      · refine hperm.trans ?_
        simp only [List.flatMap_cons, List.append_assoc]
        refine List.Perm.append_left acc (List.Perm.append_left (checkMethod m) ?_)
        -- new ++ (rest ++ ids) ~ rest ++ (new ++ ids)
        rw [← List.append_assoc, ← List.append_assoc]
        exact List.Perm.append_right ids List.perm_append_comm

theorem checkMethods_perm (ast : AidlFile) (ds : List Diag) (h : checkMethods ast = .ok ds) :
    ∃ ids, idDiagsLoop {} (methodsOf ast) = .ok ids ∧
      ds.Perm ((methodsOf ast).flatMap checkMethod ++ ids) := by
  unfold checkMethods at h
  rw [walkMethods_eq_foldl] at h
  cases hf : (methodsOf ast).foldl checkMethodsStep (.ok ({}, [])) with
  | error e => rw [hf] at h; cases h
  | ok r =>
    obtain ⟨st', ds'⟩ := r
    rw [hf] at h
    cases h
    obtain ⟨ids, h1, h2⟩ := foldl_checkMethodsStep _ _ _ _ _ hf
    exact ⟨ids, h1, by simpa using h2⟩

end Aidl

namespace Aidl
open Aidl.Spec

theorem flatMap_append_perm {α β} (f g : α → List β) (l : List α) :
    (l.flatMap (fun x => f x ++ g x)).Perm (l.flatMap f ++ l.flatMap g) := by
  induction l with
  | nil => simp
  | cons x xs ih =>
    simp only [List.flatMap_cons, List.append_assoc]
    refine List.Perm.append_left (f x) ?_
    refine (List.Perm.append_left (g x) ih).trans ?_
    rw [← List.append_assoc, ← List.append_assoc]
    exact List.Perm.append_right _ List.perm_append_comm

/-- all argument diagnostics of a file, in order -/
def argDiags (ast : AidlFile) : List Diag := (methodsOf ast).flatMap checkMethodArgs

/-- everything `validate` pushes for a file except the argument-direction diagnostics -/
def Groups.othersThanArgs (g : Groups) (ids : List Diag) : List Diag :=
  g.syn ++ g.unknown ++ g.imports ++ g.decls ++ g.containers ++ g.oneway
    ++ (methodsOf g.ast).flatMap returnDiags ++ ids

theorem validateGroups_methods {ho : HashOrder} {defined : Defined} {syn : List Diag} {ast : AidlFile}
    {g : Groups} (h : validateGroups ho defined syn ast = .ok g) : checkMethods g.ast = .ok g.methods := by
  unfold validateGroups at h
  simp only at h
  split at h
  · cases h
  · split at h
    · cases h
    · rename_i d6 h6
      cases h
      exact h6

/-- the diagnostics of a file are, up to order, the argument diagnostics plus the rest -/
theorem groups_perm {ho : HashOrder} {defined : Defined} {syn : List Diag} {ast : AidlFile} {g : Groups}
    (h : validateGroups ho defined syn ast = .ok g) :
    ∃ ids, idDiagsLoop {} (methodsOf g.ast) = .ok ids ∧
      g.all.Perm (g.othersThanArgs ids ++ argDiags g.ast) := by
  obtain ⟨ids, hids, hperm⟩ := checkMethods_perm g.ast g.methods (validateGroups_methods h)
  refine ⟨ids, hids, ?_⟩
  unfold Groups.all Groups.othersThanArgs argDiags
  simp only [List.append_assoc]
  refine List.Perm.append_left _ (List.Perm.append_left _ (List.Perm.append_left _
    (List.Perm.append_left _ (List.Perm.append_left _ (List.Perm.append_left _ ?_)))))
  refine hperm.trans ?_
  have h1 : ((methodsOf g.ast).flatMap checkMethod).Perm
      ((methodsOf g.ast).flatMap returnDiags ++ (methodsOf g.ast).flatMap checkMethodArgs) :=
    flatMap_append_perm returnDiags checkMethodArgs _
  refine (List.Perm.append_right ids h1).trans ?_
  simp only [List.append_assoc]
  exact List.Perm.append_left _ List.perm_append_comm

end Aidl
