import AidlVerif.Spec.Common

/-! `set_up_oneway_interface`: effect on the tree. -/

namespace Aidl
open Aidl.Spec

theorem setUpOnewayMethod_oneway (i : Interface) (m : Method) : (setUpOnewayMethod i m).1.oneway = true := by
  unfold setUpOnewayMethod
  split <;> simp_all

/-- methods of the interface after `set_up_oneway_interface`, when the interface is oneway -/
theorem setUpOnewayInterface_methods (i : Interface) (h : i.oneway = true) :
    (setUpOnewayInterface i).1.methods = i.methods.map (fun m => (setUpOnewayMethod i m).1) := by
  unfold setUpOnewayInterface
  simp only [h, Bool.not_true, Bool.false_eq_true, if_false, Interface.methods]
  generalize i.elements = els
  induction els with
  | nil => rfl
  | cons el els ih =>
    cases el with
    | const c => simpa [setUpOnewayElement, List.filterMap_cons] using ih
    | method m => simpa [setUpOnewayElement, List.filterMap_cons] using ih

theorem setUpOnewayInterface_oneway (i : Interface) : (setUpOnewayInterface i).1.oneway = i.oneway := by
  unfold setUpOnewayInterface
  split <;> rfl

/-- after propagation, every method of a oneway interface is oneway -/
theorem setUpOneway_all_oneway (ast : AidlFile) :
    ∀ m ∈ methodsOf (setUpOneway ast).1, interfaceOneway (setUpOneway ast).1 = true → m.oneway = true := by
  intro m hm hi
  unfold setUpOneway at hm hi
  cases hitem : ast.item with
  | interface i =>
    simp only [hitem, methodsOf, interfaceOneway] at hm hi
    rw [setUpOnewayInterface_oneway] at hi
    rw [setUpOnewayInterface_methods i hi] at hm
    obtain ⟨m0, _, rfl⟩ := List.mem_map.mp hm
    exact setUpOnewayMethod_oneway i m0
  | parcelable p => simp [hitem, methodsOf] at hm
  | enum e => simp [hitem, methodsOf] at hm

theorem validateGroups_ast {ho : HashOrder} {defined : Defined} {syn : List Diag} {ast : AidlFile}
    {g : Groups} (h : validateGroups ho defined syn ast = .ok g) :
    g.ast = (setUpOneway (resolveTypes ast (ast.imports.map Import.qname)
      (ast.declaredParcelables.map Import.qname) defined).1).1 := by
  unfold validateGroups at h
  simp only at h
  split at h
  · cases h
  · split at h
    · cases h
    · cases h; rfl

end Aidl
