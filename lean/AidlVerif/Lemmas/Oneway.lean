import AidlVerif.Spec.Common

/-! `set_up_oneway_interface`: effect on the tree. -/

namespace Aidl
open Aidl.Spec

theorem setUpOnewayMethod_oneway (i : Interface) (m : Method) : (setUpOnewayMethod i m).1.oneway = true := by
  unfold setUpOnewayMethod
  split <;> simp_all

/-- methods of the interface after `set_up_oneway_interface`, when the interface is oneway -/
theorem setUpOnewayInterface_methods (i : Interface) (h : i.oneway = true) :
    (setUpOnewayInterface i).1.methods = i.methods.map (fun m => (setUpOnewayMethod i m).1) := by
  unfold setUpOnewayInterface
  simp only [h, Bool.not_true, Bool.false_eq_true, if_false, Interface.methods]
  generalize i.elements = els
  induction els with
  | nil => rfl
  | cons el els ih =>
    cases el with
    | const c => simpa [setUpOnewayElement, List.filterMap_cons] using ih
    | method m => simpa [setUpOnewayElement, List.filterMap_cons] using ih

theorem setUpOnewayInterface_oneway (i : Interface) : (setUpOnewayInterface i).1.oneway = i.oneway := by
  unfold setUpOnewayInterface
  split <;> rfl

/-- after propagation, every method of a oneway interface is oneway -/
theorem setUpOneway_all_oneway (ast : AidlFile) :
    ∀ m ∈ methodsOf (setUpOneway ast).1, interfaceOneway (setUpOneway ast).1 = true → m.oneway = true := by
  intro m hm hi
  unfold setUpOneway at hm hi
  cases hitem : ast.item with
  | interface i =>
    simp only [hitem, methodsOf, interfaceOneway] at hm hi
    rw [setUpOnewayInterface_oneway] at hi
    rw [setUpOnewayInterface_methods i hi] at hm
    obtain ⟨m0, _, rfl⟩ := List.mem_map.mp hm
    exact setUpOnewayMethod_oneway i m0
  | parcelable p => simp [hitem, methodsOf] at hm
  | enum e => simp [hitem, methodsOf] at hm

theorem validateGroups_ast {ho : HashOrder} {defined : Defined} {syn : List Diag} {ast : AidlFile}
    {g : Groups} (h : validateGroups ho defined syn ast = .ok g) :
    g.ast = (setUpOneway (resolveTypes ast (ast.imports.map Import.qname)
      (ast.declaredParcelables.map Import.qname) defined).1).1 := by
  unfold validateGroups at h
  simp only at h
  split at h
  · cases h
  · split at h
    · cases h
    · cases h; rfl

end Aidl

namespace Aidl
open Aidl.Spec

/-- the Warning pushed for a method of a oneway interface that spells `oneway` itself -/
def onewayWarning (i : Interface) (m : Method) : Diag :=
  mkDiag .warning m.onewayRange
    ("Method `" ++ m.name ++ "` of oneway interface does not need to be marked as oneway")
    (some "redundant oneway") none [{ message := "oneway interface", range := i.sym }]

theorem setUpOnewayMethod_fst (i : Interface) (m : Method) :
    (setUpOnewayMethod i m).1 = { m with oneway := true } := by
  unfold setUpOnewayMethod
  split
  · rename_i h; cases m; simp_all
  · rfl

theorem setUpOnewayMethod_snd (i : Interface) (m : Method) :
    (setUpOnewayMethod i m).2 = if m.oneway then [onewayWarning i m] else [] := by
  unfold setUpOnewayMethod onewayWarning
  split <;> simp_all

theorem setUpOnewayInterface_diags (i : Interface) (h : i.oneway = true) :
    (setUpOnewayInterface i).2 = (i.methods.filter (·.oneway)).map (onewayWarning i) := by
  unfold setUpOnewayInterface
  simp only [h, Bool.not_true, Bool.false_eq_true, if_false, Interface.methods, List.flatMap_map]
  generalize i.elements = els
  induction els with
  | nil => rfl
  | cons el els ih =>
    cases el with
    | const c => simpa [setUpOnewayElement, List.filterMap_cons] using ih
    | method m =>
      have hel : (setUpOnewayElement i (.method m)).2 = if m.oneway then [onewayWarning i m] else [] := by
        simp [setUpOnewayElement, setUpOnewayMethod_snd]
      simp only [List.flatMap_cons, hel, List.filterMap_cons, ih]
      by_cases hm : m.oneway = true <;> simp [hm, List.filter_cons]

theorem methodsOf_setUpOneway (x : AidlFile) :
    methodsOf (setUpOneway x).1 =
      if interfaceOneway x then (methodsOf x).map (fun m => { m with oneway := true }) else methodsOf x := by
  unfold setUpOneway methodsOf interfaceOneway
  cases hitem : x.item with
  | interface i =>
    simp only
    by_cases h : i.oneway = true
    · rw [setUpOnewayInterface_methods i h]
      simp [h, setUpOnewayMethod_fst]
    · have h' : i.oneway = false := by simpa using h
      simp [setUpOnewayInterface, h']
  | parcelable p => simp [hitem]
  | enum e => simp [hitem]

theorem interfaceOneway_setUpOneway (x : AidlFile) : interfaceOneway (setUpOneway x).1 = interfaceOneway x := by
  unfold setUpOneway interfaceOneway
  cases hitem : x.item with
  | interface i => simp [setUpOnewayInterface_oneway]
  | parcelable p => simp [hitem]
  | enum e => simp [hitem]

/-- the Warnings pushed by `set_up_oneway_interface` -/
theorem setUpOneway_diags (x : AidlFile) :
    (setUpOneway x).2 = match x.item with
      | .interface i => if i.oneway then (i.methods.filter (·.oneway)).map (onewayWarning i) else []
      | _ => [] := by
  unfold setUpOneway
  cases hitem : x.item with
  | interface i =>
    simp only
    by_cases h : i.oneway = true
    · simp [h, setUpOnewayInterface_diags i h]
    · have h' : i.oneway = false := by simpa using h
      simp [setUpOnewayInterface, h']
  | parcelable p => rfl
  | enum e => rfl

end Aidl
