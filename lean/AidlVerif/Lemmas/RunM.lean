import AidlVerif.Model.Actions

/-! Running the action monad `M`: equations for `bind`, `pure`, `read`, `throw`, `pushDiag`, `mkPos`. -/

namespace Aidl.Props.PL
open Aidl Aidl.Actions Aidl.Lexer

/-! ### running the action monad -/

def runM {α} (x : M α) (env : Env) (ds : List Diag) : Except Panic (α × List Diag) := (x.run env).run ds

theorem runM_bind {α β} (x : M α) (f : α → M β) (env : Env) (ds : List Diag) :
    runM (x >>= f) env ds = match runM x env ds with
      | .error e => .error e
      | .ok (a, ds') => runM (f a) env ds' := by
  simp only [runM, ReaderT.run_bind, StateT.run_bind]
  cases h : (x.run env).run ds <;> rfl
theorem runM_pure {α} (a : α) (env : Env) (ds : List Diag) : runM (pure a : M α) env ds = .ok (a, ds) := rfl
theorem runM_read (env : Env) (ds : List Diag) : runM (read : M Env) env ds = .ok (env, ds) := rfl
theorem runM_throw {α} (m : Panic) (env : Env) (ds : List Diag) : runM (throw m : M α) env ds = .error m := rfl
theorem runM_bad {α} (k : PanicKind) (m : String) (env : Env) (ds : List Diag) : runM (bad k m : M α) env ds = .error ⟨k, m⟩ := rfl
theorem runM_pushDiag (d : Diag) (env : Env) (ds : List Diag) : runM (pushDiag d) env ds = .ok ((), ds ++ [d]) := rfl

/-! ### ranges -/

/-- `Position::new` succeeds exactly on the offsets the line/column lookup accepts (character
    boundaries inside the input) and takes line and column from it; it pushes no diagnostic -/
theorem mkPos_eq (env : Env) (ds : List Diag) (off : Nat) :
    runM (mkPos off) env ds =
      match env.lineCol off with
      | some lc => .ok ({ off := off, line := lc.1, col := lc.2 }, ds)
      | none => .error ⟨.bounds, s!"Range::new: offset {off} is not a character boundary inside the input"⟩ := by
  unfold mkPos
  simp only [runM_bind, runM_read]
  cases env.lineCol off <;> rfl


end Aidl.Props.PL
