import AidlVerif.Spec.C15
import AidlVerif.Model.Symbol

/-!
Executable specifications shared by the parse-level properties (C02, C03, C04, C14, C18),
evaluated by the driver on the IMPLEMENTATION's output.
-/

namespace Aidl.Spec.PL

/-! ### position-erased tree, as an S-expression (same shape as the harness generator's) -/

def kindStr : TypeKind → String
  | .primitive => "primitive" | .void => "void" | .array => "array" | .map => "map" | .list => "list"
  | .string => "string" | .charSequence => "char_sequence" | .unresolved => "unresolved"
  | .android a => "android:" ++ a.name
  | .resolved k r => "resolved:" ++ k ++ ":" ++ (match r with
      | .interface => "interface" | .parcelable => "parcelable" | .enum => "enum" | .fwd => "fwd"
      | .unknownImport => "unknown_import")

mutual
def sxTy : Ty → String
  | .mk n k g _ _ => "(ty " ++ n ++ " " ++ kindStr k ++ sxTys g ++ ")"
def sxTys : List Ty → String
  | [] => ""
  | t :: ts => " " ++ sxTy t ++ sxTys ts
end

def sxAnns (v : List Annotation) : String :=
  "(anns" ++ String.join (v.map fun a =>
    " (" ++ a.name ++ String.join (a.keyValues.map fun (k, val) => match val with
      | some x => " " ++ k ++ "=" ++ x
      | none => " " ++ k) ++ ")") ++ ")"

def dirStr : Direction → String
  | .in_ _ => "in" | .out _ => "out" | .inout _ => "inout" | .unspecified => "-"

def sxMethod (m : Method) : String :=
  "(method " ++ m.name ++ " oneway=" ++ toString m.oneway ++ " " ++ sxAnns m.annotations ++ " " ++ sxTy m.returnType
    ++ " (args" ++ String.join (m.args.map fun a =>
        " (arg " ++ dirStr a.direction ++ " " ++ a.name.getD "-" ++ " " ++ sxAnns a.annotations ++ " " ++ sxTy a.argType ++ ")")
    ++ ") code=" ++ (match m.transactCode with | some c => toString c | none => "-") ++ ")"

def sxConst (c : Const) : String :=
  "(const " ++ c.name ++ " " ++ sxAnns c.annotations ++ " " ++ sxTy c.constType ++ " value=" ++ c.value ++ ")"

def sxField (f : Field) : String :=
  "(field " ++ f.name ++ " " ++ sxAnns f.annotations ++ " " ++ sxTy f.fieldType ++ " value=" ++ f.value.getD "-" ++ ")"

def sxEnumEl (e : EnumElement) : String := "(enumel " ++ e.name ++ " value=" ++ e.value.getD "-" ++ ")"

/-- the members of the item, one S-expression each, in source order -/
def sxMembers (a : AidlFile) : List String :=
  match a.item with
  | .interface i => i.elements.map fun | .method m => sxMethod m | .const c => sxConst c
  | .parcelable p => p.elements.map fun | .field f => sxField f | .const c => sxConst c
  | .enum e => e.elements.map sxEnumEl

def sxAidl (a : AidlFile) : String :=
  let (kind, name, oneway, anns) := match a.item with
    | .interface i => ("interface", i.name, i.oneway, i.annotations)
    | .parcelable p => ("parcelable", p.name, false, p.annotations)
    | .enum e => ("enum", e.name, false, e.annotations)
  "(aidl (package " ++ a.package.name ++ ")"
    ++ String.join (a.imports.map fun i => " (import path=" ++ i.path ++ " name=" ++ i.name ++ ")")
    ++ String.join (a.declaredParcelables.map fun i => " (decl path=" ++ i.path ++ " name=" ++ i.name ++ ")")
    ++ " (" ++ kind ++ " " ++ name ++ " oneway=" ++ toString oneway ++ " " ++ sxAnns anns
    ++ String.join ((sxMembers a).map fun m => " " ++ m) ++ "))"

/-! ### identifiers stored in a tree (C03) -/

def keywords : List String :=
  ["package", "import", "interface", "parcelable", "enum", "oneway", "const", "inout", "in", "out", "void",
   "byte", "short", "int", "long", "float", "double", "boolean", "char", "String", "CharSequence", "List", "Map",
   "true", "false"]

def reserved : List String :=
  ["break", "case", "catch", "char", "class", "continue", "default", "do", "double", "else", "enum", "false", "float",
   "for", "goto", "if", "int", "long", "new", "private", "protected", "public", "return", "short", "static", "switch",
   "this", "throw", "true", "try", "void", "volatile", "while"]

def splitDots (s : String) : List String := s.splitOn "."

mutual
def tyIdents : Ty → List String
  | .mk n k g _ _ => (match k with
      | .unresolved | .resolved _ _ | .android _ => splitDots n
      | _ => [])
      ++ tysIdents g
def tysIdents : List Ty → List String
  | [] => []
  | t :: ts => tyIdents t ++ tysIdents ts
end

def annIdents (v : List Annotation) : List String := v.flatMap fun a => a.keyValues.map (·.1)

/-- every user-chosen identifier stored in the tree: package / import / declaration segments, item,
    member, argument, enum element and annotation-parameter names, user type name segments -/
def identifiers (a : AidlFile) : List String :=
  splitDots a.package.name
  ++ a.imports.flatMap (fun i => (if i.path.isEmpty then [] else splitDots i.path) ++ [i.name])
  ++ a.declaredParcelables.flatMap (fun i => (if i.path.isEmpty then [] else splitDots i.path) ++ [i.name])
  ++ (match a.item with
      | .interface i => [i.name] ++ annIdents i.annotations ++ i.elements.flatMap fun
          | .method m => [m.name] ++ annIdents m.annotations ++ tyIdents m.returnType
              ++ m.args.flatMap (fun x => x.name.toList ++ annIdents x.annotations ++ tyIdents x.argType)
          | .const c => [c.name] ++ annIdents c.annotations ++ tyIdents c.constType
      | .parcelable p => [p.name] ++ annIdents p.annotations ++ p.elements.flatMap fun
          | .field f => [f.name] ++ annIdents f.annotations ++ tyIdents f.fieldType
          | .const c => [c.name] ++ annIdents c.annotations ++ tyIdents c.constType
      | .enum e => [e.name] ++ annIdents e.annotations ++ e.elements.map (·.name))

def noKeywordNames (a : AidlFile) : Bool :=
  (identifiers a).all fun w => !(keywords.contains w) && !(reserved.contains w)

/-! ### ranges (C04) -/

abbrev LcTable := List (Nat × Nat × Nat)

/-- offsets on character boundaries inside the file, start ≤ end, line/column as the lookup says -/
def posOk (lc : LcTable) (p : Pos) : Bool :=
  match lc.find? (fun e => e.1 == p.off) with
  | some e => e.2.1 == p.line && e.2.2 == p.col
  | none => false

def rangeOk (lc : LcTable) (r : Range) : Bool :=
  posOk lc r.start && posOk lc r.stop && r.start.off ≤ r.stop.off

def within (inner outer : Range) : Bool :=
  outer.start.off ≤ inner.start.off && inner.stop.off ≤ outer.stop.off

/-- siblings disjoint and increasing -/
def increasing (rs : List Range) : Bool :=
  (rs.zip rs.tail).all fun (a, b) => a.stop.off ≤ b.start.off

mutual
/-- a type: name ⊆ full, children's full ranges inside the parent's full range, disjoint, increasing -/
def tyNested : Ty → Bool
  | .mk _ _ g s f => within s f && tysNested g && tysWithin g f && increasing (tysFull g)
def tysNested : List Ty → Bool
  | [] => true
  | t :: ts => tyNested t && tysNested ts
def tysWithin : List Ty → Range → Bool
  | [], _ => true
  | t :: ts, f => within t.full f && tysWithin ts f
def tysFull : List Ty → List Range
  | [] => []
  | t :: ts => t.full :: tysFull ts
end

mutual
def tyRanges : Ty → List Range
  | .mk _ _ g s f => [s, f] ++ tysRanges g
def tysRanges : List Ty → List Range
  | [] => []
  | t :: ts => tyRanges t ++ tysRanges ts
end

def dirRange : Direction → List Range
  | .in_ r | .out r | .inout r => [r]
  | .unspecified => []

/-- every range stored in the tree -/
def allRanges (a : AidlFile) : List Range :=
  [a.package.sym, a.package.full]
  ++ a.imports.flatMap (fun i => [i.sym, i.full]) ++ a.declaredParcelables.flatMap (fun i => [i.sym, i.full])
  ++ [a.item.sym, a.item.full]
  ++ (match a.item with
      | .interface i => i.elements.flatMap fun
          | .method m => [m.sym, m.full, m.transactCodeRange, m.onewayRange] ++ tyRanges m.returnType
              ++ m.args.flatMap (fun x => [x.sym, x.full] ++ dirRange x.direction ++ tyRanges x.argType)
          | .const c => [c.sym, c.full] ++ tyRanges c.constType
      | .parcelable p => p.elements.flatMap fun
          | .field f => [f.sym, f.full] ++ tyRanges f.fieldType
          | .const c => [c.sym, c.full] ++ tyRanges c.constType
      | .enum e => e.elements.flatMap fun el => [el.sym, el.full])

/-- name ⊆ full, descendants ⊆ ancestor, siblings disjoint and increasing -/
def nested (a : AidlFile) : Bool :=
  let memberFulls : List Range := match a.item with
    | .interface i => i.elements.map fun | .method m => m.full | .const c => c.full
    | .parcelable p => p.elements.map fun | .field f => f.full | .const c => c.full
    | .enum e => e.elements.map (·.full)
  within a.package.sym a.package.full
  && (a.imports ++ a.declaredParcelables).all (fun i => within i.sym i.full)
  && increasing ([a.package.full] ++ a.imports.map (·.full) ++ a.declaredParcelables.map (·.full) ++ [a.item.full])
  && within a.item.sym a.item.full
  && memberFulls.all (fun f => within f a.item.full) && increasing memberFulls
  && (match a.item with
      | .interface i => i.elements.all fun
          | .method m => within m.sym m.full && within m.returnType.full m.full && tyNested m.returnType
              && m.args.all (fun x => within x.full m.full && within x.argType.full x.full && tyNested x.argType
                    && (dirRange x.direction).all (fun r => within r x.full))
              && increasing ([m.returnType.full, m.sym] ++ m.args.map (·.full))
          | .const c => within c.sym c.full && within c.constType.full c.full && tyNested c.constType
      | .parcelable p => p.elements.all fun
          | .field f => within f.sym f.full && within f.fieldType.full f.full && tyNested f.fieldType
          | .const c => within c.sym c.full && within c.constType.full c.full && tyNested c.constType
      | .enum e => e.elements.all fun el => within el.sym el.full)

def diagRanges (ds : List Diag) : List Range := ds.flatMap fun d => d.range :: d.related.map (·.range)

/-- the constructs of a file with their (kind, name, name range, full range), in the order of the
    generator's span list: package, imports, declarations, then the detailed visit list of the item -/
def constructs (a : AidlFile) : List (String × String × Range × Range) :=
  [("package", a.package.name, a.package.sym, a.package.full)]
  ++ a.imports.map (fun i => ("import", i.qname, i.sym, i.full))
  ++ a.declaredParcelables.map (fun i => ("decl", i.qname, i.sym, i.full))
  ++ ((C15.itemSymbols .all a).map fun s =>
      ((match s with
        | .interface .. | .parcelable .. | .enum .. => "item"
        | .method .. => "method" | .arg .. => "arg" | .const .. => "const" | .field .. => "field"
        | .enumElement .. => "enumel" | .type _ => "type" | _ => "?"),
       s.name.getD "", s.range, s.fullRange))

end Aidl.Spec.PL
