import AidlVerif.Spec.C15
import AidlVerif.Model.Symbol

/-!
# C17 — an item's qualified name is the key that references to it resolve to
-/

namespace Aidl.Spec.C17
open Aidl.Spec.C15

def isItemKind : RKind → Bool
  | .interface | .parcelable | .enum => true
  | _ => false

/-- what the statement prescribes for the qualified name of a symbol -/
def expectedQualified : Symbol → Option String
  | .package p => some p.name
  | .import_ i => some (if i.path.isEmpty then i.name else i.path ++ "." ++ i.name)
  | .interface i pkg => some (pkg.name ++ "." ++ i.name)
  | .parcelable p pkg => some (pkg.name ++ "." ++ p.name)
  | .enum e pkg => some (pkg.name ++ "." ++ e.name)
  | .method m i => some (i.name ++ "::" ++ m.name)
  | .arg a _ => a.name
  | .const c (.interface i) => some (i.name ++ "::" ++ c.name)
  | .const c (.parcelable p) => some (p.name ++ "::" ++ c.name)
  | .field f p => some (p.name ++ "::" ++ f.name)
  | .enumElement el e => some (e.name ++ "::" ++ el.name)
  | .type t => match t.kind with
    | .resolved q _ => some q
    | _ => none

/-- a reported symbol: (variant, plain name, qualified name, name range) -/
abbrev Reported := String × Option String × Option String × Range

/-- oracle for a validated project given what the implementation reports for the symbols of each
    file (`reported`: per file id, in visit order at the detailed level) and the key it reports -/
def holdsProject (out : List FileResult) (reported : List (String × String × List Reported)) : Bool :=
  out.all fun fr => match fr.ast with
    | none => true
    | some b =>
      match reported.find? (fun r => r.1 == fr.id) with
      | none => false
      | some (_, key, syms) =>
        -- the key is `package.Name`
        key == b.package.name ++ "." ++ b.item.name
        -- the item symbol's qualified name is the key, for the three kinds alike
        && (syms.any fun s => (s.1 == "interface" || s.1 == "parcelable" || s.1 == "enum") && s.2.2.1 == some key)
        -- every symbol reports the qualified and plain names the statement prescribes
        && (syms.map (fun s => (s.1, s.2.1, s.2.2.1)) == (symbols .all b).map (fun s => (s.tag, s.name, expectedQualified s)))
        -- every type that resolves to an item of the project carries the qualified name of that item's symbol
        && ((allTypesPre b).all fun t => match t.kind with
              | .resolved k rk =>
                !isItemKind rk || out.any (fun fr' => match fr'.ast with
                  | some a => a.key == k && (itemSymbol a).qualifiedName == (Symbol.type t).qualifiedName
                  | none => false)
              | _ => true)

end Aidl.Spec.C17
