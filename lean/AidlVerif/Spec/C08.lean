import AidlVerif.Spec.Common
import AidlVerif.Lemmas.Types

/-!
# C08 — array, list and map element rules are enforced on every container type
-/

namespace Aidl.Spec.C08

/-- arrays may hold primitives, String, enums, parcelables (defined, forward-declared or unknown
    imports), IBinder, FileDescriptor and ParcelFileDescriptor; unresolved names get the benefit
    of the doubt (another array is reported separately, as multi-dimensional) -/
def arrayElemOk : Category → Bool
  | .primitive | .string | .enum | .parcelable | .fwd | .unknownImport
  | .iBinder | .fileDescriptor | .parcelFileDescriptor | .unresolved => true
  | .array | .list | .map | .void | .charSequence | .interface | .parcelableHolder => false

/-- lists may hold String, parcelables (defined, forward-declared, unknown imports), IBinder and
    ParcelFileDescriptor only -/
def listElemOk : Category → Bool
  | .string | .parcelable | .fwd | .unknownImport | .iBinder | .parcelFileDescriptor | .unresolved => true
  | _ => false

/-- map values may be anything but primitives, void and enums -/
def mapValueOk : Category → Bool
  | .primitive | .void | .enum => false
  | _ => true

/-- map keys must be `String` -/
def mapKeyOk (t : Ty) : Bool := Category.of t.kind == .string && t.name == "String"

abbrev Report := DiagKind × Range

/-- what one container node calls for: one Error per offending element, on that element; one
    Warning per raw `List` / `Map`, on the keyword -/
def containerRule (t : Ty) : List Report :=
  match t.kind, t.gens with
  | .array, e :: _ => if arrayElemOk (Category.of e.kind) then [] else [(.error, e.sym)]
  | .list, [] => [(.warning, t.sym)]
  | .list, [e] => if listElemOk (Category.of e.kind) then [] else [(.error, e.sym)]
  | .map, [] => [(.warning, t.sym)]
  | .map, [k, v] =>
    (if mapKeyOk k then [] else [(.error, k.sym)]) ++ (if mapValueOk (Category.of v.kind) then [] else [(.error, v.sym)])
  | _, _ => []

/-- every container node of the file, at any depth, in any syntactic position -/
def spec (ast : AidlFile) : List Report := (allTypesWalk ast).flatMap containerRule

def containerContexts : List String :=
  ["unsupported array", "invalid parameter", "invalid element", "invalid map key", "invalid map value",
   "non-generic list", "non-generic map"]

/-- a diagnostic of the container check (recognised by its context message) -/
def isContainerDiag (d : Diag) : Bool :=
  match d.context with
  | some c => containerContexts.contains c
  | none => false

def reportOf (d : Diag) : Report := (d.kind, d.range)

/-- oracle for one output file: the container diagnostics are, as a multiset of (severity, range),
    exactly what the rules call for on the validated tree -/
def holdsFile (out : FileResult) : Bool :=
  match out.ast with
  | none => true
  | some b => ((out.diags.filter isContainerDiag).map reportOf).isPerm (spec b)

def proj (out : FileResult) : List Report :=
  match out.ast with
  | none => []
  | some _ => (out.diags.filter isContainerDiag).map reportOf

end Aidl.Spec.C08
