import AidlVerif.Spec.C15

/-!
# C16 — pointing at a name finds the symbol that carries it
-/

namespace Aidl.Spec.C16
open Aidl.Spec.C15

/-- lexicographic order on (line, column) -/
def lcLe (a b : Nat × Nat) : Bool := a.1 < b.1 || (a.1 == b.1 && a.2 ≤ b.2)

/-- the position is between the range's start and end, both inclusive -/
def contains (r : Range) (lc : Nat × Nat) : Bool :=
  lcLe (r.start.line, r.start.col) lc && lcLe lc (r.stop.line, r.stop.col)

/-- the answer the statement prescribes: the first visited symbol whose reported range contains the
    position, or nothing -/
def expected (filter : SymbolFilter) (ast : AidlFile) (lc : Nat × Nat) : Option Symbol :=
  (symbols filter ast).find? (fun s => contains s.range lc)

end Aidl.Spec.C16
