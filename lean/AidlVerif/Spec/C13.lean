import AidlVerif.Spec.Common
import AidlVerif.Model.Store

/-!
# C13 — a file's result depends only on its own text and the kinds of what it imports
-/

namespace Aidl.Spec.C13

/-- the keys a file names in its imports -/
def importKeys (fr : FileResult) : List String :=
  match fr.ast with
  | some a => a.imports.map Import.qname
  | none => []

/-- the facts about the rest of the project a file may depend on: for each import it names,
    whether an item is registered under that key and which kind it has -/
def facts (defined : Defined) (fr : FileResult) : List (String × Option RKind) :=
  (importKeys fr).map fun k => (k, defined.get k)

/-- what `collect_item_keys` reads of a file: package + item name (the key) and the item kind -/
def header (fr : FileResult) : Option (String × RKind) := fr.ast.map fun a => (a.key, a.item.kind)

/-- oracle for a perturbation pair: `target1` / `target2` are the syntax-stage results of the
    same file in two projects, `out1` / `out2` its validated results; when the facts agree the
    results must be equal -/
def holdsPair (defined1 defined2 : Defined) (target1 target2 : FileResult) (out1 out2 : FileResult) : Bool :=
  !(target1 == target2 && facts defined1 target1 == facts defined2 target2) || out1 == out2

end Aidl.Spec.C13
