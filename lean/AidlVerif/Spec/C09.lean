import AidlVerif.Spec.Common

/-!
# C09 — duplicate method names, duplicate and mixed transact codes

Declarative specification over the list of the interface's methods (constants are not in the
list). For the method `m` that follows the methods `pre`:

* if an earlier method has the same name, `m` gets one Error on its name, pointing back to the
  FIRST earlier method with that name — and takes no further part;
* otherwise, with `K` = the earlier methods whose names do not repeat an earlier one:
  - if all of `K` (non-empty) are of one sort (all with an explicit code, or all without) and `m`
    is of the other sort, `m` is the first method that makes the interface mixed: one Error on
    its code range, pointing to the first method of the other sort;
  - if `m` has an explicit code that a method of `K` already has, one Error on its code range,
    pointing to the first method of `K` with that code.
-/

namespace Aidl.Spec.C09

/-- methods whose name does not repeat an earlier one (`seen` = names already met) -/
def keptAux (seen : List String) : List Method → List Method
  | [] => []
  | m :: ms => if seen.contains m.name then keptAux seen ms else m :: keptAux (m.name :: seen) ms

def kept (ms : List Method) : List Method := keptAux [] ms

/-- what is reported for a method: (range of the Error, range it points back to) -/
abbrev Report := Range × Range

def stepSpec (pre : List Method) (m : Method) : List Report :=
  match pre.find? (fun p => p.name == m.name) with
  | some p => [(m.sym, p.sym)]
  | none =>
    let K := kept pre
    let coded := K.filter (fun p => p.transactCode.isSome)
    let uncoded := K.filter (fun p => p.transactCode.isNone)
    (if coded.isEmpty && m.transactCode.isSome then
       (match uncoded.head? with | some p => [(m.transactCodeRange, p.transactCodeRange)] | none => [])
     else if uncoded.isEmpty && m.transactCode.isNone then
       (match coded.head? with | some p => [(m.transactCodeRange, p.transactCodeRange)] | none => [])
     else [])
    ++
    (match m.transactCode with
     | some c => (match K.find? (fun p => p.transactCode == some c) with
        | some p => [(m.transactCodeRange, p.transactCodeRange)]
        | none => [])
     | none => [])

/-- reports for `ms`, given the methods `pre` that precede them -/
def specAux (pre : List Method) : List Method → List Report
  | [] => []
  | m :: ms => stepSpec pre m ++ specAux (pre ++ [m]) ms

/-- all reports of an interface's method list -/
def spec (ms : List Method) : List Report := specAux [] ms

def reportOf (d : Diag) : Report := (d.range, (d.related.head?.map (·.range)).getD d.range)

/-- the ranges on which the three kinds of diagnostics can sit -/
def idRanges (ms : List Method) : List Range := ms.flatMap fun m => [m.sym, m.transactCodeRange]

/-- the oracle for one output file: the Errors that sit on a method's name or code range and carry
    related information are exactly the specified reports, in order -/
def holdsFile (out : FileResult) : Bool :=
  match out.ast with
  | none => true
  | some b =>
    let ms := methodsOf b
    let rs := idRanges ms
    ((out.diags.filter (fun d => d.kind = .error && rs.contains d.range && !d.related.isEmpty)).map reportOf)
      == spec ms

def proj (out : FileResult) : List Report :=
  match out.ast with
  | none => []
  | some b =>
    let rs := idRanges (methodsOf b)
    (out.diags.filter (fun d => d.kind = .error && rs.contains d.range && !d.related.isEmpty)).map reportOf

end Aidl.Spec.C09
