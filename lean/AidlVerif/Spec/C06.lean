import AidlVerif.Spec.C05
import AidlVerif.Lemmas.Firsts

/-!
# C06 — imports and forward declarations get exactly the diagnostics they deserve

A report is (severity, range, range pointed back to).
-/

namespace Aidl.Spec.C06

abbrev Report := DiagKind × Range × Option Range

/-- repeats: each import that repeats an earlier one is an Error pointing back to the FIRST -/
def dupReports (pre : List Import) : List Import → List Report
  | [] => []
  | i :: rest =>
    (match pre.find? (fun p => p.qname == i.qname) with
     | some p => [(.error, i.sym, some p.sym)]
     | none => [])
    ++ dupReports (pre ++ [i]) rest

/-- a first occurrence: unresolvable → one Warning; resolvable but no type of the file resolves to
    it → one Warning; used → nothing -/
def importUsageReport (resolved : List String) (defined : Defined) (i : Import) : List Report :=
  if (defined.get i.qname).isNone && (C05.builtinQualified i.qname).isNone then [(.warning, i.sym, none)]
  else if !resolved.contains i.qname then [(.warning, i.sym, none)]
  else []

def importReports (resolved : List String) (defined : Defined) (imports : List Import) : List Report :=
  dupReports [] imports ++ (firsts Import.qname imports).flatMap (importUsageReport resolved defined)

/-- the import a declaration conflicts with: the smallest qualified name among the (first
    occurrences of) imports with the same simple name -/
def conflictOf (imports : List Import) (d : Import) : Option Import :=
  (minByKey? (((firsts Import.qname imports).filter (fun i => i.name == d.name)).map (fun i => (i.qname, i)))).map (·.2)

/-- declarations that do not conflict with an import -/
def freeDecls (imports decls : List Import) : List Import :=
  decls.filter (fun d => (conflictOf imports d).isNone)

def declStructReports (imports : List Import) (pre : List Import) : List Import → List Report
  | [] => []
  | d :: rest =>
    (match conflictOf imports d with
     | some c => [(.error, d.sym, some c.sym)]
     | none =>
       match (freeDecls imports pre).find? (fun p => p.qname == d.qname) with
       | some p => [(.error, d.sym, some p.sym)]
       | none => [])
    ++ declStructReports imports (pre ++ [d]) rest

/-- a first non-conflicting occurrence: unused → Warning on the name; used → the discouragement
    Warning on the whole statement -/
def declUsageReport (resolved : List String) (d : Import) : List Report :=
  if !resolved.contains d.qname then [(.warning, d.sym, none)] else [(.warning, d.full, none)]

def declReports (resolved : List String) (imports decls : List Import) : List Report :=
  declStructReports imports [] decls
    ++ (firsts Import.qname (freeDecls imports decls)).flatMap (declUsageReport resolved)

/-- the keys some type of the file (at any depth) resolves to -/
def resolvedKeys (b : AidlFile) : List String :=
  (allTypesPre b).filterMap (fun t => resolvedKeyOfKind t.kind)

def reportOf (d : Diag) : Report := (d.kind, d.range, d.related.head?.map (·.range))

def stmtRanges (b : AidlFile) : List Range :=
  b.imports.map (·.sym) ++ b.declaredParcelables.map (·.sym) ++ b.declaredParcelables.map (·.full)

/-- oracle for one output file: the diagnostics sitting on import / declaration statements are, as
    a multiset, exactly the specified reports -/
def holdsFile (defined : Defined) (out : FileResult) : Bool :=
  match out.ast with
  | none => true
  | some b =>
    let rs := stmtRanges b
    let R := resolvedKeys b
    ((out.diags.filter (fun d => rs.contains d.range)).map reportOf).isPerm
      (importReports R defined b.imports ++ declReports R b.imports b.declaredParcelables)

def proj (out : FileResult) : List Report :=
  match out.ast with
  | none => []
  | some b => (out.diags.filter (fun d => (stmtRanges b).contains d.range)).map reportOf

end Aidl.Spec.C06
