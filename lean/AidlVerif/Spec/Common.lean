import AidlVerif.Model.Validation

/-! Vocabulary shared by the executable specifications. -/

namespace Aidl.Spec

/-- The 17 type categories of the property statements (C05, C07, C08). -/
inductive Category
  | primitive | void | string | charSequence | array | list | map
  | iBinder | fileDescriptor | parcelFileDescriptor | parcelableHolder
  | parcelable | interface | enum | fwd | unknownImport | unresolved
deriving DecidableEq, Repr

def Category.of : TypeKind → Category
  | .primitive => .primitive
  | .void => .void
  | .string => .string
  | .charSequence => .charSequence
  | .array => .array
  | .list => .list
  | .map => .map
  | .android .iBinder => .iBinder
  | .android .fileDescriptor => .fileDescriptor
  | .android .parcelFileDescriptor => .parcelFileDescriptor
  | .android .parcelableHolder => .parcelableHolder
  | .resolved _ .parcelable => .parcelable
  | .resolved _ .interface => .interface
  | .resolved _ .enum => .enum
  | .resolved _ .fwd => .fwd
  | .resolved _ .unknownImport => .unknownImport
  | .unresolved => .unresolved

/-- number of Error diagnostics whose range is exactly `r` -/
def errorsAt (ds : List Diag) (r : Range) : Nat :=
  ds.countP (fun d => d.kind = .error ∧ d.range = r)

/-- number of Warning diagnostics whose range is exactly `r` -/
def warningsAt (ds : List Diag) (r : Range) : Nat :=
  ds.countP (fun d => d.kind = .warning ∧ d.range = r)

/-- the methods of a file's item (empty unless it is an interface) -/
def methodsOf (ast : AidlFile) : List Method :=
  match ast.item with
  | .interface i => i.methods
  | _ => []

def interfaceOneway (ast : AidlFile) : Bool :=
  match ast.item with
  | .interface i => i.oneway
  | _ => false

end Aidl.Spec
