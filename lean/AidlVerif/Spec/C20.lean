import AidlVerif.Model.Diagnostic

/-!
# C20 — syntax-error messages name every token the parser was prepared to accept

`namedIn` recovers the token names from the wording (the separators `", "` and `" or "` occur
in no terminal name of the grammar — checked per run against the expectation vectors seen).
-/

namespace Aidl.Spec.C20

/-- split on a separator given as a character list -/
def splitOnList (sep : List Char) (s : List Char) : List (List Char) :=
  let rec go (cur : List Char) (rest : List Char) (fuel : Nat) : List (List Char) :=
    match fuel with
    | 0 => [cur.reverse]
    | fuel + 1 =>
      match rest with
      | [] => [cur.reverse]
      | c :: cs =>
        if sep.isPrefixOf (c :: cs) && !sep.isEmpty then cur.reverse :: go [] ((c :: cs).drop sep.length) fuel
        else go (c :: cur) cs fuel
  go [] s (s.length + 1)

/-- the token names a message names after its `Expected …` clause -/
def namedIn (msg : String) : List String :=
  -- the expectation clause is the part after the last newline
  let line := ((msg.splitOn "\n").getLast?).getD ""
  let body :=
    if line.startsWith "Expected one of " then (line.drop 16).toString
    else if line.startsWith "Expected " then (line.drop 9).toString
    else ""
  if body.isEmpty then [] else
  ((splitOnList " or ".toList body.toList).flatMap (splitOnList ", ".toList)).map String.ofList

/-- every expected token is named -/
def missing (expected : List String) (msg : String) : List String :=
  expected.filter (fun t => !(namedIn msg).contains t)

/-- nothing outside the expectation set is named -/
def foreign (expected : List String) (msg : String) : List String :=
  (namedIn msg).filter (fun t => !expected.contains t)

def holds (expected : List String) (msg : String) : Bool :=
  (missing expected msg).isEmpty && (foreign expected msg).isEmpty

/-- the shape of known finding K1: at least three expected tokens, nothing foreign named, and
    exactly the last-but-one token is missing -/
def isK1 (expected : List String) (msg : String) : Bool :=
  expected.length ≥ 3 && (foreign expected msg).isEmpty
    && missing expected msg == [expected.getD (expected.length - 2) ""]

end Aidl.Spec.C20
