import AidlVerif.Spec.Common

/-!
# C10 — oneway is propagated from the interface and oneway methods must return void
-/

namespace Aidl.Spec.C10

/-- the oracle for one file: `stage1` is the syntax-stage result (what the source says),
    `out` the validated one -/
def holdsFile (stage1 out : FileResult) : Bool :=
  match stage1.ast, out.ast with
  | some a, some b =>
    let io := interfaceOneway a
    let ms := methodsOf a
    -- in a oneway interface every method is oneway afterwards; in any other interface a method is
    -- oneway exactly when the source says so
    ((methodsOf b).map (·.oneway) == ms.map (fun m => m.oneway || io))
    && (interfaceOneway b == io)
    -- exactly one Warning on the redundant keyword of each method of a oneway interface that also
    -- spells `oneway`; no such Warning otherwise
    && (ms.all fun m =>
          warningsAt out.diags m.onewayRange
            == (ms.filter (fun m' => io && m'.oneway && m'.onewayRange == m.onewayRange)).length)
    -- exactly one Error on the return type of each method that is oneway after propagation and
    -- does not return void; none for the others
    && (ms.all fun m =>
          errorsAt out.diags m.returnType.sym
            == (ms.filter (fun m' => (m'.oneway || io) && m'.returnType.kind != .void
                                      && m'.returnType.sym == m.returnType.sym)).length)
  | none, none => true
  | _, _ => false

/-- projection compared between model and implementation -/
def proj (out : FileResult) : List (Bool × Nat × Nat) :=
  match out.ast with
  | none => []
  | some b => (methodsOf b).map fun m =>
      (m.oneway, warningsAt out.diags m.onewayRange, errorsAt out.diags m.returnType.sym)

end Aidl.Spec.C10
