import AidlVerif.Spec.Common
import AidlVerif.Lemmas.Types

/-!
# C15 — traversal visits every node once, in order; filter and find agree with it

`symbols filter ast` is the declarative visit list: package, imports, the item, its members; for
a method its return type then each argument followed by its type; every type at any nesting
depth, an array's element type before the array, otherwise the type before its generic types.
-/

namespace Aidl.Spec.C15

def typeSymbols (t : Ty) : List Symbol := (Ty.walkOrder t).map Symbol.type

def argSymbols (m : Method) (a : Arg) : List Symbol := Symbol.arg a m :: typeSymbols a.argType

def methodSymbols (filter : SymbolFilter) (i : Interface) (m : Method) : List Symbol :=
  Symbol.method m i ::
    (if filter = .all then typeSymbols m.returnType ++ m.args.flatMap (argSymbols m) else [])

def constSymbols (filter : SymbolFilter) (o : ConstOwner) (c : Const) : List Symbol :=
  Symbol.const c o :: (if filter = .all then typeSymbols c.constType else [])

def fieldSymbols (filter : SymbolFilter) (p : Parcelable) (fi : Field) : List Symbol :=
  Symbol.field fi p :: (if filter = .all then typeSymbols fi.fieldType else [])

def interfaceElementSymbols (filter : SymbolFilter) (i : Interface) : InterfaceElement → List Symbol
  | .method m => methodSymbols filter i m
  | .const c => constSymbols filter (.interface i) c

def parcelableElementSymbols (filter : SymbolFilter) (p : Parcelable) : ParcelableElement → List Symbol
  | .field fi => fieldSymbols filter p fi
  | .const c => constSymbols filter (.parcelable p) c

def itemSymbols (filter : SymbolFilter) (ast : AidlFile) : List Symbol :=
  match ast.item with
  | .interface i =>
    Symbol.interface i ast.package ::
      (if filter = .itemsOnly then [] else i.elements.flatMap (interfaceElementSymbols filter i))
  | .parcelable p =>
    Symbol.parcelable p ast.package ::
      (if filter = .itemsOnly then [] else p.elements.flatMap (parcelableElementSymbols filter p))
  | .enum e =>
    Symbol.enum e ast.package ::
      (if filter = .itemsOnly then [] else e.elements.map (fun el => Symbol.enumElement el e))

/-- the visit list -/
def symbols (filter : SymbolFilter) (ast : AidlFile) : List Symbol :=
  (if filter = .all then Symbol.package ast.package :: ast.imports.map Symbol.import_ else [])
    ++ itemSymbols filter ast

/-- `find` over a list with a stateful predicate: the first element on which the predicate,
    run sequentially, answers true -/
def findStateful {σ} (p : σ → Symbol → σ × Bool) : σ → List Symbol → σ × Option Symbol
  | s, [] => (s, none)
  | s, x :: xs => match p s x with
    | (s', true) => (s', some x)
    | (s', false) => findStateful p s' xs

/-- `filter` over a list with a stateful predicate -/
def filterStateful {σ} (p : σ → Symbol → σ × Bool) : σ → List Symbol → σ × List Symbol
  | s, [] => (s, [])
  | s, x :: xs => match p s x with
    | (s', b) => let r := filterStateful p s' xs; (r.1, if b then x :: r.2 else r.2)

/-- all (method, argument) pairs in source order -/
def allArgs (ast : AidlFile) : List (Method × Arg) :=
  (methodsOf ast).flatMap fun m => m.args.map fun a => (m, a)

end Aidl.Spec.C15
