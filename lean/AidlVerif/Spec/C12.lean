import AidlVerif.Model.Store

/-!
# C12 — results depend only on the surviving contents, not on the edit history
-/

namespace Aidl.Spec.C12

/-- the abstract id ↦ latest surviving content map after a history -/
def contentsStep (read : String → Except String String) (cs : List (String × String)) : Op → List (String × String)
  | .add id content => ainsert cs id content
  | .remove id => aerase cs id
  | .validate => cs
  | .addFile path => match read path with
    | .ok text => ainsert cs path text
    | .error _ => cs

def contents (read : String → Except String String) (ops : List Op) : List (String × String) :=
  ops.foldl (contentsStep read) []

/-- the syntax-stage result `add_content` stores for (id, content) -/
def entry (parse : ParseFn) (p : String × String) : String × FileResult :=
  (p.1, { id := p.1, ast := (parse p.2).1, diags := (parse p.2).2 })

/-- a fresh parser to which the given (id, content) pairs are added in the given order -/
def freshStore (parse : ParseFn) (pairs : List (String × String)) : Store :=
  pairs.foldl (fun s p => addContent parse s p.1 p.2) []

end Aidl.Spec.C12
