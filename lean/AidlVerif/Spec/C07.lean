import AidlVerif.Spec.Common

/-!
# C07 — argument direction rules follow the argument's type category exactly

Executable specification written from the statement. `void` is not named by the statement among the argument categories although it is one of the 17
categories of the quantifier; the specification adopts the rule of the group it is handled with
(primitives: only `in` or no direction).
-/

namespace Aidl.Spec.C07

inductive Dir | none | in_ | out | inout
deriving DecidableEq, Repr

def dirOf : Direction → Dir
  | .unspecified => .none
  | .in_ _ => .in_
  | .out _ => .out
  | .inout _ => .inout

/-- does the (category, direction) pair break the category's rule? -/
def typeRuleBroken : Category → Dir → Bool
  -- arrays, lists, maps, parcelables and forward-declared parcelables require an explicit direction
  | .array, d | .list, d | .map, d | .parcelable, d | .fwd, d => d == .none
  -- primitives, String, CharSequence, interfaces, enums, IBinder, FileDescriptor and unknown
  -- imported objects accept only `in` or no direction  (void: as in the code, not in the statement)
  | .primitive, d | .string, d | .charSequence, d | .interface, d | .enum, d
  | .iBinder, d | .fileDescriptor, d | .unknownImport, d | .void, d => d == .out || d == .inout
  -- ParcelFileDescriptor accepts only `in` or `inout`
  | .parcelFileDescriptor, d => d == .none || d == .out
  -- ParcelableHolder is never a legal argument
  | .parcelableHolder, _ => true
  -- an unresolved type imposes nothing
  | .unresolved, _ => false

/-- in a oneway method `out` and `inout` are always Errors in addition -/
def onewayRuleBroken (oneway : Bool) (d : Dir) : Bool := oneway && (d == .out || d == .inout)

/-- number of Errors the statement calls for on one argument -/
def expectedCount (c : Category) (d : Dir) (oneway : Bool) : Nat :=
  (if typeRuleBroken c d then 1 else 0) + (if onewayRuleBroken oneway d then 1 else 0)

/-- all (method, argument) pairs of a file, in source order -/
def argsOf (ast : AidlFile) : List (Method × Arg) :=
  (methodsOf ast).flatMap fun m => m.args.map fun a => (m, a)

/-- number of Errors the statement calls for on a given range: the sum over the arguments whose
    direction range it is (exactly one argument when ranges are distinct, as the parser guarantees) -/
def expectedAt (ast : AidlFile) (r : Range) : Nat :=
  (((argsOf ast).filter (fun p => argDirectionRange p.2 = r)).map
    (fun p => expectedCount (Category.of p.2.argType.kind) (dirOf p.2.direction)
      (p.1.oneway || interfaceOneway ast))).sum

/-- the oracle for one output file: every argument of every method carries exactly the expected
    number of Errors on its direction keyword (or on the empty range at its type) -/
def holdsFile (out : FileResult) : Bool :=
  match out.ast with
  | none => true
  | some ast =>
    (argsOf ast).all fun p =>
      errorsAt out.diags (argDirectionRange p.2) == expectedAt ast (argDirectionRange p.2)

/-- the projection compared between model and implementation: per argument, the number of
    Errors on its direction range -/
def proj (out : FileResult) : List (Range × Nat) :=
  match out.ast with
  | none => []
  | some ast =>
    (argsOf ast).map fun p => (argDirectionRange p.2, errorsAt out.diags (argDirectionRange p.2))

end Aidl.Spec.C07
