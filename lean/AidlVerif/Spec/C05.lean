import AidlVerif.Spec.Common
import AidlVerif.Lemmas.Types

/-!
# C05 — every user-type reference is resolved per AIDL scoping, or reported unknown

`classify` is the scoping rule written from the statement (with the precedence the statement
leaves open fixed as in DESIGN.md §6/§7): a name is looked up

1. as a fully qualified built-in that may be written qualified (`android.os.ParcelFileDescriptor`),
   or a qualified built-in name that the file imports under exactly that name;
2. through the imports: the smallest imported qualified name equal to the name or ending in
   `"." ++ name`; an import naming a built-in gives that built-in, otherwise the kind is that of
   the file registered under the key, else `unknown import`;
3. through an unqualified forward declaration of the same name;
4. as a built-in simple name (`IBinder`, `FileDescriptor`, `ParcelFileDescriptor`, `ParcelableHolder`);
5. otherwise it stays unresolved (and gets one 'unknown type' Error).
-/

namespace Aidl.Spec.C05

def builtinQualified (name : String) : Option AKind :=
  [AKind.iBinder, .fileDescriptor, .parcelFileDescriptor, .parcelableHolder].find? (fun a => a.qname == name)

def builtinSimple (name : String) : Option AKind :=
  [AKind.iBinder, .fileDescriptor, .parcelFileDescriptor, .parcelableHolder].find? (fun a => a.name == name)

def matchingImports (imports : List String) (name : String) : List String :=
  imports.filter (fun ip => name == ip || strEndsWith ip ("." ++ name))

def classify (imports declared : List String) (defined : Defined) (name : String) : TypeKind :=
  -- 1. qualified built-in
  match (builtinQualified name).filter (fun a => a.canBeQualified || imports.contains name) with
  | some a => .android a
  | none =>
    -- 2. imports
    match minStr? (matchingImports imports name) with
    | some ip =>
      match builtinQualified ip with
      | some a => .android a
      | none => .resolved ip ((defined.get ip).getD .unknownImport)
    | none =>
      -- 3. forward declaration (unqualified)
      if declared.contains name && !(name.toList.contains '.') then .resolved name .fwd
      else
        -- 4. built-in simple name
        match (if (builtinQualified name).isSome then none else builtinSimple name) with
        | some a => .android a
        | none => .unresolved

def isUnresolved : TypeKind → Bool
  | .unresolved => true
  | _ => false

/-- kind of a type node after validation -/
def newKind (imports declared : List String) (defined : Defined) (t : Ty) : TypeKind :=
  if t.kind = .unresolved then classify imports declared defined t.name else t.kind

/-- an 'unknown type' Error -/
def isUnknownType (d : Diag) : Bool := d.kind = .error && d.context == some "unknown type"

def unknownAt (ds : List Diag) (r : Range) : Nat := ds.countP (fun d => isUnknownType d && d.range == r)

/-- (name, name range, kind) of every type node of a file, at any depth, in source order -/
def nodes (x : AidlFile) : List (String × Range × TypeKind) :=
  (allTypesPre x).map fun t => (t.name, t.sym, t.kind)

/-- the oracle for one file: `stage1` is the syntax-stage result, `out` the validated one,
    `defined` the keys of the files currently in the parser -/
def holdsFile (defined : Defined) (stage1 out : FileResult) : Bool :=
  match stage1.ast, out.ast with
  | some a, some b =>
    let imports := a.imports.map Import.qname
    let declared := a.declaredParcelables.map Import.qname
    let nb := nodes b
    -- every reference, at any depth, is classified as scoping prescribes
    (nb == (allTypesPre a).map (fun t => (t.name, t.sym, newKind imports declared defined t)))
    -- exactly one 'unknown type' Error on the name of each reference left unresolved …
    && (nb.all fun n =>
          unknownAt out.diags n.2.1 == (nb.filter (fun n' => isUnresolved n'.2.2 && n'.2.1 == n.2.1)).length)
    -- … and none anywhere else
    && (out.diags.countP isUnknownType == (nb.filter (fun n => isUnresolved n.2.2)).length)
  | none, none => true
  | _, _ => false

/-- projection compared between model and implementation -/
def proj (out : FileResult) : List (String × Range × TypeKind) × List Range :=
  match out.ast with
  | none => ([], [])
  | some b => (nodes b, (out.diags.filter isUnknownType).map (·.range))

end Aidl.Spec.C05
