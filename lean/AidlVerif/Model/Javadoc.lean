import AidlVerif.Model.Regex

/-!
Model of `/repo/src/javadoc.rs` (the repaired tree: `pos` advances by the UTF-8 size of each
character).

`findContent` scans the text before `pos` backwards with the seven-state machine of
`find_content_string`; positions are BYTE counts from the end of the prefix, exactly as in the
Rust code, and the final slice `input[len - start .. len - end]` is an explicit partial operation
(`sliceBytes`): `none` there would be the Rust panic.
-/

namespace Aidl.Javadoc
open Aidl.Regex

inductive FindState
  | idle | lineCommentOrSomethingElse | lineCommentOrSomethingElseBeforeSlash | beforeEndSlash
  | insideComment | beforeBeginStar | beforeBeginStarStar
deriving DecidableEq, Repr

structure Scan where
  pos : Nat := 0
  startPos : Option Nat := none
  endPos : Option Nat := none
  state : FindState := .idle
  done : Bool := false
deriving Repr

/-- one iteration of `for current in input.chars().rev()`; `advance` is how much `pos` grows
    (`len_utf8()` in the repaired code, `1` in the original) -/
def scanStep (advance : Char → Nat) (s : Scan) (current : Char) : Scan :=
  if s.done then s else
  let pos := s.pos + advance current
  let s := { s with pos := pos }
  match s.state with
  | .idle =>
    if current = '/' then { s with state := .beforeEndSlash }
    else if current ≠ ' ' ∧ current ≠ '\n' ∧ current ≠ '\r' ∧ current ≠ '\t' then
      { s with state := .lineCommentOrSomethingElse }
    else s
  | .lineCommentOrSomethingElse =>
    if current = '/' then { s with state := .lineCommentOrSomethingElseBeforeSlash }
    else if current = '\n' then { s with done := true }
    else s
  | .lineCommentOrSomethingElseBeforeSlash =>
    if current = '/' then { s with state := .idle } else { s with done := true }
  | .beforeEndSlash =>
    if current = '*' then { s with endPos := some pos, state := .insideComment }
    else { s with state := .idle }
  | .insideComment =>
    if current = '*' then { s with state := .beforeBeginStar } else s
  | .beforeBeginStar =>
    if current = '*' then { s with state := .beforeBeginStarStar }
    else if current = '/' then { s with state := .idle }
    else { s with state := .insideComment }
  | .beforeBeginStarStar =>
    if current = '/' then { s with startPos := some (pos - 3), done := true }
    else { s with state := .insideComment }

def utf8Len (cs : List Char) : Nat := cs.foldl (fun n c => n + c.utf8Size) 0

/-- split a character list at a byte offset; defined only when the offset is a character boundary
    inside the list -/
def splitAtBytes : List Char → Nat → Option (List Char × List Char)
  | cs, 0 => some ([], cs)
  | [], _ + 1 => none
  | c :: cs, n + 1 =>
    if c.utf8Size ≤ n + 1 then
      (splitAtBytes cs (n + 1 - c.utf8Size)).map (fun r => (c :: r.1, r.2))
    else none

/-- `&input[a..b]` on a character list: defined only when both offsets are character boundaries
    and `a ≤ b ≤ len` (otherwise Rust panics) -/
def sliceBytes (cs : List Char) (a b : Nat) : Option (List Char) :=
  if a > b then none else
  match splitAtBytes cs a with
  | none => none
  | some (_, rest) => (splitAtBytes rest (b - a)).map (·.1)

/-- `find_content_string`: `Except.error` = the slice would panic -/
def findContentWith (advance : Char → Nat) (input : List Char) : Except String (Option (List Char)) :=
  let s := input.reverse.foldl (scanStep advance) {}
  match s.startPos, s.endPos with
  | some sp, some ep =>
    let len := utf8Len input
    if sp > len ∨ ep > len then .error "javadoc: subtraction overflow"
    else match sliceBytes input (len - sp) (len - ep) with
      | some r => .ok (some r)
      | none => .error "javadoc: slice is not on character boundaries / out of range"
  | _, _ => .ok none

def findContent (input : List Char) : Except String (Option (List Char)) := findContentWith Char.utf8Size input

/-- the original (pre-fix) function: `pos += 1` per character -/
def findContentV0 (input : List Char) : Except String (Option (List Char)) := findContentWith (fun _ => 1) input

/-! ### `parse_javadoc` -/

def ws4 : List (Nat × Nat) := [(32, 32), (9, 9)]                     -- [ \t]
/-- `\r?\n[ \t*]*\r?\n` -/
def reParagraph : Re :=
  Re.seqs [Re.opt (Re.chr '\r'), Re.chr '\n', .star (.cls [(32, 32), (9, 9), (42, 42)]), Re.opt (Re.chr '\r'), Re.chr '\n']
/-- `[ \t\r\n*]*\n[ \t\r\n*]*` -/
def reLineNoise : Re :=
  let c : Re := .cls [(32, 32), (9, 9), (13, 13), (10, 10), (42, 42)]
  Re.seqs [.star c, Re.chr '\n', .star c]
/-- `([^\n])[ \t]*@` — group 1 is the first character -/
def reBeforeAt : Re := Re.seqs [.cls [(0, 9), (11, 0x10FFFF)], .star (.cls ws4), Re.chr '@']

/-- drop `n` bytes of characters -/
def dropBytes : Nat → List Char → List Char
  | 0, s => s
  | _, [] => []
  | n + 1, c :: s => dropBytes (n + 1 - c.utf8Size) s

def takeBytes : Nat → List Char → List Char
  | 0, _ => []
  | _, [] => []
  | n + 1, c :: s => c :: takeBytes (n + 1 - c.utf8Size) s

/-- `Regex::split`: the pieces between successive leftmost matches (matches here are never empty) -/
def splitRe (r : Re) : Nat → List Char → List (List Char)
  | 0, s => [s]
  | fuel + 1, s =>
    match findFrom r (utf8Len s) s 0 with
    | some (a, b) =>
      if b = a then [s] else takeBytes a s :: splitRe r fuel (dropBytes b s)
    | none => [s]

/-- `Regex::replace_all` with a replacement computed from the matched text -/
def replaceAll (r : Re) (rep : List Char → List Char) : Nat → List Char → List Char
  | 0, s => s
  | fuel + 1, s =>
    match findFrom r (utf8Len s) s 0 with
    | some (a, b) =>
      if b = a then s
      else takeBytes a s ++ rep (takeBytes (b - a) (dropBytes a s)) ++ replaceAll r rep fuel (dropBytes b s)
    | none => s

def isTrimChar (c : Char) : Bool := c = '\r' || c = '\n' || c = ' ' || c = '\t' || c = '*'

/-- `str::trim_matches` -/
def trimMatches (s : List Char) : List Char :=
  ((s.dropWhile isTrimChar).reverse.dropWhile isTrimChar).reverse

def intercalate (sep : List Char) : List (List Char) → List Char
  | [] => []
  | [a] => a
  | a :: rest => a ++ sep ++ intercalate sep rest

/-- `parse_javadoc` -/
def parseJavadoc (s : List Char) : List Char :=
  let n := s.length + 1
  let paragraphs := splitRe reParagraph n s
  let lines := paragraphs.map fun p =>
    let t := trimMatches p
    let t := replaceAll reLineNoise (fun _ => [' ']) n t
    replaceAll reBeforeAt (fun m => (m.take 1) ++ ['\n', '@']) n t
  intercalate ['\n'] lines

/-- `get_javadoc(input, pos)`: the prefix `&input[..pos]` is itself a partial operation -/
def getJavadoc (input : List Char) (pos : Nat) : Except String (Option String) :=
  match sliceBytes input 0 pos with
  | none => .error "javadoc: &input[..pos] is not on a character boundary / out of range"
  | some pre =>
    match findContent pre with
    | .error e => .error e
    | .ok none => .ok none
    | .ok (some c) => .ok (some (String.ofList (parseJavadoc c)))

end Aidl.Javadoc
