import AidlVerif.Model.Traverse
import AidlVerif.Model.Diagnostic

/-! Model of `/repo/src/symbol.rs`: `get_name`, `get_qualified_name`, `get_details`, `get_signature`
(ranges are in Traverse). -/

namespace Aidl

def ConstOwner.name : ConstOwner → String
  | .interface i => i.name
  | .parcelable p => p.name

/-- `Symbol::get_name` -/
def Symbol.name : Symbol → Option String
  | .package p => some p.name
  | .import_ i => some i.qname
  | .interface i _ => some i.name
  | .parcelable p _ => some p.name
  | .enum e _ => some e.name
  | .method m _ => some m.name
  | .arg a _ => a.name
  | .const c _ => some c.name
  | .field f _ => some f.name
  | .enumElement e _ => some e.name
  | .type t => some t.name

/-- `Symbol::get_qualified_name` -/
def Symbol.qualifiedName : Symbol → Option String
  | .package p => some p.name
  | .import_ i => some i.qname
  | .interface i pkg => some (pkg.name ++ "." ++ i.name)
  | .parcelable p pkg => some (pkg.name ++ "." ++ p.name)
  | .enum e pkg => some (pkg.name ++ "." ++ e.name)
  | .method m i => some (i.name ++ "::" ++ m.name)
  | .arg a _ => a.name
  | .const c o => some (o.name ++ "::" ++ c.name)
  | .field f p => some (p.name ++ "::" ++ f.name)
  | .enumElement el e => some (e.name ++ "::" ++ el.name)
  | .type t => match t.kind with
    | .resolved q _ => some q
    | _ => none

/-! ### `get_details`, `get_signature` -/

mutual
/-- `get_type_str` (the same local function in both): `name` or `name<p1, p2, …>` at every depth -/
def Ty.str : Ty → String
  | .mk n _ g _ _ => if g.isEmpty then n else n ++ "<" ++ joinWith ", " (Ty.strList g) ++ ">"
def Ty.strList : List Ty → List String
  | [] => []
  | t :: ts => Ty.str t :: Ty.strList ts
end

def Direction.prefixStr : Direction → String
  | .in_ _ => "in "
  | .out _ => "out "
  | .inout _ => "inout "
  | .unspecified => ""

/-- `get_arg_str` of `get_details`: direction and type -/
def Arg.detailStr (a : Arg) : String := a.direction.prefixStr ++ a.argType.str

/-- `get_arg_str` of `get_signature`: direction, type and, when present, the name -/
def Arg.sigStr (a : Arg) : String :=
  a.direction.prefixStr ++ a.argType.str ++ (match a.name with | some s => " " ++ s | none => "")

/-- `Symbol::get_details` -/
def Symbol.details : Symbol → Option String
  | .package _ => some "package"
  | .import_ _ => some "import"
  | .interface _ _ => some "interface"
  | .parcelable _ _ => some "parcelable"
  | .enum _ _ => some "enum"
  | .method m _ => some (m.returnType.str ++ "(" ++ joinWith ", " (m.args.map Arg.detailStr) ++ ")")
  | .arg a _ => some a.detailStr
  | .const c _ => some ("const " ++ c.constType.str)
  | .field f _ => some f.fieldType.str
  | .enumElement _ _ => none
  | .type t => some t.str

/-- `Symbol::get_signature` -/
def Symbol.signature : Symbol → String
  | .package p => "package " ++ p.name
  | .import_ i => "import " ++ i.qname
  | .interface i _ => "interface " ++ i.name
  | .parcelable p _ => "parcelable " ++ p.name
  | .enum e _ => "enum " ++ e.name
  | .method m _ => m.returnType.str ++ " " ++ m.name ++ "(" ++ joinWith ", " (m.args.map Arg.sigStr) ++ ")"
  | .arg a _ => a.sigStr
  | .const c _ => "const " ++ c.constType.str ++ " " ++ c.name
  | .field f _ => f.fieldType.str ++ " " ++ f.name
  | .enumElement el _ => el.name
  | .type t => t.str

/-- a short tag for the symbol's variant -/
def Symbol.tag : Symbol → String
  | .package _ => "package"
  | .import_ _ => "import"
  | .interface _ _ => "interface"
  | .parcelable _ _ => "parcelable"
  | .enum _ _ => "enum"
  | .method _ _ => "method"
  | .arg _ _ => "arg"
  | .const _ _ => "const"
  | .field _ _ => "field"
  | .enumElement _ _ => "enum_element"
  | .type _ => "type"

/-- the item symbol of a file -/
def itemSymbol (ast : AidlFile) : Symbol :=
  match ast.item with
  | .interface i => .interface i ast.package
  | .parcelable p => .parcelable p ast.package
  | .enum e => .enum e ast.package

end Aidl
