import AidlVerif.Model.Traverse

/-! Model of `/repo/src/symbol.rs`: `get_name`, `get_qualified_name` (ranges are in Traverse). -/

namespace Aidl

def ConstOwner.name : ConstOwner → String
  | .interface i => i.name
  | .parcelable p => p.name

/-- `Symbol::get_name` -/
def Symbol.name : Symbol → Option String
  | .package p => some p.name
  | .import_ i => some i.qname
  | .interface i _ => some i.name
  | .parcelable p _ => some p.name
  | .enum e _ => some e.name
  | .method m _ => some m.name
  | .arg a _ => a.name
  | .const c _ => some c.name
  | .field f _ => some f.name
  | .enumElement e _ => some e.name
  | .type t => some t.name

/-- `Symbol::get_qualified_name` -/
def Symbol.qualifiedName : Symbol → Option String
  | .package p => some p.name
  | .import_ i => some i.qname
  | .interface i pkg => some (pkg.name ++ "." ++ i.name)
  | .parcelable p pkg => some (pkg.name ++ "." ++ p.name)
  | .enum e pkg => some (pkg.name ++ "." ++ e.name)
  | .method m i => some (i.name ++ "::" ++ m.name)
  | .arg a _ => a.name
  | .const c o => some (o.name ++ "::" ++ c.name)
  | .field f p => some (p.name ++ "::" ++ f.name)
  | .enumElement el e => some (e.name ++ "::" ++ el.name)
  | .type t => match t.kind with
    | .resolved q _ => some q
    | _ => none

/-- a short tag for the symbol's variant -/
def Symbol.tag : Symbol → String
  | .package _ => "package"
  | .import_ _ => "import"
  | .interface _ _ => "interface"
  | .parcelable _ _ => "parcelable"
  | .enum _ _ => "enum"
  | .method _ _ => "method"
  | .arg _ _ => "arg"
  | .const _ _ => "const"
  | .field _ _ => "field"
  | .enumElement _ _ => "enum_element"
  | .type _ => "type"

/-- the item symbol of a file -/
def itemSymbol (ast : AidlFile) : Symbol :=
  match ast.item with
  | .interface i => .interface i ast.package
  | .parcelable p => .parcelable p ast.package
  | .enum e => .enum e ast.package

end Aidl
