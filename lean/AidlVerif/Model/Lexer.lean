import AidlVerif.Model.Regex

/-!
Model of `lalrpop_util::lexer::Matcher::next` over a table of `(regex, skip)` entries:
the longest match wins, ties go to the LATER entry, a skipped match continues with the next token,
an empty skipped match (nothing else matches) is `InvalidToken`.
-/

namespace Aidl.Lexer
open Aidl.Regex

structure Token where
  start : Nat          -- byte offsets
  index : Nat          -- index of the matching table entry
  text : String
  stop : Nat
deriving Repr, DecidableEq, Inhabited

inductive LexResult
  | token (t : Token) (rest : List Char)
  | eof
  | invalid (location : Nat)
deriving Repr

abbrev LexTable := Array (Re × Bool)

/-- the best entry at this position: (length in bytes, index), longest first, ties to the later -/
def bestMatch (table : LexTable) (fuel : Nat) (s : List Char) (p : Nat) : Option (Nat × Nat) :=
  (List.range table.size).foldl (fun best i =>
    match matchAt table[i]!.1 fuel s p with
    | none => best
    | some e =>
      let len := e - p
      match best with
      | none => some (len, i)
      | some (bl, _) => if len ≥ bl then some (len, i) else best) none

/-- drop `n` bytes worth of characters; returns the dropped characters and the rest -/
def splitBytes : Nat → List Char → List Char × List Char
  | 0, s => ([], s)
  | _, [] => ([], [])
  | n + 1, c :: s =>
    let r := splitBytes (n + 1 - c.utf8Size) s
    (c :: r.1, r.2)

/-- `Matcher::next`; `fuel` bounds the number of skipped matches (≥ remaining length suffices) -/
def next (table : LexTable) : Nat → List Char → Nat → LexResult
  | 0, _, p => .invalid p
  | fuel + 1, s, p =>
    match s with
    | [] => .eof
    | _ =>
      match bestMatch table (fuel + 1) s p with
      | none => .invalid p
      | some (len, i) =>
        let parts := splitBytes len s
        if table[i]!.2 then
          if len = 0 then .invalid p else next table fuel parts.2 (p + len)
        else .token { start := p, index := i, text := String.ofList parts.1, stop := p + len } parts.2

end Aidl.Lexer
