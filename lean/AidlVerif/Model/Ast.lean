/-
  Mirror of `/repo/src/ast.rs`, `diagnostic.rs` (data only) and `parser.rs::ParseFileResult`.

  * `Pos`/`Range`: `ast::Position`/`ast::Range` (offset + 1-based line/column).
  * `Ty` is a nested inductive (a type holds the list of its generic types), exactly like
    `ast::Type { name, kind, generic_types, symbol_range, full_range }`.
  * `Annotation.keyValues` is a `HashMap` in Rust; here it is the list of entries sorted by key
    (the canonical form the harness prints).
-/

namespace Aidl

structure Pos where
  off : Nat
  line : Nat
  col : Nat
deriving DecidableEq, Repr, Inhabited

structure Range where
  start : Pos
  stop : Pos
deriving DecidableEq, Repr, Inhabited

/-- `ast::ResolvedItemKind` -/
inductive RKind
  | interface | parcelable | enum | fwd | unknownImport
deriving DecidableEq, Repr, Inhabited

/-- `ast::AndroidTypeKind` -/
inductive AKind
  | iBinder | fileDescriptor | parcelFileDescriptor | parcelableHolder
deriving DecidableEq, Repr, Inhabited

/-- `ast::TypeKind` -/
inductive TypeKind
  | primitive | void | array | map | list | string | charSequence
  | android (a : AKind)
  | resolved (key : String) (k : RKind)
  | unresolved
deriving DecidableEq, Repr, Inhabited

/-- `ast::Type` -/
inductive Ty where
  | mk (name : String) (kind : TypeKind) (gens : List Ty) (sym full : Range)
deriving Repr, Inhabited

namespace Ty
def name : Ty → String | .mk n _ _ _ _ => n
def kind : Ty → TypeKind | .mk _ k _ _ _ => k
def gens : Ty → List Ty | .mk _ _ g _ _ => g
def sym : Ty → Range | .mk _ _ _ s _ => s
def full : Ty → Range | .mk _ _ _ _ f => f

mutual
def decEq : (a b : Ty) → Decidable (a = b)
  | .mk n1 k1 g1 s1 f1, .mk n2 k2 g2 s2 f2 =>
    if h1 : n1 = n2 then
      if h2 : k1 = k2 then
        if h4 : s1 = s2 then
          if h5 : f1 = f2 then
            match decEqList g1 g2 with
            | isTrue h3 => isTrue (by subst h1 h2 h3 h4 h5; rfl)
            | isFalse h3 => isFalse (by intro h; injection h with _ _ h' ; exact h3 h')
          else isFalse (by intro h; injection h with _ _ _ _ h'; exact h5 h')
        else isFalse (by intro h; injection h with _ _ _ h' _; exact h4 h')
      else isFalse (by intro h; injection h with _ h' _ _ _; exact h2 h')
    else isFalse (by intro h; injection h with h' _ _ _ _; exact h1 h')
def decEqList : (a b : List Ty) → Decidable (a = b)
  | [], [] => isTrue rfl
  | [], _ :: _ => isFalse (by intro h; cases h)
  | _ :: _, [] => isFalse (by intro h; cases h)
  | a :: as, b :: bs =>
    match decEq a b with
    | isTrue h1 =>
      match decEqList as bs with
      | isTrue h2 => isTrue (by subst h1 h2; rfl)
      | isFalse h2 => isFalse (by intro h; injection h with _ h'; exact h2 h')
    | isFalse h1 => isFalse (by intro h; injection h with h' _; exact h1 h')
end
instance : DecidableEq Ty := decEq
end Ty

structure Annotation where
  name : String
  keyValues : List (String × Option String)
deriving DecidableEq, Repr, Inhabited

/-- `ast::Direction` -/
inductive Direction
  | in_ (r : Range) | out (r : Range) | inout (r : Range) | unspecified
deriving DecidableEq, Repr, Inhabited

structure Arg where
  direction : Direction
  name : Option String
  argType : Ty
  annotations : List Annotation
  doc : Option String
  sym : Range
  full : Range
deriving DecidableEq, Repr, Inhabited

structure Method where
  oneway : Bool
  name : String
  returnType : Ty
  args : List Arg
  annotations : List Annotation
  transactCode : Option Nat
  doc : Option String
  sym : Range
  full : Range
  transactCodeRange : Range
  onewayRange : Range
deriving DecidableEq, Repr, Inhabited

structure Const where
  name : String
  constType : Ty
  value : String
  annotations : List Annotation
  doc : Option String
  sym : Range
  full : Range
deriving DecidableEq, Repr, Inhabited

structure Field where
  name : String
  fieldType : Ty
  value : Option String
  annotations : List Annotation
  doc : Option String
  sym : Range
  full : Range
deriving DecidableEq, Repr, Inhabited

structure EnumElement where
  name : String
  value : Option String
  doc : Option String
  sym : Range
  full : Range
deriving DecidableEq, Repr, Inhabited

inductive InterfaceElement
  | const (c : Const) | method (m : Method)
deriving DecidableEq, Repr, Inhabited

inductive ParcelableElement
  | const (c : Const) | field (f : Field)
deriving DecidableEq, Repr, Inhabited

structure Interface where
  oneway : Bool
  name : String
  elements : List InterfaceElement
  annotations : List Annotation
  doc : Option String
  full : Range
  sym : Range
deriving DecidableEq, Repr, Inhabited

structure Parcelable where
  name : String
  elements : List ParcelableElement
  annotations : List Annotation
  doc : Option String
  full : Range
  sym : Range
deriving DecidableEq, Repr, Inhabited

structure Enum where
  name : String
  elements : List EnumElement
  annotations : List Annotation
  doc : Option String
  full : Range
  sym : Range
deriving DecidableEq, Repr, Inhabited

inductive Item
  | interface (i : Interface) | parcelable (p : Parcelable) | enum (e : Enum)
deriving DecidableEq, Repr, Inhabited

structure Package where
  name : String
  sym : Range
  full : Range
deriving DecidableEq, Repr, Inhabited

structure Import where
  path : String
  name : String
  sym : Range
  full : Range
deriving DecidableEq, Repr, Inhabited

structure AidlFile where
  package : Package
  imports : List Import
  declaredParcelables : List Import
  item : Item
deriving DecidableEq, Repr, Inhabited

inductive DiagKind | error | warning
deriving DecidableEq, Repr, Inhabited

structure RelatedInfo where
  range : Range
  message : String
deriving DecidableEq, Repr, Inhabited

structure Diag where
  kind : DiagKind
  range : Range
  message : String
  context : Option String
  hint : Option String
  related : List RelatedInfo
deriving DecidableEq, Repr, Inhabited

/-- `ParseFileResult<ID>` with `ID = String` -/
structure FileResult where
  id : String
  ast : Option AidlFile
  diags : List Diag
deriving DecidableEq, Repr, Inhabited

/-! ### small accessors of `ast.rs` -/

def Item.kind : Item → RKind
  | .interface _ => .interface
  | .parcelable _ => .parcelable
  | .enum _ => .enum

def Item.name : Item → String
  | .interface i => i.name
  | .parcelable p => p.name
  | .enum e => e.name

def Item.sym : Item → Range
  | .interface i => i.sym
  | .parcelable p => p.sym
  | .enum e => e.sym

def Item.full : Item → Range
  | .interface i => i.full
  | .parcelable p => p.full
  | .enum e => e.full

/-- `Aidl::get_key`: `format!("{}.{}", package.name, item.get_name())` -/
def AidlFile.key (a : AidlFile) : String := a.package.name ++ "." ++ a.item.name

/-- `Import::get_qualified_name` -/
def Import.qname (i : Import) : String :=
  if i.path.isEmpty then i.name else i.path ++ "." ++ i.name

def AKind.all : List AKind := [.iBinder, .fileDescriptor, .parcelFileDescriptor, .parcelableHolder]

def AKind.name : AKind → String
  | .iBinder => "IBinder"
  | .fileDescriptor => "FileDescriptor"
  | .parcelFileDescriptor => "ParcelFileDescriptor"
  | .parcelableHolder => "ParcelableHolder"

def AKind.canBeQualified : AKind → Bool
  | .parcelFileDescriptor => true
  | _ => false

def AKind.qname : AKind → String
  | .iBinder => "android.os.IBinder"
  | .fileDescriptor => "java.os.FileDescriptor"
  | .parcelFileDescriptor => "android.os.ParcelFileDescriptor"
  | .parcelableHolder => "android.os.ParcelableHolder"

def AKind.fromName (n : String) : Option AKind := AKind.all.find? (fun a => a.name == n)
def AKind.fromQualifiedName (n : String) : Option AKind := AKind.all.find? (fun a => a.qname == n)

def InterfaceElement.name : InterfaceElement → String
  | .const c => c.name
  | .method m => m.name
def InterfaceElement.sym : InterfaceElement → Range
  | .const c => c.sym
  | .method m => m.sym
def ParcelableElement.name : ParcelableElement → String
  | .const c => c.name
  | .field f => f.name
def ParcelableElement.sym : ParcelableElement → Range
  | .const c => c.sym
  | .field f => f.sym

end Aidl
