import AidlVerif.Model.Ast

/-
  Model of `/repo/src/traverse.rs` and of the `Symbol` enum of `symbol.rs`.

  The Rust walkers take `FnMut` closures. A closure is modelled as a state-passing function
  `σ → x → σ × …`; `ControlFlow::Break v` is `some v`, `Continue(())` is `none`.
  Every walker below follows the control structure of the Rust function of the same name
  (`try_for_each` = `tryForEach`, `?` = the `andThen` of `CF`).
-/

namespace Aidl

inductive ConstOwner
  | interface (i : Interface) | parcelable (p : Parcelable)
deriving DecidableEq, Repr

/-- `symbol::Symbol` (references become values) -/
inductive Symbol
  | package (p : Package)
  | import_ (i : Import)
  | interface (i : Interface) (pkg : Package)
  | parcelable (p : Parcelable) (pkg : Package)
  | enum (e : Enum) (pkg : Package)
  | method (m : Method) (i : Interface)
  | arg (a : Arg) (m : Method)
  | const (c : Const) (o : ConstOwner)
  | field (f : Field) (p : Parcelable)
  | enumElement (el : EnumElement) (e : Enum)
  | type (t : Ty)
deriving DecidableEq, Repr

/-- `traverse::SymbolFilter` -/
inductive SymbolFilter | itemsOnly | itemsAndItemElements | all
deriving DecidableEq, Repr

/-- A step of a short-circuiting traversal with closure state `σ` and break value `V`. -/
abbrev CF (σ V : Type) := σ → σ × Option V

/-- `a?; b` -/
@[inline] def CF.andThen {σ V} (a b : CF σ V) : CF σ V := fun s =>
  match a s with
  | (s', some v) => (s', some v)
  | (s', none) => b s'

def CF.continue_ {σ V} : CF σ V := fun s => (s, none)

/-- `iter().try_for_each(g)` -/
def tryForEach {α σ V} (g : α → CF σ V) : List α → CF σ V
  | [] => CF.continue_
  | x :: xs => (g x).andThen (tryForEach g xs)

section walker
variable {σ V : Type} (f : Symbol → CF σ V)

mutual
/-- the local `fn visit_type` of `walk_symbols_with_control_flow` -/
def visitType : Ty → CF σ V
  | .mk n k gens sy fu =>
    if k = .array then
      -- For arrays, start with the array element type, then on the array itself
      (visitTypes gens).andThen (f (.type (.mk n k gens sy fu)))
    else
      -- For other types, start with the main type and then its generic types
      (f (.type (.mk n k gens sy fu))).andThen (visitTypes gens)
def visitTypes : List Ty → CF σ V
  | [] => CF.continue_
  | t :: ts => (visitType t).andThen (visitTypes ts)
end

def visitArg (filter : SymbolFilter) (m : Method) (a : Arg) : CF σ V :=
  let _ := filter
  (f (.arg a m)).andThen (visitType f a.argType)

def visitMethod (filter : SymbolFilter) (i : Interface) (m : Method) : CF σ V :=
  (f (.method m i)).andThen
    (if filter = .all then
      (visitType f m.returnType).andThen (tryForEach (visitArg f filter m) m.args)
    else CF.continue_)

def visitConst (filter : SymbolFilter) (o : ConstOwner) (c : Const) : CF σ V :=
  (f (.const c o)).andThen
    (if filter = .all then visitType f c.constType else CF.continue_)

def visitField (filter : SymbolFilter) (p : Parcelable) (fi : Field) : CF σ V :=
  (f (.field fi p)).andThen
    (if filter = .all then visitType f fi.fieldType else CF.continue_)

def visitInterfaceElement (filter : SymbolFilter) (i : Interface) : InterfaceElement → CF σ V
  | .method m => visitMethod f filter i m
  | .const c => visitConst f filter (.interface i) c

def visitParcelableElement (filter : SymbolFilter) (p : Parcelable) : ParcelableElement → CF σ V
  | .field fi => visitField f filter p fi
  | .const c => visitConst f filter (.parcelable p) c

def visitItem (filter : SymbolFilter) (ast : AidlFile) : CF σ V :=
  match ast.item with
  | .interface i =>
    (f (.interface i ast.package)).andThen
      (if filter = .itemsOnly then CF.continue_
       else tryForEach (visitInterfaceElement f filter i) i.elements)
  | .parcelable p =>
    (f (.parcelable p ast.package)).andThen
      (if filter = .itemsOnly then CF.continue_
       else tryForEach (visitParcelableElement f filter p) p.elements)
  | .enum e =>
    (f (.enum e ast.package)).andThen
      (if filter = .itemsOnly then CF.continue_
       else tryForEach (fun el => f (.enumElement el e)) e.elements)

/-- `walk_symbols_with_control_flow` -/
def walkSymbolsCF (ast : AidlFile) (filter : SymbolFilter) : CF σ V :=
  (if filter = .all then
    (f (.package ast.package)).andThen (tryForEach (fun i => f (.import_ i)) ast.imports)
   else CF.continue_).andThen (visitItem f filter ast)

end walker

/-- `walk_symbols`: the closure never breaks. -/
def walkSymbols {σ} (ast : AidlFile) (filter : SymbolFilter) (f : σ → Symbol → σ) (s : σ) : σ :=
  (walkSymbolsCF (V := Unit) (fun smb s => (f s smb, none)) ast filter s).1

/-- `filter_symbols` with a stateful predicate -/
def filterSymbols {σ} (ast : AidlFile) (filter : SymbolFilter) (p : σ → Symbol → σ × Bool) (s : σ) :
    σ × List Symbol :=
  let r := walkSymbols ast filter
    (fun (st : σ × List Symbol) smb =>
      let (s', b) := p st.1 smb
      (s', if b then st.2 ++ [smb] else st.2)) (s, [])
  r

/-- `find_symbol` with a stateful predicate -/
def findSymbol {σ} (ast : AidlFile) (filter : SymbolFilter) (p : σ → Symbol → σ × Bool) (s : σ) :
    σ × Option Symbol :=
  walkSymbolsCF (fun smb st => let (s', b) := p st smb; (s', if b then some smb else none)) ast filter s

/-- `Symbol::get_range` -/
def Symbol.range : Symbol → Range
  | .package p => p.sym
  | .import_ i => i.sym
  | .interface i _ => i.sym
  | .parcelable p _ => p.sym
  | .enum e _ => e.sym
  | .method m _ => m.sym
  | .arg a _ => a.sym
  | .const c _ => c.sym
  | .field f _ => f.sym
  | .enumElement e _ => e.sym
  | .type t => t.sym

/-- `Symbol::get_full_range` -/
def Symbol.fullRange : Symbol → Range
  | .package p => p.full
  | .import_ i => i.full
  | .interface i _ => i.full
  | .parcelable p _ => p.full
  | .enum e _ => e.full
  | .method m _ => m.full
  | .arg a _ => a.full
  | .const c _ => c.full
  | .field f _ => f.full
  | .enumElement e _ => e.full
  | .type t => t.full

/-- `range_contains` (the four early returns, in order) -/
def rangeContains (r : Range) (lc : Nat × Nat) : Bool :=
  if r.start.line > lc.1 then false
  else if r.start.line = lc.1 ∧ r.start.col > lc.2 then false
  else if r.stop.line < lc.1 then false
  else if r.stop.line = lc.1 ∧ r.stop.col < lc.2 then false
  else true

/-- `find_symbol_at_line_col` -/
def findSymbolAtLineCol (ast : AidlFile) (filter : SymbolFilter) (lc : Nat × Nat) : Option Symbol :=
  (findSymbol ast filter (fun (_ : Unit) smb => ((), rangeContains smb.range lc)) ()).2

/-! ### `walk_types`, `walk_types_mut`, `walk_methods`, `walk_args` -/

mutual
/-- the local `fn visit` of `walk_types`: array ⇒ elements first, otherwise the type first -/
def Ty.walk {σ} (f : σ → Ty → σ) (s : σ) : Ty → σ
  | .mk n k gens sy fu =>
    if k = .array then f (Ty.walkList f s gens) (.mk n k gens sy fu)
    else Ty.walkList f (f s (.mk n k gens sy fu)) gens
def Ty.walkList {σ} (f : σ → Ty → σ) (s : σ) : List Ty → σ
  | [] => s
  | t :: ts => Ty.walkList f (Ty.walk f s t) ts
end

def InterfaceElement.walkTypes {σ} (f : σ → Ty → σ) (s : σ) : InterfaceElement → σ
  | .method m => m.args.foldl (fun s a => Ty.walk f s a.argType) (Ty.walk f s m.returnType)
  | .const c => Ty.walk f s c.constType

def ParcelableElement.walkTypes {σ} (f : σ → Ty → σ) (s : σ) : ParcelableElement → σ
  | .field fi => Ty.walk f s fi.fieldType
  | .const c => Ty.walk f s c.constType

/-- `walk_types` -/
def walkTypes {σ} (ast : AidlFile) (f : σ → Ty → σ) (s : σ) : σ :=
  match ast.item with
  | .interface i => i.elements.foldl (fun s el => el.walkTypes f s) s
  | .parcelable p => p.elements.foldl (fun s el => el.walkTypes f s) s
  | .enum _ => s

/-
  `walk_types_mut`: the closure gets `&mut Type`, runs on the node first and the walker then
  descends into the node's generic types. Its only caller (`resolve_types`) rewrites `kind`
  only, so the closure is modelled as returning the new kind.
-/
mutual
def Ty.walkMut {σ} (f : σ → Ty → σ × TypeKind) (s : σ) : Ty → σ × Ty
  | .mk n k gens sy fu =>
    let r := f s (.mk n k gens sy fu)
    let g := Ty.walkMutList f r.1 gens
    (g.1, .mk n r.2 g.2 sy fu)
def Ty.walkMutList {σ} (f : σ → Ty → σ × TypeKind) (s : σ) : List Ty → σ × List Ty
  | [] => (s, [])
  | t :: ts =>
    let r := Ty.walkMut f s t
    let rs := Ty.walkMutList f r.1 ts
    (rs.1, r.2 :: rs.2)
end

def mapAccum {α β σ} (g : σ → α → σ × β) (s : σ) : List α → σ × List β
  | [] => (s, [])
  | x :: xs =>
    let r := g s x
    let rs := mapAccum g r.1 xs
    (rs.1, r.2 :: rs.2)

def Arg.walkTypesMut {σ} (f : σ → Ty → σ × TypeKind) (s : σ) (a : Arg) : σ × Arg :=
  let r := Ty.walkMut f s a.argType
  (r.1, { a with argType := r.2 })

def InterfaceElement.walkTypesMut {σ} (f : σ → Ty → σ × TypeKind) (s : σ) :
    InterfaceElement → σ × InterfaceElement
  | .method m =>
    let r := Ty.walkMut f s m.returnType
    let as := mapAccum (Arg.walkTypesMut f) r.1 m.args
    (as.1, .method { m with returnType := r.2, args := as.2 })
  | .const c =>
    let r := Ty.walkMut f s c.constType
    (r.1, .const { c with constType := r.2 })

def ParcelableElement.walkTypesMut {σ} (f : σ → Ty → σ × TypeKind) (s : σ) :
    ParcelableElement → σ × ParcelableElement
  | .field fi =>
    let r := Ty.walkMut f s fi.fieldType
    (r.1, .field { fi with fieldType := r.2 })
  | .const c =>
    let r := Ty.walkMut f s c.constType
    (r.1, .const { c with constType := r.2 })

/-- `walk_types_mut` -/
def walkTypesMut {σ} (ast : AidlFile) (f : σ → Ty → σ × TypeKind) (s : σ) : σ × AidlFile :=
  match ast.item with
  | .interface i =>
    let r := mapAccum (InterfaceElement.walkTypesMut f) s i.elements
    (r.1, { ast with item := .interface { i with elements := r.2 } })
  | .parcelable p =>
    let r := mapAccum (ParcelableElement.walkTypesMut f) s p.elements
    (r.1, { ast with item := .parcelable { p with elements := r.2 } })
  | .enum _ => (s, ast)

/-- the methods of an interface, in order (`filter_map` on `InterfaceElement::Method`) -/
def Interface.methods (i : Interface) : List Method :=
  i.elements.filterMap (fun | .method m => some m | .const _ => none)

/-- `walk_methods` -/
def walkMethods {σ} (ast : AidlFile) (f : σ → Method → σ) (s : σ) : σ :=
  match ast.item with
  | .interface i => i.elements.foldl (fun s el => match el with | .method m => f s m | .const _ => s) s
  | .parcelable _ => s
  | .enum _ => s

/-- `walk_args` -/
def walkArgs {σ} (ast : AidlFile) (f : σ → Method → Arg → σ) (s : σ) : σ :=
  match ast.item with
  | .interface i =>
    i.elements.foldl (fun s el => match el with
      | .method m => m.args.foldl (fun s a => f s m a) s
      | .const _ => s) s
  | .parcelable _ => s
  | .enum _ => s

end Aidl
