/-!
Model of the layer of serde the library owns: which fields a derived `Serialize` omits
(`skip_serializing_if`) and what a derived `Deserialize` puts in for a missing field (`default`).
The self-describing text format (RON) and the derive macros themselves are trusted; the reading
of each attribute is serde's documented semantics.

* `V` — a value as serde's data model sees it (structs positional; field names come from the schema);
* `S` — the serialised form: a struct holds only the named fields that were emitted;
* `ser` omits a field when its predicate holds, `de` fills a missing field from its default.
-/

namespace Aidl.Serde

inductive Pred
  | vecIsEmpty | optionIsNone | hashMapIsEmpty | directionIsUnspecified | boolIsTrue
deriving DecidableEq, Repr

inductive DefaultV
  | emptySeq | noneOpt | emptyMap | bool (b : Bool) | unitVariant (name : String)
deriving DecidableEq, Repr

structure FieldSpec where
  name : String
  skipIf : Option Pred
  default : Option DefaultV
deriving DecidableEq, Repr

/-- struct name ↦ its fields in declaration order -/
abbrev Schema := List (String × List FieldSpec)

inductive V
  | bool (b : Bool)
  | nat (n : Nat)
  | str (s : String)
  | none_
  | some_ (v : V)
  | seq (l : List V)              -- Vec, HashMap (as a sequence of pairs), tuples
  | struct (name : String) (vals : List V)
  | variant (name : String) (payload : List V)
deriving Repr, Inhabited

inductive S
  | bool (b : Bool)
  | nat (n : Nat)
  | str (s : String)
  | none_
  | some_ (v : S)
  | seq (l : List S)
  | struct (name : String) (fields : List (String × S))
  | variant (name : String) (payload : List S)
deriving Repr, Inhabited

mutual
def V.decEq : (a b : V) → Decidable (a = b)
  | .bool a, .bool b => if h : a = b then isTrue (by rw [h]) else isFalse (by intro e; injection e; contradiction)
  | .nat a, .nat b => if h : a = b then isTrue (by rw [h]) else isFalse (by intro e; injection e; contradiction)
  | .str a, .str b => if h : a = b then isTrue (by rw [h]) else isFalse (by intro e; injection e; contradiction)
  | .none_, .none_ => isTrue rfl
  | .some_ a, .some_ b => match V.decEq a b with
    | isTrue h => isTrue (by rw [h])
    | isFalse h => isFalse (by intro e; injection e; contradiction)
  | .seq a, .seq b => match V.decEqList a b with
    | isTrue h => isTrue (by rw [h])
    | isFalse h => isFalse (by intro e; injection e; contradiction)
  | .struct n a, .struct m b =>
    if hn : n = m then
      match V.decEqList a b with
      | isTrue h => isTrue (by rw [hn, h])
      | isFalse h => isFalse (by intro e; injection e; contradiction)
    else isFalse (by intro e; injection e; contradiction)
  | .variant n a, .variant m b =>
    if hn : n = m then
      match V.decEqList a b with
      | isTrue h => isTrue (by rw [hn, h])
      | isFalse h => isFalse (by intro e; injection e; contradiction)
    else isFalse (by intro e; injection e; contradiction)
  | .bool _, .nat _ | .bool _, .str _ | .bool _, .none_ | .bool _, .some_ _ | .bool _, .seq _ | .bool _, .struct _ _ | .bool _, .variant _ _
  | .nat _, .bool _ | .nat _, .str _ | .nat _, .none_ | .nat _, .some_ _ | .nat _, .seq _ | .nat _, .struct _ _ | .nat _, .variant _ _
  | .str _, .bool _ | .str _, .nat _ | .str _, .none_ | .str _, .some_ _ | .str _, .seq _ | .str _, .struct _ _ | .str _, .variant _ _
  | .none_, .bool _ | .none_, .nat _ | .none_, .str _ | .none_, .some_ _ | .none_, .seq _ | .none_, .struct _ _ | .none_, .variant _ _
  | .some_ _, .bool _ | .some_ _, .nat _ | .some_ _, .str _ | .some_ _, .none_ | .some_ _, .seq _ | .some_ _, .struct _ _ | .some_ _, .variant _ _
  | .seq _, .bool _ | .seq _, .nat _ | .seq _, .str _ | .seq _, .none_ | .seq _, .some_ _ | .seq _, .struct _ _ | .seq _, .variant _ _
  | .struct _ _, .bool _ | .struct _ _, .nat _ | .struct _ _, .str _ | .struct _ _, .none_ | .struct _ _, .some_ _ | .struct _ _, .seq _ | .struct _ _, .variant _ _
  | .variant _ _, .bool _ | .variant _ _, .nat _ | .variant _ _, .str _ | .variant _ _, .none_ | .variant _ _, .some_ _ | .variant _ _, .seq _ | .variant _ _, .struct _ _ =>
    isFalse (by intro e; cases e)
def V.decEqList : (a b : List V) → Decidable (a = b)
  | [], [] => isTrue rfl
  | [], _ :: _ => isFalse (by intro h; cases h)
  | _ :: _, [] => isFalse (by intro h; cases h)
  | a :: as, b :: bs =>
    match V.decEq a b with
    | isTrue h1 =>
      match V.decEqList as bs with
      | isTrue h2 => isTrue (by rw [h1, h2])
      | isFalse h2 => isFalse (by intro h; injection h; contradiction)
    | isFalse h1 => isFalse (by intro h; injection h; contradiction)
end
instance : DecidableEq V := V.decEq

/-- the one value on which a skip predicate answers true -/
def Pred.canon : Pred → V
  | .vecIsEmpty => .seq []
  | .optionIsNone => .none_
  | .hashMapIsEmpty => .seq []
  | .directionIsUnspecified => .variant "Unspecified" []
  | .boolIsTrue => .bool true

/-- `Vec::is_empty`, `Option::is_none`, `HashMap::is_empty`, `Direction::is_unspecified`,
    `BoolExt::is_true` on the values of the fields they are attached to -/
def Pred.holds (p : Pred) (v : V) : Bool := decide (v = p.canon)

def DefaultV.toV : DefaultV → V
  | .emptySeq => .seq []
  | .noneOpt => .none_
  | .emptyMap => .seq []
  | .bool b => .bool b
  | .unitVariant n => .variant n []

def FieldSpec.skips (fs : FieldSpec) (v : V) : Bool :=
  match fs.skipIf with
  | some p => p.holds v
  | none => false

def Schema.fieldsOf (sc : Schema) (name : String) : List FieldSpec := (sc.lookup name).getD []

mutual
def ser (sc : Schema) : V → S
  | .bool b => .bool b
  | .nat n => .nat n
  | .str s => .str s
  | .none_ => .none_
  | .some_ v => .some_ (ser sc v)
  | .seq l => .seq (serList sc l)
  | .struct name vals => .struct name (serFields sc (sc.fieldsOf name) vals)
  | .variant name payload => .variant name (serList sc payload)
def serList (sc : Schema) : List V → List S
  | [] => []
  | v :: vs => ser sc v :: serList sc vs
/-- fields of a struct: skipped when the predicate holds -/
def serFields (sc : Schema) : List FieldSpec → List V → List (String × S)
  | fs :: fss, v :: vs =>
    if fs.skips v then serFields sc fss vs else (fs.name, ser sc v) :: serFields sc fss vs
  | _, _ => []
end

mutual
def de (sc : Schema) : S → Option V
  | .bool b => some (.bool b)
  | .nat n => some (.nat n)
  | .str s => some (.str s)
  | .none_ => some .none_
  | .some_ v => (de sc v).map .some_
  | .seq l => (deList sc l).map .seq
  | .struct name fields => (deFields sc (sc.fieldsOf name) fields).map (.struct name)
  | .variant name payload => (deList sc payload).map (.variant name)
def deList (sc : Schema) : List S → Option (List V)
  | [] => some []
  | v :: vs => match de sc v, deList sc vs with
    | some x, some xs => some (x :: xs)
    | _, _ => none
/-- every field of the schema: taken from the input when present, else from its default, else an
    error (`missing field`) -/
def deFields (sc : Schema) : List FieldSpec → List (String × S) → Option (List V)
  | [], _ => some []
  | fs :: fss, fields =>
    let here : Option V := match deLookup sc fs.name fields with
      | some r => r
      | none => fs.default.map DefaultV.toV
    match here, deFields sc fss fields with
    | some x, some xs => some (x :: xs)
    | _, _ => none
/-- the field named `n` of the input, deserialised -/
def deLookup (sc : Schema) (n : String) : List (String × S) → Option (Option V)
  | [] => none
  | (k, s) :: rest => if k = n then some (de sc s) else deLookup sc n rest
end

/-- **the attribute discipline that makes the round trip work**: a field that may be skipped has a
    default, and the default is the value on which its predicate answers true -/
def FieldSpec.consistent (fs : FieldSpec) : Bool :=
  match fs.skipIf with
  | none => true
  | some p => match fs.default with
    | none => false
    | some d => decide (d.toV = p.canon)

def Schema.consistent (sc : Schema) : Bool :=
  sc.all fun e => e.2.all FieldSpec.consistent && decide ((e.2.map (·.name)).Nodup)

mutual
/-- a value matches the schema: every struct has one value per field of its schema entry -/
def V.wf (sc : Schema) : V → Bool
  | .some_ v => V.wf sc v
  | .seq l => V.wfList sc l
  | .struct name vals => vals.length == (sc.fieldsOf name).length && V.wfList sc vals
  | .variant _ payload => V.wfList sc payload
  | _ => true
def V.wfList (sc : Schema) : List V → Bool
  | [] => true
  | v :: vs => V.wf sc v && V.wfList sc vs
end

end Aidl.Serde
