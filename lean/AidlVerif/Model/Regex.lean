/-!
Regular expressions with Rust `regex`'s leftmost-first (preference-ordered, greedy) semantics,
anchored at the current position — what `regex.find(text)` computes for the `^( … )` patterns of
lalrpop's lexer table and, with `findFrom`, for unanchored patterns.

The matcher is written in continuation-passing style, structurally recursive on the expression;
`star` iterates at most `fuel` times and only while it makes progress (`fuel` ≥ remaining input
suffices for completeness). Positions are byte offsets (a character advances by its UTF-8 size).
-/

namespace Aidl.Regex

inductive Re where
  | eps
  | cls (ranges : List (Nat × Nat))      -- a character whose code point lies in one of the ranges
  | seq (a b : Re)
  | alt (a b : Re)                        -- prefers `a`
  | star (a : Re)                         -- greedy
deriving Repr, Inhabited, DecidableEq

def inCls (rs : List (Nat × Nat)) (c : Char) : Bool := rs.any (fun r => r.1 ≤ c.toNat && c.toNat ≤ r.2)

def Re.opt (r : Re) : Re := .alt r .eps
def Re.plus (r : Re) : Re := .seq r (.star r)
def Re.chr (c : Char) : Re := .cls [(c.toNat, c.toNat)]
def Re.lit (s : String) : Re := s.toList.foldr (fun c acc => .seq (.chr c) acc) .eps
def Re.alts : List Re → Re
  | [] => .cls []
  | [r] => r
  | r :: rs => .alt r (Re.alts rs)
def Re.seqs : List Re → Re
  | [] => .eps
  | [r] => r
  | r :: rs => .seq r (Re.seqs rs)

/-- continuation: remaining input and its byte position ↦ end position of the overall match -/
abbrev K := List Char → Nat → Option Nat

def starLoop (body : List Char → Nat → K → Option Nat) (k : K) : Nat → List Char → Nat → Option Nat
  | 0, s, p => k s p
  | n + 1, s, p =>
    match body s p (fun s' p' => if p < p' then starLoop body k n s' p' else none) with
    | some r => some r
    | none => k s p

def m : Re → Nat → List Char → Nat → K → Option Nat
  | .eps, _, s, p, k => k s p
  | .cls rs, _, s, p, k =>
    match s with
    | [] => none
    | c :: s' => if inCls rs c then k s' (p + c.utf8Size) else none
  | .seq a b, fuel, s, p, k => m a fuel s p (fun s' p' => m b fuel s' p' k)
  | .alt a b, fuel, s, p, k =>
    match m a fuel s p k with
    | some r => some r
    | none => m b fuel s p k
  | .star a, fuel, s, p, k => starLoop (m a fuel) k fuel s p

/-- end position of the leftmost-first match of `r` at the start of `s` (which is at byte `p`) -/
def matchAt (r : Re) (fuel : Nat) (s : List Char) (p : Nat) : Option Nat := m r fuel s p (fun _ p' => some p')

/-- leftmost match of `r` anywhere in `s`: (start, end) byte positions -/
def findFrom (r : Re) (fuel : Nat) : List Char → Nat → Option (Nat × Nat)
  | [], p => (matchAt r fuel [] p).map (fun e => (p, e))
  | c :: s, p =>
    match matchAt r fuel (c :: s) p with
    | some e => some (p, e)
    | none => findFrom r fuel s (p + c.utf8Size)

end Aidl.Regex
