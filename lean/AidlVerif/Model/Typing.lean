import AidlVerif.Model.Actions

/-!
Types of semantic values: what the Rust types of the generated parser say about the model's
untyped `Val`. `optNS` is an `Option<ast::…>` written in `aidl.lalrpop` (`OptItem`, `OptInterfaceElement`,
…): its `None` only comes from an error-recovery alternative, which reports an Error.
-/

namespace Aidl.Typing
open Aidl.Actions

inductive VTy
  | tok | loc | str | recovery
  | dtok      -- a `&str` that is the text of a DIRECTION token (`in`, `out`, `inout`): a refinement of `tok`
  | opt (t : VTy) | optNS (t : VTy) | list (t : VTy) | pair (a b : VTy)
  | package | import_ | ty | dir | ann | arg | method | const | field | enumEl | iel | pel
  | iface | parc | enm | item | aidl
deriving DecidableEq, Repr, Inhabited

/-- type of an action parameter: a symbol triple `(usize, T, usize)` or a bare `&usize` -/
inductive ATy
  | triple (t : VTy)
  | locRef
deriving DecidableEq, Repr, Inhabited

structure Sig where
  params : List ATy
  ret : VTy
deriving DecidableEq, Repr, Inhabited

end Aidl.Typing
