import AidlVerif.Model.Validation

/-!
Model of `/repo/src/parser.rs`: `Parser<ID>` as a state machine.

* The syntax stage is a parameter `parse : String → Option AidlFile × List Diag` (what
  `add_content` computes from the content alone); validation-level theorems hold for any such
  function. (Tier 2 instantiates it with the model of the generated parser.)
* The `HashMap<ID, ParseFileResult>` is an association list with unique keys; its iteration
  order is the `HashOrder` parameter of `validate`.
* The file system is the parameter `read : String → Except String String` of `addFile`
  (`Err` = open/read/UTF-8 failure).
-/

namespace Aidl

abbrev ParseFn := String → Option AidlFile × List Diag

/-- the parser's state: id ↦ syntax-stage result -/
abbrev Store := List (String × FileResult)

inductive Op
  | add (id content : String)           -- add_content (adds or replaces)
  | remove (id : String)                -- remove_content
  | validate                            -- validate (reads only)
  | addFile (path : String)             -- Parser<PathBuf>::add_file
deriving Repr

inductive Out
  | unit
  | results (r : Except String (List FileResult))   -- `Except.error` = panic
  | io (r : Except String Unit)

/-- `HashMap::insert` on an association list with unique keys: replace in place or append -/
def ainsert {β} (l : List (String × β)) (id : String) (v : β) : List (String × β) :=
  match l with
  | [] => [(id, v)]
  | (k, w) :: rest => if k = id then (k, v) :: rest else (k, w) :: ainsert rest id v

/-- `HashMap::remove` -/
def aerase {β} (l : List (String × β)) (id : String) : List (String × β) := l.filter (fun e => e.1 != id)

def Store.insert (s : Store) (id : String) (fr : FileResult) : Store := ainsert s id fr

def Store.erase (s : Store) (id : String) : Store := aerase s id

def Store.values (s : Store) : List FileResult := s.map (·.2)

/-- `add_content` -/
def addContent (parse : ParseFn) (s : Store) (id content : String) : Store :=
  let r := parse content
  s.insert id { id := id, ast := r.1, diags := r.2 }

/-- one operation of the public API -/
def step (parse : ParseFn) (read : String → Except String String) (ho : HashOrder) (s : Store) :
    Op → Store × Out
  | .add id content => (addContent parse s id content, .unit)
  | .remove id => (s.erase id, .unit)
  | .validate => (s, .results (validate ho s.values))
  | .addFile path =>
    match read path with
    | .ok text => (addContent parse s path text, .io (.ok ()))
    | .error e => (s, .io (.error e))

def run (parse : ParseFn) (read : String → Except String String) (ho : HashOrder) (s : Store) (ops : List Op) : Store :=
  ops.foldl (fun s op => (step parse read ho s op).1) s

end Aidl
