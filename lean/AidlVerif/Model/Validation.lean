import AidlVerif.Model.Traverse

/-
  Model of `/repo/src/validation.rs` (the repaired tree) and of `Parser::collect_item_keys`.

  * Rust partial operations are an explicit `panic` outcome (`Except String`): `generic_types[0]`,
    `generic_types[1]`, `unreachable!()` in `check_container`.
  * Every loop over a `HashMap`/`HashSet` whose iteration order can reach the output takes the
    order as a parameter `ord : List κ → List κ` (a permutation, see `HashOrder`). Set lookups
    (`contains`, `get`) and order-independent selections (`filter(..).min()`) are computed on the
    underlying list.
  * Messages are the `format!` strings of the code.
-/

namespace Aidl

/-- An iteration order of a hash table: any permutation of the entries. -/
abbrev HashOrd := ∀ {α : Type}, List α → List α

structure HashOrder where
  ord : ∀ {α : Type}, List α → List α
  perm : ∀ {α : Type} (l : List α), (ord l).Perm l

def HashOrder.id : HashOrder := ⟨fun l => l, fun _ => List.Perm.refl _⟩
def HashOrder.rev : HashOrder := ⟨fun l => l.reverse, fun l => List.reverse_perm l⟩

abbrev Defined := List (String × RKind)

def mkDiag (kind : DiagKind) (range : Range) (message : String) (context hint : Option String)
    (related : List RelatedInfo := []) : Diag :=
  { kind, range, message, context, hint, related }

/-! ### `collect_item_keys` (parser.rs) -/

def RKind.rank : RKind → Nat
  | .interface => 0 | .parcelable => 1 | .enum => 2 | .fwd => 3 | .unknownImport => 4

/-- `keys.entry(k)`: occupied ⇒ keep the smaller rank, vacant ⇒ insert -/
def Defined.insertMin (d : Defined) (key : String) (kind : RKind) : Defined :=
  match d with
  | [] => [(key, kind)]
  | (k, v) :: rest =>
    if k = key then (k, if kind.rank < v.rank then kind else v) :: rest
    else (k, v) :: Defined.insertMin rest key kind

/-- `collect_item_keys`: iterate the files (in hash order) that have a tree -/
def collectItemKeys (files : List FileResult) : Defined :=
  files.foldl (fun d fr => match fr.ast with
    | some a => Defined.insertMin d a.key a.item.kind
    | none => d) []

def Defined.get (d : Defined) (key : String) : Option RKind := d.lookup key

/-! ### `set_up_oneway_interface` -/

def setUpOnewayMethod (i : Interface) (m : Method) : Method × List Diag :=
  if m.oneway then
    (m, [mkDiag .warning m.onewayRange
      ("Method `" ++ m.name ++ "` of oneway interface does not need to be marked as oneway")
      (some "redundant oneway") none [{ message := "oneway interface", range := i.sym }]])
  else
    ({ m with oneway := true }, [])

def setUpOnewayElement (i : Interface) : InterfaceElement → InterfaceElement × List Diag
  | .const c => (.const c, [])
  | .method m => let r := setUpOnewayMethod i m; (.method r.1, r.2)

def setUpOnewayInterface (i : Interface) : Interface × List Diag :=
  if !i.oneway then (i, [])
  else
    let rs := i.elements.map (setUpOnewayElement i)
    ({ i with elements := rs.map (·.1) }, rs.flatMap (·.2))

/-! ### `resolve_type(s)` -/

def strEndsWith (s suffix : String) : Bool := suffix.toList.isSuffixOf s.toList

/-- `&type_.name == *import_path || import_path.ends_with(&format!(".{}", type_.name))` -/
def importMatches (name importPath : String) : Bool :=
  name == importPath || strEndsWith importPath ("." ++ name)

/-- `Iterator::min` on strings -/
def minStr? : List String → Option String
  | [] => none
  | x :: xs => match minStr? xs with
    | none => some x
    | some m => some (if m < x then m else x)

def unknownTypeDiag (t : Ty) : Diag :=
  mkDiag .error t.sym ("Unknown type `" ++ t.name ++ "`") (some "unknown type") none

/-- `resolve_type`: the new kind and whether an `Unknown type` Error is pushed -/
def resolveKind (imports declared : List String) (defined : Defined) (name : String)
    (kind : TypeKind) : TypeKind × Bool :=
  if kind ≠ .unresolved then (kind, false) else
  -- full qualification of a built-in Android type?
  match (match AKind.fromQualifiedName name with
         | some a => if a.canBeQualified || imports.contains name then some a else none
         | none => none) with
  | some a => (.android a, false)
  | none =>
  -- in import path?
  match minStr? (imports.filter (importMatches name)) with
  | some importPath =>
    match AKind.fromQualifiedName importPath with
    | some a => (.android a, false)
    | none =>
      match defined.get importPath with
      | some k => (.resolved importPath k, false)
      | none => (.resolved importPath .unknownImport, false)
  | none =>
  -- forward-declared?
  match declared.find? (fun ip => name == ip && !(ip.toList.contains '.')) with
  | some ip => (.resolved ip .fwd, false)
  | none =>
  match AKind.fromQualifiedName name with
  | some a => if a.canBeQualified then (.android a, false) else (.unresolved, true)
  | none =>
    match AKind.fromName name with
    | some a => (.android a, false)
    | none => (.unresolved, true)

/-- what `resolve_types` adds to the `resolved` set for a node of this kind -/
def resolvedKeyOfKind : TypeKind → Option String
  | .resolved key _ => some key
  | .charSequence => some "java.lang.CharSequence"
  | .string => some "java.lang.String"
  | .android a => some a.qname
  | _ => none

structure ResolveState where
  resolved : List String := []
  diags : List Diag := []

/-- the closure handed to `walk_types_mut` by `resolve_types` -/
def resolveStep (imports declared : List String) (defined : Defined) (s : ResolveState) (t : Ty) :
    ResolveState × TypeKind :=
  let r := resolveKind imports declared defined t.name t.kind
  let diags := if r.2 then s.diags ++ [unknownTypeDiag t] else s.diags
  let resolved := match resolvedKeyOfKind r.1 with
    | some k => s.resolved ++ [k]
    | none => s.resolved
  ({ resolved, diags }, r.1)

/-- `resolve_types`: new tree, the `resolved` set (as a list) and the diagnostics pushed -/
def resolveTypes (ast : AidlFile) (imports declared : List String) (defined : Defined) :
    AidlFile × List String × List Diag :=
  let r := walkTypesMut ast (resolveStep imports declared defined) {}
  (r.2, r.1.resolved, r.1.diags)

/-! ### `check_imports` -/

/-- first loop: `qualified name → first import`, one Error per repeat, in source order -/
def importsFold (imports : List Import) : List (String × Import) × List Diag :=
  imports.foldl (fun (acc : List (String × Import) × List Diag) imp =>
    match acc.1.lookup imp.qname with
    | some previous =>
      (acc.1, acc.2 ++ [mkDiag .error imp.sym ("Duplicated import `" ++ imp.qname ++ "`")
        (some "duplicated import") none [{ message := "previous location", range := previous.sym }]])
    | none => (acc.1 ++ [(imp.qname, imp)], acc.2)) ([], [])

def importUsageDiag (resolved : List String) (defined : Defined) (e : String × Import) : List Diag :=
  if (defined.get e.1).isNone && (AKind.fromQualifiedName e.1).isNone then
    [mkDiag .warning e.2.sym ("Unresolved import `" ++ e.1 ++ "`") (some "unresolved import")
      (some "Note: this is fine if your client is able to import the same item")]
  else if !resolved.contains e.1 then
    [mkDiag .warning e.2.sym ("Unused import `" ++ e.1 ++ "`") (some "unused import") none]
  else []

def checkImports (ho : HashOrder) (imports : List Import) (resolved : List String) (defined : Defined) :
    List (String × Import) × List Diag :=
  let r := importsFold imports
  (r.1, r.2 ++ (ho.ord r.1).flatMap (importUsageDiag resolved defined))

/-! ### `check_declared_parcelables` -/

/-- `imports.iter().filter(name matches).min_by_key(qualified name)` -/
def minByKey? : List (String × Import) → Option (String × Import)
  | [] => none
  | x :: xs => match minByKey? xs with
    | none => some x
    | some m => some (if m.1 < x.1 then m else x)   -- ties: Rust's `min_by_key` keeps the first; keys are unique here

def declaredFold (declared : List Import) (importMap : List (String × Import)) :
    List (String × Import) × List Diag :=
  declared.foldl (fun (acc : List (String × Import) × List Diag) dp =>
    match minByKey? (importMap.filter (fun e => e.2.name == dp.name)) with
    | some conflicting =>
      (acc.1, acc.2 ++ [mkDiag .error dp.sym
        ("Declared parcelable conflicts with import `" ++ conflicting.2.qname ++ "`")
        (some "conflicting declaration") none
        [{ message := "location of conflicting import", range := conflicting.2.sym }]])
    | none =>
      match acc.1.lookup dp.qname with
      | some previous =>
        (acc.1, acc.2 ++ [mkDiag .error dp.sym ("Multiple parcelable declarations `" ++ dp.qname ++ "`")
          (some "duplicated declaration") none [{ message := "previous location", range := previous.sym }]])
      | none => (acc.1 ++ [(dp.qname, dp)], acc.2)) ([], [])

def declaredUsageDiag (resolved : List String) (e : String × Import) : List Diag :=
  if !resolved.contains e.1 then
    [mkDiag .warning e.2.sym ("Unused declared parcelable `" ++ e.2.name ++ "`")
      (some "unused declared parcelable") none]
  else
    [mkDiag .warning e.2.full ("Usage of declared parcelable `" ++ e.2.name ++ "`")
      (some "declared parcelable")
      (some "It is recommended to define parcelables in AIDL to garantee compatilibity between languages")]

def checkDeclaredParcelables (ho : HashOrder) (declared : List Import)
    (importMap : List (String × Import)) (resolved : List String) : List Diag :=
  let r := declaredFold declared importMap
  r.2 ++ (ho.ord r.1).flatMap (declaredUsageDiag resolved)

/-! ### `check_container(s)` -/

def checkArrayElement (t : Ty) : List Diag :=
  match t.kind with
  | .array => [mkDiag .error t.sym "Unsupported multi-dimensional array" (some "unsupported array")
                (some "must be one-dimensional")]
  | k =>
    let ok := match k with
      | .primitive => true
      | .string => true
      | .charSequence => false
      | .list => false
      | .map => false
      | .void => false
      | .android .iBinder => true
      | .android .fileDescriptor => true
      | .android .parcelFileDescriptor => true
      | .android .parcelableHolder => false
      | .resolved _ .parcelable => true
      | .resolved _ .interface => false
      | .resolved _ .enum => true
      | .resolved _ .fwd => true
      | .resolved _ .unknownImport => true
      | .unresolved => true
      | .array => false
    if ok then [] else
      [mkDiag .error t.sym ("Invalid array element `" ++ t.name ++ "`") (some "invalid parameter")
        (some "must be a primitive, an enum, a String, a parcelable or a IBinder")]

def checkListElement (t : Ty) : List Diag :=
  let ok := match t.kind with
    | .array => false
    | .list => false
    | .map => false
    | .primitive => false
    | .string => true
    | .charSequence => false
    | .void => false
    | .android .iBinder => true
    | .android .fileDescriptor => false
    | .android .parcelFileDescriptor => true
    | .android .parcelableHolder => false
    | .resolved _ .parcelable => true
    | .resolved _ .interface => false
    | .resolved _ .enum => false
    | .resolved _ .fwd => true
    | .resolved _ .unknownImport => true
    | .unresolved => true
  if ok then [] else
    [mkDiag .error t.sym ("Invalid list element `" ++ t.name ++ "`") (some "invalid element")
      (some "must be a parcelable/enum, a String, a IBinder or a ParcelFileDescriptor")]

def checkMapKey (t : Ty) : List Diag :=
  if t.kind = .string ∧ t.name = "String" then [] else
    [mkDiag .error t.sym ("Invalid map key `" ++ t.name ++ "`") (some "invalid map key")
      (some "must be a parcelable/enum, a String, a IBinder or a ParcelFileDescriptor")]

def checkMapValue (t : Ty) : List Diag :=
  let ok := match t.kind with
    | .array => true
    | .list => true
    | .map => true
    | .string => true
    | .charSequence => true
    | .primitive => false
    | .void => false
    | .android _ => true
    | .resolved _ .parcelable => true
    | .resolved _ .interface => true
    | .resolved _ .enum => false
    | .resolved _ .fwd => true
    | .resolved _ .unknownImport => true
    | .unresolved => true
  if ok then [] else
    [mkDiag .error t.sym ("Invalid map value `" ++ t.name ++ "`") (some "invalid map value")
      (some "cannot not be a primitive")]

/-- `check_container`; `Except.error` = Rust panic (index out of bounds / `unreachable!`) -/
def checkContainer (t : Ty) : Except String (List Diag) :=
  match t.kind with
  | .array =>
    match t.gens with
    | v :: _ => .ok (checkArrayElement v)
    | [] => .error "check_container: generic_types[0] (array)"
  | .list =>
    match t.gens with
    | [] => .ok [mkDiag .warning t.sym "Declaring a non-generic list is not recommended"
              (some "non-generic list") (some "consider adding a parameter (e.g.: List<String>)")]
    | [v] => .ok (checkListElement v)
    | _ => .error "check_container: unreachable (list)"
  | .map =>
    match t.gens with
    | [] => .ok [mkDiag .warning t.sym "Declaring a non-generic map is not recommended"
              (some "non-generic map")
              (some "consider adding key and value parameters (e.g.: Map<String, String>)")]
    | [k, v] => .ok (checkMapKey k ++ checkMapValue v)
    | _ => .error "check_container: unreachable (map)"
  | _ => .ok []

/-- `check_containers`: `walk_types` with `check_container` -/
def checkContainers (ast : AidlFile) : Except String (List Diag) :=
  walkTypes ast (fun (acc : Except String (List Diag)) t =>
    match acc with
    | .error e => .error e
    | .ok ds => match checkContainer t with
      | .ok d => .ok (ds ++ d)
      | .error e => .error e) (.ok [])

/-! ### `check_method(s)` -/

inductive Requirement
  | directionRequired (s : String)
  | canOnlyBeInOrUnspecified (s : String)
  | canOnlyBeInOrInOut (s : String)
  | cannotBeAnArg (s : String)
  | noRequirement
deriving DecidableEq, Repr

/-- `get_requirement_for_arg_direction` -/
def requirementFor : TypeKind → Requirement
  | .primitive => .canOnlyBeInOrUnspecified "primitives"
  | .void => .canOnlyBeInOrUnspecified "void"
  | .array => .directionRequired "arrays"
  | .map => .directionRequired "maps"
  | .list => .directionRequired "maps"
  | .string => .canOnlyBeInOrUnspecified "strings"
  | .charSequence => .canOnlyBeInOrUnspecified "CharSequence"
  | .android .iBinder => .canOnlyBeInOrUnspecified "IBinder"
  | .android .fileDescriptor => .canOnlyBeInOrUnspecified "FileDescriptor"
  | .android .parcelFileDescriptor => .canOnlyBeInOrInOut "ParcelFileDescriptor"
  | .android .parcelableHolder => .cannotBeAnArg "ParcelableHolder"
  | .resolved _ .parcelable => .directionRequired "parcelables"
  | .resolved _ .fwd => .directionRequired "parcelables"
  | .resolved _ .interface => .canOnlyBeInOrUnspecified "interfaces"
  | .resolved _ .enum => .canOnlyBeInOrUnspecified "enums"
  | .resolved _ .unknownImport => .canOnlyBeInOrUnspecified "objects"
  | .unresolved => .noRequirement

def Direction.isUnspecified : Direction → Bool | .unspecified => true | _ => false
def Direction.isIn : Direction → Bool | .in_ _ => true | _ => false
def Direction.isOut : Direction → Bool | .out _ => true | _ => false
def Direction.isInOut : Direction → Bool | .inout _ => true | _ => false

/-- range of the direction keyword, or the empty range at the start of the argument's type -/
def argDirectionRange (a : Arg) : Range :=
  match a.direction with
  | .in_ r | .out r | .inout r => r
  | .unspecified => { start := a.argType.sym.start, stop := a.argType.sym.start }

/-- one iteration of the loop in `check_method_args` -/
def checkMethodArg (methodOneway : Bool) (a : Arg) : List Diag :=
  let range := argDirectionRange a
  let tn := a.argType.name
  (match requirementFor a.argType.kind with
   | .directionRequired fe =>
     if a.direction.isUnspecified then
       [mkDiag .error range ("Missing direction for `" ++ tn ++ "`") (some "missing direction")
         (some ("direction is required for " ++ fe))]
     else []
   | .canOnlyBeInOrUnspecified fe =>
     if !(a.direction.isUnspecified || a.direction.isIn) then
       [mkDiag .error range ("Invalid direction for `" ++ tn ++ "`") (some "invalid direction")
         (some (fe ++ " can only be `in` or omitted"))]
     else []
   | .canOnlyBeInOrInOut fe =>
     if !(a.direction.isIn || a.direction.isInOut) then
       [mkDiag .error range ("Invalid direction for `" ++ tn ++ "`") (some "invalid direction")
         (some (if a.direction.isOut then fe ++ " cannot be out" else fe ++ " must be specified"))]
     else []
   | .cannotBeAnArg fe =>
     [mkDiag .error range ("Invalid argument `" ++ tn ++ "`") (some "invalid argument")
       (some (fe ++ " cannot be an argument"))]
   | .noRequirement => [])
  ++
  (if methodOneway && (a.direction.isOut || a.direction.isInOut) then
     [mkDiag .error range ("Invalid direction for `" ++ tn ++ "`") (some "invalid direction")
       (some "arguments of oneway methods can be neither `out` nor `inout`")]
   else [])

def checkMethodArgs (m : Method) : List Diag := m.args.flatMap (checkMethodArg m.oneway)

/-- the return-type check at the top of `check_method` -/
def returnDiags (m : Method) : List Diag :=
  if m.oneway && m.returnType.kind ≠ .void then
    [mkDiag .error m.returnType.sym ("Invalid return type of async method `" ++ m.returnType.name ++ "`")
      (some "must be void") (some "return type of async methods must be `void`")]
  else []

/-- `check_method` -/
def checkMethod (m : Method) : List Diag := returnDiags m ++ checkMethodArgs m

/-- the mutable locals of `check_methods` (the diagnostics vector is threaded separately) -/
structure IdState where
  names : List (String × Method) := []          -- method_names
  firstWithoutId : Option Method := none
  firstWithId : Option Method := none
  ids : List (Nat × Method) := []               -- method_ids

/-- the duplicate-name / mixed / duplicate-id part of the closure of `check_methods` (what follows
    the call of `check_method`): new locals and the diagnostics pushed;
    `Except.error` = the two `unwrap()`s -/
def checkMethodIdsStep (s : IdState) (m : Method) : Except String (IdState × List Diag) :=
  match s.names.lookup m.name with
  | some previous =>
    .ok (s, [mkDiag .error m.sym ("Duplicated method name `" ++ m.name ++ "`")
            (some "duplicated method name") none [{ message := "previous location", range := previous.sym }]])
  | none =>
    let names := s.names ++ [(m.name, m)]
    let mixedWithId := s.firstWithId.isNone && s.firstWithoutId.isSome && m.transactCode.isSome
    let mixedWithoutId := s.firstWithoutId.isNone && !s.ids.isEmpty && m.transactCode.isNone
    let mixed : Except String (List Diag) :=
      if mixedWithId || mixedWithoutId then
        let info : Except String RelatedInfo :=
          if mixedWithId then
            match s.firstWithoutId with
            | some p => .ok { message := "method without id", range := p.transactCodeRange }
            | none => .error "check_methods: first_method_without_id.unwrap()"
          else
            match s.firstWithId with
            | some p => .ok { message := "method with id", range := p.transactCodeRange }
            | none => .error "check_methods: first_method_with_id.unwrap()"
        match info with
        | .ok i => .ok [mkDiag .error m.transactCodeRange "Mixed usage of method ids" none
                    (some "Either all methods should have an id or none of them") [i]]
        | .error e => .error e
      else .ok []
    match mixed with
    | .error e => .error e
    | .ok mixedDiags =>
      let firstWithId := if m.transactCode.isSome && s.firstWithId.isNone then some m else s.firstWithId
      let firstWithoutId := if m.transactCode.isNone && s.firstWithoutId.isNone then some m else s.firstWithoutId
      match m.transactCode with
      | none => .ok ({ names, firstWithId, firstWithoutId, ids := s.ids }, mixedDiags)
      | some id =>
        match s.ids.lookup id with
        | some prev =>
          .ok ({ names, firstWithId, firstWithoutId, ids := s.ids },
                mixedDiags ++ [mkDiag .error m.transactCodeRange "Duplicated method id"
                  (some "duplicated import") none [{ range := prev.transactCodeRange, message := "previous method" }]])
        | none =>
          .ok ({ names, firstWithId, firstWithoutId, ids := s.ids ++ [(id, m)] }, mixedDiags)

/-- the closure of `check_methods`: `check_method`, then the id bookkeeping -/
def checkMethodsStep (s : Except String (IdState × List Diag)) (m : Method) :
    Except String (IdState × List Diag) :=
  match s with
  | .error e => .error e
  | .ok (st, diags) =>
    match checkMethodIdsStep st m with
    | .error e => .error e
    | .ok (st', new) => .ok (st', diags ++ checkMethod m ++ new)

/-- `check_methods` -/
def checkMethods (ast : AidlFile) : Except String (List Diag) :=
  match walkMethods ast checkMethodsStep (.ok ({}, [])) with
  | .ok s => .ok s.2
  | .error e => .error e

/-! ### sort and `validate` -/

/-- insertion into a list sorted by `key`, after all elements with a key `≤` (stable) -/
def insertByKey {α} (key : α → Nat) (x : α) : List α → List α
  | [] => [x]
  | y :: ys => if key x < key y then x :: y :: ys else y :: insertByKey key x ys

/-- stable sort by a `Nat` key (Rust `sort_by_key` is stable) -/
def stableSortBy {α} (key : α → Nat) (l : List α) : List α :=
  l.foldl (fun acc x => insertByKey key x acc) []

def sortDiags (ds : List Diag) : List Diag := stableSortBy (fun d => d.range.start.off) ds

/-- the diagnostics of one file, by the step of `validate` that pushed them, and the final tree -/
structure Groups where
  ast : AidlFile
  syn : List Diag           -- already present before validation
  unknown : List Diag       -- resolve_types
  imports : List Diag       -- check_imports
  decls : List Diag         -- check_declared_parcelables
  containers : List Diag    -- check_containers
  oneway : List Diag        -- set_up_oneway_interface
  methods : List Diag       -- check_methods

/-- in push order -/
def Groups.all (g : Groups) : List Diag :=
  g.syn ++ g.unknown ++ g.imports ++ g.decls ++ g.containers ++ g.oneway ++ g.methods

/-- `set_up_oneway_interface` applied to the item when it is an interface -/
def setUpOneway (ast : AidlFile) : AidlFile × List Diag :=
  match ast.item with
  | .interface i => let r := setUpOnewayInterface i; ({ ast with item := .interface r.1 }, r.2)
  | _ => (ast, [])

/-- body of the `map` closure of `validation::validate` for one file that has a tree,
    before the final sort -/
def validateGroups (ho : HashOrder) (defined : Defined) (syntaxDiags : List Diag) (ast : AidlFile) :
    Except String Groups :=
  let imports := ast.imports.map Import.qname
  let declared := ast.declaredParcelables.map Import.qname
  let r1 := resolveTypes ast imports declared defined
  let r2 := checkImports ho r1.1.imports r1.2.1 defined
  let d3 := checkDeclaredParcelables ho r1.1.declaredParcelables r2.1 r1.2.1
  match checkContainers r1.1 with
  | .error e => .error e
  | .ok d4 =>
    let r5 := setUpOneway r1.1
    match checkMethods r5.1 with
    | .error e => .error e
    | .ok d6 =>
      .ok { ast := r5.1, syn := syntaxDiags, unknown := r1.2.2, imports := r2.2, decls := d3,
            containers := d4, oneway := r5.2, methods := d6 }

/-- body of the `map` closure of `validation::validate` for one file -/
def validateFile (ho : HashOrder) (defined : Defined) (fr : FileResult) : Except String FileResult :=
  match fr.ast with
  | none => .ok fr
  | some ast =>
    match validateGroups ho defined fr.diags ast with
    | .error e => .error e
    | .ok g => .ok { id := fr.id, ast := some g.ast, diags := sortDiags g.all }

def mapExcept {α β ε} (f : α → Except ε β) : List α → Except ε (List β)
  | [] => .ok []
  | x :: xs => match f x with
    | .error e => .error e
    | .ok y => match mapExcept f xs with
      | .error e => .error e
      | .ok ys => .ok (y :: ys)

/-- `Parser::validate`: the files are visited in hash order twice (keys, then the per-file map);
    the result is a map keyed by id, printed as a list. -/
def validate (ho : HashOrder) (files : List FileResult) : Except String (List FileResult) :=
  let defined := collectItemKeys (ho.ord files)
  mapExcept (validateFile ho defined) (ho.ord files)

end Aidl
