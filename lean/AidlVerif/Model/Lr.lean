import AidlVerif.Model.Actions

/-!
Model of `lalrpop_util::state_machine::Parser` (drive / parse / parse_eof / error_recovery /
accepts / reduce), line by line, over tables regenerated from the generated parser, and of
`Parser::add_content` on top of it.

* every loop is fuel-bounded (`fuelOut` is an explicit outcome, never hidden);
* `reduce` checks that the popped symbols are exactly the production's right-hand side, by symbol id
  (finer than Rust's `__pop_VariantN`, which checks the value type only): a mismatch is a panic;
* Rust `unwrap()`s and indexing are explicit panics.
-/

namespace Aidl.Lr
open Aidl.Actions Aidl.Lexer

structure Production where
  lhs : String
  rhs : List String
  rhsIds : List Nat   -- symbol ids: terminal = ACTION column, `error` = last column, non-terminal = ncols + index
  pops : Nat          -- `states_to_pop` (= rhs.length)
  nt : Nat            -- `nonterminal_produced`
  action : Nat
  fallible : Bool
  accept : Bool
deriving Repr, Inhabited

structure Tables where
  action : Array (Array Int)
  eof : Array Int
  goto : List (Nat × Nat × List (Nat × Nat))
  prods : Array Production
  ncols : Nat
  terminals : Array String
  tokToCol : List (Nat × Nat)
  lex : LexTable
  actions : Array ActionDef

structure Sym where
  start : Nat
  id : Nat             -- symbol id (see `Production.rhsIds`)
  name : String        -- grammar symbol (terminal name / nonterminal / "error"), for messages only
  val : Val
  stop : Nat
  /-- ghost: the ACTION columns of the tokens this symbol spans (not read by the driver) -/
  toks : List Nat := []
deriving Inhabited

inductive Outcome
  | accept (v : Val)
  | error (e : ParseErr)
  | panic (msg : String)           -- Rust: `__symbol_type_mismatch()`, `unwrap()` / `panic!` inside the LR driver
  | actionPanic (p : Panic)       -- an action stopped abnormally (see `PanicKind`)
  | fuelOut

structure St where
  states : List Nat := [0]        -- top of the stack first
  syms : List Sym := []           -- top first
  last : Nat := 0                 -- last_location
  input : List Char
  pos : Nat := 0
  diags : List Diag := []
  /-- ghost: the ACTION columns of the tokens shifted so far, and whether error recovery has run -/
  hist : List Nat := []
  recovered : Bool := false

inductive NextToken
  | found (t : Token) (col : Nat)
  | eof
  | done (o : Outcome)

variable (T : Tables) (env : Env)

def actionAt (state col : Nat) : Int := (T.action[state]?.bind (·[col]?)).getD 0
def errorAction (state : Nat) : Int := actionAt T state (T.ncols - 1)
def eofActionAt (state : Nat) : Int := T.eof[state]?.getD 0

def gotoOf (state nt : Nat) : Nat :=
  match T.goto.find? (fun e => e.1 == nt) with
  | none => 0
  | some (_, d, cases) => (cases.lookup state).getD d

def asShift (a : Int) : Option Nat := if a > 0 then some (a - 1).toNat else none
def asReduce (a : Int) : Option Nat := if a < 0 then some (-(a + 1)).toNat else none

/-- `__expected_tokens` -/
def expectedTokens (state : Nat) : List String :=
  (List.range T.terminals.size).filterMap fun i =>
    if actionAt T state i = 0 then none else T.terminals[i]?

def topState (s : St) : Nat := s.states.headD 0

def unrecognized (s : St) (tok : Option Token) : ParseErr :=
  match tok with
  | some t => .unrecognizedToken t (expectedTokens T (topState s))
  | none => .unrecognizedEof s.last (expectedTokens T (topState s))

/-- `next_token` -/
def nextToken (s : St) : St × NextToken :=
  match Lexer.next T.lex (s.input.length + 1) s.input s.pos with
  | .eof => (s, .eof)
  | .invalid l => (s, .done (.error (.invalidToken l)))
  | .token t rest =>
    let s := { s with input := rest, pos := t.stop, last := t.stop }
    match T.tokToCol.lookup t.index with
    | some col => (s, .found t col)
    | none => (s, .done (.error (unrecognized T s (some t))))

/-- `__start` of a reduction: the first popped symbol's start; for an empty production the start of
    the lookahead, else the end of the symbol below, else 0 -/
def reduceStart (popped rest : List Sym) (laStart : Option Nat) : Nat :=
  match popped.head? with
  | some f => f.start
  | none => (laStart.orElse fun _ => rest.head?.map (·.stop)).getD 0

def reduceStop (popped : List Sym) (start : Nat) : Nat :=
  match popped.getLast? with
  | some l => l.stop
  | none => start

def reduceArgs (popped : List Sym) (start stop : Nat) : List ArgV :=
  if popped.length = 0 then [.locRef start, .locRef stop] else popped.map fun x => .triple x.start x.val x.stop

/-- push the result of a reduction and take the GOTO transition -/
def reducePush (s : St) (prod : Production) (rest : List Sym) (v : Val) (start stop : Nat) (toks : List Nat := []) :
    St × Option Outcome :=
  if prod.accept then ({ s with syms := rest }, some (.accept v)) else
  let s := { s with syms := { start, id := T.ncols + prod.nt, name := prod.lhs, val := v, stop, toks } :: rest }
  if s.states.length < prod.pops + 1 then (s, some (.panic "reduce: state stack underflow")) else
  let states := s.states.drop prod.pops
  let next := gotoOf T (states.headD 0) prod.nt
  ({ s with states := next :: states }, none)

/-- a reduction whose right-hand side is on the stack: run the action, push the result -/
def reduceCore (s : St) (prod : Production) (laStart : Option Nat) : St × Option Outcome :=
  let k := prod.rhs.length
  let popped := (s.syms.take k).reverse
  let rest := s.syms.drop k
  let start := reduceStart popped rest laStart
  let stop := reduceStop popped start
  match (evalAction T.actions 16 prod.action (reduceArgs popped start stop)).run env |>.run s.diags with
  | .error e => (s, some (.actionPanic e))
  | .ok (v, diags) => reducePush T { s with diags := diags } prod rest v start stop (popped.flatMap (·.toks))

/-- the generated `__reduce`: `none` = continue, `some o` = the parse is over -/
def reduce (s : St) (p : Nat) (laStart : Option Nat) : St × Option Outcome :=
  match T.prods[p]? with
  | none => (s, some (.panic s!"invalid action code {p}"))
  | some prod =>
    let k := prod.rhs.length
    if s.syms.length < k then (s, some (.panic "reduce: symbol stack underflow")) else
    if ((s.syms.take k).reverse).map (·.id) != prod.rhsIds then
      (s, some (.panic s!"reduce {p}: symbol mismatch, expected {prod.rhs}")) else
    reduceCore T env s prod laStart

/-- `accepts` (simulation on a copy of the state stack) -/
def accepts (errorState : Nat) (states : List Nat) (col : Option Nat) : Nat → Option Bool
  | 0 => none
  | fuel + 1 =>
    let rec loop (states : List Nat) : Nat → Option Bool
      | 0 => none
      | f + 1 =>
        let top := states.headD 0
        let a := match col with
          | none => eofActionAt T top
          | some i => actionAt T top i
        if a = 0 then some false
        else match asReduce a with
          | some r =>
            match T.prods[r]? with
            | none => none
            | some prod =>
              if prod.accept then some true
              else
                let states := states.drop prod.pops
                loop (gotoOf T (states.headD 0) prod.nt :: states) f
          | none => some true
    loop (errorState :: states) fuel

/-- `error_recovery`, first loop: perform all reductions triggered by having ERROR in the lookahead -/
def reduceOnError (la : Option Token) (s : St) : Nat → St × Option Outcome
  | 0 => (s, some .fuelOut)
  | f + 1 =>
    match asReduce (errorAction T (topState s)) with
    | some r =>
      match reduce T env s r (la.map (·.start)) with
      | (s, some o) => (s, some o)
      | (s, none) => reduceOnError la s f
    | none => (s, none)

/-- `for top in (0..states_len).rev()`: the deepest-from-the-top state that can shift `error` and
    then accepts the lookahead. States are stored top first: index `top` of the Rust vector is
    position `statesLen - 1 - top` -/
def errorCandidate (statesLen : Nat) (s : St) (col : Option Nat) : Option Nat :=
  (List.range statesLen).reverse.find? fun top =>
    let state := (s.states.drop (statesLen - 1 - top)).headD 0
    match asShift (errorAction T state) with
    | some errState => (accepts T errState (s.states.drop (statesLen - 1 - top)) col (statesLen + 1024)).getD false
    | none => false

/-- `error_recovery`, second loop: drop tokens until some state can take over -/
def findState (error : ParseErr) (statesLen : Nat) (s : St) (la : Option Token) (col : Option Nat) (dropped : List Token) :
    Nat → St × Sum NextToken (Nat × Option Token × Option Nat × List Token)
  | 0 => (s, .inl (.done .fuelOut))
  | f + 1 =>
    match errorCandidate T statesLen s col with
    | some top => (s, .inr (top, la, col, dropped))
    | none =>
      match la with
      | none => (s, .inl (.done (.error error)))
      | some l =>
        let dropped := dropped ++ [l]
        match nextToken T s with
        | (s, .found t c) => findState error statesLen s (some t) (some c) dropped f
        | (s, .eof) => findState error statesLen s none none dropped f
        | (s, .done o) => (s, .inl (.done o))

/-- `__start` / `__end` of the `error` symbol (symbols[i] in Rust order = syms.reverse[i]) -/
def recoverStart (s : St) (top : Nat) (dropped : List Token) : Nat :=
  let symsV := s.syms.reverse
  match symsV[top]? with
  | some sym => sym.start
  | none => match dropped.head? with
    | some t => t.start
    | none => if top > 0 then (symsV[top - 1]?.map (·.stop)).getD 0 else 0

def recoverStop (statesLen : Nat) (s : St) (top : Nat) (la : Option Token) (dropped : List Token) (start : Nat) : Nat :=
  match dropped.getLast? with
  | some t => t.stop
  | none =>
    if statesLen - 1 > top then (s.syms.head?.map (·.stop)).getD 0
    else match la with
      | some l => l.start
      | none => start

/-- `error_recovery`, the end: truncate the stacks, shift `error` -/
def recoverPush (error : ParseErr) (statesLen : Nat) (s : St) (top : Nat) (la : Option Token) (col : Option Nat)
    (dropped : List Token) : St × NextToken :=
  let start := recoverStart s top dropped
  let stop := recoverStop statesLen s top la dropped start
  let states := s.states.drop (statesLen - 1 - top)      -- truncate(top + 1)
  let syms := (s.syms.reverse.take top).reverse           -- truncate(top)
  match asShift (errorAction T (states.headD 0)) with
  | none => (s, .done (.panic "error_recovery: error_action.as_shift().unwrap()"))
  | some errState =>
    let s := { s with states := errState :: states, recovered := true,
                      syms := { start, id := T.ncols - 1, name := "error", val := .recovery error dropped, stop } :: syms }
    match la, col with
    | some l, some c => (s, .found l c)
    | none, none => (s, .eof)
    | _, _ => (s, .done (.panic "lookahead and token_index mismatched"))

/-- `error_recovery` -/
def errorRecovery (s : St) (la : Option Token) (col : Option Nat) (fuel : Nat) : St × NextToken :=
  let error := unrecognized T s la
  match reduceOnError T env la s fuel with
  | (s, some o) => (s, .done o)
  | (s, none) =>
    let statesLen := s.states.length
    match findState T error statesLen s la col [] fuel with
    | (s, .inl nt) => (s, nt)
    | (s, .inr (top, la, col, dropped)) => recoverPush T error statesLen s top la col dropped

/-- `parse_eof` -/
def parseEof (s : St) : Nat → St × Outcome
  | 0 => (s, .fuelOut)
  | fuel + 1 =>
    match asReduce (eofActionAt T (topState s)) with
    | some r =>
      match reduce T env s r none with
      | (s, some o) => (s, o)
      | (s, none) => parseEof s fuel
    | none =>
      match errorRecovery T env s none none fuel with
      | (s, .found _ _) => (s, .panic "cannot find token at EOF")
      | (s, .done o) => (s, o)
      | (s, .eof) => parseEof s fuel

/-- the `'inner` loop of `parse` for one lookahead -/
def parseInner (s : St) (la : Token) (col : Nat) : Nat → St × Sum Unit Outcome
  | 0 => (s, .inr .fuelOut)
  | fuel + 1 =>
    let a := actionAt T (topState s) col
    match asShift a with
    | some target =>
      let name := T.terminals[col]?.getD "?"
      ({ s with states := target :: s.states, hist := s.hist ++ [col],
                syms := { start := la.start, id := col, name, val := .tok la.text, stop := la.stop, toks := [col] } :: s.syms }, .inl ())
    | none =>
      match asReduce a with
      | some r =>
        match reduce T env s r (some la.start) with
        | (s, some (.accept _)) => (s, .inr (.error (.extraToken la)))
        | (s, some o) => (s, .inr o)
        | (s, none) => parseInner s la col fuel
      | none =>
        match errorRecovery T env s (some la) (some col) fuel with
        | (s, .found l c) => parseInner s l c fuel
        | (s, .eof) => let r := parseEof T env s fuel; (r.1, .inr r.2)
        | (s, .done o) => (s, .inr o)

/-- `parse` (the `'shift` loop) -/
def parseLoop (s : St) : Nat → St × Outcome
  | 0 => (s, .fuelOut)
  | fuel + 1 =>
    match nextToken T s with
    | (s, .eof) => parseEof T env s fuel
    | (s, .done o) => (s, o)
    | (s, .found la col) =>
      match parseInner T env s la col fuel with
      | (s, .inl ()) => parseLoop s fuel
      | (s, .inr o) => (s, o)

/-- why `add_content` of the model does not return a result -/
inductive Stop
  | driver (msg : String)          -- a panic of the LR driver itself
  | action (p : Panic)             -- an action (or the error formatter) stopped abnormally
  | fuelOut                        -- the model's step bound was reached
  | acceptShape                    -- the accepted value is not an `Option<Aidl>` (model only)

def Stop.msg : Stop → String
  | .driver m => m
  | .action p => p.msg
  | .fuelOut => "fuelOut"
  | .acceptShape => "accept: unexpected value"

/-- the result handling of `Parser::add_content` (its `match rule_result`) -/
def finishE (id : String) (s : St) (o : Outcome) : Except Stop FileResult :=
  match o with
  | .panic m => .error (.driver m)
  | .actionPanic p => .error (.action p)
  | .fuelOut => .error .fuelOut
  | .accept v =>
    match v with
    | .none_ => .ok { id, ast := none, diags := s.diags }
    | .some_ (.aidl a) => .ok { id, ast := some a, diags := s.diags }
    | _ => .error .acceptShape
  | .error e =>
    match (fromParseError e).run env |>.run s.diags with
    | .error m => .error (.action m)
    | .ok (d, diags) => .ok { id, ast := none, diags := diags ++ [d] }

def parseFuel (text : String) : Nat := 64 * (text.toList.length + 2) + 1024

/-- `OptAidlParser::parse` followed by the result handling of `Parser::add_content` -/
def addContentE (id : String) (text : String) : Except Stop FileResult :=
  let r := parseLoop T env { input := text.toList } (parseFuel text)
  finishE env id r.1 r.2

def addContent (id : String) (text : String) : Except String FileResult :=
  match addContentE T env id text with
  | .ok r => .ok r
  | .error st => .error st.msg

/-- the token sequence of a text: (lexer entry, text) pairs and how it ends (`true`: end of input,
    `false`: an invalid token); `none` if the step bound is too small (not part of the parser: the
    hypothesis of the layout-independence theorem `Props/C02Layout.lean`, evaluated by the driver) -/
def lexToks (T : Tables) : Nat → List Char → Nat → Option (List (Nat × String) × Bool)
  | 0, _, _ => none
  | f + 1, i, p =>
    match Lexer.next T.lex (i.length + 1) i p with
    | .eof => some ([], true)
    | .invalid _ => some ([], false)
    | .token t r => (lexToks T f r t.stop).map fun le => ((t.index, t.text) :: le.1, le.2)

end Aidl.Lr
