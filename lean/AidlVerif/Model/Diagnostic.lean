import AidlVerif.Model.Ast

/-!
Model of `/repo/src/diagnostic.rs`: `expected_token_str` and the messages of `from_parse_error`.
The message is `render` applied to the list of token names the formatter selects
(`selected`), so that what is named can be stated without parsing text back.
-/

namespace Aidl

/-- Rust's `[String]::join(sep)` -/
def joinWith (sep : String) : List String → String
  | [] => ""
  | [a] => a
  | a :: rest => a ++ sep ++ joinWith sep rest

/-- the token names `expected_token_str` puts into the message:
    `v` for up to two, `v[0 .. len-2] ++ [v[len-1]]` beyond -/
def selected (v : List String) : List String :=
  match v with
  | [] => []
  | [a] => [a]
  | [a, b] => [a, b]
  | _ => v.take (v.length - 2) ++ [v.getLast?.getD ""]

/-- `expected_token_str` -/
def expectedTokenStr (v : List String) : String :=
  match v with
  | [] => ""
  | [a] => "Expected " ++ a
  | [a, b] => "Expected " ++ a ++ " or " ++ b
  | _ => "Expected one of " ++ joinWith ", " (v.take (v.length - 2)) ++ " or " ++ v.getLast?.getD ""

/-- the messages of `from_parse_error` that report expectations -/
def unrecognizedEofMessage (expected : List String) : String :=
  "Unrecognized EOF.\n" ++ expectedTokenStr expected

def unrecognizedTokenMessage (tokenText : String) (expected : List String) : String :=
  "Unrecognized token `" ++ tokenText ++ "`.\n" ++ expectedTokenStr expected

end Aidl
