import AidlVerif.Driver.Codec
import AidlVerif.Model.Validation
import AidlVerif.Props.C07
import AidlVerif.Props.C05
import AidlVerif.Props.C10
import AidlVerif.Props.C09
import AidlVerif.Props.C08
import AidlVerif.Props.C06
import AidlVerif.Driver.Walk
import AidlVerif.Props.C12
import AidlVerif.Props.C20
import AidlVerif.Props.C19Gen
import AidlVerif.Driver.SerdeEnc
import AidlVerif.Driver.Parse
import AidlVerif.Spec.ParseLevel

/-
  Model driver: one JSON case per input line, one JSON verdict per output line.

  For every case it (1) runs the executable model on the case's input, (2) compares the
  property projections of the model's output with those of the implementation's output
  (`corr`), and (3) evaluates the executable specifications of `Spec/*` on the implementation's
  output (`spec`). Nothing here is trusted by the theorems; it is the correspondence check.
-/

namespace Aidl.Driver
open Lean (Json)
open Aidl.Codec

structure Verdict where
  corr : List (String × Bool) := []
  spec : List (String × Bool) := []
  /-- decidable hypotheses of the theorems, evaluated on this case -/
  assume : List (String × Bool) := []
  detail : List (String × Json) := []
  /-- is the case non-trivial for the property being checked? -/
  nontrivial : Bool := true
  /-- histogram contributions (input distribution) -/
  dist : List (String × Nat) := []

def Verdict.addCorr (v : Verdict) (k : String) (b : Bool) : Verdict := { v with corr := v.corr ++ [(k, b)] }
/-- several verdicts under one key are conjoined -/
def Verdict.addSpec (v : Verdict) (k : String) (b : Bool) : Verdict :=
  if v.spec.any (·.1 == k) then { v with spec := v.spec.map fun e => if e.1 == k then (e.1, e.2 && b) else e }
  else { v with spec := v.spec ++ [(k, b)] }
def Verdict.addAssume (v : Verdict) (k : String) (b : Bool) : Verdict := { v with assume := v.assume ++ [(k, b)] }
def Verdict.addDetail (v : Verdict) (k : String) (j : Json) : Verdict := { v with detail := v.detail ++ [(k, j)] }

def Verdict.toJson (case : Json) (v : Verdict) : Json :=
  Json.mkObj ([("case", case),
    ("corr", Json.mkObj (v.corr.map (fun (k, b) => (k, Json.bool b)))),
    ("spec", Json.mkObj (v.spec.map (fun (k, b) => (k, Json.bool b)))),
    ("assume", Json.mkObj (v.assume.map (fun (k, b) => (k, Json.bool b)))),
    ("nontrivial", Json.bool v.nontrivial),
    ("dist", Json.mkObj (v.dist.map (fun (k, n) => (k, Json.num n)))),
    ("detail", Json.mkObj v.detail)]
    ++ (match v.detail.lookup "known_finding" with | some k => [("known_finding", k)] | none => []))

def firstDiff {α} [DecidableEq α] (enc : α → Json) (a b : List α) : Json :=
  let rec go (i : Nat) : List α → List α → Json
    | [], [] => Json.null
    | x :: xs, y :: ys => if x = y then go (i+1) xs ys else
        Json.mkObj [("index", i), ("model", enc x), ("impl", enc y)]
    | x :: _, [] => Json.mkObj [("index", i), ("model", enc x), ("impl", Json.null)]
    | [], y :: _ => Json.mkObj [("index", i), ("model", Json.null), ("impl", enc y)]
  go 0 a b

def sortById (l : List FileResult) : List FileResult :=
  (l.toArray.qsort (fun a b => a.id < b.id)).toList

def bump (d : List (String × Nat)) (k : String) : List (String × Nat) :=
  match d with
  | [] => [(k, 1)]
  | (k', n) :: rest => if k' = k then (k', n + 1) :: rest else (k', n) :: bump rest k

/-- what a validation-level property handler sees -/
structure ValCtx where
  stage1 : List FileResult      -- implementation's syntax stage (input of the model)
  out : List FileResult         -- implementation's validate()
  model : List FileResult       -- model's validate (hash order = identity), sorted by id
  defined : Defined
  /-- the documents were read as written: the syntax-stage trees are the position-erased trees the
      generator expects, explicit transact codes are the numbers in the source, and the range of an
      explicit `oneway` keyword holds exactly that word (validation-level properties speak about source
      documents, not about whatever the syntax stage made of them) -/
  readOk : Bool := true

def groupsOf (c : ValCtx) (fr : FileResult) : Option (Groups × List Diag) :=
  match fr.ast with
  | none => none
  | some ast => match validateGroups HashOrder.id c.defined fr.diags ast with
    | .error _ => none
    | .ok g => match idDiagsLoop {} (Spec.methodsOf g.ast) with
      | .error _ => none
      | .ok ids => some (g, ids)

def catName (c : Spec.Category) : String := (reprStr c).replace "Aidl.Spec.Category." ""

def zipById (a b : List FileResult) : List (FileResult × FileResult) :=
  a.filterMap fun x => (b.find? (fun y => y.id == x.id)).map fun y => (x, y)

/-- C06 / C07 / C08 speak about what a type "resolves to": the kinds in the implementation's output
    are the ones the scoping rule of C05 prescribes (where the hypothesis of `Props.C05.holds` holds) -/
def resolutionAsSpecified (c : ValCtx) : Bool :=
  (zipById c.stage1 c.out).all fun (a, b) =>
    (match groupsOf c a with
     | none => true
     | some (g, _) => !decide (Props.C05.Fresh g)) || Spec.C05.holdsFile c.defined a b

/-- The SEARCH for a failing input behind a broken correspondence, where the count of the statement is not evaluated
    (another diagnostic shares a range the property speaks about: `Fresh` fails): on one of these ranges the code
    reports another number of Errors or Warnings than the unchanged semantics (the model, which satisfies the property
    by theorem). It is only consulted when model and code DISAGREE on the case, so it cannot raise an alarm of its own. -/
def countsDiffer (c : ValCtx) (ranges : AidlFile → List Range) : Bool :=
  (zipById c.model c.out).any fun (m, o) => match m.ast with
    | some ast => (ranges ast).any fun r =>
        Spec.errorsAt o.diags r != Spec.errorsAt m.diags r || Spec.warningsAt o.diags r != Spec.warningsAt m.diags r
    | none => false

def handleC07 (c : ValCtx) (v : Verdict) : Verdict :=
  let corrOk := decide (c.model.map Spec.C07.proj = c.out.map Spec.C07.proj)
  let fresh := c.stage1.all fun fr => match groupsOf c fr with
    | none => true
    | some (g, ids) => decide (Props.C07.Fresh g ids)
  let found := !corrOk && !fresh && countsDiffer c (fun ast => (Spec.C07.argsOf ast).map fun p => argDirectionRange p.2)
  let v := v.addCorr "C07" corrOk
  let v := v.addSpec "C07" (c.out.all Spec.C07.holdsFile && resolutionAsSpecified c && c.readOk && !found)
  let v := v.addAssume "C07" (fresh || found)
  let args := c.out.flatMap fun fr => match fr.ast with
    | none => []
    | some ast => (Spec.C07.argsOf ast).map fun p =>
        s!"{catName (Spec.Category.of p.2.argType.kind)}/{reprStr (Spec.C07.dirOf p.2.direction)}/{p.1.oneway}"
  { v with nontrivial := !args.isEmpty, dist := args.foldl bump v.dist }

def handleC05 (c : ValCtx) (v : Verdict) : Verdict :=
  let v := v.addCorr "C05" (decide (c.model.map Spec.C05.proj = c.out.map Spec.C05.proj))
  let v := v.addSpec "C05" (((zipById c.stage1 c.out).all fun (a, b) => Spec.C05.holdsFile c.defined a b) && c.readOk)
  let v := v.addAssume "C05" (c.stage1.all fun fr => match groupsOf c fr with
    | none => true
    | some (g, _) => decide (Props.C05.Fresh g))
  let refs := c.stage1.flatMap fun fr => match fr.ast with
    | none => []
    | some ast => (allTypesPre ast).filter (fun t => t.kind = .unresolved)
  let kinds := c.out.flatMap fun fr => match fr.ast with
    | none => []
    | some ast => (Spec.C05.nodes ast).map fun n => catName (Spec.Category.of n.2.2)
  { v with nontrivial := !refs.isEmpty, dist := kinds.foldl bump v.dist }

def handleC10 (c : ValCtx) (v : Verdict) : Verdict :=
  let corrOk := decide (c.model.map Spec.C10.proj = c.out.map Spec.C10.proj)
  -- the SEARCH for a failing input once the correspondence is broken (it changes nothing while model and code agree):
  -- on the return type of a method that is oneway after propagation and does not return void the code now reports
  -- FEWER Errors than the unchanged semantics does — among them the one the property demands. This also finds
  -- inputs on which another Error shares that range (where the count of the statement is not evaluated: `Fresh`).
  let deficit := !corrOk && (zipById c.model c.out).any fun (m, o) => match m.ast with
    | some ast => (Spec.methodsOf ast).any fun me =>
        me.oneway && !decide (me.returnType.kind = .void)
          && decide (Spec.errorsAt o.diags me.returnType.sym < Spec.errorsAt m.diags me.returnType.sym)
    | none => false
  let v := v.addCorr "C10" corrOk
  let v := v.addSpec "C10" (((zipById c.stage1 c.out).all fun (a, b) => Spec.C10.holdsFile a b) && c.readOk && !deficit)
  let v := v.addAssume "C10" (deficit || c.stage1.all fun fr => match fr.ast, groupsOf c fr with
    | some ast, some (g, ids) => decide (Props.C10.Fresh ast g ids)
    | _, _ => true)
  let ms := c.stage1.flatMap fun fr => match fr.ast with
    | none => []
    | some ast => (Spec.methodsOf ast).map fun m =>
        s!"iface_oneway={Spec.interfaceOneway ast}/method_oneway={m.oneway}/void={decide (m.returnType.kind = .void)}"
  { v with nontrivial := !ms.isEmpty, dist := ms.foldl bump v.dist }

def handleC09 (c : ValCtx) (v : Verdict) : Verdict :=
  let corrOk := decide (c.model.map Spec.C09.proj = c.out.map Spec.C09.proj)
  let fresh := c.stage1.all fun fr => match groupsOf c fr with
    | some (g, ids) => decide (Props.C09.Fresh g ids)
    | none => true
  let found := !corrOk && !fresh && countsDiffer c (fun ast => Spec.C09.idRanges (Spec.methodsOf ast))
  let v := v.addCorr "C09" corrOk
  let v := v.addSpec "C09" (c.out.all Spec.C09.holdsFile && c.readOk && !found)
  let v := v.addAssume "C09" (fresh || found)
  let reports := c.out.flatMap fun fr => match fr.ast with
    | none => []
    | some b => Spec.C09.spec (Spec.methodsOf b)
  let nm := (c.out.flatMap fun fr => match fr.ast with | none => [] | some b => Spec.methodsOf b).length
  { v with nontrivial := nm ≥ 2, dist := bump (bump v.dist s!"methods={min nm 6}") s!"reports={min reports.length 4}" }

def handleC08 (c : ValCtx) (v : Verdict) : Verdict :=
  let v := v.addCorr "C08" (decide (c.model.map Spec.C08.proj = c.out.map Spec.C08.proj))
  let v := v.addSpec "C08" (c.out.all Spec.C08.holdsFile && resolutionAsSpecified c && c.readOk)
  let v := v.addAssume "C08" (c.stage1.all fun fr => match groupsOf c fr with
    | some (g, _) => decide (Props.C08.Fresh g)
    | none => true)
  let conts := c.out.flatMap fun fr => match fr.ast with
    | none => []
    | some b => (allTypesWalk b).filterMap fun t =>
        if t.kind = .array ∨ t.kind = .list ∨ t.kind = .map then
          some (s!"{catName (Spec.Category.of t.kind)}<" ++ ", ".intercalate (t.gens.map fun e => catName (Spec.Category.of e.kind)) ++ ">")
        else none
  { v with nontrivial := !conts.isEmpty, dist := conts.foldl bump v.dist }

def handleC06 (c : ValCtx) (v : Verdict) : Verdict :=
  let corrOk := decide (c.model.map Spec.C06.proj = c.out.map Spec.C06.proj)
  let fresh := c.stage1.all fun fr => match groupsOf c fr with
    | some (g, _) => decide (Props.C06.Fresh g)
    | none => true
  let found := !corrOk && !fresh && countsDiffer c Spec.C06.stmtRanges
  let v := v.addCorr "C06" corrOk
  let v := v.addSpec "C06" (c.out.all (Spec.C06.holdsFile c.defined) && resolutionAsSpecified c && c.readOk && !found)
  let v := v.addAssume "C06" (fresh || found)
  let reps := c.out.flatMap fun fr => match fr.ast with
    | none => []
    | some b =>
      let R := Spec.C06.resolvedKeys b
      (Spec.C06.importReports R c.defined b.imports).map (fun r => s!"import/{reprStr r.1}/{r.2.2.isSome}")
      ++ (Spec.C06.declReports R b.imports b.declaredParcelables).map (fun r => s!"decl/{reprStr r.1}/{r.2.2.isSome}")
  let n := (c.out.flatMap fun fr => match fr.ast with | none => [] | some b => b.imports ++ b.declaredParcelables).length
  { v with nontrivial := n > 0, dist := reps.foldl bump v.dist }

def valHandlers : List (String × (ValCtx → Verdict → Verdict)) :=
  [("C07", handleC07), ("C05", handleC05), ("C10", handleC10), ("C09", handleC09), ("C08", handleC08),
   ("C06", handleC06)]

/-- byte slice of a text -/
def sliceText (text : String) (a b : Nat) : String :=
  String.ofList ((Javadoc.sliceBytes text.toList a b).getD [])

/-- the syntax-stage trees are the position-erased trees the generator expects (field `key` of the case) -/
def sxAsExpected (j : Json) (key : String) (stage1 : List FileResult) : Bool :=
  match (j.getObjVal? key).toOption with
    | none => true
    | some e => match (list (fun x => do pure ((← str (← fld x "id")), (← str (← fld x "sx")))) e) with
      | .error _ => false
      | .ok exp => exp.all fun (id, sx) =>
          match stage1.find? (fun fr => fr.id == id) with
          | some fr => (fr.ast.map Spec.PL.sxAidl) == some sx
          | none => false

/-- every position of these results is TRUE: its offset is a character boundary of the file and its line and column
    are what the line / column table of the case (field `lc`, the `line-col` crate's answer) says for that offset —
    a diagnostic "on the direction keyword" with the right offsets and a wrong column is not on the keyword -/
def positionsTrue (j : Json) (results : List FileResult) : Bool :=
  match (j.getObjVal? "lc").toOption with
  | none => true
  | some lj =>
    match list (fun e => do
        let a ← arr e
        pure ((← str a[0]!), (← Parse.lcTable a[1]!))) lj with
    | .error _ => false
    | .ok lcs => results.all fun fr =>
        match lcs.lookup fr.id with
        | none => true
        | some lc =>
          (Spec.PL.diagRanges fr.diags).all (Spec.PL.rangeOk lc)
          && (match fr.ast with
              | some a => (Spec.PL.allRanges a).all (Spec.PL.rangeOk lc)
              | none => true)

/-- see `ValCtx.readOk` -/
def readAsWritten (j : Json) (stage1 : List FileResult) : Bool :=
  let sxOk := sxAsExpected j "expect_sx" stage1
  let codesOk := match (j.getObjVal? "expect_codes").toOption with
    | none => true
    | some e => match (list (fun x => do
          let a ← arr x
          let c := match a[1]! with | .null => none | y => y.getNat?.toOption
          pure ((← str a[0]!), c)) e) with
      | .error _ => false
      | .ok exp => match stage1.find? (fun fr => fr.id == "main") with
        | some fr => (fr.ast.map fun a => (Spec.methodsOf a).map fun m => (m.name, m.transactCode)) == some exp
        | none => false
  -- an explicit `oneway` of a method: its range holds exactly the keyword
  let texts := ((j.getObjVal? "files").toOption.bind fun f => (list (fun x => do pure ((← str (← fld x "id")), (← str (← fld x "text")))) f).toOption).getD []
  let onewayOk := stage1.all fun fr =>
    match fr.ast, texts.lookup fr.id with
    | some a, some text => (Spec.methodsOf a).all fun m =>
        let w := sliceText text m.onewayRange.start.off m.onewayRange.stop.off
        !m.oneway || w == "oneway"
    | _, _ => true
  -- an explicit direction: its range holds exactly the keyword (an Error "on the direction keyword" sits on this range)
  let dirOk := stage1.all fun fr =>
    match fr.ast, texts.lookup fr.id with
    | some a, some text => (Spec.methodsOf a).all fun m => m.args.all fun x =>
        match x.direction with
        | .in_ r => sliceText text r.start.off r.stop.off == "in"
        | .out r => sliceText text r.start.off r.stop.off == "out"
        | .inout r => sliceText text r.start.off r.stop.off == "inout"
        | .unspecified => true
    | _, _ => true
  sxOk && codesOk && onewayOk && dirOk && positionsTrue j stage1

def opValidate (prop : String) (j : Json) : R Verdict := do
  let impl ← fld j "impl"
  let outcome ← str (← fld impl "outcome")
  if outcome ≠ "ok" then
    return { corr := [("outcome", false)], detail := [("impl_outcome", Json.str outcome)] }
  let stage1 ← list fileResult (← fld impl "stage1")
  let out ← list fileResult (← fld impl "out")
  let mut v : Verdict := {}
  let mut model : Option (List FileResult) := none
  for (name, ho) in [("id", HashOrder.id), ("rev", HashOrder.rev)] do
    match validate ho stage1 with
    | .error e =>
      v := (v.addCorr "outcome" false).addDetail "model_panic" (Json.str e)
    | .ok m =>
      let m := sortById m
      if name == "id" then model := some m
      let same := decide (m = out)
      v := v.addCorr ("full_" ++ name) same
      if !same then
        let d := (m.zip out).filterMap (fun (a, b) =>
          if a = b then none else
            some (Json.mkObj [("id", a.id), ("ast_equal", decide (a.ast = b.ast)),
              ("diag", firstDiff encDiag a.diags b.diags)]))
        v := v.addDetail ("diff_" ++ name) (Json.arr d.toArray)
  -- per-property projections, specifications (on the implementation's output) and hypotheses
  match model with
  | none => pure ()
  | some m =>
    let ctx : ValCtx := { stage1, out, model := m, defined := collectItemKeys stage1,
                          readOk := readAsWritten j stage1 && positionsTrue j out }
    for (p, h) in valHandlers do
      if prop == p || prop == "all" then v := h ctx v
  return v

def opWalk (prop : String) (j : Json) : R Verdict := do
  let impl ← fld j "impl"
  let outcome ← str (← fld impl "outcome")
  if outcome ≠ "ok" then
    return { corr := [("outcome", false)], detail := [("impl_outcome", Json.str outcome)] }
  let out ← list fileResult (← fld impl "out")
  let walks ← list Walk.fileWalk (← fld impl "walks")
  let mut v : Verdict := {}
  let mut acc : Walk.Result := {}
  let mut nfiles := 0
  for w in walks do
    match out.find? (fun fr => fr.id == w.id) with
    | some { ast := some b, .. } =>
      let r := Walk.checkFile b w
      nfiles := nfiles + 1
      acc := { corr15 := acc.corr15 && r.corr15, spec15 := acc.spec15 && r.spec15,
               corr16 := acc.corr16 && r.corr16, spec16 := acc.spec16 && r.spec16,
               assume16 := acc.assume16 && r.assume16, corr17 := acc.corr17 && r.corr17,
               corrText := acc.corrText && r.corrText,
               nsyms := acc.nsyms + r.nsyms, npos := acc.npos + r.npos }
    | _ => acc := { acc with corr15 := false }
  -- every file with a tree must have been walked
  let expectedWalks := (out.filter (fun fr => fr.ast.isSome)).length
  if nfiles ≠ expectedWalks then acc := { acc with corr15 := false }
  -- the validated trees the walkers were given are what the model's validation makes of the syntax-stage trees (which
  -- `readAsWritten` compares with the generator's): the walk is not judged on a tree only the implementation vouches for
  let fullOk := match (impl.getObjVal? "stage1").toOption.bind (fun sj => (list fileResult sj).toOption) with
    | some stage1 => match validate HashOrder.id stage1 with
      | .ok m => decide (sortById m = out)
      | .error _ => false
    | none => true
  acc := { acc with corr15 := acc.corr15 && fullOk, corr16 := acc.corr16 && fullOk, corr17 := acc.corr17 && fullOk }
  if prop == "C15" || prop == "all" then
    let readOk15 := match (impl.getObjVal? "stage1").toOption.bind (fun sj => (list fileResult sj).toOption) with
      | some stage1 => readAsWritten j stage1 && positionsTrue j out
      | none => true
    v := (v.addCorr "C15" acc.corr15).addSpec "C15" (acc.spec15 && readOk15)
    v := { v with nontrivial := acc.nsyms > 3, dist := bump v.dist s!"symbols~{min (acc.nsyms / 10 * 10) 100}" }
  if prop == "C16" || prop == "all" then
    v := ((v.addCorr "C16" acc.corr16).addSpec "C16" acc.spec16).addAssume "C16" acc.assume16
    v := { v with nontrivial := acc.npos > 0, dist := bump v.dist s!"positions~{min (acc.npos / 100 * 100) 2000}" }
  if prop == "C17" || prop == "all" then
    let reported := walks.map fun w => (w.id, w.key, w.symbols.map fun s => (s.tag, s.name, s.qn, s.r))
    -- "every type symbol that RESOLVES to that item": the kinds in the validated trees are the ones
    -- the scoping rule of C05 prescribes
    let resOk := match (impl.getObjVal? "stage1").toOption with
      | none => true
      | some sj => match list fileResult sj with
        | .error _ => false
        | .ok stage1 =>
          let defined := collectItemKeys stage1
          resolutionAsSpecified { stage1, out, model := [], defined }
    let readOk := match (impl.getObjVal? "stage1").toOption.bind (fun sj => (list fileResult sj).toOption) with
      | some stage1 => readAsWritten j stage1 && positionsTrue j out
      | none => true
    v := (v.addCorr "C17" acc.corr17).addSpec "C17" (Spec.C17.holdsProject out reported && resOk && readOk)
    let nres := (out.flatMap fun fr => match fr.ast with
      | some b => (allTypesPre b).filter (fun t => match t.kind with | .resolved _ rk => Spec.C17.isItemKind rk | _ => false)
      | none => []).length
    v := { v with nontrivial := acc.nsyms > 3, dist := bump v.dist s!"refs_to_items={min nres 5}" }
    -- model coverage beyond the property (reported, never a verdict): the texts of get_details / get_signature
    v := { v with dist := bump v.dist (if acc.corrText then "symbol_text_model_agrees" else "symbol_text_model_DIFFERS") }
  return v

def sortedByOffset (ds : List Diag) : Bool :=
  (ds.zip ds.tail).all fun (a, b) => a.range.start.off ≤ b.range.start.off

def wfRanges (files : List FileResult) : Bool :=
  files.all fun fr => match fr.ast with
    | some a => decide (Props.C11.WFRanges a)
    | none => true

/-- C11: repeated / shuffled / threaded runs of the implementation against each other and the model -/
def opDeterminism (j : Json) : R Verdict := do
  let impl ← fld j "impl"
  let outcome ← str (← fld impl "outcome")
  if outcome ≠ "ok" then
    return { corr := [("outcome", false)], detail := [("impl_outcome", Json.str outcome)] }
  let stage1 ← list fileResult (← fld impl "stage1")
  let out ← list fileResult (← fld impl "out")
  let differing ← fld impl "differing"
  let mut v : Verdict := {}
  -- the model under two hash orders and two insertion orders
  let m1 := (validate HashOrder.id stage1).toOption.map sortById
  let m2 := (validate HashOrder.rev stage1.reverse).toOption.map sortById
  v := v.addCorr "C11" (m1 == some out && m2 == some out)
  -- the statement: every run equal (trees and diagnostic lists), diagnostics ascending in every file
  let allEqual := match differing with | .null => true | _ => false
  let sorted := out.all fun fr => sortedByOffset fr.diags
  v := v.addSpec "C11" (allEqual && sorted)
  v := v.addAssume "C11" (wfRanges stage1)
  let sameLine := out.any fun fr => (fr.diags.zip fr.diags.tail).any fun (a, b) => a.range.start.line == b.range.start.line
  let noTree := out.any fun fr => fr.ast.isNone
  v := { v with nontrivial := out.any (fun fr => fr.diags.length ≥ 2),
                dist := (if sameLine then bump v.dist "several diagnostics on one line" else v.dist) }
  v := { v with dist := if noTree then bump v.dist "file without tree" else v.dist }
  match differing with
  | .null => pure ()
  | d => v := v.addDetail "differing" ((d.getObjVal? "how").toOption.getD .null)
  return v

/-- C12: replay the history on the model of parser.rs (parse = the implementation's syntax stage) -/
def opHistory (j : Json) : R Verdict := do
  let impl ← fld j "impl"
  let outcome ← str (← fld impl "outcome")
  if outcome ≠ "ok" then
    return { corr := [("outcome", false)], detail := [("impl_outcome", Json.str outcome)] }
  let table ← list (fun e => do
    pure ((← str (← fld e "content")), (← fileResult (← fld e "result")))) (← fld impl "parse_table")
  let parse : ParseFn := fun c => match table.lookup c with
    | some fr => (fr.ast, fr.diags)
    | none => (none, [])
  let opsJ ← arr (← fld j "ops")
  -- every op comes with the file system it sees (the harness rewrites the files between steps)
  let mut ops : List (Op × Except String String) := []
  for oj in opsJ do
    let a ← arr oj
    match (← str a[0]!) with
    | "add" => ops := ops ++ [(Op.add (← str a[1]!) (← str a[2]!), .error "unused")]
    | "remove" => ops := ops ++ [(Op.remove (← str a[1]!), .error "unused")]
    | "validate" => ops := ops ++ [(Op.validate, .error "unused")]
    | "add_file" =>
      let path ← str a[1]!
      match a[2]! with
      | .str _ => ops := ops ++ [(Op.addFile path, .error "io")]
      | t => do
        let ta ← arr t
        ops := ops ++ [(Op.addFile path, .ok (← str ta[1]!))]
    | s => throw s!"op {s}"
  let merged : Store := ops.foldl (fun s (op, fsys) => (step parse (fun _ => fsys) HashOrder.id s op).1) []
  let final ← list fileResult (← fld impl "final")
  let model := (validate HashOrder.id merged.values).toOption.map sortById
  let steps ← arr (← fld impl "steps")
  let allSame := (← steps.toList.mapM (fun s => do bool (← fld s "same_as_fresh"))).all id
  let idsOk := (← steps.toList.mapM (fun s => do bool (← fld s "ids_ok"))).all id
  -- io results: ok exactly for readable UTF-8 files
  let ioOk := (← (steps.toList.zip ops).mapM (fun (s, (op, fsys)) => do
    let io := (s.getObjVal? "io").toOption.getD .null
    match op with
    | .addFile _ => pure (match fsys, io with
        | .ok _, .str "ok" => true
        | .error _, .str "err" => true
        | _, _ => false)
    | _ => pure (io == .null))).all id
  let mut v : Verdict := {}
  v := v.addCorr "C12" (model == some final)
  v := v.addSpec "C12" (allSame && ioOk)
  -- C01: after every step the validated map holds exactly one result per id in the parser, tagged with it;
  -- the model's store after the history has exactly the implementation's ids
  v := v.addCorr "C01" ((merged.map (·.1)).mergeSort == (final.map (·.id)).mergeSort)
  v := v.addSpec "C01" idsOk
  v := { v with nontrivial := ops.length ≥ 2, dist := bump v.dist s!"len~{min (ops.length / 5 * 5) 40}" }
  return v

/-- C13: one target file inside two projects -/
def opPerturb (j : Json) : R Verdict := do
  let impl ← fld j "impl"
  let outcome ← str (← fld impl "outcome")
  if outcome ≠ "ok" then
    return { corr := [("outcome", false)], detail := [("impl_outcome", Json.str outcome)] }
  let target ← str (← fld j "target")
  let how ← str (← fld j "how")
  let s1 ← list fileResult (← fld impl "stage1_a")
  let s2 ← list fileResult (← fld impl "stage1_b")
  let o1 ← list fileResult (← fld impl "out_a")
  let o2 ← list fileResult (← fld impl "out_b")
  let d1 := collectItemKeys s1
  let d2 := collectItemKeys s2
  let find (l : List FileResult) := l.find? (fun fr => fr.id == target)
  let mut v : Verdict := {}
  match find s1, find s2, find o1, find o2 with
  | some t1, some t2, some r1, some r2 =>
    let m1 := (validateFile HashOrder.id d1 t1).toOption
    let m2 := (validateFile HashOrder.rev d2 t2).toOption
    v := v.addCorr "C13" (m1 == some r1 && m2 == some r2)
    -- the parse stage of a file depends on its own text alone: the same text in the two projects
    -- (whatever the other files hold, in whatever order they were added) has the same syntax-stage result
    let textOf (key : String) : Option String :=
      ((j.getObjVal? key).toOption.bind fun f =>
        (list (fun x => do pure ((← str (← fld x "id")), (← str (← fld x "text")))) f).toOption).bind
        fun l => (l.find? (fun e => e.1 == target)).map (·.2)
    let textSame := match textOf "files", textOf "files_b" with
      | some a, some b => a == b
      | _, _ => false
    -- … and it is what a parser that never held anything else makes of that text
    let soloOk := match (impl.getObjVal? "solo").toOption with
      | none => true
      | some .null => true
      | some sj => match list fileResult sj with
        | .ok [fr] => fr == t1
        | _ => false
    -- both projects were read as written: the facts about the OTHER files (`d1`, `d2`) are not taken from whatever the
    -- implementation made of them — a re-layout of an imported file must leave what it defines alone
    let readOk := sxAsExpected j "expect_sx" s1 && sxAsExpected j "expect_sx_b" s2
    v := v.addSpec "C13" (Spec.C13.holdsPair d1 d2 t1 t2 r1 r2 && (!textSame || t1 == t2) && soloOk && readOk)
    let same := t1 == t2 && Spec.C13.facts d1 t1 == Spec.C13.facts d2 t2
    v := { v with nontrivial := !(Spec.C13.importKeys t1).isEmpty,
                  dist := bump (bump v.dist how) (if same then "facts unchanged" else "facts changed (control)") }
    if !same then v := { v with dist := bump v.dist (if r1 == r2 then "control: result unchanged" else "control: result changed") }
  | _, _, _, _ => v := v.addCorr "C13" false
  return v

/-- C20: (expectation vector, message) pairs recorded by the hook -/
def opExpected (j : Json) : R Verdict := do
  let impl ← fld j "impl"
  let pairsJ ← arr (← fld impl "pairs")
  let mut v : Verdict := {}
  let mut corr := true
  let mut bad : List Json := []       -- violations that are not K1
  let mut k1 : Option Json := none
  let mut sizes : List (String × Nat) := []
  let mut n := 0
  for pj in pairsJ do
    match pj with
    | .str _ => corr := false           -- the implementation panicked on one of the texts
    | _ =>
      let a ← arr pj
      let vec ← list str a[0]!
      let msg ← str a[1]!
      n := n + 1
      sizes := bump sizes s!"size={min vec.length 16}"
      -- the model's wording: the message ends with `expected_token_str(vec)`
      if !(msg.endsWith (expectedTokenStr vec)) then corr := false
      if !(Spec.C20.holds vec msg) then
        if Spec.C20.isK1 vec msg then
          if k1.isNone then
            k1 := some (Json.mkObj [("id", "K1"), ("example", Json.mkObj [("expected", Json.arr (vec.map Json.str).toArray), ("message", msg)])])
        else
          bad := bad ++ [Json.mkObj [("expected", Json.arr (vec.map Json.str).toArray), ("message", msg),
            ("missing", Json.arr ((Spec.C20.missing vec msg).map Json.str).toArray),
            ("foreign", Json.arr ((Spec.C20.foreign vec msg).map Json.str).toArray)]]
  -- self-test of the name recovery on the Lean-proved witness
  let selfTest := Spec.C20.namedIn "Expected one of A or C" == ["A", "C"] && Spec.C20.namedIn "x\nExpected A, B or C" == ["A", "B", "C"]
  v := v.addCorr "C20" (corr && selfTest)
  v := v.addSpec "C20" (bad.isEmpty && k1.isNone)
  v := { v with nontrivial := n > 0, dist := sizes }
  if !bad.isEmpty then
    v := v.addDetail "violations" (Json.arr bad.toArray)
  else match k1 with
    | some k => v := v.addDetail "known_finding" k
    | none => pure ()
  return v

/-- C19: RON round trip of the implementation; emitted-field logs vs the model's `ser` -/
def opSerde (j : Json) : R Verdict := do
  let impl ← fld j "impl"
  let outcome ← str (← fld impl "outcome")
  if outcome ≠ "ok" then
    return { corr := [("outcome", false)], detail := [("impl_outcome", Json.str outcome)] }
  let trees ← arr (← fld impl "trees")
  let mut corr := true
  let mut spec := true
  let mut wf := true
  let mut dist : List (String × Nat) := []
  let mut detail : List (String × Json) := []
  for t in trees do
    let a ← aidl (← fld t "ast")
    let rt ← bool (← fld t "roundtrip_equal")
    let emitted ← list (fun e => do
      let p ← arr e
      pure ((← str p[0]!), (← list str p[1]!))) (← fld t "emitted")
    let v := SerdeEnc.aidl a
    let sv := Serde.ser Gen.schema v
    let mine := SerdeEnc.emitted sv
    if !(Serde.V.wf Gen.schema v) then wf := false
    if mine != emitted then
      corr := false
      if detail.isEmpty then
        let firstBad := (mine.zip emitted).find? (fun (x, y) => x != y)
        detail := [("emitted_diff", Json.mkObj [("model", toString (repr (firstBad.map (·.1)))), ("impl", toString (repr (firstBad.map (·.2))))])]
    -- the model's own round trip (theorem `roundtrip_gen`, evaluated)
    if Serde.de Gen.schema sv != some v then corr := false
    if !rt then
      spec := false
      if detail.isEmpty then detail := [("roundtrip_error", (t.getObjVal? "error").toOption.getD .null), ("ron", (t.getObjVal? "ron").toOption.getD .null)]
    let skipped := (mine.map fun (n, fs) => (Gen.schema.fieldsOf n).length - fs.length).foldl (· + ·) 0
    dist := bump dist s!"skipped_fields~{min (skipped / 10 * 10) 100}"
  let mut v : Verdict := { detail }
  v := v.addCorr "C19" corr
  v := v.addSpec "C19" spec
  v := v.addAssume "C19" wf
  return { v with nontrivial := trees.size > 0, dist }

structure ParseCtx where
  files : List (String × String)                 -- id, text
  lcs : List (String × List (Nat × Nat × Nat))
  stage1 : List FileResult                       -- implementation's syntax stage
  out : List FileResult                          -- implementation's validate()
  model : List (String × Except String FileResult)
  case : Json

/-- parse-level op: the model parses the text itself -/
def opParse (prop : String) (j : Json) (extra : ParseCtx → Verdict → R Verdict) : R Verdict := do
  let impl ← fld j "impl"
  let outcome ← str (← fld impl "outcome")
  let files ← list (fun f => do pure ((← str (← fld f "id")), (← str (← fld f "text")))) (← fld j "files")
  let lcs ← list (fun e => do
    let a ← arr e
    pure ((← str a[0]!), (← Parse.lcTable a[1]!))) (← fld j "lc")
  let model := files.map fun (id, text) => (id, Parse.modelParse id text ((lcs.lookup id).getD []))
  if outcome ≠ "ok" then
    -- the implementation panicked: does the model say so too?
    let modelPanics := model.any fun (_, r) => match r with | .error _ => true | .ok _ => false
    -- whatever the model says, a panic of add_content / validate is a violation of C01
    return { corr := [("outcome", modelPanics), ("parse", modelPanics)], spec := [("C01", false)],
             detail := [("impl_outcome", Json.str outcome), ("impl_msg", (impl.getObjVal? "msg").toOption.getD .null)] }
  let stage1 ← list fileResult (← fld impl "stage1")
  let out ← list fileResult (← fld impl "out")
  let mut v : Verdict := {}
  let mut same := true
  for (id, r) in model do
    match r, stage1.find? (fun fr => fr.id == id) with
    | .ok m, some fr =>
      if m != fr then
        same := false
        if v.detail.isEmpty then
          v := v.addDetail "parse_diff" (Json.mkObj [("id", id), ("ast_equal", decide (m.ast = fr.ast)),
            ("diag", firstDiff encDiag m.diags fr.diags),
            ("model_has_tree", m.ast.isSome), ("impl_has_tree", fr.ast.isSome)])
    | .error e, _ =>
      same := false
      v := v.addDetail "model_outcome" (Json.str e)
    | _, none => same := false
  v := v.addCorr "parse" same
  -- hypothesis `EnvOk` of `Props.ParseTotal.addContent_stops`: the line/column table sent by the
  -- harness is defined on every character boundary of every text
  let envOk := files.all fun (id, text) =>
    let env := Parse.mkEnv text ((lcs.lookup id).getD [])
    let bounds := text.toList.foldl (fun (acc : List Nat × Nat) c => (acc.1 ++ [acc.2 + c.utf8Size], acc.2 + c.utf8Size)) ([0], 0)
    bounds.1.all fun n => (env.lineCol n).isSome
  v := v.addAssume "envok" envOk
  let tagsOk := (impl.getObjVal? "tags_ok").toOption.bind (·.getBool?.toOption) |>.getD true
  v := v.addCorr "outcome" true
  let ctx : ParseCtx := { files, lcs, stage1, out, model, case := j }
  v ← extra ctx v
  let _ := tagsOk
  let _ := prop
  return v

def hasError (ds : List Diag) : Bool := ds.any fun d => d.kind == .error

/-- multiset inclusion of diagnostics -/
def diagsIncluded (a b : List Diag) : Bool := a.all fun d => a.count d ≤ b.count d

structure SpanExp where
  what : String
  name : String
  ns : Option Nat
  ne : Option Nat
  first : Nat
  lastEnd : Nat
  termEnd : Option Nat
  annEnd : Option Nat

def spanExp (j : Json) : R SpanExp := do
  let on (k : String) : R (Option Nat) := do
    match ← fld j k with
    | .null => pure none
    | x => some <$> nat x
  pure { what := ← str (← fld j "what"), name := ← str (← fld j "name"), ns := ← on "ns", ne := ← on "ne",
         first := ← nat (← fld j "first"), lastEnd := ← nat (← fld j "last_end"), termEnd := ← on "term_end",
         annEnd := ← on "ann_end" }

/-- C04: a construct's ranges against the generator's token table -/
def spanOk (c : String × String × Range × Range) (e : SpanExp) : Bool :=
  let (what, name, sym, full) := c
  what == e.what
  && (e.what != "type" && e.what != "arg" || true)
  && (name == e.name || e.what == "arg")
  -- the name range spans exactly the name as written
  && (match e.ns, e.ne with
      | some a, some b => sym.start.off == a && sym.stop.off == b
      | _, _ => true)
  -- the full range starts at the construct's first token, or (after annotations) anywhere in the
  -- whitespace / comments that follow them
  && (full.start.off == e.first || (match e.annEnd with
        | some a => a ≤ full.start.off && full.start.off ≤ e.first
        | none => false))
  -- … and ends at its last token, optionally including the terminator
  && (full.stop.off == e.lastEnd || some full.stop.off == e.termEnd)

def parseExtras (prop : String) (c : ParseCtx) (v : Verdict) : R Verdict := do
  let mut v := v
  let j := c.case
  let verdict := (j.getObjVal? "verdict").toOption.bind (·.getStr?.toOption) |>.getD "unknown"
  let impl ← fld j "impl"
  if prop == "C01" || prop == "all" then
    let tagsOk := (impl.getObjVal? "tags_ok").toOption.bind (·.getBool?.toOption) |>.getD false
    let idsOk := (c.out.map (·.id)) == ((c.files.map (·.1)).toArray.qsort (· < ·)).toList.eraseDups
    -- model of validation on the model's own parse results == implementation
    let modelStage1 := c.model.filterMap fun (_, r) => r.toOption
    let mv := (validate HashOrder.id (sortById modelStage1)).toOption.map sortById
    v := v.addCorr "C01" (mv == some c.out)
    v := v.addSpec "C01" (tagsOk && idsOk)
    let bytes := (c.files.map fun f => f.2.utf8ByteSize).foldl (· + ·) 0
    v := { v with nontrivial := bytes > 0,
                  dist := bump (bump v.dist s!"files={c.files.length}") s!"bytes~{if bytes < 100 then 0 else if bytes < 1000 then 100 else if bytes < 10000 then 1000 else 10000}" }
  if prop == "C02" || prop == "all" then
    match (j.getObjVal? "expect_sx").toOption.bind (·.getStr?.toOption) with
    | some sx =>
      let ok := c.stage1.all fun fr => match fr.ast with
        | some a => Spec.PL.sxAidl a == sx
        | none => false
      v := v.addSpec "C02" ok
      if !ok then
        v := v.addDetail "expected_sx" (Json.str sx)
        v := v.addDetail "got_sx" (Json.str ((c.stage1.head?.bind (·.ast)).map Spec.PL.sxAidl |>.getD "<no tree>"))
      v := { v with nontrivial := true, dist := bump v.dist s!"sx_len~{min (sx.length / 200 * 200) 2000}" }
    | none => pure ()
    -- hypothesis of `C02Layout.layout_independent`: this layout and the reference layout of the same
    -- document have the same token sequence; its conclusion, seen on the model: equal trees after erasure
    match (j.getObjVal? "ref_text").toOption.bind (·.getStr?.toOption) with
    | some ref =>
      for (_, text) in c.files do
        let t1 := Lr.lexToks Parse.tables (text.toList.length + 1) text.toList 0
        let t2 := Lr.lexToks Parse.tables (ref.toList.length + 1) ref.toList 0
        v := v.addAssume "samelex" (t1.isSome && t1 == t2)
    | none => pure ()
  if prop == "C03" || prop == "all" then
    let s1 := c.stage1
    let wfOk := verdict != "wf" || s1.all fun fr => fr.ast.isSome && fr.diags.isEmpty
    let badOk := verdict != "bad" || s1.all fun fr => hasError fr.diags
    let neverSilent := (s1 ++ c.out).all fun fr => fr.ast.isSome || hasError fr.diags
    let kept := (zipById s1 c.out).all fun (a, b) => diagsIncluded a.diags b.diags
    let names := (s1 ++ c.out).all fun fr => match fr.ast with | some a => Spec.PL.noKeywordNames a | none => true
    -- the hypothesis of `ParseSound.accepted_derives_run` seen from outside: whenever the model's error
    -- recovery ran, the syntax stage reports an Error (so "no Error" implies "no recovery")
    let recoveryReported := c.files.all fun (id, text) =>
      !(Parse.modelRecovered text ((c.lcs.lookup id).getD [])) ||
        (match c.stage1.find? (fun fr => fr.id == id) with
         | some fr => hasError fr.diags
         | none => true)
    v := v.addSpec "C03" (wfOk && badOk && neverSilent && kept && names && recoveryReported)
    if !(wfOk && badOk && neverSilent && kept && names) then
      v := v.addDetail "C03" (Json.mkObj [("wf", wfOk), ("bad", badOk), ("never_silent", neverSilent), ("kept", kept), ("names", names), ("recovery_reported", recoveryReported)])
    let how := (j.getObjVal? "how").toOption.bind (·.getStr?.toOption) |>.getD verdict
    let kind := if s1.all (fun fr => fr.ast.isSome && fr.diags.isEmpty) then "accepted" else if s1.all (·.ast.isSome) then "recovered" else "rejected"
    v := { v with nontrivial := true, dist := bump (bump v.dist how) kind }
  if prop == "C04" || prop == "all" then
    let lcOf (id : String) := (c.lcs.lookup id).getD []
    let wf := (c.stage1 ++ c.out).all fun fr =>
      let lc := lcOf fr.id
      (Spec.PL.diagRanges fr.diags).all (Spec.PL.rangeOk lc)
      && (match fr.ast with
          | some a => (Spec.PL.allRanges a).all (Spec.PL.rangeOk lc) && Spec.PL.nested a
          | none => true)
    -- every diagnostic that validation adds sits on a range of the tree, or is the empty range at the start of a type's
    -- name (where a missing direction is reported): a diagnostic that names a node lies on that node
    let valOk := (zipById c.stage1 c.out).all fun (s, o) =>
      match s.ast with
      | none => true
      | some a =>
        let rs := Spec.PL.allRanges a
        let tyStarts := ((Spec.methodsOf a).flatMap fun m => m.args.map fun x => x.argType.sym.start.off)
        let added := o.diags.filter fun d => !(s.diags.contains d)
        (Spec.PL.diagRanges added).all fun r =>
          rs.contains r || (r.start.off == r.stop.off && tyStarts.contains r.start.off)
    let wf := wf && valOk
    let mut exact := true
    match (j.getObjVal? "expect_spans").toOption with
    | some sj =>
      let spans ← list spanExp sj
      for fr in c.stage1 do
        match fr.ast with
        | some a =>
          let cs := Spec.PL.constructs a
          if cs.length != spans.length then exact := false
          else
            for (cst, e) in cs.zip spans do
              if !(spanOk cst e) then
                exact := false
                if !(v.detail.any (·.1 == "span")) then
                  v := v.addDetail "span" (Json.mkObj [("what", e.what), ("name", e.name),
                    ("sym", encRange cst.2.2.1), ("full", encRange cst.2.2.2), ("first", e.first), ("last_end", e.lastEnd)])
        | none => exact := false
    | none => pure ()
    -- a name range spans exactly the name as written: whatever the input (well-formed, mutated, recovered), it
    -- neither begins nor ends with white space or a comment delimiter
    let isEdgeBad (ch : Char) : Bool :=
      ch = ' ' || ch = '\t' || ch = '\n' || ch = '\r' || ch = '/' || ch.toNat = 0x0B || ch.toNat = 0x0C || ch.toNat = 0x85
        || ch.toNat = 0xA0 || ch.toNat = 0x1680 || (0x2000 ≤ ch.toNat && ch.toNat ≤ 0x200A) || ch.toNat = 0x2028
        || ch.toNat = 0x2029 || ch.toNat = 0x202F || ch.toNat = 0x205F || ch.toNat = 0x3000
    let edgesOk := c.stage1.all fun fr =>
      match fr.ast, c.files.lookup fr.id with
      | some a, some text =>
        (Spec.PL.constructs a).all fun cst =>
          let r := cst.2.2.1
          if r.start.off < r.stop.off then
            let sl := (sliceText text r.start.off r.stop.off).toList
            !(sl.head?.map isEdgeBad |>.getD false) && !(sl.getLast?.map isEdgeBad |>.getD false)
          else true
      | _, _ => true
    v := v.addSpec "C04" (wf && exact && edgesOk)
    if !edgesOk then v := v.addDetail "C04_edges" (Json.str "a name range begins or ends with white space or a comment delimiter")
    if !wf then v := v.addDetail "C04" (Json.str "ill-formed or badly nested range")
    let nr := (c.stage1.map fun fr => (fr.ast.map Spec.PL.allRanges |>.getD []).length + (Spec.PL.diagRanges fr.diags).length).foldl (· + ·) 0
    v := { v with nontrivial := nr > 0, dist := bump v.dist s!"ranges~{min (nr / 20 * 20) 200}" }
  if prop == "C14" || prop == "all" then
    match (j.getObjVal? "garbage").toOption with
    | some g =>
      let gs ← nat (← fld g "start")
      let ge ← nat (← fld g "end")
      let siblings ← list str (← fld g "siblings")
      let ok := c.stage1.all fun fr =>
        match fr.ast with
        | none => false
        | some a =>
          -- every well-formed sibling appears, in order and unchanged
          siblings.isSublist (Spec.PL.sxMembers a)
          -- at least one Error
          && hasError fr.diags
          -- every syntax Error lies within the extent of the malformed member
          && fr.diags.all (fun d => d.kind != .error || (gs ≤ d.range.start.off && d.range.stop.off ≤ ge))
      -- … and the malformed member still costs an Error after validation: every file keeps its tree and at least one Error
      -- (a validation that merges or replaces diagnostics must not make the syntax Error disappear)
      let okOut := c.out.all fun fr => fr.ast.isSome && hasError fr.diags
      v := v.addSpec "C14" (ok && okOut)
      -- K2 (known finding): inside an enum body `,` is also the separator of annotation parameters, so a
      -- malformed element with an unclosed `(` does not end at its `,`: the following element is swallowed
      let gtoks := ((g.getObjVal? "tokens").toOption.bind (fun t => (list str t).toOption)).getD []
      let isEnum := ((g.getObjVal? "enum").toOption.bind (·.getBool?.toOption)).getD false
      let k2 := isEnum && (gtoks.filter (· == "(")).length > (gtoks.filter (· == ")")).length
      if !(ok && okOut) && k2 then
        v := v.addDetail "known_finding" (Json.mkObj [("id", "K2"), ("example", Json.arr (gtoks.map Json.str).toArray)])
      if !ok then
        v := v.addDetail "C14" (Json.mkObj [("garbage", Json.arr #[gs, ge]),
          ("members", Json.arr ((c.stage1.head?.bind (·.ast)).map Spec.PL.sxMembers |>.getD [] |>.map Json.str).toArray),
          ("diags", Json.arr ((c.stage1.head?.map (·.diags)).getD [] |>.map encDiag).toArray)])
      let pos := (g.getObjVal? "position").toOption.bind (·.getNat?.toOption) |>.getD 0
      let kind := (c.stage1.head?.bind (·.ast)).map (fun a => match a.item with
        | .interface _ => "interface" | .parcelable _ => "parcelable" | .enum _ => "enum") |>.getD "none"
      v := { v with nontrivial := true, dist := bump (bump v.dist s!"position={min pos 4}") kind }
    | none => pure ()
  if prop == "C20" then
    -- the expectations named in a syntax diagnostic are the ones the regenerated tables give at that point:
    -- the messages of the implementation are the messages of the model (which formats `expected` as the code does)
    let msgsOk := c.model.all fun (id, r) =>
      match r, c.stage1.find? (fun fr => fr.id == id) with
      | .ok m, some fr => m.diags.map (·.message) == fr.diags.map (·.message)
      | _, _ => true
    v := v.addSpec "C20" msgsOk
    if !msgsOk then
      v := v.addDetail "C20_messages" (Json.mkObj [
        ("model", Json.arr ((c.model.flatMap fun (_, r) => match r with | .ok m => m.diags.map (·.message) | _ => []).map Json.str).toArray),
        ("impl", Json.arr ((c.stage1.flatMap fun fr => fr.diags.map (·.message)).map Json.str).toArray)])
    v := { v with nontrivial := c.stage1.any (fun fr => !fr.diags.isEmpty) }
  if prop == "C18" || prop == "all" then
    -- the model of javadoc.rs is the proved specification (`parseJavadoc_eq_spec`, `parseJavadoc_structured`,
    -- `getJavadoc_doc`): a documentation field that differs from the model's is a violation with this text as
    -- the failing input, not only a broken correspondence
    let docsOfTree (a : AidlFile) : List (Option String) :=
      match a.item with
      | .interface i => i.doc :: i.elements.flatMap fun
          | .method m => m.doc :: m.args.map (·.doc)
          | .const k => [k.doc]
      | .parcelable p => p.doc :: p.elements.map fun | .field f => f.doc | .const k => k.doc
      | .enum e => e.doc :: e.elements.map (·.doc)
    let modelDocsOk := c.model.all fun (id, r) =>
      match r, c.stage1.find? (fun fr => fr.id == id) with
      | .ok m, some fr =>
        match m.ast, fr.ast with
        | some a, some b => docsOfTree a == docsOfTree b
        | _, _ => true
      | _, _ => true
    if !modelDocsOk then
      v := (v.addSpec "C18" false).addDetail "C18_model_docs" (Json.str "a documentation field differs from the specification's")
    match (j.getObjVal? "docs").toOption with
    | some dj =>
      let expected ← list optStr (← fld dj "expected")
      let sits ← list str (← fld dj "situations")
      let docsOf (a : AidlFile) : List (Option String) :=
        match a.item with
        | .interface i => i.doc :: i.elements.flatMap fun
            | .method m => m.doc :: m.args.map (·.doc)
            | .const k => [k.doc]
        | .parcelable p => p.doc :: p.elements.map fun | .field f => f.doc | .const k => k.doc
        | .enum e => e.doc :: e.elements.map (·.doc)
      let got := (c.stage1.head?.bind (·.ast)).map docsOf
      v := v.addSpec "C18" (got == some expected)
      if got != some expected then
        let firstBad := ((got.getD []).zip expected).find? (fun (a, b) => a != b)
        v := v.addDetail "C18" (Json.mkObj [("got", toString (repr (firstBad.map (·.1)))), ("expected", toString (repr (firstBad.map (·.2))))])
      v := { v with nontrivial := expected.any (·.isSome), dist := sits.foldl bump v.dist }
    | none => pure ()
  return v

def handle (prop : String) (line : String) : Json :=
  match Json.parse line with
  | .error e => Json.mkObj [("error", s!"json: {e}")]
  | .ok j =>
    let case := (j.getObjVal? "case").toOption.getD Json.null
    match (do
      let op ← str (← fld j "op")
      match op with
      | "validate" => opValidate prop j
      | "walk" => opWalk prop j
      | "determinism" => opDeterminism j
      | "history" => opHistory j
      | "perturb" => opPerturb j
      | "expected" => opExpected j
      | "serde" => opSerde j
      | "parse" => opParse prop j (parseExtras prop)
      | _ => throw s!"unknown op {op}" : R Verdict) with
    | .ok v =>
      -- the same contents reached through a history on one parser gave other answers than the fresh parser:
      -- whatever the property, it speaks about what the library returns in any use
      let historyBad := match (j.getObjVal? "impl").toOption.bind (fun i => (i.getObjVal? "history_same").toOption) with
        | some (.bool false) => true
        | _ => false
      -- a file parsed alone (fresh parser, fresh thread) has another syntax-stage result than inside the project
      let soloBad := match (j.getObjVal? "impl").toOption.bind (fun i => (i.getObjVal? "solo_same").toOption) with
        | some (.bool false) => true
        | _ => false
      -- the same texts read from disk with `add_file` gave other results than `add_content` of the same texts
      let fileBad := match (j.getObjVal? "impl").toOption.bind (fun i => (i.getObjVal? "file_same").toOption) with
        | some (.bool false) => true
        | _ => false
      let v := if fileBad && prop != "all" then
          (v.addSpec prop false).addDetail "file" (Json.str "add_file of the same texts gives other results than add_content")
        else v
      let v := if soloBad && prop != "all" then
          (v.addSpec prop false).addDetail "solo" (Json.str "the syntax-stage result of a file inside the project differs from that of the file alone")
        else v
      let v := if historyBad && prop != "all" then
          (v.addSpec prop false).addDetail "history" ((j.getObjVal? "impl").toOption.bind (fun i => (i.getObjVal? "history_ops").toOption) |>.getD Json.null)
        else v
      v.toJson case
    | .error e => Json.mkObj [("case", case), ("error", e)]

partial def loop (prop : String) (hin : IO.FS.Stream) (hout : IO.FS.Stream) : IO Unit := do
  let line ← hin.getLine
  if line.isEmpty then return ()
  if line.trimAscii.toString.isEmpty then loop prop hin hout else
  hout.putStrLn (handle prop line).compress
  loop prop hin hout

def main (args : List String) : IO UInt32 := do
  let hin ← IO.getStdin
  let hout ← IO.getStdout
  loop (args.headD "all") hin hout
  hout.flush
  return 0

end Aidl.Driver
