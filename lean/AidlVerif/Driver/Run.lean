import AidlVerif.Driver.Codec
import AidlVerif.Model.Validation

/-
  Model driver: one JSON case per input line, one JSON verdict per output line.

  For every case it (1) runs the executable model on the case's input, (2) compares the
  property projections of the model's output with those of the implementation's output
  (`corr`), and (3) evaluates the executable specifications of `Spec/*` on the implementation's
  output (`spec`). Nothing here is trusted by the theorems; it is the correspondence check.
-/

namespace Aidl.Driver
open Lean (Json)
open Aidl.Codec

structure Verdict where
  corr : List (String × Bool) := []
  spec : List (String × Bool) := []
  detail : List (String × Json) := []

def Verdict.toJson (case : Json) (v : Verdict) : Json :=
  Json.mkObj [("case", case),
    ("corr", Json.mkObj (v.corr.map (fun (k, b) => (k, Json.bool b)))),
    ("spec", Json.mkObj (v.spec.map (fun (k, b) => (k, Json.bool b)))),
    ("detail", Json.mkObj v.detail)]

def firstDiff {α} [DecidableEq α] (enc : α → Json) (a b : List α) : Json :=
  let rec go (i : Nat) : List α → List α → Json
    | [], [] => Json.null
    | x :: xs, y :: ys => if x = y then go (i+1) xs ys else
        Json.mkObj [("index", i), ("model", enc x), ("impl", enc y)]
    | x :: _, [] => Json.mkObj [("index", i), ("model", enc x), ("impl", Json.null)]
    | [], y :: _ => Json.mkObj [("index", i), ("model", Json.null), ("impl", enc y)]
  go 0 a b

def sortById (l : List FileResult) : List FileResult :=
  (l.toArray.qsort (fun a b => a.id < b.id)).toList

def opValidate (j : Json) : R Verdict := do
  let impl ← fld j "impl"
  let outcome ← str (← fld impl "outcome")
  if outcome ≠ "ok" then
    return { corr := [("outcome", false)], detail := [("impl_outcome", Json.str outcome)] }
  let stage1 ← list fileResult (← fld impl "stage1")
  let out ← list fileResult (← fld impl "out")
  let mut v : Verdict := {}
  for (name, ho) in [("id", HashOrder.id), ("rev", HashOrder.rev)] do
    match validate ho stage1 with
    | .error e =>
      v := { v with corr := v.corr ++ [("outcome", false)], detail := v.detail ++ [("model_panic", Json.str e)] }
    | .ok m =>
      let m := sortById m
      let same := decide (m = out)
      v := { v with corr := v.corr ++ [("full_" ++ name, same)] }
      if !same then
        let d := (m.zip out).filterMap (fun (a, b) =>
          if a = b then none else
            some (Json.mkObj [("id", a.id), ("ast_equal", decide (a.ast = b.ast)),
              ("diag", firstDiff encDiag a.diags b.diags)]))
        v := { v with detail := v.detail ++ [("diff_" ++ name, Json.arr d.toArray)] }
  return v

def handle (line : String) : Json :=
  match Json.parse line with
  | .error e => Json.mkObj [("error", s!"json: {e}")]
  | .ok j =>
    let case := (j.getObjVal? "case").toOption.getD Json.null
    match (do
      let op ← str (← fld j "op")
      match op with
      | "validate" => opValidate j
      | _ => throw s!"unknown op {op}" : R Verdict) with
    | .ok v => v.toJson case
    | .error e => Json.mkObj [("case", case), ("error", e)]

partial def loop (hin : IO.FS.Stream) (hout : IO.FS.Stream) : IO Unit := do
  let line ← hin.getLine
  if line.isEmpty then return ()
  if line.trimAscii.toString.isEmpty then loop hin hout else
  hout.putStrLn (handle line).compress
  loop hin hout

def main (_args : List String) : IO UInt32 := do
  let hin ← IO.getStdin
  let hout ← IO.getStdout
  loop hin hout
  hout.flush
  return 0

end Aidl.Driver
