import Lean.Data.Json
import AidlVerif.Model.Ast

/-
  JSON codec shared by the model driver and the Rust harness (which has its own printer of the
  same shape, written against the public fields of `ast.rs` — not serde, whose attributes are
  under test in C19).
-/

namespace Aidl.Codec
open Lean (Json)

abbrev R := Except String

def arr (j : Json) : R (Array Json) := j.getArr?
def str (j : Json) : R String := j.getStr?
def nat (j : Json) : R Nat := j.getNat?
def bool (j : Json) : R Bool := j.getBool?
def fld (j : Json) (k : String) : R Json := j.getObjVal? k

def optStr (j : Json) : R (Option String) :=
  match j with
  | .null => pure none
  | _ => some <$> str j

def list {α} (f : Json → R α) (j : Json) : R (List α) := do
  let a ← arr j
  a.toList.mapM f

def range (j : Json) : R Range := do
  let a ← arr j
  if a.size ≠ 6 then throw "range: expected 6 numbers"
  let n (i : Nat) : R Nat := nat a[i]!
  pure { start := { off := ← n 0, line := ← n 1, col := ← n 2 },
         stop := { off := ← n 3, line := ← n 4, col := ← n 5 } }

def rkind (s : String) : R RKind :=
  match s with
  | "interface" => pure .interface
  | "parcelable" => pure .parcelable
  | "enum" => pure .enum
  | "fwd" => pure .fwd
  | "unknown_import" => pure .unknownImport
  | _ => throw s!"rkind: {s}"

def akind (s : String) : R AKind :=
  match s with
  | "IBinder" => pure .iBinder
  | "FileDescriptor" => pure .fileDescriptor
  | "ParcelFileDescriptor" => pure .parcelFileDescriptor
  | "ParcelableHolder" => pure .parcelableHolder
  | _ => throw s!"akind: {s}"

def typeKind (j : Json) : R TypeKind := do
  let a ← arr j
  let tag ← str a[0]!
  match tag with
  | "primitive" => pure .primitive
  | "void" => pure .void
  | "array" => pure .array
  | "map" => pure .map
  | "list" => pure .list
  | "string" => pure .string
  | "char_sequence" => pure .charSequence
  | "unresolved" => pure .unresolved
  | "android" => do pure (.android (← akind (← str a[1]!)))
  | "resolved" => do pure (.resolved (← str a[1]!) (← rkind (← str a[2]!)))
  | _ => throw s!"typeKind: {tag}"

partial def ty (j : Json) : R Ty := do
  let gens ← (← arr (← fld j "g")).toList.mapM ty
  pure (.mk (← str (← fld j "n")) (← typeKind (← fld j "k")) gens (← range (← fld j "s")) (← range (← fld j "f")))

def annotation (j : Json) : R Annotation := do
  let kv ← list (fun e => do
    let a ← arr e
    pure ((← str a[0]!), (← optStr a[1]!))) (← fld j "kv")
  pure { name := ← str (← fld j "n"), keyValues := kv }

def direction (j : Json) : R Direction := do
  let a ← arr j
  match (← str a[0]!) with
  | "in" => do pure (.in_ (← range a[1]!))
  | "out" => do pure (.out (← range a[1]!))
  | "inout" => do pure (.inout (← range a[1]!))
  | "unspecified" => pure .unspecified
  | s => throw s!"direction: {s}"

def optNat (j : Json) : R (Option Nat) :=
  match j with
  | .null => pure none
  | _ => some <$> nat j

def arg (j : Json) : R Arg := do
  pure { direction := ← direction (← fld j "dir"), name := ← optStr (← fld j "name"),
         argType := ← ty (← fld j "ty"), annotations := ← list annotation (← fld j "ann"),
         doc := ← optStr (← fld j "doc"), sym := ← range (← fld j "s"), full := ← range (← fld j "f") }

def method (j : Json) : R Method := do
  pure { oneway := ← bool (← fld j "oneway"), name := ← str (← fld j "name"),
         returnType := ← ty (← fld j "ret"), args := ← list arg (← fld j "args"),
         annotations := ← list annotation (← fld j "ann"), transactCode := ← optNat (← fld j "code"),
         doc := ← optStr (← fld j "doc"), sym := ← range (← fld j "s"), full := ← range (← fld j "f"),
         transactCodeRange := ← range (← fld j "cr"), onewayRange := ← range (← fld j "or") }

def const (j : Json) : R Const := do
  pure { name := ← str (← fld j "name"), constType := ← ty (← fld j "ty"), value := ← str (← fld j "value"),
         annotations := ← list annotation (← fld j "ann"), doc := ← optStr (← fld j "doc"),
         sym := ← range (← fld j "s"), full := ← range (← fld j "f") }

def field (j : Json) : R Field := do
  pure { name := ← str (← fld j "name"), fieldType := ← ty (← fld j "ty"), value := ← optStr (← fld j "value"),
         annotations := ← list annotation (← fld j "ann"), doc := ← optStr (← fld j "doc"),
         sym := ← range (← fld j "s"), full := ← range (← fld j "f") }

def enumElement (j : Json) : R EnumElement := do
  pure { name := ← str (← fld j "name"), value := ← optStr (← fld j "value"), doc := ← optStr (← fld j "doc"),
         sym := ← range (← fld j "s"), full := ← range (← fld j "f") }

def interfaceElement (j : Json) : R InterfaceElement := do
  let a ← arr j
  match (← str a[0]!) with
  | "method" => do pure (.method (← method a[1]!))
  | "const" => do pure (.const (← const a[1]!))
  | s => throw s!"interfaceElement: {s}"

def parcelableElement (j : Json) : R ParcelableElement := do
  let a ← arr j
  match (← str a[0]!) with
  | "field" => do pure (.field (← field a[1]!))
  | "const" => do pure (.const (← const a[1]!))
  | s => throw s!"parcelableElement: {s}"

def interface_ (ob : Json) : R Interface := do
  pure { oneway := ← bool (← fld ob "oneway"), name := ← str (← fld ob "name"),
         elements := ← list interfaceElement (← fld ob "els"), annotations := ← list annotation (← fld ob "ann"),
         doc := ← optStr (← fld ob "doc"), full := ← range (← fld ob "f"), sym := ← range (← fld ob "s") }

def parcelable (ob : Json) : R Parcelable := do
  pure { name := ← str (← fld ob "name"),
         elements := ← list parcelableElement (← fld ob "els"), annotations := ← list annotation (← fld ob "ann"),
         doc := ← optStr (← fld ob "doc"), full := ← range (← fld ob "f"), sym := ← range (← fld ob "s") }

def enum_ (ob : Json) : R Enum := do
  pure { name := ← str (← fld ob "name"),
         elements := ← list enumElement (← fld ob "els"), annotations := ← list annotation (← fld ob "ann"),
         doc := ← optStr (← fld ob "doc"), full := ← range (← fld ob "f"), sym := ← range (← fld ob "s") }

def item (j : Json) : R Item := do
  let a ← arr j
  match (← str a[0]!) with
  | "interface" => do pure (.interface (← interface_ a[1]!))
  | "parcelable" => do pure (.parcelable (← parcelable a[1]!))
  | "enum" => do pure (.enum (← enum_ a[1]!))
  | s => throw s!"item: {s}"

def package (j : Json) : R Package := do
  pure { name := ← str (← fld j "name"), sym := ← range (← fld j "s"), full := ← range (← fld j "f") }

def import_ (j : Json) : R Import := do
  pure { path := ← str (← fld j "path"), name := ← str (← fld j "name"),
         sym := ← range (← fld j "s"), full := ← range (← fld j "f") }

def aidl (j : Json) : R AidlFile := do
  pure { package := ← package (← fld j "pkg"), imports := ← list import_ (← fld j "imports"),
         declaredParcelables := ← list import_ (← fld j "decls"), item := ← item (← fld j "item") }

def optAidl (j : Json) : R (Option AidlFile) :=
  match j with
  | .null => pure none
  | _ => some <$> aidl j

def diagKind (s : String) : R DiagKind :=
  match s with
  | "E" => pure .error
  | "W" => pure .warning
  | _ => throw s!"diagKind: {s}"

def related (j : Json) : R RelatedInfo := do
  let a ← arr j
  pure { range := ← range a[0]!, message := ← str a[1]! }

def diag (j : Json) : R Diag := do
  pure { kind := ← diagKind (← str (← fld j "kind")), range := ← range (← fld j "r"),
         message := ← str (← fld j "msg"), context := ← optStr (← fld j "ctx"),
         hint := ← optStr (← fld j "hint"), related := ← list related (← fld j "rel") }

def fileResult (j : Json) : R FileResult := do
  pure { id := ← str (← fld j "id"), ast := ← optAidl (← fld j "ast"), diags := ← list diag (← fld j "diags") }

/-! ### encoders (for debugging output and replays) -/

def encRange (r : Range) : Json :=
  Json.arr #[r.start.off, r.start.line, r.start.col, r.stop.off, r.stop.line, r.stop.col]

def encOptStr : Option String → Json
  | none => .null
  | some s => .str s

def encRKind : RKind → String
  | .interface => "interface" | .parcelable => "parcelable" | .enum => "enum"
  | .fwd => "fwd" | .unknownImport => "unknown_import"

def encTypeKind : TypeKind → Json
  | .primitive => Json.arr #["primitive"]
  | .void => Json.arr #["void"]
  | .array => Json.arr #["array"]
  | .map => Json.arr #["map"]
  | .list => Json.arr #["list"]
  | .string => Json.arr #["string"]
  | .charSequence => Json.arr #["char_sequence"]
  | .unresolved => Json.arr #["unresolved"]
  | .android a => Json.arr #["android", a.name]
  | .resolved k r => Json.arr #["resolved", k, encRKind r]

partial def encTy (t : Ty) : Json :=
  Json.mkObj [("n", t.name), ("k", encTypeKind t.kind), ("g", Json.arr (t.gens.map encTy).toArray),
              ("s", encRange t.sym), ("f", encRange t.full)]

def encDiag (d : Diag) : Json :=
  Json.mkObj [("kind", match d.kind with | .error => "E" | .warning => "W"), ("r", encRange d.range),
    ("msg", d.message), ("ctx", encOptStr d.context), ("hint", encOptStr d.hint),
    ("rel", Json.arr (d.related.map (fun r => Json.arr #[encRange r.range, r.message])).toArray)]

end Aidl.Codec
