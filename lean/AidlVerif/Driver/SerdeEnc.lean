import AidlVerif.Model.Ast
import AidlVerif.Model.Serde

/-!
Encoding of a tree as serde's data model sees it (`V`), following the field order of
`/repo/src/ast.rs`. The schema (field names, skip predicates, defaults) is NOT written here: it is
regenerated from ast.rs (`Gen.SerdeSpec`); a reordering or a new field there makes the emitted-field
logs disagree with the implementation's.
-/

namespace Aidl.SerdeEnc
open Aidl.Serde

def pos (p : Pos) : V := .struct "Position" [.nat p.off, .seq [.nat p.line, .nat p.col]]
def range (r : Range) : V := .struct "Range" [pos r.start, pos r.stop]
def optStr : Option String → V
  | none => .none_
  | some s => .some_ (.str s)

def rkind : RKind → V
  | .interface => .variant "Interface" []
  | .parcelable => .variant "Parcelable" []
  | .enum => .variant "Enum" []
  | .fwd => .variant "ForwardDeclaredParcelable" []
  | .unknownImport => .variant "UnknownImport" []

def typeKind : TypeKind → V
  | .primitive => .variant "Primitive" []
  | .void => .variant "Void" []
  | .array => .variant "Array" []
  | .map => .variant "Map" []
  | .list => .variant "List" []
  | .string => .variant "String" []
  | .charSequence => .variant "CharSequence" []
  | .android a => .variant "AndroidType" [.variant a.name []]
  | .resolved k r => .variant "ResolvedItem" [.str k, rkind r]
  | .unresolved => .variant "Unresolved" []

mutual
def ty : Ty → V
  | .mk n k g s f => .struct "Type" [.str n, typeKind k, .seq (tyList g), range s, range f]
def tyList : List Ty → List V
  | [] => []
  | t :: ts => ty t :: tyList ts
end

def annotation (a : Annotation) : V :=
  .struct "Annotation" [.str a.name, .seq (a.keyValues.map fun (k, v) => .seq [.str k, optStr v])]

def direction : Direction → V
  | .in_ r => .variant "In" [range r]
  | .out r => .variant "Out" [range r]
  | .inout r => .variant "InOut" [range r]
  | .unspecified => .variant "Unspecified" []

def arg (a : Arg) : V :=
  .struct "Arg" [direction a.direction, optStr a.name, ty a.argType, .seq (a.annotations.map annotation),
    optStr a.doc, range a.sym, range a.full]

def method (m : Method) : V :=
  .struct "Method" [.bool m.oneway, .str m.name, ty m.returnType, .seq (m.args.map arg),
    .seq (m.annotations.map annotation),
    (match m.transactCode with | none => .none_ | some c => .some_ (.nat c)),
    optStr m.doc, range m.sym, range m.full, range m.transactCodeRange, range m.onewayRange]

def const (c : Const) : V :=
  .struct "Const" [.str c.name, ty c.constType, .str c.value, .seq (c.annotations.map annotation),
    optStr c.doc, range c.sym, range c.full]

def field (f : Field) : V :=
  .struct "Field" [.str f.name, ty f.fieldType, optStr f.value, .seq (f.annotations.map annotation),
    optStr f.doc, range f.sym, range f.full]

def enumElement (e : EnumElement) : V :=
  .struct "EnumElement" [.str e.name, optStr e.value, optStr e.doc, range e.sym, range e.full]

def item : Item → V
  | .interface i => .variant "Interface" [.struct "Interface" [.bool i.oneway, .str i.name,
      .seq (i.elements.map fun
        | .const c => .variant "Const" [const c]
        | .method m => .variant "Method" [method m]),
      .seq (i.annotations.map annotation), optStr i.doc, range i.full, range i.sym]]
  | .parcelable p => .variant "Parcelable" [.struct "Parcelable" [.str p.name,
      .seq (p.elements.map fun
        | .const c => .variant "Const" [const c]
        | .field f => .variant "Field" [field f]),
      .seq (p.annotations.map annotation), optStr p.doc, range p.full, range p.sym]]
  | .enum e => .variant "Enum" [.struct "Enum" [.str e.name, .seq (e.elements.map enumElement),
      .seq (e.annotations.map annotation), optStr e.doc, range e.full, range e.sym]]

def import_ (i : Import) : V := .struct "Import" [.str i.path, .str i.name, range i.sym, range i.full]

def aidl (a : AidlFile) : V :=
  .struct "Aidl" [.struct "Package" [.str a.package.name, range a.package.sym, range a.package.full],
    .seq (a.imports.map import_), .seq (a.declaredParcelables.map import_), item a.item]

mutual
/-- the (struct name, emitted field names) log of a serialised value, in serialisation order -/
def emitted : S → List (String × List String)
  | .some_ v => emitted v
  | .seq l => emittedList l
  | .struct name fields => (name, fields.map (·.1)) :: emittedFields fields
  | .variant _ payload => emittedList payload
  | _ => []
def emittedList : List S → List (String × List String)
  | [] => []
  | v :: vs => emitted v ++ emittedList vs
def emittedFields : List (String × S) → List (String × List String)
  | [] => []
  | (_, v) :: vs => emitted v ++ emittedFields vs
end

end Aidl.SerdeEnc
