import AidlVerif.Driver.Codec
import AidlVerif.Model.Lr
import AidlVerif.Gen.LexTable
import AidlVerif.Gen.LrTables
import AidlVerif.Gen.Actions

/-! The model parser instantiated with the regenerated tables. -/

namespace Aidl.Driver.Parse
open Lean (Json)
open Aidl.Codec

def tables : Lr.Tables :=
  { action := Gen.actionTable, eof := Gen.eofAction, goto := Gen.gotoTable, prods := Gen.productions,
    ncols := Gen.ncols, terminals := Gen.terminals, tokToCol := Gen.tokToCol, lex := Gen.lexTable,
    actions := Gen.actionDefs }

/-- line/column table sent by the harness: every character boundary of the text -/
def lcTable (j : Json) : R (List (Nat × Nat × Nat)) :=
  list (fun p => do
    let a ← arr p
    pure (← nat a[0]!, ← nat a[1]!, ← nat a[2]!)) j

def mkEnv (text : String) (lc : List (Nat × Nat × Nat)) : Actions.Env :=
  let arr := lc.toArray
  -- offsets are increasing: binary search
  let find (off : Nat) : Option (Nat × Nat) := Id.run do
    let mut lo := 0
    let mut hi := arr.size
    while lo < hi do
      let mid := (lo + hi) / 2
      if arr[mid]!.1 < off then lo := mid + 1 else hi := mid
    if h : lo < arr.size then
      if arr[lo].1 == off then some arr[lo].2 else none
    else none
  { text := text.toList, lineCol := find }

/-- the model's `add_content` -/
def modelParse (id text : String) (lc : List (Nat × Nat × Nat)) : Except String FileResult :=
  Lr.addContent tables (mkEnv text lc) id text

/-- ghost flag of the model's run: did error recovery run? (`none`: the run did not end in a result) -/
def modelRecovered (text : String) (lc : List (Nat × Nat × Nat)) : Bool :=
  (Lr.parseLoop tables (mkEnv text lc) { input := text.toList } (Lr.parseFuel text)).1.recovered

end Aidl.Driver.Parse
