import AidlVerif.Driver.Codec
import AidlVerif.Props.C15
import AidlVerif.Props.C16
import AidlVerif.Props.C17

/-! Driver side of the `walk` op (C15, C16, C17). -/

namespace Aidl.Driver.Walk
open Lean (Json)
open Aidl.Codec

structure ImplSym where
  tag : String
  name : Option String
  qn : Option String
  det : Option String
  sig : String
  r : Range
  fr : Range
deriving DecidableEq

def implSym (j : Json) : R ImplSym := do
  pure { tag := ← str (← fld j "tag"), name := ← optStr (← fld j "name"), qn := ← optStr (← fld j "qn"), det := ← optStr (← fld j "det"), sig := ← str (← fld j "sig"),
         r := ← range (← fld j "r"), fr := ← range (← fld j "fr") }

def optIdx (j : Json) : R (Option Nat) :=
  match j with
  | .null => pure none
  | _ => some <$> nat j

inductive Pred
  | kth (k : Nat) | kind (k : String) | name (n : String)

structure Find where
  filter : String
  pred : Pred
  find : Option Nat
  findCalls : Option Nat
  filterResult : List Nat

def findEntry (j : Json) : R Find := do
  let pa ← arr (← fld j "pred")
  let pred ← match (← str pa[0]!) with
    | "kth" => do pure (Pred.kth (← nat pa[1]!))
    | "kind" => do pure (Pred.kind (← str pa[1]!))
    | "name" => do pure (Pred.name (← str pa[1]!))
    | s => throw s!"pred {s}"
  let calls := match j.getObjVal? "find_calls" with
    | .ok c => c.getNat?.toOption
    | .error _ => none
  pure { filter := ← str (← fld j "filter"), pred, find := ← optIdx (← fld j "find"), findCalls := calls,
         filterResult := ← list nat (← fld j "filter_result") }

structure FileWalk where
  id : String
  key : String
  symbols : List ImplSym
  levels : List (String × List Nat)
  finds : List Find
  types : List (String × Range)
  methods : List (String × Range)
  args : List (String × Range)
  positions : List (Nat × Nat × Nat)
  at_ : List (String × List (Option Nat))

def nameRange (j : Json) : R (String × Range) := do
  let a ← arr j
  pure (← str a[0]!, ← range a[1]!)

def fileWalk (j : Json) : R FileWalk := do
  let a ← arr j
  let w := a[1]!
  let lv ← fld w "levels"
  let at_ ← fld w "at"
  let lvl (n : String) : R (String × List Nat) := do pure (n, ← list nat (← fld lv n))
  let atl (n : String) : R (String × List (Option Nat)) := do pure (n, ← list optIdx (← fld at_ n))
  pure { id := ← str a[0]!, key := ← str (← fld w "key"), symbols := ← list implSym (← fld w "symbols"),
         levels := [← lvl "items", ← lvl "elements", ← lvl "all"],
         finds := ← list findEntry (← fld w "finds"),
         types := ← list nameRange (← fld w "types"), methods := ← list nameRange (← fld w "methods"),
         args := ← list nameRange (← fld w "args"),
         positions := ← list (fun p => do let a ← arr p; pure (← nat a[0]!, ← nat a[1]!, ← nat a[2]!)) (← fld w "positions"),
         at_ := [← atl "items", ← atl "elements", ← atl "all"] }

def filterOf (n : String) : SymbolFilter :=
  match n with
  | "items" => .itemsOnly
  | "elements" => .itemsAndItemElements
  | _ => .all

def symView (s : Symbol) : String × Option String × Range × Range := (s.tag, s.name, s.range, s.fullRange)
def implView (s : ImplSym) : String × Option String × Range × Range := (s.tag, s.name, s.r, s.fr)

def idxIn (all : List Symbol) (s : Symbol) : Option Nat :=
  let i := all.findIdx (fun x => x == s)
  if i < all.length then some i else none

def predFn (p : Pred) : Nat → Symbol → Nat × Bool
  | c, s => match p with
    | .kth k => (c + 1, c == k)
    | .kind k => (c + 1, s.tag == k)
    | .name n => (c + 1, s.name == some n)

/-- the model walker's visit list -/
def modelVisit (b : AidlFile) (f : SymbolFilter) : List Symbol :=
  walkSymbols b f (fun acc s => acc ++ [s]) []

structure Result where
  corr15 : Bool := true
  spec15 : Bool := true
  corr16 : Bool := true
  spec16 : Bool := true
  assume16 : Bool := true
  corr17 : Bool := true
  corrText : Bool := true   -- `get_details` / `get_signature` (model coverage beyond C17; never part of a verdict)
  nsyms : Nat := 0
  npos : Nat := 0

def checkFile (b : AidlFile) (w : FileWalk) : Result := Id.run do
  let mut r : Result := {}
  let specAll := Spec.C15.symbols .all b
  let modelAll := modelVisit b .all
  r := { r with nsyms := specAll.length }
  -- visit list (detailed level)
  r := { r with corr15 := r.corr15 && (modelAll.map symView == w.symbols.map implView),
                spec15 := r.spec15 && (specAll.map symView == w.symbols.map implView) }
  -- "in source order": the constructs are visited where they stand in the text — the start offsets of the
  -- visited symbols never decrease, whatever tree the walker is given (a validated tree whose members were
  -- reordered is NOT walked in source order). An array is visited AFTER its element type and everything inside it,
  -- as the statement says, so array symbols (and, harmlessly, a user type called `Array`) are left out of the
  -- comparison; the rest is a pre-order in source order.
  let starts := (w.symbols.filter (fun s => !(s.tag == "type" && s.name == some "Array"))).map (fun s => s.fr.start.off)
  let srcOrder := (starts.zip starts.tail).all fun (a, b) => a ≤ b
  r := { r with spec15 := r.spec15 && srcOrder }
  -- levels
  for (lname, idxs) in w.levels do
    let f := filterOf lname
    let specL := (Spec.C15.symbols f b).map (idxIn specAll)
    let modelL := (modelVisit b f).map (idxIn modelAll)
    r := { r with corr15 := r.corr15 && (modelL == idxs.map some), spec15 := r.spec15 && (specL == idxs.map some) }
  -- find / filter
  for fe in w.finds do
    let f := filterOf fe.filter
    let p := predFn fe.pred
    let mf := findSymbol b f p 0
    let mfl := filterSymbols b f p 0
    let sf := Spec.C15.findStateful p 0 (Spec.C15.symbols f b)
    let sfl := Spec.C15.filterStateful p 0 (Spec.C15.symbols f b)
    let callsOk (n : Nat) : Bool := match fe.findCalls with | some c => c == n | none => true
    r := { r with
      corr15 := r.corr15 && (mf.2.bind (idxIn modelAll) == fe.find) && (mf.2.isSome == fe.find.isSome) && callsOk mf.1
                 && (mfl.2.map (idxIn modelAll) == fe.filterResult.map some),
      spec15 := r.spec15 && (sf.2.bind (idxIn specAll) == fe.find) && (sf.2.isSome == fe.find.isSome) && callsOk sf.1
                 && (sfl.2.map (idxIn specAll) == fe.filterResult.map some) }
  -- the other walkers
  let mTypes := (walkTypes b (fun acc t => acc ++ [(t.name, t.sym)]) ([] : List (String × Range)))
  let mMethods := (walkMethods b (fun acc m => acc ++ [(m.name, m.sym)]) ([] : List (String × Range)))
  let mArgs := (walkArgs b (fun acc m a => acc ++ [(m.name, a.sym)]) ([] : List (String × Range)))
  r := { r with
    corr15 := r.corr15 && (mTypes == w.types) && (mMethods == w.methods) && (mArgs == w.args),
    spec15 := r.spec15 && ((allTypesWalk b).map (fun t => (t.name, t.sym)) == w.types)
               && ((Spec.methodsOf b).map (fun m => (m.name, m.sym)) == w.methods)
               && ((Spec.C15.allArgs b).map (fun p => (p.1.name, p.2.sym)) == w.args) }
  -- C16: position lookup
  if !w.positions.isEmpty then
    r := { r with npos := w.positions.length }
    -- LcMonotone: (line, col) is lexicographically monotone in the offset
    let lcs := w.positions.map (fun p => (p.2.1, p.2.2))
    let mono := (lcs.zip lcs.tail).all (fun (a, b) => Spec.C16.lcLe a b)
    r := { r with assume16 := r.assume16 && mono }
    for (lname, res) in w.at_ do
      let f := filterOf lname
      let level := Spec.C15.symbols f b
      let model := w.positions.map (fun p => (findSymbolAtLineCol b f (p.2.1, p.2.2)).bind (idxIn modelAll))
      let spec := w.positions.map (fun p => (Spec.C16.expected f b (p.2.1, p.2.2)).bind (idxIn specAll))
      -- pointing anywhere inside a visited symbol's range finds a symbol whose range contains the position
      let inside := (w.positions.zip res).all fun (p, got) =>
        let covering := level.any (fun s => s.range.start.off ≤ p.1 && p.1 ≤ s.range.stop.off)
        !covering || (match got with
          | some i => match specAll[i]? with
            | some s => Spec.C16.contains s.range (p.2.1, p.2.2)
            | none => false
          | none => false)
      r := { r with corr16 := r.corr16 && (model == res), spec16 := r.spec16 && (spec == res) && inside }
  -- C17: names (model of symbol.rs vs implementation)
  let namesOk := modelAll.map (fun s => (s.tag, s.name, s.qualifiedName)) == w.symbols.map (fun s => (s.tag, s.name, s.qn))
  let textOk := modelAll.map (fun s => (s.details, s.signature)) == w.symbols.map (fun s => (s.det, s.sig))
  r := { r with corr17 := r.corr17 && namesOk, corrText := r.corrText && textOk }
  return r

end Aidl.Driver.Walk
