import AidlVerif.Props.LrSound
import AidlVerif.Props.LrSafeCert
import AidlVerif.Props.TypeCheck

/-!
# C03, one half, for every text: accepted without error recovery ⇒ derivable in the grammar
-/

namespace Aidl.Props.ParseSound
open Aidl Aidl.Lr Aidl.Actions
open Aidl.Props.LrSafe Aidl.Props.LrSound

theorem colsOk_run : ColsOk Driver.Parse.tables := by
  intro i col h
  have := (List.all_eq_true.mp cols_ok) (i, col) (Aidl.Props.Typed.lookup_mem' h)
  simpa using this

/-- **For every text** (tables and certificate of this run): if the LR driver accepts and its error
    recovery never ran, the sequence of tokens it shifted is derivable from the accepting production
    of the grammar extracted from the generated parser. -/
theorem accepted_derives_run (env : Env) (text : String) (fuel : Nat) (v : Val)
    (h : (parseLoop Driver.Parse.tables env { input := text.toList } fuel).2 = .accept v)
    (hr : (parseLoop Driver.Parse.tables env { input := text.toList } fuel).1.recovered = false) :
    Derives Driver.Parse.tables (parseLoop Driver.Parse.tables env { input := text.toList } fuel).1.hist :=
  accepted_derives Driver.Parse.tables cert env (certFacts _ _ cert_ok) colsOk_run text.toList fuel v h hr

end Aidl.Props.ParseSound
