import AidlVerif.Model.Typing
import AidlVerif.Lemmas.RunM
import AidlVerif.Lemmas.Types

/-!
# Typing of semantic values and of actions

`HasTy E t v`: the untyped value `v` has the Rust type `t`; `E` = "an Error has been reported"
(an `optNS` value may be `None` only then).
-/

namespace Aidl.Props.Typed
open Aidl Aidl.Actions Aidl.Typing Aidl.Lexer

def hasError (ds : List Diag) : Prop := ∃ d ∈ ds, d.kind = .error

/-! ### the arities of generic types (what `check_container` of validation.rs indexes into) -/

/-- an array has its element, a list at most one parameter, a map none or two; and no node is
    `Resolved` (the grammar actions never write that kind: it is validation's to assign) -/
def tyArity (t : Ty) : Bool :=
  match t.kind with
  | .array => t.gens.length ≥ 1
  | .list => t.gens.length ≤ 1
  | .map => t.gens.length = 0 ∨ t.gens.length = 2
  | .resolved _ _ => false
  | _ => true

/-- the kinds `simple_type` / the primitive alternatives of the grammar write on a leaf -/
def leafKind : TypeKind → Bool
  | .array => false
  | .resolved _ _ => false
  | _ => true

/-- every type node inside `t`, at any depth, has the arity of its kind -/
def TyWF (t : Ty) : Prop := ∀ u ∈ Ty.walkOrder t, tyArity u = true

theorem TyWF.leaf (n : String) (k : TypeKind) (s f : Range) (hk : leafKind k = true) : TyWF (.mk n k [] s f) := by
  intro u hu
  have hk' : k ≠ .array := by intro h; subst h; cases hk
  simp only [Ty.walkOrder, hk', if_false, Ty.walkOrderList, List.mem_cons, List.not_mem_nil, or_false] at hu
  subst hu
  cases k with
  | array => cases hk
  | resolved a b => cases hk
  | _ => simp [tyArity, Ty.kind, Ty.gens]

theorem TyWF.array (n : String) (t : Ty) (s f : Range) (h : TyWF t) : TyWF (.mk n .array [t] s f) := by
  intro u hu
  simp only [Ty.walkOrder, if_true, Ty.walkOrderList, List.append_nil, List.mem_append, List.mem_cons,
    List.not_mem_nil, or_false] at hu
  rcases hu with hu | rfl
  · exact h u hu
  · simp [tyArity, Ty.kind, Ty.gens]

theorem TyWF.list1 (n : String) (t : Ty) (s f : Range) (h : TyWF t) : TyWF (.mk n .list [t] s f) := by
  intro u hu
  simp only [Ty.walkOrder, Ty.walkOrderList, List.append_nil, List.mem_cons, reduceCtorEq, if_false] at hu
  rcases hu with rfl | hu
  · simp [tyArity, Ty.kind, Ty.gens]
  · exact h u hu

theorem TyWF.map2 (n : String) (a b : Ty) (s f : Range) (ha : TyWF a) (hb : TyWF b) : TyWF (.mk n .map [a, b] s f) := by
  intro u hu
  simp only [Ty.walkOrder, Ty.walkOrderList, List.append_nil, List.mem_cons, List.mem_append, reduceCtorEq, if_false] at hu
  rcases hu with rfl | hu | hu
  · simp [tyArity, Ty.kind, Ty.gens]
  · exact ha u hu
  · exact hb u hu

def ItemWF : Item → Prop
  | .interface i => ∀ e ∈ i.elements, ∀ t ∈ e.topTypes, TyWF t
  | .parcelable p => ∀ e ∈ p.elements, ∀ t ∈ e.topTypes, TyWF t
  | .enum _ => True

def HasTy (E : Prop) : VTy → Val → Prop
  | .tok, .tok _ => True
  | .dtok, .tok t => t = "in" ∨ t = "out" ∨ t = "inout"
  | .loc, .loc _ => True
  | .str, .str _ => True
  | .recovery, .recovery _ _ => True
  | .opt _, .none_ => True
  | .opt t, .some_ v => HasTy E t v
  | .optNS _, .none_ => E
  | .optNS t, .some_ v => HasTy E t v
  | .list t, .list l => ∀ x ∈ l, HasTy E t x
  | .pair a b, .pair x y => HasTy E a x ∧ HasTy E b y
  | .package, .package _ => True
  | .import_, .import_ _ => True
  | .ty, .ty t => TyWF t
  | .dir, .dir _ => True
  | .ann, .ann _ => True
  | .arg, .arg a => TyWF a.argType
  | .method, .method m => TyWF m.returnType ∧ ∀ a ∈ m.args, TyWF a.argType
  | .const, .const c => TyWF c.constType
  | .field, .field f => TyWF f.fieldType
  | .enumEl, .enumEl _ => True
  | .iel, .iel e => ∀ t ∈ e.topTypes, TyWF t
  | .pel, .pel e => ∀ t ∈ e.topTypes, TyWF t
  | .iface, .iface i => ItemWF (.interface i)
  | .parc, .parc p => ItemWF (.parcelable p)
  | .enm, .enm _ => True
  | .item, .item it => ItemWF it
  | .aidl, .aidl a => ItemWF a.item
  | _, _ => False

theorem hasTy_tok (E : Prop) (v : Val) : HasTy E .tok v ↔ ∃ x, v = .tok x := by
  cases v <;> simp [HasTy]
theorem hasTy_dtok (E : Prop) (v : Val) : HasTy E .dtok v ↔ ∃ x, v = .tok x ∧ (x = "in" ∨ x = "out" ∨ x = "inout") := by
  cases v <;> simp [HasTy]
theorem hasTy_loc (E : Prop) (v : Val) : HasTy E .loc v ↔ ∃ x, v = .loc x := by
  cases v <;> simp [HasTy]
theorem hasTy_str (E : Prop) (v : Val) : HasTy E .str v ↔ ∃ x, v = .str x := by
  cases v <;> simp [HasTy]
theorem hasTy_package (E : Prop) (v : Val) : HasTy E .package v ↔ ∃ x, v = .package x := by
  cases v <;> simp [HasTy]
theorem hasTy_import_ (E : Prop) (v : Val) : HasTy E .import_ v ↔ ∃ x, v = .import_ x := by
  cases v <;> simp [HasTy]
theorem hasTy_ty (E : Prop) (v : Val) : HasTy E .ty v ↔ ∃ x, v = .ty x ∧ TyWF x := by
  cases v <;> simp [HasTy]
theorem hasTy_dir (E : Prop) (v : Val) : HasTy E .dir v ↔ ∃ x, v = .dir x := by
  cases v <;> simp [HasTy]
theorem hasTy_ann (E : Prop) (v : Val) : HasTy E .ann v ↔ ∃ x, v = .ann x := by
  cases v <;> simp [HasTy]
theorem hasTy_arg (E : Prop) (v : Val) : HasTy E .arg v ↔ ∃ x, v = .arg x ∧ TyWF x.argType := by
  cases v <;> simp [HasTy]
theorem hasTy_method (E : Prop) (v : Val) : HasTy E .method v ↔ ∃ x, v = .method x ∧ (TyWF x.returnType ∧ ∀ a ∈ x.args, TyWF a.argType) := by
  cases v <;> simp [HasTy]
theorem hasTy_const (E : Prop) (v : Val) : HasTy E .const v ↔ ∃ x, v = .const x ∧ TyWF x.constType := by
  cases v <;> simp [HasTy]
theorem hasTy_field (E : Prop) (v : Val) : HasTy E .field v ↔ ∃ x, v = .field x ∧ TyWF x.fieldType := by
  cases v <;> simp [HasTy]
theorem hasTy_enumEl (E : Prop) (v : Val) : HasTy E .enumEl v ↔ ∃ x, v = .enumEl x := by
  cases v <;> simp [HasTy]
theorem hasTy_iel (E : Prop) (v : Val) : HasTy E .iel v ↔ ∃ x, v = .iel x ∧ (∀ t ∈ x.topTypes, TyWF t) := by
  cases v <;> simp [HasTy]
theorem hasTy_pel (E : Prop) (v : Val) : HasTy E .pel v ↔ ∃ x, v = .pel x ∧ (∀ t ∈ x.topTypes, TyWF t) := by
  cases v <;> simp [HasTy]
theorem hasTy_iface (E : Prop) (v : Val) : HasTy E .iface v ↔ ∃ x, v = .iface x ∧ ItemWF (.interface x) := by
  cases v <;> simp [HasTy]
theorem hasTy_parc (E : Prop) (v : Val) : HasTy E .parc v ↔ ∃ x, v = .parc x ∧ ItemWF (.parcelable x) := by
  cases v <;> simp [HasTy]
theorem hasTy_enm (E : Prop) (v : Val) : HasTy E .enm v ↔ ∃ x, v = .enm x := by
  cases v <;> simp [HasTy]
theorem hasTy_item (E : Prop) (v : Val) : HasTy E .item v ↔ ∃ x, v = .item x ∧ ItemWF x := by
  cases v <;> simp [HasTy]
theorem hasTy_aidl (E : Prop) (v : Val) : HasTy E .aidl v ↔ ∃ x, v = .aidl x ∧ ItemWF x.item := by
  cases v <;> simp [HasTy]
theorem hasTy_recovery (E : Prop) (v : Val) : HasTy E .recovery v ↔ ∃ e d, v = .recovery e d := by
  cases v <;> simp [HasTy]
theorem hasTy_opt (E : Prop) (t : VTy) (v : Val) : HasTy E (.opt t) v ↔ v = .none_ ∨ ∃ w, v = .some_ w ∧ HasTy E t w := by
  cases v <;> simp [HasTy]
theorem hasTy_optNS (E : Prop) (t : VTy) (v : Val) :
    HasTy E (.optNS t) v ↔ (v = .none_ ∧ E) ∨ ∃ w, v = .some_ w ∧ HasTy E t w := by
  cases v <;> simp [HasTy]
theorem hasTy_list (E : Prop) (t : VTy) (v : Val) : HasTy E (.list t) v ↔ ∃ l, v = .list l ∧ ∀ x ∈ l, HasTy E t x := by
  cases v <;> simp [HasTy]
theorem hasTy_pair (E : Prop) (a b : VTy) (v : Val) :
    HasTy E (.pair a b) v ↔ ∃ x y, v = .pair x y ∧ HasTy E a x ∧ HasTy E b y := by
  cases v <;> simp [HasTy]
  rename_i x y
  constructor
  · intro h; exact ⟨x, y, ⟨rfl, rfl⟩, h⟩
  · rintro ⟨x', y', ⟨rfl, rfl⟩, h⟩; exact h

theorem HasTy.mono {E E' : Prop} (h : E → E') : ∀ (t : VTy) (v : Val), HasTy E t v → HasTy E' t v := by
  intro t
  induction t with
  | opt t ih => intro v hv; rw [hasTy_opt] at hv ⊢; rcases hv with h1 | ⟨w, h1, h2⟩
                · exact Or.inl h1
                · exact Or.inr ⟨w, h1, ih w h2⟩
  | optNS t ih => intro v hv; rw [hasTy_optNS] at hv ⊢; rcases hv with ⟨h1, h2⟩ | ⟨w, h1, h2⟩
                  · exact Or.inl ⟨h1, h h2⟩
                  · exact Or.inr ⟨w, h1, ih w h2⟩
  | list t ih => intro v hv; rw [hasTy_list] at hv ⊢; obtain ⟨l, h1, h2⟩ := hv
                 exact ⟨l, h1, fun x hx => ih x (h2 x hx)⟩
  | pair a b iha ihb => intro v hv; rw [hasTy_pair] at hv ⊢; obtain ⟨x, y, h1, h2, h3⟩ := hv
                        exact ⟨x, y, h1, iha x h2, ihb y h3⟩
  | _ => intro v hv; cases v <;> simp_all [HasTy]

def HasATy (E : Prop) : ATy → ArgV → Prop
  | .triple t, .triple _ v _ => HasTy E t v
  | .locRef, .locRef _ => True
  | _, _ => False

def ArgsTyped (E : Prop) : List ATy → List ArgV → Prop
  | [], [] => True
  | t :: ts, a :: as => HasATy E t a ∧ ArgsTyped E ts as
  | _, _ => False

theorem HasATy.mono {E E' : Prop} (h : E → E') {t : ATy} {a : ArgV} (ha : HasATy E t a) : HasATy E' t a := by
  cases t <;> cases a <;> simp_all [HasATy]
  exact HasTy.mono h _ _ ha

theorem ArgsTyped.mono {E E' : Prop} (h : E → E') : ∀ {ts : List ATy} {as : List ArgV}, ArgsTyped E ts as → ArgsTyped E' ts as
  | [], [], _ => trivial
  | _ :: _, _ :: _, ⟨h1, h2⟩ => ⟨h1.mono h, ArgsTyped.mono h h2⟩
  | [], _ :: _, h' => h'.elim
  | _ :: _, [], h' => h'.elim

theorem ArgsTyped.get {E : Prop} : ∀ {ts : List ATy} {as : List ArgV} {i : Nat} {t : ATy},
    ArgsTyped E ts as → ts[i]? = some t → ∃ a, as[i]? = some a ∧ HasATy E t a
  | [], [], _, _, _, h => by cases h
  | t :: ts, a :: as, 0, t', ⟨h1, _⟩, h => by cases h; exact ⟨a, rfl, h1⟩
  | t :: ts, a :: as, i + 1, t', ⟨_, h2⟩, h => by
      have := ArgsTyped.get (i := i) h2 (by simpa using h)
      simpa using this
  | [], _ :: _, _, _, h', _ => h'.elim
  | _ :: _, [], _, _, h', _ => h'.elim

/-! ### computations that do not touch the diagnostics -/

/-- allowed ways for an action to stop: anything but a wrong shape, an inconsistent table or the
    `unreachable!()` of `Direction` (what is left is `bounds`, excluded separately) -/
def OkKind (p : Panic) : Prop := p.kind ≠ .shape ∧ p.kind ≠ .table ∧ p.kind ≠ .lexical

/-- `x` returns a value satisfying `P` and leaves the diagnostics alone, or stops in an allowed way -/
def Pur {α} (env : Env) (x : M α) (P : α → Prop) : Prop :=
  ∀ ds, match (x.run env).run ds with
    | .ok (a, ds') => ds' = ds ∧ P a
    | .error p => OkKind p

variable {env : Env}

theorem Pur.pure {α} {P : α → Prop} (a : α) (h : P a) : Pur env (pure a : M α) P := fun _ => ⟨rfl, h⟩

theorem Pur.bad {α} {P : α → Prop} (k : PanicKind) (m : String) (h1 : k ≠ .shape) (h2 : k ≠ .table) (h3 : k ≠ .lexical) :
    Pur env (bad k m : M α) P := fun _ => ⟨h1, h2, h3⟩

theorem Pur.bind {α β} {P : α → Prop} {Q : β → Prop} {x : M α} {f : α → M β}
    (hx : Pur env x P) (hf : ∀ a, P a → Pur env (f a) Q) : Pur env (x >>= f) Q := by
  intro ds
  have h1 := hx ds
  show match ((x >>= f).run env).run ds with | .ok (a, ds') => ds' = ds ∧ Q a | .error p => OkKind p
  simp only [ReaderT.run_bind, StateT.run_bind]
  cases hr : (x.run env).run ds with
  | error p => rw [hr] at h1; exact h1
  | ok r =>
    obtain ⟨a, ds'⟩ := r
    rw [hr] at h1
    obtain ⟨rfl, ha⟩ := h1
    exact hf a ha ds'

theorem Pur.mono {α} {P Q : α → Prop} {x : M α} (hx : Pur env x P) (h : ∀ a, P a → Q a) : Pur env x Q := by
  intro ds
  have := hx ds
  revert this
  cases (x.run env).run ds with
  | error p => exact fun hh => hh
  | ok r => exact fun hh => ⟨hh.1, h _ hh.2⟩

theorem Pur.map {α β} {P : α → Prop} {Q : β → Prop} {x : M α} {g : α → β}
    (hx : Pur env x P) (h : ∀ a, P a → Q (g a)) : Pur env (g <$> x) Q := by
  have : g <$> x = x >>= fun a => Pure.pure (g a) := by rfl
  rw [this]
  exact Pur.bind hx (fun a ha => Pur.pure _ (h a ha))

theorem Pur.mapM {α β} {P : β → Prop} (f : α → M β) :
    ∀ (l : List α), (∀ a ∈ l, Pur env (f a) P) → Pur env (l.mapM f) (fun r => ∀ b ∈ r, P b) := by
  intro l
  induction l with
  | nil => intro _; rw [List.mapM_nil]; exact Pur.pure _ (by intro b hb; cases hb)
  | cons a l ih =>
    intro h
    rw [List.mapM_cons]
    refine Pur.bind (h a (List.mem_cons_self ..)) ?_
    intro b hb
    refine Pur.bind (ih (fun a' ha' => h a' (List.mem_cons_of_mem _ ha'))) ?_
    intro bs hbs
    refine Pur.pure _ ?_
    intro x hx
    rcases List.mem_cons.mp hx with rfl | hx
    · exact hb
    · exact hbs x hx

theorem pur_bind_pure {α β} {Q : β → Prop} {a : α} {f : α → M β} (h : Pur env (f a) Q) : Pur env (pure a >>= f) Q :=
  Pur.bind (Pur.pure (P := fun x => x = a) a rfl) (fun x hx => by subst hx; exact h)

end Aidl.Props.Typed
