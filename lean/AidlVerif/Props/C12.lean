import AidlVerif.Spec.C12
import AidlVerif.Props.C11

/-!
# C12 — property theorems (about the model of parser.rs)
-/

namespace Aidl.Props.C12
open Aidl Aidl.Spec Aidl.Spec.C12

theorem ainsert_map {β γ} (g : String → β → γ) (l : List (String × β)) (id : String) (v : β) :
    ainsert (l.map (fun p => (p.1, g p.1 p.2))) id (g id v) = (ainsert l id v).map (fun p => (p.1, g p.1 p.2)) := by
  induction l with
  | nil => rfl
  | cons p rest ih =>
    obtain ⟨k, w⟩ := p
    simp only [List.map_cons, ainsert]
    by_cases h : k = id
    · subst h; simp
    · simp [h, ih]

theorem aerase_map {β γ} (g : String → β → γ) (l : List (String × β)) (id : String) :
    aerase (l.map (fun p => (p.1, g p.1 p.2))) id = (aerase l id).map (fun p => (p.1, g p.1 p.2)) := by
  unfold aerase
  rw [List.filter_map]
  rfl

def mkfr (parse : ParseFn) (id content : String) : FileResult :=
  { id := id, ast := (parse content).1, diags := (parse content).2 }

theorem entry_eq (parse : ParseFn) : entry parse = fun p => (p.1, mkfr parse p.1 p.2) := rfl

/-- **Refinement.** After any history, the parser's state is exactly the abstract
    id ↦ latest-content map with every content parsed: removed ids are absent, a replaced id holds
    only its latest content, validations and failed loads change nothing. -/
theorem store_refines (parse : ParseFn) (read : String → Except String String) (ho : HashOrder) (ops : List Op) :
    run parse read ho [] ops = (contents read ops).map (entry parse) := by
  unfold run contents
  have : ∀ (cs : List (String × String)),
      ops.foldl (fun s op => (step parse read ho s op).1) (cs.map (entry parse))
        = (ops.foldl (contentsStep read) cs).map (entry parse) := by
    induction ops with
    | nil => intro cs; rfl
    | cons op ops ih =>
      intro cs
      simp only [List.foldl_cons]
      have hstep : (step parse read ho (cs.map (entry parse)) op).1 = (contentsStep read cs op).map (entry parse) := by
        cases op with
        | add id content =>
          simp only [step, addContent, contentsStep, Store.insert, entry_eq]
          exact ainsert_map (mkfr parse) cs id content
        | remove id =>
          simp only [step, contentsStep, Store.erase, entry_eq]
          exact aerase_map (mkfr parse) cs id
        | validate => rfl
        | addFile path =>
          simp only [step, contentsStep]
          cases read path with
          | ok text =>
            simp only [addContent, Store.insert, entry_eq]
            exact ainsert_map (mkfr parse) cs path text
          | error e => rfl
      rw [hstep, ih]
  exact this []

/-- validating never changes the state (so never changes what a later validation returns) -/
theorem validate_pure (parse : ParseFn) (read : String → Except String String) (ho : HashOrder) (s : Store) :
    (step parse read ho s .validate).1 = s := rfl

/-- loading a readable file is adding its text under its path -/
theorem add_file_ok (parse : ParseFn) (read : String → Except String String) (ho : HashOrder) (s : Store)
    (path text : String) (h : read path = .ok text) :
    (step parse read ho s (.addFile path)).1 = (step parse read ho s (.add path text)).1
    ∧ (step parse read ho s (.addFile path)).2 = .io (.ok ()) := by
  simp [step, h]

/-- an unreadable or non-UTF-8 file changes nothing and reports the I/O error -/
theorem add_file_err (parse : ParseFn) (read : String → Except String String) (ho : HashOrder) (s : Store)
    (path e : String) (h : read path = .error e) :
    step parse read ho s (.addFile path) = (s, .io (.error e)) := by
  simp [step, h]

/-! ### unique ids -/

theorem ainsert_keys_nodup {β} (l : List (String × β)) (id : String) (v : β) (h : (l.map (·.1)).Nodup) :
    ((ainsert l id v).map (·.1)).Nodup := by
  induction l with
  | nil => simp [ainsert]
  | cons p rest ih =>
    obtain ⟨k, w⟩ := p
    simp only [ainsert]
    rw [List.map_cons, List.nodup_cons] at h
    by_cases hk : k = id
    · simp only [hk, if_true, List.map_cons, List.nodup_cons]
      subst hk
      exact h
    · simp only [hk, if_false, List.map_cons, List.nodup_cons]
      refine ⟨?_, ih h.2⟩
      intro hm
      have : ∀ (l : List (String × β)), k ∈ (ainsert l id v).map (·.1) → k ∈ l.map (·.1) := by
        intro l
        induction l with
        | nil => simp [ainsert]; exact fun e => absurd e hk
        | cons q qs ihq =>
          obtain ⟨k2, w2⟩ := q
          simp only [ainsert]
          by_cases h2 : k2 = id
          · simp [h2]
          · simp only [h2, if_false, List.map_cons, List.mem_cons]
            rintro (e | e)
            · exact Or.inl e
            · exact Or.inr (ihq e)
      exact h.1 (this rest hm)

theorem aerase_keys_nodup {β} (l : List (String × β)) (id : String) (h : (l.map (·.1)).Nodup) :
    ((aerase l id).map (·.1)).Nodup := by
  unfold aerase
  exact List.Nodup.sublist (List.filter_sublist.map _) h

/-- the abstract map never holds two contents for one id -/
theorem contents_keys_nodup (read : String → Except String String) (ops : List Op) :
    ((contents read ops).map (·.1)).Nodup := by
  unfold contents
  have : ∀ cs : List (String × String), (cs.map (·.1)).Nodup → ((ops.foldl (contentsStep read) cs).map (·.1)).Nodup := by
    induction ops with
    | nil => intro cs h; exact h
    | cons op ops ih =>
      intro cs h
      simp only [List.foldl_cons]
      apply ih
      cases op with
      | add id content => exact ainsert_keys_nodup cs id content h
      | remove id => exact aerase_keys_nodup cs id h
      | validate => exact h
      | addFile path =>
        simp only [contentsStep]
        cases read path with
        | ok text => exact ainsert_keys_nodup cs path text h
        | error e => exact h
  exact this [] (by simp)

theorem ainsert_new {β} (l : List (String × β)) (id : String) (v : β) (h : id ∉ l.map (·.1)) :
    ainsert l id v = l ++ [(id, v)] := by
  induction l with
  | nil => rfl
  | cons p rest ih =>
    obtain ⟨k, w⟩ := p
    simp only [List.map_cons, List.mem_cons, not_or] at h
    have : ¬ k = id := fun e => h.1 e.symm
    simp [ainsert, this, ih h.2]

/-- a fresh parser fed pairs with distinct ids holds exactly those pairs, parsed -/
theorem freshStore_eq (parse : ParseFn) (pairs : List (String × String)) (h : (pairs.map (·.1)).Nodup) :
    freshStore parse pairs = pairs.map (entry parse) := by
  unfold freshStore
  have : ∀ (pre rest : List (String × String)), ((pre ++ rest).map (·.1)).Nodup →
      rest.foldl (fun s p => addContent parse s p.1 p.2) (pre.map (entry parse)) = (pre ++ rest).map (entry parse) := by
    intro pre rest
    induction rest generalizing pre with
    | nil => intro _; simp
    | cons p rest ih =>
      intro hnd
      simp only [List.foldl_cons]
      have hnew : p.1 ∉ (pre.map (entry parse)).map (·.1) := by
        simp only [List.map_map]
        have : (fun x => x.1) ∘ entry parse = fun x : String × String => x.1 := rfl
        rw [this]
        rw [List.map_append, List.map_cons] at hnd
        have := (List.nodup_append.mp hnd).2.2
        intro hm
        exact this _ hm _ (List.mem_cons_self ..) rfl
      have : addContent parse (pre.map (entry parse)) p.1 p.2 = (pre ++ [p]).map (entry parse) := by
        unfold addContent Store.insert
        rw [ainsert_new _ _ _ hnew]
        simp [entry]
      rw [this]
      have := ih (pre ++ [p]) (by simpa using hnd)
      simpa using this
  simpa using this [] pairs (by simpa using h)

/-- **C12 for the model.** After any history (with validations, failed loads and removals of
    absent ids anywhere), validation returns what a fresh parser holding only the surviving
    (id, latest content) pairs — added in any order, iterated in any hash order — returns. -/
theorem validate_after_history (parse : ParseFn) (read : String → Except String String)
    (ho ho₁ ho₂ : HashOrder) (ops : List Op) (pairs : List (String × String))
    (hpairs : pairs.Perm (contents read ops))
    (wf : ∀ c a, (parse c).1 = some a → Props.C11.WFRanges a)
    (r₁ r₂ : List FileResult)
    (h₁ : validate ho₁ (run parse read ho [] ops).values = .ok r₁)
    (h₂ : validate ho₂ (freshStore parse pairs).values = .ok r₂) :
    r₁.Perm r₂ := by
  rw [store_refines] at h₁
  have hnd : (pairs.map (·.1)).Nodup := (hpairs.map _).nodup_iff.mpr (contents_keys_nodup read ops)
  rw [freshStore_eq parse pairs hnd] at h₂
  apply Props.C11.validate_order_independent ho₁ ho₂ _ _ _ _ r₁ r₂ h₁ h₂
  · unfold Store.values
    exact ((hpairs.symm.map (entry parse)).map _)
  · intro fr hfr a ha
    unfold Store.values at hfr
    simp only [List.map_map, List.mem_map] at hfr
    obtain ⟨p, _, rfl⟩ := hfr
    exact wf p.2 a ha

end Aidl.Props.C12
