import AidlVerif.Props.C05
import AidlVerif.Props.C08

/-!
# The context message of every diagnostic names the step that pushed it

Every diagnostic constructor of `validation.rs` writes a literal context message. `groups_ctx`: for
every file, project and hash order, the diagnostics of each validation step carry one of the
messages of that step. The lists are disjoint where the oracles of C05 and C08 need it, so their
hypothesis `Fresh` ("no diagnostic of another step carries the message of this one") holds whenever
the syntax-stage diagnostics carry syntax-stage messages (`SynCtx`) — which
`ParseTotal.diag_positions_good` proves of every parser output.
-/

namespace Aidl.Props.DiagCtx
open Aidl Aidl.Spec

def CtxIn (L : List (Option String)) (ds : List Diag) : Prop := ∀ d ∈ ds, d.context ∈ L

theorem CtxIn.nil (L : List (Option String)) : CtxIn L [] := by intro d h; cases h

theorem CtxIn.append {L : List (Option String)} {a b : List Diag} (ha : CtxIn L a) (hb : CtxIn L b) : CtxIn L (a ++ b) := by
  intro d h
  rcases List.mem_append.mp h with h | h
  · exact ha d h
  · exact hb d h

theorem CtxIn.single {L : List (Option String)} (d : Diag) (h : d.context ∈ L) : CtxIn L [d] := by
  intro x hx
  simp only [List.mem_cons, List.not_mem_nil, or_false] at hx
  subst hx; exact h

theorem CtxIn.flatMap {L : List (Option String)} {α} (l : List α) (f : α → List Diag) (h : ∀ a ∈ l, CtxIn L (f a)) :
    CtxIn L (l.flatMap f) := by
  intro d hd
  obtain ⟨a, ha, hda⟩ := List.mem_flatMap.mp hd
  exact h a ha d hda

def synCtxs : List (Option String) :=
  [none, some "invalid token", some "unrecognized EOF", some "unrecognized token", some "extra token"]
def unknownCtxs : List (Option String) := [some "unknown type"]
def importCtxs : List (Option String) := [some "duplicated import", some "unresolved import", some "unused import"]
def declCtxs : List (Option String) :=
  [some "conflicting declaration", some "duplicated declaration", some "unused declared parcelable", some "declared parcelable"]
def containerCtxs : List (Option String) := C08.containerContexts.map some
def onewayCtxs : List (Option String) := [some "redundant oneway"]
def methodCtxs : List (Option String) :=
  [some "missing direction", some "invalid direction", some "invalid argument", some "must be void",
   some "duplicated method name", none, some "duplicated import"]

/-! ### `check_imports`, `check_declared_parcelables` -/

theorem foldl_snd_ctx {α β} (L : List (Option String)) (f : α × List Diag → β → α × List Diag)
    (hf : ∀ acc b, CtxIn L acc.2 → CtxIn L (f acc b).2) (l : List β) (acc : α × List Diag) (h : CtxIn L acc.2) :
    CtxIn L (l.foldl f acc).2 := by
  induction l generalizing acc with
  | nil => exact h
  | cons b bs ih => exact ih _ (hf acc b h)

theorem importsFold_ctx (imports : List Import) : CtxIn importCtxs (importsFold imports).2 := by
  unfold importsFold
  apply foldl_snd_ctx
  · intro acc imp hacc
    split
    · exact hacc.append (CtxIn.single _ (by simp [mkDiag, importCtxs]))
    · exact hacc
  · exact CtxIn.nil _

theorem importUsage_ctx (resolved : List String) (defined : Defined) (e : String × Import) :
    CtxIn importCtxs (importUsageDiag resolved defined e) := by
  unfold importUsageDiag
  split
  · exact CtxIn.single _ (by simp [mkDiag, importCtxs])
  · split
    · exact CtxIn.single _ (by simp [mkDiag, importCtxs])
    · exact CtxIn.nil _

theorem checkImports_ctx (ho : HashOrder) (imports : List Import) (resolved : List String) (defined : Defined) :
    CtxIn importCtxs (checkImports ho imports resolved defined).2 := by
  unfold checkImports
  exact (importsFold_ctx imports).append (CtxIn.flatMap _ _ (fun e _ => importUsage_ctx resolved defined e))

theorem declaredFold_ctx (declared : List Import) (importMap : List (String × Import)) :
    CtxIn declCtxs (declaredFold declared importMap).2 := by
  unfold declaredFold
  apply foldl_snd_ctx
  · intro acc dp hacc
    split
    · exact hacc.append (CtxIn.single _ (by simp [mkDiag, declCtxs]))
    · split
      · exact hacc.append (CtxIn.single _ (by simp [mkDiag, declCtxs]))
      · exact hacc
  · exact CtxIn.nil _

theorem declaredUsage_ctx (resolved : List String) (e : String × Import) : CtxIn declCtxs (declaredUsageDiag resolved e) := by
  unfold declaredUsageDiag
  split
  · exact CtxIn.single _ (by simp [mkDiag, declCtxs])
  · exact CtxIn.single _ (by simp [mkDiag, declCtxs])

theorem checkDeclared_ctx (ho : HashOrder) (declared : List Import) (importMap : List (String × Import)) (resolved : List String) :
    CtxIn declCtxs (checkDeclaredParcelables ho declared importMap resolved) := by
  unfold checkDeclaredParcelables
  exact (declaredFold_ctx declared importMap).append (CtxIn.flatMap _ _ (fun e _ => declaredUsage_ctx resolved e))

/-! ### `set_up_oneway_interface` -/

theorem setUpOneway_ctx (x : AidlFile) : CtxIn onewayCtxs (setUpOneway x).2 := by
  unfold setUpOneway
  split
  · rename_i i _
    dsimp only
    unfold setUpOnewayInterface
    split
    · exact CtxIn.nil _
    · dsimp only
      apply CtxIn.flatMap
      intro r hr
      obtain ⟨el, _, rfl⟩ := List.mem_map.mp hr
      cases el with
      | const c => exact CtxIn.nil _
      | method m =>
        simp only [setUpOnewayElement, setUpOnewayMethod]
        split
        · exact CtxIn.single _ (by simp [mkDiag, onewayCtxs])
        · exact CtxIn.nil _
  · exact CtxIn.nil _

/-! ### `check_methods` -/

theorem checkMethodArg_ctx (ow : Bool) (a : Arg) : CtxIn methodCtxs (checkMethodArg ow a) := by
  unfold checkMethodArg
  dsimp only
  apply CtxIn.append
  · split
    · split
      · exact CtxIn.single _ (by simp [mkDiag, methodCtxs])
      · exact CtxIn.nil _
    · split
      · exact CtxIn.single _ (by simp [mkDiag, methodCtxs])
      · exact CtxIn.nil _
    · split
      · exact CtxIn.single _ (by simp [mkDiag, methodCtxs])
      · exact CtxIn.nil _
    · exact CtxIn.single _ (by simp [mkDiag, methodCtxs])
    · exact CtxIn.nil _
  · split
    · exact CtxIn.single _ (by simp [mkDiag, methodCtxs])
    · exact CtxIn.nil _

theorem checkMethod_ctx (m : Method) : CtxIn methodCtxs (checkMethod m) := by
  unfold checkMethod
  apply CtxIn.append
  · unfold returnDiags
    split
    · exact CtxIn.single _ (by simp [mkDiag, methodCtxs])
    · exact CtxIn.nil _
  · unfold checkMethodArgs
    exact CtxIn.flatMap _ _ (fun a _ => checkMethodArg_ctx _ a)

theorem checkMethodIdsStep_ctx (s s' : IdState) (m : Method) (new : List Diag)
    (h : checkMethodIdsStep s m = .ok (s', new)) : CtxIn methodCtxs new := by
  unfold checkMethodIdsStep at h
  split at h
  · cases h
    exact CtxIn.single _ (by simp [mkDiag, methodCtxs])
  · dsimp only at h
    split at h
    · cases h
    · rename_i mixedDiags hmixed
      have hm : CtxIn methodCtxs mixedDiags := by
        split at hmixed
        · split at hmixed
          · cases hmixed
            exact CtxIn.single _ (by simp [mkDiag, methodCtxs])
          · cases hmixed
        · cases hmixed
          exact CtxIn.nil _
      split at h
      · cases h; exact hm
      · split at h
        · cases h
          exact hm.append (CtxIn.single _ (by simp [mkDiag, methodCtxs]))
        · cases h; exact hm

def ExCtx (s : Except String (IdState × List Diag)) : Prop :=
  match s with
  | .ok (_, ds) => CtxIn methodCtxs ds
  | .error _ => True

theorem checkMethodsStep_ctx (s : Except String (IdState × List Diag)) (m : Method) (h : ExCtx s) :
    ExCtx (checkMethodsStep s m) := by
  unfold checkMethodsStep
  split
  · trivial
  · rename_i st diags
    split
    · trivial
    · rename_i st' new hnew
      exact (CtxIn.append (CtxIn.append h (checkMethod_ctx m)) (checkMethodIdsStep_ctx st st' m new hnew))

theorem checkMethods_ctx (ast : AidlFile) (ds : List Diag) (h : checkMethods ast = .ok ds) : CtxIn methodCtxs ds := by
  unfold checkMethods at h
  have hw : ExCtx (walkMethods ast checkMethodsStep (.ok ({}, []))) := by
    unfold walkMethods
    have h0 : ExCtx (.ok ({}, [])) := CtxIn.nil _
    split
    · rename_i i _
      generalize (Except.ok (({} : IdState), ([] : List Diag)) : Except String (IdState × List Diag)) = s0 at h0
      induction i.elements generalizing s0 with
      | nil => exact h0
      | cons el els ih =>
        simp only [List.foldl_cons]
        apply ih
        cases el with
        | method mm => exact checkMethodsStep_ctx s0 mm h0
        | const c => exact h0
    · exact h0
    · exact h0
  split at h
  · rename_i s hs
    cases h
    rw [hs] at hw
    exact hw
  · cases h

/-! ### all steps of `validate` for one file -/

theorem containers_ctx (ds : List Diag) (h : ∀ d ∈ ds, C08.isContainerDiag d = true) : CtxIn containerCtxs ds := by
  intro d hd
  have := h d hd
  unfold C08.isContainerDiag at this
  split at this
  · rename_i c hc
    rw [hc]
    exact List.mem_map.mpr ⟨c, by simpa using this, rfl⟩
  · cases this

/-- **Every diagnostic of a validation step carries a context message of that step** — every
    file, every project, every hash order. -/
theorem groups_ctx {ho : HashOrder} {defined : Defined} {syn : List Diag} {ast : AidlFile} {g : Groups}
    (hg : validateGroups ho defined syn ast = .ok g) :
    g.syn = syn ∧ CtxIn unknownCtxs g.unknown ∧ CtxIn importCtxs g.imports ∧ CtxIn declCtxs g.decls
      ∧ CtxIn containerCtxs g.containers ∧ CtxIn onewayCtxs g.oneway ∧ CtxIn methodCtxs g.methods := by
  have hu := Props.C05.validateGroups_unknown hg
  obtain ⟨x, _, hx⟩ := Props.C08.validateGroups_containers hg
  have hcont := containers_ctx _ (Props.C08.checkContainers_eq x _ hx).2
  unfold validateGroups at hg
  simp only at hg
  split at hg
  · cases hg
  · split at hg
    · cases hg
    · rename_i d6 h6
      cases hg
      refine ⟨rfl, ?_, checkImports_ctx _ _ _ _, checkDeclared_ctx _ _ _ _, hcont, setUpOneway_ctx _, checkMethods_ctx _ _ h6⟩
      rw [hu]
      intro d hd
      obtain ⟨t, _, rfl⟩ := List.mem_map.mp hd
      simp [unknownTypeDiag, mkDiag, unknownCtxs]

/-- `Fresh` of C05 holds when the syntax-stage diagnostics carry syntax-stage messages -/
theorem fresh_C05 {ho : HashOrder} {defined : Defined} {syn : List Diag} {ast : AidlFile} {g : Groups}
    (hg : validateGroups ho defined syn ast = .ok g) (hsyn : CtxIn synCtxs syn) : Props.C05.Fresh g := by
  obtain ⟨h0, _, h2, h3, h4, h5, h6⟩ := groups_ctx hg
  have key : ∀ (L : List (Option String)), some "unknown type" ∉ L → ∀ ds, CtxIn L ds → ∀ d ∈ ds, C05.isUnknownType d = false := by
    intro L hL ds hds d hd
    unfold C05.isUnknownType
    have hc : d.context ≠ some "unknown type" := by
      intro heq; exact hL (heq ▸ hds d hd)
    simp [hc]
  intro d hd
  simp only [List.mem_append] at hd
  rcases hd with ((((hd | hd) | hd) | hd) | hd) | hd
  · exact key synCtxs (by decide) _ (h0 ▸ hsyn) d hd
  · exact key importCtxs (by decide) _ h2 d hd
  · exact key declCtxs (by decide) _ h3 d hd
  · exact key containerCtxs (by decide) _ h4 d hd
  · exact key onewayCtxs (by decide) _ h5 d hd
  · exact key methodCtxs (by decide) _ h6 d hd

/-- `Fresh` of C08 likewise -/
theorem fresh_C08 {ho : HashOrder} {defined : Defined} {syn : List Diag} {ast : AidlFile} {g : Groups}
    (hg : validateGroups ho defined syn ast = .ok g) (hsyn : CtxIn synCtxs syn) : Props.C08.Fresh g := by
  obtain ⟨h0, h1, h2, h3, _, h5, h6⟩ := groups_ctx hg
  have key : ∀ (L : List (Option String)), (∀ c ∈ C08.containerContexts, some c ∉ L) → ∀ ds, CtxIn L ds →
      ∀ d ∈ ds, C08.isContainerDiag d = false := by
    intro L hL ds hds d hd
    unfold C08.isContainerDiag
    split
    · rename_i c hc
      cases hcc : C08.containerContexts.contains c with
      | false => rfl
      | true =>
        exact absurd (hc ▸ hds d hd) (hL c (by simpa using hcc))
    · rfl
  intro d hd
  simp only [List.mem_append] at hd
  rcases hd with ((((hd | hd) | hd) | hd) | hd) | hd
  · exact key synCtxs (by decide) _ (h0 ▸ hsyn) d hd
  · exact key unknownCtxs (by decide) _ h1 d hd
  · exact key importCtxs (by decide) _ h2 d hd
  · exact key declCtxs (by decide) _ h3 d hd
  · exact key onewayCtxs (by decide) _ h5 d hd
  · exact key methodCtxs (by decide) _ h6 d hd

end Aidl.Props.DiagCtx
