import AidlVerif.Props.JavadocSpec
import AidlVerif.Gen.LexTable

/-!
# What the lexer skips between tokens — the three skip entries of the regenerated table, exactly

* `wsRe` (`\s*`): the maximal run of white-space characters;
* `lineRe` (`//[^\n\r]*[\n\r]*`): `//`, the rest of the line, and the line breaks (LF / CR) after it;
* `blockRe` (`/\*[^*]*\*+(?:[^/*][^*]*\*+)*/`): `/*` up to and including the FIRST `*/` — and nothing when
  there is none.

`*_entry`: each of them is, verbatim, a skip entry of THIS run's lexer table (kernel evaluation), so a
change of a pattern in `aidl.lalrpop` breaks these obligations. The first two are evaluated exactly
(`starLoop_cls`); the block comment through the regular language: soundness and completeness of the
matcher plus a characterisation of the language by a two-state scan (`firstClose`).
-/

namespace Aidl.Props.SkipEntries
open Aidl.Regex Aidl.Javadoc Aidl.Props.JavadocTotal Aidl.Props.LexerBounds Aidl.Props.LexerProgress
  Aidl.Props.RegexSound Aidl.Props.JavadocSpec

/-! ### white space and line comments: exact evaluation -/

def wsCls : List (Nat × Nat) :=
  [(9, 13), (32, 32), (133, 133), (160, 160), (5760, 5760), (8192, 8202), (8232, 8233), (8239, 8239), (8287, 8287), (12288, 12288)]
def wsRe : Re := .star (.cls wsCls)
def isWsChar (c : Char) : Bool := inCls wsCls c

theorem ws_entry : (wsRe, true) ∈ Gen.lexTable.toList := by decide

/-- the white-space entry consumes the maximal run of white-space characters -/
theorem matchAt_ws (f : Nat) (s : List Char) (p : Nat) (hf : s.length ≤ f) :
    matchAt wsRe f s p = some (p + utf8Len (s.takeWhile isWsChar)) := by
  have hs : s = s.takeWhile isWsChar ++ s.dropWhile isWsChar := (List.takeWhile_append_dropWhile).symm
  have hin : ∀ c ∈ s.takeWhile isWsChar, inCls wsCls c = true := fun c hc => mem_takeWhile_imp isWsChar s c hc
  have hout : HeadOut wsCls (s.dropWhile isWsChar) := fun c t ht => dropWhile_head_not isWsChar s c t ht
  have hlen : (s.takeWhile isWsChar).length ≤ f := Nat.le_trans (List.takeWhile_sublist _).length_le hf
  unfold matchAt wsRe
  rw [m_star]
  show starLoop (m (.cls wsCls) f) acc f s p = _
  conv => lhs; rw [hs]
  rw [starLoop_cls wsCls f acc _ _ f p hlen hin hout, tryFrom_acc]

def notEolCls : List (Nat × Nat) := [(0, 9), (11, 12), (14, 1114111)]
def eolCls : List (Nat × Nat) := [(10, 10), (13, 13)]
def lineRe : Re := Re.seqs [.cls [(47, 47)], .cls [(47, 47)], .star (.cls notEolCls), .star (.cls eolCls)]
def isNotEol (c : Char) : Bool := inCls notEolCls c
def isEol (c : Char) : Bool := inCls eolCls c

theorem line_entry : (lineRe, true) ∈ Gen.lexTable.toList := by decide

theorem inCls_slash (c : Char) : inCls [(47, 47)] c = true ↔ c = '/' := by
  constructor
  · intro h; rw [JavadocWords.eq_of_inCls_single 47 c h]
  · intro h; subst h; decide

/-- a line comment: `//`, everything up to the end of the line, and the line breaks that follow -/
theorem matchAt_line (f : Nat) (t : List Char) (p : Nat) (hf : t.length ≤ f) :
    matchAt lineRe f ('/' :: '/' :: t) p
      = some (p + 2 + utf8Len (t.takeWhile isNotEol) + utf8Len ((t.dropWhile isNotEol).takeWhile isEol)) := by
  let r1 := t.takeWhile isNotEol
  let t1 := t.dropWhile isNotEol
  have hs : t = r1 ++ t1 := (List.takeWhile_append_dropWhile).symm
  have hin1 : ∀ c ∈ r1, inCls notEolCls c = true := fun c hc => mem_takeWhile_imp isNotEol t c hc
  have hout1 : HeadOut notEolCls t1 := fun c t' ht => dropWhile_head_not isNotEol t c t' ht
  have hlen1 : r1.length ≤ f := Nat.le_trans (List.takeWhile_sublist _).length_le hf
  have hs2 : t1 = t1.takeWhile isEol ++ t1.dropWhile isEol := (List.takeWhile_append_dropWhile).symm
  have hin2 : ∀ c ∈ t1.takeWhile isEol, inCls eolCls c = true := fun c hc => mem_takeWhile_imp isEol t1 c hc
  have hout2 : HeadOut eolCls (t1.dropWhile isEol) := fun c t' ht => dropWhile_head_not isEol t1 c t' ht
  have hlen2 : (t1.takeWhile isEol).length ≤ f :=
    Nat.le_trans (List.takeWhile_sublist _).length_le (Nat.le_trans (List.dropWhile_sublist _).length_le hf)
  have e1 : inCls [(47, 47)] '/' = true := by decide
  have hsz : ('/' : Char).utf8Size = 1 := by decide
  unfold matchAt lineRe
  simp only [Re.seqs]
  rw [m_seq, m_cls_cons, if_pos e1, m_seq, m_cls_cons, if_pos e1, m_seq, m_star]
  -- the continuation after the first star: the second star, then the end
  show starLoop (m (.cls notEolCls) f) (fun s' p' => m (.star (.cls eolCls)) f s' p' acc) f t (p + ('/' : Char).utf8Size + ('/' : Char).utf8Size) = _
  conv => lhs; rw [hs]
  rw [starLoop_cls notEolCls f _ r1 t1 f _ hlen1 hin1 hout1]
  -- the continuation always succeeds, so the longest run is taken
  have hk : ∀ (run rest : List Char) (q : Nat), (∀ s' q', ∃ e, (fun s' p' => m (.star (.cls eolCls)) f s' p' acc) s' q' = some e) →
      tryFrom (fun s' p' => m (.star (.cls eolCls)) f s' p' acc) run rest q
        = (fun s' p' => m (.star (.cls eolCls)) f s' p' acc) rest (q + utf8Len run) := by
    intro run
    induction run with
    | nil => intro rest q _; simp [tryFrom, utf8Len_nil]
    | cons c run ih =>
      intro rest q hsome
      simp only [tryFrom]
      rw [ih rest _ hsome, utf8Len_cons, Nat.add_assoc]
      obtain ⟨e, he⟩ := hsome rest (q + (c.utf8Size + utf8Len run))
      simp only at he ⊢
      rw [he]
  have hsome : ∀ s' q', ∃ e, (fun s' p' => m (.star (.cls eolCls)) f s' p' acc) s' q' = some e := by
    intro s' q'
    simp only [m_star]
    exact starLoop_nil_complete _ acc f s' q' q' rfl
  rw [hk r1 t1 _ hsome]
  simp only [m_star]
  conv => lhs; rw [hs2]
  rw [starLoop_cls eolCls f acc _ _ f _ hlen2 hin2 hout2, tryFrom_acc, hsz]

/-! ### block comments: up to the first `*/` -/

def notStarCls : List (Nat × Nat) := [(0, 41), (43, 1114111)]
def starCls : List (Nat × Nat) := [(42, 42)]
def notSlashStarCls : List (Nat × Nat) := [(0, 41), (43, 46), (48, 1114111)]
def slashCls : List (Nat × Nat) := [(47, 47)]

/-- one more stretch of a comment after a run of stars: a character that is neither `*` nor `/`, characters
    other than `*`, stars -/
def loopRe : Re := Re.seqs [.cls notSlashStarCls, .star (.cls notStarCls), Re.plus (.cls starCls)]
/-- what follows `/*` -/
def tailRe : Re := .seq (.star (.cls notStarCls)) (.seq (Re.plus (.cls starCls)) (.seq (.star loopRe) (.cls slashCls)))
def blockRe : Re := Re.seqs [.cls slashCls, .cls starCls, .star (.cls notStarCls), Re.plus (.cls starCls), .star loopRe, .cls slashCls]

theorem blockRe_eq : blockRe = .seq (.cls slashCls) (.seq (.cls starCls) tailRe) := rfl

theorem block_entry : (blockRe, true) ∈ Gen.lexTable.toList := by decide

/-- the scan for the closing `*/`: `true` = the previous character was a `*` -/
def firstClose : Bool → List Char → Nat → Option Nat
  | _, [], _ => none
  | st, c :: cs, i =>
    if st && c = '/' then some (i + 1)
    else if c = '*' then firstClose true cs (i + 1)
    else firstClose false cs (i + 1)

theorem valid_lt (c : Char) : c.toNat < 1114112 := by
  have := c.valid
  simp only [UInt32.isValidChar, Nat.isValidChar] at this
  show c.val.toNat < _
  omega

theorem inCls_star (c : Char) : inCls starCls c = true ↔ c = '*' := by
  constructor
  · intro h; rw [JavadocWords.eq_of_inCls_single 42 c h]
  · intro h; subst h; decide

theorem inCls_notStar (c : Char) : inCls notStarCls c = true ↔ c ≠ '*' := by
  have hv := valid_lt c
  constructor
  · intro h e; subst e; revert h; decide
  · intro h
    have hne : c.toNat ≠ 42 := fun e => h (by rw [JavadocWords.char_of_toNat c 42 e])
    simp only [inCls, notStarCls, List.any_cons, List.any_nil, Bool.or_false, Bool.or_eq_true, Bool.and_eq_true, decide_eq_true_eq]
    omega

theorem inCls_notSlashStar (c : Char) : inCls notSlashStarCls c = true ↔ (c ≠ '*' ∧ c ≠ '/') := by
  have hv := valid_lt c
  constructor
  · intro h
    constructor
    · intro e; subst e; revert h; decide
    · intro e; subst e; revert h; decide
  · intro ⟨h1, h2⟩
    have hne1 : c.toNat ≠ 42 := fun e => h1 (by rw [JavadocWords.char_of_toNat c 42 e])
    have hne2 : c.toNat ≠ 47 := fun e => h2 (by rw [JavadocWords.char_of_toNat c 47 e])
    simp only [inCls, notSlashStarCls, List.any_cons, List.any_nil, Bool.or_false, Bool.or_eq_true, Bool.and_eq_true, decide_eq_true_eq]
    omega

/-! #### the scan over the pieces of a comment -/

theorem fc_notStar (a y : List Char) (i : Nat) (ha : ∀ c ∈ a, c ≠ '*') (hne : a ≠ []) (st : Bool)
    (hst : st = true → ∀ c t, a = c :: t → c ≠ '/') :
    firstClose st (a ++ y) i = firstClose false y (i + a.length) := by
  induction a generalizing st i with
  | nil => exact absurd rfl hne
  | cons c t ih =>
    have hc : c ≠ '*' := ha c (by simp)
    have h1 : ¬ (st && decide (c = '/')) = true := by
      cases st with
      | false => simp
      | true => simp [hst rfl c t rfl]
    rw [List.cons_append, firstClose, if_neg (by simpa using h1), if_neg hc]
    by_cases ht : t = []
    · subst ht; simp
    · rw [ih (i + 1) (fun d hd => ha d (by simp [hd])) ht false (by intro h; cases h)]
      simp only [List.length_cons]; congr 1; omega

/-- characters other than `*`, from the state "no star before": possibly none -/
theorem fc_notStar0 (a y : List Char) (i : Nat) (ha : ∀ c ∈ a, c ≠ '*') :
    firstClose false (a ++ y) i = firstClose false y (i + a.length) := by
  by_cases hne : a = []
  · subst hne; simp
  · exact fc_notStar a y i ha hne false (by intro h; cases h)

theorem fc_stars (s y : List Char) (i : Nat) (hs : ∀ c ∈ s, c = '*') (hne : s ≠ []) (st : Bool) :
    firstClose st (s ++ y) i = firstClose true y (i + s.length) := by
  induction s generalizing st i with
  | nil => exact absurd rfl hne
  | cons c t ih =>
    have hc : c = '*' := hs c (by simp)
    subst hc
    have h1 : ¬ (st && decide (('*' : Char) = '/')) = true := by cases st <;> decide
    rw [List.cons_append, firstClose, if_neg (by simpa using h1), if_pos rfl]
    by_cases ht : t = []
    · subst ht; simp
    · rw [ih (i + 1) (fun d hd => hs d (by simp [hd])) ht true]
      simp only [List.length_cons]; congr 1; omega

/-- the characters of a word of `star (cls rs)` -/
theorem star_cls_chars (rs : List (Nat × Nat)) (w : List Char) (h : Matches (.star (.cls rs)) w) : ∀ c ∈ w, inCls rs c = true :=
  Matches.all_chars (fun c => inCls rs c = true) h (by simp [clsAll])

theorem cls_word (rs : List (Nat × Nat)) (w : List Char) (h : Matches (.cls rs) w) : ∃ c, w = [c] ∧ inCls rs c = true := by
  cases h with
  | cls _ c hc => exact ⟨c, rfl, hc⟩

theorem plus_stars (w : List Char) (h : Matches (Re.plus (.cls starCls)) w) : w ≠ [] ∧ ∀ c ∈ w, c = '*' := by
  unfold Re.plus at h
  cases h with
  | seq _ _ u v hu hv =>
    obtain ⟨c, rfl, hc⟩ := cls_word _ _ hu
    refine ⟨by simp, ?_⟩
    intro d hd
    rcases List.mem_append.mp hd with hd | hd
    · simp only [List.mem_cons, List.not_mem_nil, or_false] at hd; subst hd; exact (inCls_star d).mp hc
    · exact (inCls_star d).mp (star_cls_chars _ _ hv d hd)

/-- one stretch `[^/*][^*]*\*+` read from the state "star before" leads back to it, without closing -/
theorem fc_loop_iter (w y : List Char) (i : Nat) (h : Matches loopRe w) :
    firstClose true (w ++ y) i = firstClose true y (i + w.length) := by
  unfold loopRe Re.seqs at h
  cases h with
  | seq _ _ u v hu hv =>
    obtain ⟨b, rfl, hb⟩ := cls_word _ _ hu
    cases hv with
    | seq _ _ a s ha hs =>
      obtain ⟨hb1, hb2⟩ := (inCls_notSlashStar b).mp hb
      have ha' : ∀ c ∈ a, c ≠ '*' := fun c hc => (inCls_notStar c).mp (star_cls_chars _ _ ha c hc)
      obtain ⟨hsne, hs'⟩ := plus_stars s hs
      have e : [b] ++ (a ++ s) ++ y = (b :: a) ++ (s ++ y) := by simp
      rw [e, fc_notStar (b :: a) (s ++ y) i (by
          intro c hc
          rcases List.mem_cons.mp hc with rfl | hc
          · exact hb1
          · exact ha' c hc) (by simp) true (by intro _ c t hct; cases hct; exact hb2),
        fc_stars s y _ hs' hsne false]
      simp only [List.length_append, List.length_cons, List.length_nil]
      congr 1; omega

theorem fc_loop (w y : List Char) (i : Nat) (h : Matches (.star loopRe) w) :
    firstClose true (w ++ y) i = firstClose true y (i + w.length) := by
  generalize hr : Re.star loopRe = r at h
  induction h generalizing i with
  | starNil a => simp
  | starCons a u v hu _ _ ihv =>
    cases hr
    rw [List.append_assoc, fc_loop_iter u (v ++ y) i hu, ihv _ rfl]
    simp only [List.length_append]; congr 1; omega
  | eps => cases hr
  | cls => cases hr
  | seq => cases hr
  | altL => cases hr
  | altR => cases hr

/-- **a word of the tail expression closes exactly at its end** -/
theorem tail_closes (u : List Char) (h : Matches tailRe u) : firstClose false u 0 = some u.length := by
  unfold tailRe at h
  cases h with
  | seq _ _ a r1 ha h1 =>
    cases h1 with
    | seq _ _ s r2 hs h2 =>
      cases h2 with
      | seq _ _ l e hl he =>
        obtain ⟨c, rfl, hc⟩ := cls_word _ _ he
        have hc' : c = '/' := (inCls_slash c).mp hc
        subst hc'
        have ha' : ∀ c ∈ a, c ≠ '*' := fun c hc => (inCls_notStar c).mp (star_cls_chars _ _ ha c hc)
        obtain ⟨hsne, hs'⟩ := plus_stars s hs
        rw [fc_notStar0 a _ 0 ha', fc_stars s _ _ hs' hsne false, fc_loop l ['/'] _ hl]
        simp only [firstClose, Bool.true_and, decide_true, if_true, List.length_append, List.length_cons, List.length_nil]
        congr 1; omega

/-! #### conversely: a text that closes exactly at its end is a word of the tail expression -/

/-- what remains to be read when the previous character was a star: more stars, stretches, the slash -/
def afterStarRe : Re := .seq (.star (.cls starCls)) (.seq (.star loopRe) (.cls slashCls))

theorem Matches.star_cons_cls (rs : List (Nat × Nat)) (c : Char) (w : List Char) (hc : inCls rs c = true)
    (h : Matches (.star (.cls rs)) w) : Matches (.star (.cls rs)) (c :: w) :=
  .starCons _ [c] w (.cls rs c hc) h

theorem closes_words : ∀ (u : List Char) (i : Nat),
    (firstClose false u i = some (i + u.length) → Matches tailRe u)
    ∧ (firstClose true u i = some (i + u.length) → Matches afterStarRe u)
  | [], i => by
    constructor <;> (intro h; simp [firstClose] at h)
  | c :: u, i => by
    obtain ⟨ihN, ihT⟩ := closes_words u (i + 1)
    have hlen : i + (c :: u).length = (i + 1) + u.length := by simp only [List.length_cons]; omega
    constructor
    · intro h
      rw [firstClose, hlen] at h
      simp only [Bool.false_and, Bool.false_eq_true, if_false] at h
      by_cases hc : c = '*'
      · -- a star: the run of non-stars is empty, the run of stars begins here
        rw [if_pos hc] at h
        have := ihT h
        unfold afterStarRe at this
        cases this with
        | seq _ _ s r hs hr =>
          unfold tailRe
          have : Matches (.seq (.star (.cls notStarCls)) (.seq (Re.plus (.cls starCls)) (.seq (.star loopRe) (.cls slashCls)))) ([] ++ ((c :: s) ++ r)) :=
            .seq _ _ [] _ (.starNil _) (.seq _ _ (c :: s) r (by
              unfold Re.plus
              exact .seq _ _ [c] s (.cls _ c ((inCls_star c).mpr hc)) hs) hr)
          simpa using this
      · rw [if_neg hc] at h
        have := ihN h
        unfold tailRe at this ⊢
        cases this with
        | seq _ _ a r ha hr =>
          have : Matches (.seq (.star (.cls notStarCls)) (.seq (Re.plus (.cls starCls)) (.seq (.star loopRe) (.cls slashCls)))) ((c :: a) ++ r) :=
            .seq _ _ (c :: a) r (Matches.star_cons_cls _ c a ((inCls_notStar c).mpr hc) ha) hr
          simpa using this
    · intro h
      rw [firstClose, hlen] at h
      by_cases hs : c = '/'
      · subst hs
        simp only [Bool.true_and, decide_true, if_true, Option.some.injEq] at h
        have hu : u = [] := List.length_eq_zero_iff.mp (by omega)
        subst hu
        unfold afterStarRe
        have : Matches (.seq (.star (.cls starCls)) (.seq (.star loopRe) (.cls slashCls))) ([] ++ ([] ++ ['/'])) :=
          .seq _ _ [] _ (.starNil _) (.seq _ _ [] ['/'] (.starNil _) (.cls _ '/' (by decide)))
        simpa using this
      · have h1 : ¬ ((true && decide (c = '/')) = true) := by simp [hs]
        rw [if_neg (by simpa using h1)] at h
        by_cases hc : c = '*'
        · rw [if_pos hc] at h
          have := ihT h
          unfold afterStarRe at this ⊢
          cases this with
          | seq _ _ s r hs' hr =>
            have : Matches (.seq (.star (.cls starCls)) (.seq (.star loopRe) (.cls slashCls))) ((c :: s) ++ r) :=
              .seq _ _ (c :: s) r (Matches.star_cons_cls _ c s ((inCls_star c).mpr hc) hs') hr
            simpa using this
        · rw [if_neg hc] at h
          -- neither star nor slash: a new stretch begins
          have := ihN h
          unfold tailRe at this
          cases this with
          | seq _ _ a r1 ha h1' =>
            cases h1' with
            | seq _ _ st r2 hst h2 =>
              cases h2 with
              | seq _ _ l e hl he =>
                have hiter : Matches loopRe ([c] ++ (a ++ st)) := by
                  unfold loopRe Re.seqs
                  exact .seq _ _ [c] _ (.cls _ c ((inCls_notSlashStar c).mpr ⟨hc, hs⟩)) (.seq _ _ a st ha hst)
                unfold afterStarRe
                have : Matches (.seq (.star (.cls starCls)) (.seq (.star loopRe) (.cls slashCls)))
                    ([] ++ ((([c] ++ (a ++ st)) ++ l) ++ e)) :=
                  .seq _ _ [] _ (.starNil _) (.seq _ _ _ e (.starCons _ _ l hiter hl) he)
                simpa [List.append_assoc] using this

theorem fc_prefix : ∀ (st : Bool) (x y : List Char) (i k : Nat), firstClose st x i = some k → firstClose st (x ++ y) i = some k
  | _, [], _, _, _, h => by simp [firstClose] at h
  | st, c :: x, y, i, k, h => by
    rw [List.cons_append, firstClose]
    rw [firstClose] at h
    split
    · rename_i h1; rw [if_pos h1] at h; exact h
    · rename_i h1
      rw [if_neg h1] at h
      split
      · rename_i h2; rw [if_pos h2] at h; exact fc_prefix true x y _ k h
      · rename_i h2; rw [if_neg h2] at h; exact fc_prefix false x y _ k h

/-- **A block comment is `/*` up to and including the first `*/`** — whatever follows, for every bound that
    reaches the text length. -/
theorem matchAt_block (f : Nat) (u rest : List Char) (p : Nat) (hclose : firstClose false u 0 = some u.length)
    (hf : ('/' :: '*' :: (u ++ rest)).length ≤ f) :
    matchAt blockRe f ('/' :: '*' :: (u ++ rest)) p = some (p + utf8Len ('/' :: '*' :: u)) := by
  -- the comment is a word of the language
  have hw : Matches blockRe ('/' :: '*' :: u) := by
    rw [blockRe_eq]
    have ht := (closes_words u 0).1 (by simpa using hclose)
    have : Matches (.seq (.cls slashCls) (.seq (.cls starCls) tailRe)) (['/'] ++ (['*'] ++ u)) :=
      .seq _ _ ['/'] _ (.cls _ '/' (by decide)) (.seq _ _ ['*'] u (.cls _ '*' (by decide)) ht)
    simpa using this
  have hshape : '/' :: '*' :: (u ++ rest) = ('/' :: '*' :: u) ++ rest := by simp
  obtain ⟨e, he⟩ := matchAt_complete blockRe ('/' :: '*' :: u) rest hw f p (by
    rw [hshape, List.length_append] at hf; omega)
  rw [hshape, he]
  -- whatever the matcher found is a word of the language, hence closes at its end, hence is this comment
  obtain ⟨w, s', hs, hmw, hew⟩ := matchAt_sound blockRe f _ p e he
  rw [blockRe_eq] at hmw
  cases hmw with
  | seq _ _ a r ha hr =>
    cases hr with
    | seq _ _ b t hb ht =>
      obtain ⟨ca, rfl, _⟩ := cls_word _ _ ha
      obtain ⟨cb, rfl, _⟩ := cls_word _ _ hb
      have hs' : ('/' :: '*' :: u) ++ rest = ca :: cb :: (t ++ s') := by simpa using hs
      simp only [List.cons_append, List.cons.injEq] at hs'
      obtain ⟨rfl, rfl, htail⟩ := hs'
      have h1 := fc_prefix false u rest 0 _ hclose
      have h2 := fc_prefix false t s' 0 _ (tail_closes t ht)
      rw [htail] at h1
      rw [h1] at h2
      have hlen : u.length = t.length := by simpa using h2
      have hut : u = t := by
        have := List.append_inj_left htail hlen
        exact this
      subst hut
      rw [hew]
      simp

/-- … and no block comment starts at `/*` when no `*/` follows: the lexer reports the `/` instead -/
theorem matchAt_block_open (f : Nat) (u : List Char) (p : Nat) (hopen : ∀ k, firstClose false u 0 ≠ some k) :
    matchAt blockRe f ('/' :: '*' :: u) p = none := by
  cases h : matchAt blockRe f ('/' :: '*' :: u) p with
  | none => rfl
  | some e =>
    obtain ⟨w, s', hs, hmw, _⟩ := matchAt_sound blockRe f _ p e h
    rw [blockRe_eq] at hmw
    cases hmw with
    | seq _ _ a r ha hr =>
      cases hr with
      | seq _ _ b t hb ht =>
        obtain ⟨ca, rfl, _⟩ := cls_word _ _ ha
        obtain ⟨cb, rfl, _⟩ := cls_word _ _ hb
        have hs' : '/' :: '*' :: u = ca :: cb :: (t ++ s') := by simpa using hs
        simp only [List.cons.injEq] at hs'
        obtain ⟨_, _, htail⟩ := hs'
        have := fc_prefix false t s' 0 _ (tail_closes t ht)
        rw [← htail] at this
        exact absurd this (hopen _)

/-- sanity (kernel evaluation of the scan): the first `*/` of three candidates -/
example : firstClose false "a * / **/ x */".toList 0 = some 9 := by decide

/-! ### two token entries evaluated exactly: identifiers and string literals -/

def identStartCls : List (Nat × Nat) := [(65, 90), (95, 95), (97, 122)]
def identPartCls : List (Nat × Nat) := [(48, 57), (65, 90), (95, 95), (97, 122)]
def identRe : Re := Re.seqs [.cls identStartCls, .star (.cls identPartCls)]
def isIdentPart (c : Char) : Bool := inCls identPartCls c

theorem ident_entry : (identRe, false) ∈ Gen.lexTable.toList := by decide

/-- IDENT: a letter or `_`, then the maximal run of letters, digits and `_` -/
theorem matchAt_ident (f : Nat) (c : Char) (t : List Char) (p : Nat) (hf : t.length ≤ f) :
    matchAt identRe f (c :: t) p
      = if inCls identStartCls c then some (p + c.utf8Size + utf8Len (t.takeWhile isIdentPart)) else none := by
  have hs : t = t.takeWhile isIdentPart ++ t.dropWhile isIdentPart := (List.takeWhile_append_dropWhile).symm
  have hin : ∀ d ∈ t.takeWhile isIdentPart, inCls identPartCls d = true := fun d hd => mem_takeWhile_imp isIdentPart t d hd
  have hout : HeadOut identPartCls (t.dropWhile isIdentPart) := fun d t' ht => dropWhile_head_not isIdentPart t d t' ht
  have hlen : (t.takeWhile isIdentPart).length ≤ f := Nat.le_trans (List.takeWhile_sublist _).length_le hf
  unfold matchAt identRe
  simp only [Re.seqs]
  rw [m_seq, m_cls_cons]
  split
  · rw [m_star]
    conv => lhs; rw [hs]
    rw [starLoop_cls identPartCls f _ _ _ f _ hlen hin hout]
    exact tryFrom_acc _ _ _
  · rfl

def strBodyCls : List (Nat × Nat) := [(0, 9), (11, 12), (14, 33), (35, 1114111)]
def quoteCls : List (Nat × Nat) := [(34, 34)]
def strRe : Re := Re.seqs [.cls quoteCls, .star (.cls strBodyCls), .cls quoteCls]
def isStrBody (c : Char) : Bool := inCls strBodyCls c

theorem str_entry : (strRe, false) ∈ Gen.lexTable.toList := by decide

def kQuote (f : Nat) : K := fun s p => m (.cls quoteCls) f s p acc

theorem kQuote_body (f : Nat) (c : Char) (t : List Char) (p : Nat) (h : isStrBody c = true) : kQuote f (c :: t) p = none := by
  have : inCls quoteCls c = false := by
    cases hq : inCls quoteCls c with
    | false => rfl
    | true =>
      have := JavadocWords.eq_of_inCls_single 34 c hq
      subst this
      revert h; decide
  simp [kQuote, m, this]

theorem tryFrom_kQuote (f : Nat) : ∀ (run rest : List Char) (p : Nat), (∀ c ∈ run, isStrBody c = true) →
    tryFrom (kQuote f) run rest p = kQuote f rest (p + utf8Len run) := by
  intro run
  induction run with
  | nil => intro rest p _; simp [tryFrom, utf8Len_nil]
  | cons c run ih =>
    intro rest p hin
    simp only [tryFrom]
    rw [ih rest _ (fun d hd => hin d (by simp [hd])), utf8Len_cons, Nat.add_assoc]
    cases hk : kQuote f rest (p + (c.utf8Size + utf8Len run)) with
    | some r => rfl
    | none =>
      simp only
      rw [List.cons_append, kQuote_body f c _ p (hin c (by simp))]

/-- a string literal: `"`, characters other than `"` and line breaks, `"` — it never spans lines, and an
    unterminated one is no string token -/
theorem matchAt_str (f : Nat) (t : List Char) (p : Nat) (hf : t.length ≤ f) :
    matchAt strRe f ('"' :: t) p
      = match t.dropWhile isStrBody with
        | d :: _ => if d = '"' then some (p + 1 + utf8Len (t.takeWhile isStrBody) + 1) else none
        | [] => none := by
  have hs : t = t.takeWhile isStrBody ++ t.dropWhile isStrBody := (List.takeWhile_append_dropWhile).symm
  have hin : ∀ d ∈ t.takeWhile isStrBody, inCls strBodyCls d = true := fun d hd => mem_takeWhile_imp isStrBody t d hd
  have hout : HeadOut strBodyCls (t.dropWhile isStrBody) := fun d t' ht => dropWhile_head_not isStrBody t d t' ht
  have hlen : (t.takeWhile isStrBody).length ≤ f := Nat.le_trans (List.takeWhile_sublist _).length_le hf
  have e1 : inCls quoteCls '"' = true := by decide
  have hsz : ('"' : Char).utf8Size = 1 := by decide
  unfold matchAt strRe
  simp only [Re.seqs]
  rw [m_seq, m_cls_cons, if_pos e1, m_seq, m_star]
  show starLoop (m (.cls strBodyCls) f) (kQuote f) f t (p + ('"' : Char).utf8Size) = _
  conv => lhs; rw [hs]
  rw [starLoop_cls strBodyCls f (kQuote f) _ _ f _ hlen hin hout, tryFrom_kQuote f _ _ _ hin, hsz]
  cases hd : t.dropWhile isStrBody with
  | nil => simp [kQuote, m]
  | cons d t' =>
    by_cases hq : d = '"'
    · subst hq
      simp [kQuote, m, e1, acc, hsz]
    · have : inCls quoteCls d = false := by
        cases hh : inCls quoteCls d with
        | false => rfl
        | true => exact absurd (JavadocWords.eq_of_inCls_single 34 d hh) hq
      simp [kQuote, m, this, hq]

def digitCls : List (Nat × Nat) := [(48, 57)]
def intRe : Re := Re.plus (.cls digitCls)
def isDigit (c : Char) : Bool := inCls digitCls c

theorem int_entry : (intRe, false) ∈ Gen.lexTable.toList := by decide

/-- INTEGER: the maximal run of ASCII digits, at least one -/
theorem matchAt_int (f : Nat) (c : Char) (t : List Char) (p : Nat) (hf : t.length ≤ f) :
    matchAt intRe f (c :: t) p
      = if inCls digitCls c then some (p + c.utf8Size + utf8Len (t.takeWhile isDigit)) else none := by
  have hs : t = t.takeWhile isDigit ++ t.dropWhile isDigit := (List.takeWhile_append_dropWhile).symm
  have hin : ∀ d ∈ t.takeWhile isDigit, inCls digitCls d = true := fun d hd => mem_takeWhile_imp isDigit t d hd
  have hout : HeadOut digitCls (t.dropWhile isDigit) := fun d t' ht => dropWhile_head_not isDigit t d t' ht
  have hlen : (t.takeWhile isDigit).length ≤ f := Nat.le_trans (List.takeWhile_sublist _).length_le hf
  unfold matchAt intRe Re.plus
  rw [m_seq, m_cls_cons]
  split
  · rw [m_star]
    conv => lhs; rw [hs]
    rw [starLoop_cls digitCls f _ _ _ f _ hlen hin hout]
    exact tryFrom_acc _ _ _
  · rfl

def annRe : Re := Re.seqs [.cls [(64, 64)], .cls identStartCls, .star (.cls identPartCls)]

theorem ann_entry : (annRe, false) ∈ Gen.lexTable.toList := by decide

/-- ANNOTATION: `@`, a letter or `_`, then the maximal run of letters, digits and `_` -/
theorem matchAt_ann (f : Nat) (c : Char) (t : List Char) (p : Nat) (hf : t.length ≤ f) :
    matchAt annRe f ('@' :: c :: t) p
      = if inCls identStartCls c then some (p + 1 + c.utf8Size + utf8Len (t.takeWhile isIdentPart)) else none := by
  have hs : t = t.takeWhile isIdentPart ++ t.dropWhile isIdentPart := (List.takeWhile_append_dropWhile).symm
  have hin : ∀ d ∈ t.takeWhile isIdentPart, inCls identPartCls d = true := fun d hd => mem_takeWhile_imp isIdentPart t d hd
  have hout : HeadOut identPartCls (t.dropWhile isIdentPart) := fun d t' ht => dropWhile_head_not isIdentPart t d t' ht
  have hlen : (t.takeWhile isIdentPart).length ≤ f := Nat.le_trans (List.takeWhile_sublist _).length_le hf
  have e1 : inCls [(64, 64)] '@' = true := by decide
  have hsz : ('@' : Char).utf8Size = 1 := by decide
  unfold matchAt annRe
  simp only [Re.seqs]
  rw [m_seq, m_cls_cons, if_pos e1, m_seq, m_cls_cons, hsz]
  split
  · rw [m_star]
    conv => lhs; rw [hs]
    rw [starLoop_cls identPartCls f _ _ _ f _ hlen hin hout]
    exact tryFrom_acc _ _ _
  · rfl

end Aidl.Props.SkipEntries
