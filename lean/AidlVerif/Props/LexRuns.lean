import AidlVerif.Props.LexNumbers

/-!
# Runs: the general form of `next_word`, and number-like lexemes (FLOAT included)

`next_run`: for a set `cls` of characters and a set `st` of start characters such that every entry of this run's
table either lies inside `cls` and is not skipped, or cannot begin with a character of `st` (`runClasses cls st`,
kernel-evaluated), a start character followed by the maximal run of `cls` characters is ONE token of the last entry
that matches the whole run — provided some entry does. `next_word` is the instance (word characters, word starts);
`next_numberlike` is the instance (characters of the FLOAT entry, its first characters): `12` is an INTEGER, `1.5f`,
`-3`, `+7` are FLOATs, `-` and `.` alone are the punctuation tokens — each decided on the run alone (`fullOn`).
-/

namespace Aidl.Props.LexRuns
open Aidl.Regex Aidl.Lexer Aidl.Javadoc Aidl.Props.JavadocTotal Aidl.Props.LexerBounds Aidl.Props.LexerProgress
  Aidl.Props.RegexSound Aidl.Props.JavadocSpec Aidl.Props.SkipEntries Aidl.Props.LexSkip Aidl.Props.LexerFuel Aidl.Props.LexIdent
  Aidl.Props.LexTokens Aidl.Props.LexNumbers

/-- every entry of this run's table either only has classes inside `cls` and is not skipped, or cannot begin with a
    character of `st` -/
def runClasses (cls st : List (Nat × Nat)) : Bool :=
  (List.range Gen.lexTable.size).all fun i =>
    (clsInside cls Gen.lexTable[i]!.1 && !Gen.lexTable[i]!.2) || disjointCls st (firstCls Gen.lexTable[i]!.1)

theorem run_class (cls st : List (Nat × Nat)) (h : runClasses cls st = true) (i : Nat) (hi : i < Gen.lexTable.size) :
    (clsInside cls Gen.lexTable[i]!.1 = true ∧ Gen.lexTable[i]!.2 = false) ∨
      disjointCls st (firstCls Gen.lexTable[i]!.1) = true := by
  have hall := List.all_eq_true.mp h i (List.mem_range.mpr hi)
  simp only [Bool.or_eq_true, Bool.and_eq_true, Bool.not_eq_true'] at hall
  exact hall

/-- what an entry does on a text that begins with a run: an entry inside the run's characters sees the run alone,
    the others match nothing or the empty word -/
theorem entry_at_run (cls st : List (Nat × Nat)) (hcert : runClasses cls st = true)
    (i : Nat) (f : Nat) (c : Char) (t rest : List Char) (p : Nat)
    (hc : inCls st c = true) (hout : ∀ d u, rest = d :: u → inCls cls d = false) (hf : (c :: t).length < f) :
    (∀ e, matchAt Gen.lexTable[i]!.1 f (c :: t ++ rest) p = some e → e ≤ p + utf8Len (c :: t)) ∧
    (matchAt Gen.lexTable[i]!.1 f (c :: t ++ rest) p = some (p + utf8Len (c :: t)) ↔ (i < Gen.lexTable.size ∧ fullOn i (c :: t) = true)) ∧
    (matchAt Gen.lexTable[i]!.1 f (c :: t ++ rest) p = some (p + utf8Len (c :: t)) → Gen.lexTable[i]!.2 = false) := by
  have hLpos : 0 < utf8Len (c :: t) := by rw [utf8Len_cons]; have := utf8Size_pos c; omega
  by_cases hi : i < Gen.lexTable.size
  · rcases run_class cls st hcert i hi with ⟨hin, hskip⟩ | hdis
    · -- an entry inside the run's characters
      have hall := clsInside_sound cls _ hin
      have hrest : ∀ d u, rest = d :: u → ¬ (inCls cls d = true) := fun d u h => by
        rw [hout d u h]; exact Bool.false_ne_true
      have hloc := matchAt_local _ _ hall f (c :: t) rest p hrest
      have hfu := matchAt_fuel Gen.lexTable[i]!.1 f ((c :: t).length + 1) (c :: t) 0 hf (Nat.lt_succ_self _)
      refine ⟨fun e he => ?_, ?_, fun _ => hskip⟩
      · rw [hloc] at he
        cases hm : matchAt Gen.lexTable[i]!.1 f (c :: t) 0 with
        | none => rw [hm] at he; cases he
        | some e0 =>
          rw [hm] at he
          simp only [Option.map_some, Option.some.injEq] at he
          obtain ⟨w, s', hs, _, he0⟩ := matchAt_sound _ f _ 0 e0 hm
          have : utf8Len (c :: t) = utf8Len w + utf8Len s' := by rw [hs, utf8Len_append]
          omega
      · rw [hloc, hfu]
        unfold fullOn
        constructor
        · intro h
          refine ⟨hi, ?_⟩
          cases hm : matchAt Gen.lexTable[i]!.1 ((c :: t).length + 1) (c :: t) 0 with
          | none => rw [hm] at h; cases h
          | some e0 =>
            rw [hm] at h
            simp only [Option.map_some, Option.some.injEq] at h
            have : e0 = utf8Len (c :: t) := by omega
            rw [this]; exact beq_self_eq_true _
        · intro ⟨_, h⟩
          have := eq_of_beq h
          rw [this]
          simp only [Option.map_some, Option.some.injEq]
          omega
    · -- an entry that cannot begin with a start character
      have hcout := disjoint_sound _ _ hdis c hc
      have hempty : ∀ f' s' p' e, matchAt Gen.lexTable[i]!.1 f' (c :: s') p' = some e → e = p' :=
        fun f' s' p' e h => matchAt_outside _ f' c s' p' e hcout h
      refine ⟨fun e he => ?_, ?_, fun h => ?_⟩
      · have := hempty f (t ++ rest) p e he; omega
      · constructor
        · intro h
          have := hempty f (t ++ rest) p _ h; omega
        · intro ⟨_, h⟩
          unfold fullOn at h
          have := hempty _ t 0 _ (eq_of_beq h); omega
      · have := hempty f (t ++ rest) p _ h; omega
  · have hd := default_entry i hi f (c :: t ++ rest) p
    refine ⟨fun e he => ?_, ?_, fun h => ?_⟩
    · rw [hd] at he; cases he; omega
    · constructor
      · intro h; rw [hd] at h; simp only [Option.some.injEq] at h; omega
      · intro ⟨h, _⟩; exact absurd h hi
    · rw [hd] at h; simp only [Option.some.injEq] at h; omega

/-- **A run is one token**: on a text that begins with a character of `st` and continues with the maximal run of
    characters of `cls`, when every entry of this run's table either lies inside `cls` (and is not skipped) or cannot
    begin with a character of `st` (`runClasses`, to be evaluated), and SOME entry matches the whole run, the lexer
    returns the run as one token of the LAST entry that matches the whole run — a property of the run alone. -/
theorem next_run (cls st : List (Nat × Nat)) (hcert : runClasses cls st = true)
    (fuel : Nat) (c : Char) (t rest : List Char) (p : Nat)
    (hc : inCls st c = true) (hout : ∀ d u, rest = d :: u → inCls cls d = false) (hf : (c :: t ++ rest).length ≤ fuel)
    (j0 : Nat) (hj0 : j0 < Gen.lexTable.size) (hfull0 : fullOn j0 (c :: t) = true) :
    ∃ j, j < Gen.lexTable.size ∧ fullOn j (c :: t) = true ∧
      (∀ i, i < Gen.lexTable.size → fullOn i (c :: t) = true → i ≤ j) ∧
      next Gen.lexTable (fuel + 1) (c :: t ++ rest) p
        = .token { start := p, index := j, text := String.ofList (c :: t), stop := p + utf8Len (c :: t) } rest := by
  have hlen : (c :: t).length < fuel + 1 := by
    have : (c :: t ++ rest).length = (c :: t).length + rest.length := List.length_append
    omega
  have hLpos : 0 < utf8Len (c :: t) := by rw [utf8Len_cons]; have := utf8Size_pos c; omega
  have hE := fun i => entry_at_run cls st hcert i (fuel + 1) c t rest p hc hout hlen
  have hident : Full Gen.lexTable (fuel + 1) (c :: t ++ rest) p (utf8Len (c :: t)) j0 := ((hE j0).2.1).mpr ⟨hj0, hfull0⟩
  obtain ⟨j, hj, hbest, hjfull, hmax⟩ := bestMatch_max Gen.lexTable (fuel + 1) (c :: t ++ rest) p (utf8Len (c :: t)) j0
    hj0 hLpos hident (fun i e he => (hE i).1 e he)
  refine ⟨j, hj, (((hE j).2.1).mp hjfull).2, fun i hi hfu => hmax i hi (((hE i).2.1).mpr ⟨hi, hfu⟩), ?_⟩
  have hskip := (hE j).2.2 hjfull
  have hshape : c :: t ++ rest = c :: (t ++ rest) := rfl
  rw [hshape, next]
  case x_4 => intro h; cases h
  rw [← hshape, hbest]
  simp only
  rw [hskip]
  simp only [Bool.false_eq_true, if_false]
  rw [LexSkip.splitBytes_prefix]

/-! ### number-like lexemes -/

/-- the characters a number can begin with: the first characters of the FLOAT entry -/
def floatStart : List (Nat × Nat) := firstCls Gen.lexTable[floatIdx]!.1

theorem numberRuns_ok : runClasses floatChars floatStart = true := by decide +kernel

/-- **A number-like run is one token**: a sign, digit or dot followed by the maximal run of characters FLOAT can
    use is one token of the last entry that matches all of it (INTEGER for ASCII digits, FLOAT for `1.5f`, `-3`,
    `+7`, `٣`; the punctuation entries for `-` and `.` alone), provided some entry does. -/
theorem next_numberlike (fuel : Nat) (c : Char) (t rest : List Char) (p : Nat)
    (hc : inCls floatStart c = true) (hout : ∀ d u, rest = d :: u → inCls floatChars d = false)
    (hf : (c :: t ++ rest).length ≤ fuel) (j0 : Nat) (hj0 : j0 < Gen.lexTable.size) (hfull0 : fullOn j0 (c :: t) = true) :
    ∃ j, j < Gen.lexTable.size ∧ fullOn j (c :: t) = true ∧
      (∀ i, i < Gen.lexTable.size → fullOn i (c :: t) = true → i ≤ j) ∧
      next Gen.lexTable (fuel + 1) (c :: t ++ rest) p
        = .token { start := p, index := j, text := String.ofList (c :: t), stop := p + utf8Len (c :: t) } rest :=
  next_run floatChars floatStart numberRuns_ok fuel c t rest p hc hout hf j0 hj0 hfull0

/-! ### non-vacuity -/

/-- the last entry of this run's table that matches the whole text -/
def lastFull (w : String) : Option Nat := ((List.range Gen.lexTable.size).filter (fun i => fullOn i w.toList)).getLast?

example : lastFull "12" = some intIdx ∧ lastFull "1.5f" = some floatIdx ∧ lastFull "-3" = some floatIdx ∧ lastFull "+7" = some floatIdx := by
  decide +kernel
example : lastFull "-" = some (Gen.lexTable.toList.idxOf (Re.cls [(45, 45)], false)) ∧ lastFull "." = some (Gen.lexTable.toList.idxOf (Re.cls [(46, 46)], false)) := by
  decide +kernel
example : lastFull "1.2.3" = none ∧ lastFull "12ff" = none := by decide +kernel

end Aidl.Props.LexRuns
