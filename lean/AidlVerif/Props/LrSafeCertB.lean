import AidlVerif.Props.LrSafeCertDefs
namespace Aidl.Props.LrSafe
open Aidl Aidl.Lr
set_option maxRecDepth 1000000 in
theorem edges_ok : Cert.edgesOK cert = true := by decide +kernel
end Aidl.Props.LrSafe
