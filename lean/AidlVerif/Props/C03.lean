import AidlVerif.Props.ParseLevel

/-!
# C03 — syntax verdicts agree with the grammar; failure is never silent  (partial)

Proved about the model:
* `error_branch_not_silent` — when the LR driver ends with a parse error, `add_content` appends an
  Error diagnostic (and returns no tree);
* `recovery_pushes_error` (PL) — every error-recovery reduction pushes an Error;
* `validate_keeps_syntax` — validation keeps every syntax diagnostic (as a multiset; kinds, ranges
  and texts untouched), for every hash order;
* `no_tree_stays_no_tree` — validation returns a tree-less file unchanged;
* `keywords_lex_as_keywords` (Parser) — no keyword / reserved word written alone is an IDENT token
  for the regenerated lexer table;
* `userActions_pinned`, `tables_in_range` (Parser).

NOT proved (kept visible): "well-formed ⇒ accepted" (LR completeness w.r.t. the grammar) and the
`accept`-with-`None` branch of never-silent for arbitrary runs (it needs an invariant over whole
runs of the table-driven driver); both are covered by the exact correspondence of the model
parser with the implementation and by the executable oracle.
-/

namespace Aidl.Props.C03
open Aidl Aidl.Actions Aidl.Lr Aidl.Props.PL

/-- **The error branch is never silent**: when the driver stops with a parse error, the stored
    result has no tree and ends with an Error diagnostic covering the error's span. -/
theorem error_branch_not_silent (env : Env) (id : String) (s : St) (e : ParseErr) (r : FileResult)
    (h : Lr.finishE env id s (.error e) = .ok r) :
    r.ast = none ∧ ∃ d, r.diags = s.diags ++ [d] ∧ d.kind = .error
      ∧ d.range.start.off = (errSpan e).1 ∧ d.range.stop.off = (errSpan e).2 := by
  unfold Lr.finishE at h
  simp only at h
  cases hf : runM (fromParseError e) env s.diags with
  | error m =>
    unfold runM at hf
    simp [hf] at h
  | ok x =>
    obtain ⟨d, dd⟩ := x
    have hp := fromParseError_ok env s.diags e d dd hf
    unfold runM at hf
    simp only [hf, Except.ok.injEq] at h
    subst h
    exact ⟨rfl, d, by rw [hp.1], hp.2.1, hp.2.2.1, hp.2.2.2⟩

theorem validateGroups_syn {ho : HashOrder} {defined : Defined} {syn : List Diag} {ast : AidlFile} {g : Groups}
    (h : validateGroups ho defined syn ast = .ok g) : g.syn = syn := by
  unfold validateGroups at h
  simp only at h
  split at h
  · cases h
  · split at h
    · cases h
    · cases h; rfl

/-- **Validation never drops a syntax diagnostic**: every diagnostic of the syntax stage occurs in
    the validated result at least as often, unchanged (kind included) — any file, any hash order. -/
theorem validate_keeps_syntax (ho : HashOrder) (defined : Defined) (fr out : FileResult)
    (h : validateFile ho defined fr = .ok out) (d : Diag) : fr.diags.count d ≤ out.diags.count d := by
  unfold validateFile at h
  cases hast : fr.ast with
  | none => simp only [hast] at h; cases h; exact Nat.le_refl _
  | some ast =>
    simp only [hast] at h
    cases hg : validateGroups ho defined fr.diags ast with
    | error e => simp [hg] at h
    | ok g =>
      simp only [hg] at h
      cases h
      simp only
      rw [(sortDiags_perm g.all).count_eq]
      unfold Groups.all
      rw [validateGroups_syn hg]
      simp only [List.count_append]
      omega

/-- a file without a tree is returned as it is (its Errors included) -/
theorem no_tree_stays_no_tree (ho : HashOrder) (defined : Defined) (fr : FileResult) (h : fr.ast = none) :
    validateFile ho defined fr = .ok fr := by
  unfold validateFile; simp [h]

end Aidl.Props.C03
