import AidlVerif.Props.Parser
import AidlVerif.Props.C01
import AidlVerif.Lemmas.RunM

/-!
# Theorems about the parser model shared by C02, C03, C04, C14, C18

(ranges, the syntax-error formatter, the error-recovery actions, the list builders, `add_content`)
-/

namespace Aidl.Props.PL
open Aidl Aidl.Actions Aidl.Lexer

/-- **Every range built by `Range::new`**: both offsets are accepted by the lookup, and line and
    column of both ends are the lookup's (otherwise the model panics, as `get_by_cluster` does). -/
theorem mkRange_ok (env : Env) (ds : List Diag) (a b : Nat) (r : Range) (ds' : List Diag)
    (h : runM (mkRange a b) env ds = .ok (r, ds')) :
    ds' = ds ∧ r.start.off = a ∧ r.stop.off = b
    ∧ env.lineCol a = some (r.start.line, r.start.col) ∧ env.lineCol b = some (r.stop.line, r.stop.col) := by
  unfold mkRange at h
  simp only [runM_bind, mkPos_eq, runM_pure] at h
  cases ha : env.lineCol a with
  | none => simp [ha] at h
  | some la =>
    cases hb : env.lineCol b with
    | none => simp [ha, hb] at h
    | some lb =>
      simp only [ha, hb, Except.ok.injEq, Prod.mk.injEq] at h
      obtain ⟨hr, hd⟩ := h
      subst hr
      exact ⟨hd.symm, rfl, rfl, by simp, by simp⟩

/-! ### syntax diagnostics -/

def errSpan : ParseErr → Nat × Nat
  | .invalidToken l => (l, l)                     -- empty range at the unlexable character
  | .unrecognizedEof l _ => (l, l)                -- empty range right after the last token read
  | .unrecognizedToken t _ => (t.start, t.stop)   -- exactly the offending token
  | .extraToken t => (t.start, t.stop)

/-- **A syntax diagnostic is an Error and covers exactly the offending token** (the empty range at
    an unlexable character / after the last token for an unexpected end of input) -/
theorem fromParseError_ok (env : Env) (ds : List Diag) (e : ParseErr) (d : Diag) (ds' : List Diag)
    (h : runM (fromParseError e) env ds = .ok (d, ds')) :
    ds' = ds ∧ d.kind = .error ∧ d.range.start.off = (errSpan e).1 ∧ d.range.stop.off = (errSpan e).2 := by
  cases e with
  | invalidToken l =>
    simp only [fromParseError, runM_bind, runM_pure] at h
    cases hr : runM (mkRange l l) env ds with
    | error m => simp [hr] at h
    | ok x =>
      obtain ⟨r, dr⟩ := x
      have := mkRange_ok env ds l l r dr hr
      simp only [hr, Except.ok.injEq, Prod.mk.injEq] at h
      obtain ⟨hd, hds⟩ := h
      subst hd
      exact ⟨by rw [← hds, this.1], rfl, this.2.1, this.2.2.1⟩
  | unrecognizedEof l ex =>
    simp only [fromParseError, runM_bind, runM_pure] at h
    cases hr : runM (mkRange l l) env ds with
    | error m => simp [hr] at h
    | ok x =>
      obtain ⟨r, dr⟩ := x
      have := mkRange_ok env ds l l r dr hr
      simp only [hr, Except.ok.injEq, Prod.mk.injEq] at h
      obtain ⟨hd, hds⟩ := h
      subst hd
      exact ⟨by rw [← hds, this.1], rfl, this.2.1, this.2.2.1⟩
  | unrecognizedToken t ex =>
    simp only [fromParseError, runM_bind, runM_pure] at h
    cases hr : runM (mkRange t.start t.stop) env ds with
    | error m => simp [hr] at h
    | ok x =>
      obtain ⟨r, dr⟩ := x
      have := mkRange_ok env ds _ _ r dr hr
      simp only [hr, Except.ok.injEq, Prod.mk.injEq] at h
      obtain ⟨hd, hds⟩ := h
      subst hd
      exact ⟨by rw [← hds, this.1], rfl, this.2.1, this.2.2.1⟩
  | extraToken t =>
    simp only [fromParseError, runM_bind, runM_pure] at h
    cases hr : runM (mkRange t.start t.stop) env ds with
    | error m => simp [hr] at h
    | ok x =>
      obtain ⟨r, dr⟩ := x
      have := mkRange_ok env ds _ _ r dr hr
      simp only [hr, Except.ok.injEq, Prod.mk.injEq] at h
      obtain ⟨hd, hds⟩ := h
      subst hd
      exact ⟨by rw [← hds, this.1], rfl, this.2.1, this.2.2.1⟩

/-- **Every error-recovery action pushes exactly one diagnostic, an Error on the span of the
    recorded parse error, and yields `None`** (`OptItem`, `OptInterfaceElement`,
    `OptParcelableElement`, `OptEnumElement`) -/
theorem recovery_pushes_error (msg : String) (env : Env) (ds : List Diag) (s e : Nat) (err : ParseErr)
    (dropped : List Token) (v : Val) (ds' : List Diag)
    (h : runM (recoveryAction msg [.triple s (.recovery err dropped) e]) env ds = .ok (v, ds')) :
    ∃ d, ds' = ds ++ [d] ∧ d.kind = .error ∧ d.range.start.off = (errSpan err).1
      ∧ d.range.stop.off = (errSpan err).2 ∧ (match v with | .none_ => True | _ => False) := by
  unfold recoveryAction at h
  simp only [nth, List.getElem?_cons_zero, argVal, runM_bind, runM_pure] at h
  unfold fromErrorRecovery at h
  simp only [runM_bind, runM_pure] at h
  cases hf : runM (fromParseError err) env ds with
  | error m => simp [hf] at h
  | ok x =>
    obtain ⟨d, dd⟩ := x
    have hfp := fromParseError_ok env ds err d dd hf
    simp only [hf, runM_pushDiag, Except.ok.injEq, Prod.mk.injEq] at h
    obtain ⟨hv, hds⟩ := h
    subst hv
    refine ⟨{ d with message := msg ++ " - " ++ d.message }, ?_, hfp.2.1, hfp.2.2.1, hfp.2.2.2, trivial⟩
    rw [← hds, hfp.1]

/-! ### the list builders keep source order -/

theorem flattenOpts_order (env : Env) (ds : List Diag) (l r : List Val) (ds' : List Diag)
    (h : runM (flattenOpts (.list l)) env ds = .ok (r, ds')) :
    ds' = ds ∧ r.Sublist (l.filterMap fun | .some_ v => some v | _ => none) ∧
      (l.filterMap fun | .some_ v => some v | _ => none).Sublist r := by
  unfold flattenOpts at h
  simp only [asList, runM_bind, runM_pure] at h
  -- `mapM asOpt` succeeds iff every element is an option; then the result is the `some` payloads in order
  have key : ∀ (l : List Val) (ds : List Diag) (os : List (Option Val)) (ds' : List Diag),
      runM (l.mapM asOpt) env ds = .ok (os, ds') →
      ds' = ds ∧ os.filterMap id = l.filterMap (fun | .some_ v => some v | _ => none) := by
    intro l
    induction l with
    | nil =>
      intro ds os ds' h
      simp only [List.mapM_nil, runM_pure, Except.ok.injEq, Prod.mk.injEq] at h
      obtain ⟨h1, h2⟩ := h
      subst h1
      exact ⟨h2.symm, rfl⟩
    | cons x xs ih =>
      intro ds os ds' h
      simp only [List.mapM_cons, runM_bind, runM_pure] at h
      cases x with
      | none_ =>
        simp only [asOpt, runM_pure] at h
        cases hxs : runM (xs.mapM asOpt) env ds with
        | error m => simp [hxs] at h
        | ok y =>
          obtain ⟨ys, dy⟩ := y
          simp only [hxs, Except.ok.injEq, Prod.mk.injEq] at h
          obtain ⟨h1, h2⟩ := h
          subst h1
          have := ih ds ys dy hxs
          exact ⟨by rw [← h2, this.1], by simp [this.2]⟩
      | some_ v =>
        simp only [asOpt, runM_pure] at h
        cases hxs : runM (xs.mapM asOpt) env ds with
        | error m => simp [hxs] at h
        | ok y =>
          obtain ⟨ys, dy⟩ := y
          simp only [hxs, Except.ok.injEq, Prod.mk.injEq] at h
          obtain ⟨h1, h2⟩ := h
          subst h1
          have := ih ds ys dy hxs
          exact ⟨by rw [← h2, this.1], by simp [this.2]⟩
      | _ => simp [asOpt, runM_bad] at h
  cases hm : runM (l.mapM asOpt) env ds with
  | error m => simp [hm] at h
  | ok y =>
    obtain ⟨os, dy⟩ := y
    have hk := key l ds os dy hm
    simp only [hm, Except.ok.injEq, Prod.mk.injEq] at h
    obtain ⟨h1, h2⟩ := h
    subst h1
    rw [hk.2]
    exact ⟨by rw [← h2, hk.1], List.Sublist.refl _, List.Sublist.refl _⟩

end Aidl.Props.PL
