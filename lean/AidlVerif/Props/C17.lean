import AidlVerif.Spec.C17
import AidlVerif.Props.C05

/-!
# C17 — property theorems (about the model of symbol.rs / ast.rs / validation.rs)
-/

namespace Aidl.Props.C17
open Aidl Aidl.Spec Aidl.Spec.C17

/-- **The item symbol's qualified name is the key** under which the file is registered, for
    interfaces, parcelables and enums alike -/
theorem item_qname_is_key (ast : AidlFile) : (itemSymbol ast).qualifiedName = some ast.key := by
  unfold itemSymbol AidlFile.key Item.name
  cases ast.item <;> rfl

theorem item_name (ast : AidlFile) : (itemSymbol ast).name = some ast.item.name := by
  unfold itemSymbol Item.name
  cases ast.item <;> rfl

/-- `get_qualified_name` is what the statement prescribes, for every symbol -/
theorem qualified_eq (s : Symbol) : s.qualifiedName = expectedQualified s := by
  cases s with
  | const c o => cases o <;> rfl
  | import_ i => simp [Symbol.qualifiedName, expectedQualified, Import.qname]
  | _ => rfl

/-- a type symbol that resolves to an item reports that item's key -/
theorem resolved_qname (t : Ty) (k : String) (rk : RKind) (h : t.kind = .resolved k rk) :
    (Symbol.type t).qualifiedName = some k := by
  simp [Symbol.qualifiedName, h]

/-! ### the keys registered by the project -/

theorem get_insertMin (d : Defined) (key : String) (kind : RKind) (k : String) (v : RKind)
    (h : (d.insertMin key kind).get k = some v) : k = key ∨ d.get k = some v := by
  induction d with
  | nil =>
    simp only [Defined.insertMin, Defined.get, List.lookup_cons] at h
    by_cases e : k = key
    · exact Or.inl e
    · have : (k == key) = false := by simpa using e
      simp [this] at h
  | cons p rest ih =>
    obtain ⟨k', v'⟩ := p
    simp only [Defined.insertMin] at h
    by_cases e : k' = key
    · simp only [e, if_true, Defined.get, List.lookup_cons] at h ⊢
      by_cases e2 : k = key
      · exact Or.inl e2
      · have : (k == key) = false := by simpa using e2
        simp only [this] at h
        right
        simp only [e, this]
        exact h
    · simp only [e, if_false, Defined.get, List.lookup_cons] at h ⊢
      by_cases e2 : (k == k') = true
      · simp only [e2] at h ⊢
        exact Or.inr h
      · have e3 : (k == k') = false := by simpa using e2
        simp only [e3] at h ⊢
        exact ih h

/-- **every registered key is the key of a file that is in the parser** -/
theorem defined_from_project (files : List FileResult) (k : String) (v : RKind)
    (h : (collectItemKeys files).get k = some v) :
    ∃ fr ∈ files, ∃ a, fr.ast = some a ∧ a.key = k := by
  unfold collectItemKeys at h
  have : ∀ (d : Defined), (files.foldl (fun d fr => match fr.ast with
      | some a => Defined.insertMin d a.key a.item.kind
      | none => d) d).get k = some v →
      (d.get k = some v ∨ ∃ v', d.get k = some v') ∨ ∃ fr ∈ files, ∃ a, fr.ast = some a ∧ a.key = k := by
    clear h
    induction files with
    | nil => intro d hd; exact Or.inl (Or.inl hd)
    | cons fr rest ih =>
      intro d hd
      simp only [List.foldl_cons] at hd
      rcases ih _ hd with h1 | ⟨fr', hm, a, ha, hk⟩
      · cases hast : fr.ast with
        | none =>
          simp only [hast] at h1
          exact Or.inl h1
        | some a =>
          simp only [hast] at h1
          rcases h1 with h1 | ⟨v', h1⟩
          · rcases get_insertMin _ _ _ _ _ h1 with e | e
            · exact Or.inr ⟨fr, by simp, a, hast, e.symm⟩
            · exact Or.inl (Or.inr ⟨_, e⟩)
          · rcases get_insertMin _ _ _ _ _ h1 with e | e
            · exact Or.inr ⟨fr, by simp, a, hast, e.symm⟩
            · exact Or.inl (Or.inr ⟨_, e⟩)
      · exact Or.inr ⟨fr', List.mem_cons_of_mem _ hm, a, ha, hk⟩
  rcases this [] h with h1 | h2
  · rcases h1 with h1 | ⟨_, h1⟩ <;> simp [Defined.get] at h1
  · exact h2

/-- the scoping rule yields an item kind only through a registered key -/
theorem classify_item_kind (imports declared : List String) (defined : Defined) (name k : String) (rk : RKind)
    (h : Spec.C05.classify imports declared defined name = .resolved k rk) (hk : isItemKind rk = true) :
    defined.get k = some rk := by
  unfold Spec.C05.classify at h
  split at h
  · cases h
  · split at h
    · split at h
      · cases h
      · injection h with h1 h2
        subst h1
        cases hd : defined.get _ with
        | some v => simp [hd] at h2; rw [h2]
        | none => simp [hd] at h2; rw [← h2] at hk; cases hk
    · split at h
      · injection h with h1 h2
        rw [← h2] at hk; cases hk
      · split at h <;> cases h

/-- **A type that resolves to an item carries the qualified name of that item's symbol**: in any
    validated file (any hash order), a type node — at any depth — whose kind is an item kind with
    key `k` comes with a file of the project whose key is `k`, and the qualified name of that
    file's item symbol equals the qualified name of the type symbol. (The parser never produces
    resolved kinds: `hparser`.) -/
theorem resolved_to_item (ho : HashOrder) (files : List FileResult) (syn : List Diag) (ast : AidlFile) (g : Groups)
    (hg : validateGroups ho (collectItemKeys (ho.ord files)) syn ast = .ok g)
    (hparser : ∀ t ∈ allTypesPre ast, t.kind = .unresolved ∨ ∀ k rk, t.kind ≠ .resolved k rk)
    (n : String × Range × TypeKind) (hn : n ∈ Spec.C05.nodes g.ast) (k : String) (rk : RKind)
    (hkind : n.2.2 = .resolved k rk) (hitem : isItemKind rk = true) :
    ∃ fr ∈ files, ∃ a, fr.ast = some a ∧ a.key = k
      ∧ (itemSymbol a).qualifiedName = some k := by
  rw [Props.C05.nodes_validated hg] at hn
  obtain ⟨t, ht, rfl⟩ := List.mem_map.mp hn
  simp only at hkind
  have hcl : Spec.C05.classify (ast.imports.map Import.qname) (ast.declaredParcelables.map Import.qname)
      (collectItemKeys (ho.ord files)) t.name = .resolved k rk := by
    unfold Spec.C05.newKind at hkind
    rcases hparser t ht with hu | hr
    · simpa [hu] using hkind
    · by_cases hu : t.kind = .unresolved
      · simpa [hu] using hkind
      · simp only [hu, if_false] at hkind
        exact absurd hkind (hr k rk)
  have hget := classify_item_kind _ _ _ _ _ _ hcl hitem
  obtain ⟨fr, hfr, a, ha, hk⟩ := defined_from_project _ _ _ hget
  exact ⟨fr, (ho.perm files).mem_iff.mp hfr, a, ha, hk, by rw [item_qname_is_key, hk]⟩

/-! ### `get_details` / `get_signature` (the text shown for a symbol) -/

theorem Ty.strList_eq (l : List Ty) : Ty.strList l = l.map Ty.str := by
  induction l with
  | nil => rfl
  | cons t ts ih => simp [Ty.strList, ih]

/-- the printed form of a type: its name, followed — at every depth — by its parameters in source
    order between `<` and `>`, separated by `, ` -/
theorem Ty.str_eq (t : Ty) :
    t.str = if t.gens.isEmpty then t.name else t.name ++ "<" ++ joinWith ", " (t.gens.map Ty.str) ++ ">" := by
  obtain ⟨n, k, g, s, f⟩ := t
  rw [Ty.str, Ty.strList_eq]
  rfl

/-- for a type symbol both texts are the printed type -/
theorem type_details_is_signature (t : Ty) : (Symbol.type t).details = some (Symbol.type t).signature := rfl

/-- the signature of an argument is its details followed by the name, when it has one -/
theorem arg_signature (a : Arg) (m : Method) :
    (Symbol.arg a m).signature = (match (Symbol.arg a m).details with | some d => d | none => "")
      ++ (match a.name with | some s => " " ++ s | none => "") := rfl

/-- the signature of a method lists the signatures of its arguments in order -/
theorem method_signature (m : Method) (i : Interface) :
    (Symbol.method m i).signature
      = m.returnType.str ++ " " ++ m.name ++ "(" ++ joinWith ", " (m.args.map fun a => (Symbol.arg a m).signature) ++ ")" := rfl

end Aidl.Props.C17
