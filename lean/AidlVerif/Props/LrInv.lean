import AidlVerif.Props.LrSafe
import AidlVerif.Props.LexerBounds

/-!
# The invariant of a run of the parser model

`Inv`: the stack is a certified chain (`LrSafe.Chain`) AND every location anywhere in the state — in
symbols, in semantic values, in dropped tokens, in errors, the lexer position — is a character
boundary of the input. It holds initially and is preserved by every step of the driver, for every
input; so the run never ends in a panic of the driver, never in a `bounds` panic of an action, and an
error it returns lies on character boundaries.

The single hypothesis about actions (`ActionsSafe`: an action given good arguments returns a good
value and does not stop with a `bounds` panic) is proved in `Props/ActionsSafe.lean`.
-/

namespace Aidl.Props.LrInv
open Aidl Aidl.Lr Aidl.Actions Aidl.Lexer Aidl.Javadoc
open Aidl.Props.LrSafe Aidl.Props.JavadocTotal Aidl.Props.LexerBounds

/-- byte offset `n` is a character boundary of the text `I` -/
def Bd (I : List Char) (n : Nat) : Prop := ∃ pre post, I = pre ++ post ∧ utf8Len pre = n

theorem Bd.zero (I : List Char) : Bd I 0 := ⟨[], I, rfl, rfl⟩

def GoodTok (I : List Char) (t : Token) : Prop := Bd I t.start ∧ Bd I t.stop

def GoodErr (I : List Char) : ParseErr → Prop
  | .invalidToken l => Bd I l
  | .unrecognizedEof l _ => Bd I l
  | .unrecognizedToken t _ => GoodTok I t
  | .extraToken t => GoodTok I t

mutual
/-- every location inside a semantic value is a character boundary -/
def GoodVal (I : List Char) : Val → Prop
  | .loc n => Bd I n
  | .some_ v => GoodVal I v
  | .list l => GoodVals I l
  | .pair a b => GoodVal I a ∧ GoodVal I b
  | .recovery e d => GoodErr I e ∧ ∀ t ∈ d, GoodTok I t
  | _ => True
def GoodVals (I : List Char) : List Val → Prop
  | [] => True
  | v :: vs => GoodVal I v ∧ GoodVals I vs
end

def GoodArg (I : List Char) : ArgV → Prop
  | .triple a v b => Bd I a ∧ GoodVal I v ∧ Bd I b
  | .locRef n => Bd I n

def GoodSym (I : List Char) (x : Sym) : Prop := Bd I x.start ∧ Bd I x.stop ∧ GoodVal I x.val

structure GoodSt (I : List Char) (s : St) : Prop where
  lex : ∃ pre, I = pre ++ s.input ∧ s.pos = utf8Len pre
  last : Bd I s.last
  syms : ∀ x ∈ s.syms, GoodSym I x

def GoodOutcome (I : List Char) : Outcome → Prop
  | .error e => GoodErr I e
  | .panic _ => False
  | .actionPanic p => p.kind ≠ .bounds
  | _ => True

/-- what the actions see: the text itself, and a line/column lookup defined on every boundary -/
structure EnvOk (env : Env) (I : List Char) : Prop where
  text : env.text = I
  lineCol : ∀ n, Bd I n → (env.lineCol n).isSome = true

/-- an action given good arguments returns a good value and does not stop with a `bounds` panic -/
def ActionsSafe (T : Tables) (env : Env) (I : List Char) : Prop :=
  ∀ (id : Nat) (args : List ArgV) (ds : List Diag), (∀ a ∈ args, GoodArg I a) →
    match (evalAction T.actions 16 id args).run env |>.run ds with
    | .ok (v, _) => GoodVal I v
    | .error p => p.kind ≠ .bounds

variable (T : Tables) (C : Cert) (env : Env) (I : List Char)

structure Inv (s : St) : Prop where
  chain : Chain C s.states s.syms
  good : GoodSt I s

/-! ### the lexer step -/

theorem nextToken_inv (s : St) (h : Inv C I s) :
    match nextToken T s with
    | (s', .found t _) => Inv C I s' ∧ GoodTok I t
    | (s', .eof) => Inv C I s'
    | (_, .done o) => GoodOutcome I o := by
  obtain ⟨pre, hI, hpos⟩ := h.good.lex
  unfold nextToken
  have hn := next_ok T.lex (s.input.length + 1) s.input s.pos
  cases hr : Lexer.next T.lex (s.input.length + 1) s.input s.pos with
  | eof => exact h
  | invalid l =>
    rw [hr] at hn
    obtain ⟨a, b, h1, h2⟩ := hn
    exact ⟨pre ++ a, b, by rw [hI, h1]; simp, by rw [utf8Len_append, h2, hpos]⟩
  | token t rest =>
    rw [hr] at hn
    obtain ⟨sk, tok, h1, h2, h3, _⟩ := hn
    have hstart : Bd I t.start := ⟨pre ++ sk, tok ++ rest, by rw [hI, h1]; simp, by rw [utf8Len_append, h2, hpos]⟩
    have hstop : Bd I t.stop :=
      ⟨pre ++ sk ++ tok, rest, by rw [hI, h1]; simp, by rw [utf8Len_append, utf8Len_append, h3, h2, hpos]⟩
    have hinv : Inv C I { s with input := rest, pos := t.stop, last := t.stop } :=
      { chain := h.chain
        good := { lex := ⟨pre ++ sk ++ tok, by rw [hI, h1]; simp, by
                    show t.stop = _
                    rw [utf8Len_append, utf8Len_append, h3, h2, hpos]⟩
                  last := hstop
                  syms := h.good.syms } }
    dsimp only
    cases hc : T.tokToCol.lookup t.index with
    | some col => exact ⟨hinv, hstart, hstop⟩
    | none =>
      exact ⟨hstart, hstop⟩


/-! ### reductions -/

theorem bd_reduceStart (popped rest : List Sym) (la : Option Nat)
    (hp : ∀ x ∈ popped, GoodSym I x) (hr : ∀ x ∈ rest, GoodSym I x) (hla : ∀ n, la = some n → Bd I n) :
    Bd I (reduceStart popped rest la) := by
  unfold reduceStart
  cases hh : popped.head? with
  | some f => exact (hp f (List.mem_of_mem_head? hh)).1
  | none =>
    dsimp only
    cases la with
    | some n => exact hla n rfl
    | none =>
      simp only [Option.orElse]
      cases hr' : rest.head? with
      | some y => exact (hr y (List.mem_of_mem_head? hr')).2.1
      | none => exact Bd.zero I

theorem bd_reduceStop (popped : List Sym) (start : Nat) (hp : ∀ x ∈ popped, GoodSym I x) (hs : Bd I start) :
    Bd I (reduceStop popped start) := by
  unfold reduceStop
  cases hh : popped.getLast? with
  | some l => exact (hp l (List.mem_of_getLast? hh)).2.1
  | none => exact hs

theorem good_reduceArgs (popped : List Sym) (start stop : Nat) (hp : ∀ x ∈ popped, GoodSym I x)
    (hs : Bd I start) (he : Bd I stop) : ∀ a ∈ reduceArgs popped start stop, GoodArg I a := by
  unfold reduceArgs
  split
  · intro a ha
    simp only [List.mem_cons, List.mem_nil_iff, or_false] at ha
    rcases ha with rfl | rfl
    · exact hs
    · exact he
  · intro a ha
    obtain ⟨x, hx, rfl⟩ := List.mem_map.mp ha
    have := hp x hx
    exact ⟨this.1, this.2.2, this.2.1⟩

theorem topState_of_chain {s : St} (hc : Chain C s.states s.syms) : ∃ st, s.states = topState s :: st := by
  unfold topState
  cases hc' : s.states with
  | nil => have := hc.length; rw [hc'] at this; simp at this
  | cons t st => exact ⟨st, rfl⟩

theorem reduce_inv (F : CertFacts T C) (hA : ActionsSafe T env I) (s : St) (p : Nat) (la : Option Nat)
    (h : Inv C I s) (hred : C.redOK T (topState s) p = true) (hla : ∀ n, la = some n → Bd I n) :
    match reduce T env s p la with
    | (_, some o) => GoodOutcome I o
    | (s', none) => Inv C I s' := by
  obtain ⟨st, hst⟩ := topState_of_chain C h.chain
  obtain ⟨prod, hp, hk, _, heq, hdrv, hchain⟩ := reduce_safe T C F env s (topState s) st p la hst h.chain hred
  have hpop : ∀ x ∈ (s.syms.take prod.rhs.length).reverse, GoodSym I x := by
    intro x hx
    exact h.good.syms x (List.mem_of_mem_take (List.mem_reverse.mp hx))
  have hrest : ∀ x ∈ s.syms.drop prod.rhs.length, GoodSym I x := by
    intro x hx
    exact h.good.syms x (List.mem_of_mem_drop hx)
  have hstart := bd_reduceStart I _ _ la hpop hrest hla
  have hstop := bd_reduceStop I _ _ hpop hstart
  have hargs := good_reduceArgs I _ _ _ hpop hstart hstop
  have hact := hA prod.action _ s.diags hargs
  cases hres : reduce T env s p la with
  | mk s' oo =>
    have hdrv' := hdrv s'
    have hchain' := hchain s'
    rw [hres] at hdrv' hchain'
    rw [heq] at hres
    unfold reduceCore at hres
    dsimp only at hres
    cases oo with
    | some o =>
      show GoodOutcome I o
      have hd := hdrv' o rfl
      split at hres
      · rename_i e he
        rw [he] at hact
        cases hres
        exact hact
      · unfold reducePush at hres
        dsimp only at hres
        split at hres
        · cases hres; trivial
        · split at hres
          · cases hres; exact hd
          · cases hres
    | none =>
      show Inv C I s'
      refine ⟨hchain' rfl, ?_⟩
      split at hres
      · cases hres
      · rename_i v diags hv
        rw [hv] at hact
        unfold reducePush at hres
        dsimp only at hres
        split at hres
        · cases hres
        · split at hres
          · cases hres
          · cases hres
            exact { lex := h.good.lex, last := h.good.last
                    syms := by
                      intro x hx
                      rcases List.mem_cons.mp hx with rfl | hx
                      · exact ⟨hstart, hstop, hact⟩
                      · exact hrest x hx }


/-! ### error recovery -/

theorem reduceOnError_inv (F : CertFacts T C) (hA : ActionsSafe T env I) (la : Option Token)
    (hla : ∀ t, la = some t → GoodTok I t) :
    ∀ (fuel : Nat) (s : St), Inv C I s →
      match reduceOnError T env la s fuel with
      | (_, some o) => GoodOutcome I o
      | (s', none) => Inv C I s' := by
  intro fuel
  induction fuel with
  | zero => intro s _; unfold reduceOnError; trivial
  | succ f ih =>
    intro s h
    unfold reduceOnError
    cases hr : asReduce (errorAction T (topState s)) with
    | none => exact h
    | some r =>
      dsimp only
      have hred := F.red (topState s) (T.ncols - 1) r hr
      have hla' : ∀ n, la.map (·.start) = some n → Bd I n := by
        intro n hn
        cases la with
        | none => cases hn
        | some t => cases hn; exact (hla t rfl).1
      have := reduce_inv T C env I F hA s r (la.map (·.start)) h hred hla'
      cases hres : reduce T env s r (la.map (·.start)) with
      | mk s' oo =>
        rw [hres] at this
        cases oo with
        | some o => exact this
        | none => exact ih s' this

/-- what `findState` hands to `recoverPush` -/
structure Found (statesLen : Nat) (s : St) (top : Nat) (la : Option Token) (col : Option Nat) (dropped : List Token) : Prop where
  top_lt : top < statesLen
  shift : (asShift (errorAction T ((s.states.drop (statesLen - 1 - top)).headD 0))).isSome = true
  la_col : la.isSome = col.isSome
  la_good : ∀ t, la = some t → GoodTok I t
  dropped_good : ∀ t ∈ dropped, GoodTok I t

theorem errorCandidate_spec {statesLen : Nat} {s : St} {col : Option Nat} {top : Nat}
    (h : errorCandidate T statesLen s col = some top) :
    top < statesLen ∧ (asShift (errorAction T ((s.states.drop (statesLen - 1 - top)).headD 0))).isSome = true := by
  unfold errorCandidate at h
  have hmem := List.mem_of_find?_eq_some h
  have hp := List.find?_some h
  refine ⟨by simpa using hmem, ?_⟩
  dsimp only at hp
  split at hp
  · rename_i e he; rw [he]; rfl
  · cases hp

theorem findState_inv (error : ParseErr) (herr : GoodErr I error) (statesLen : Nat) :
    ∀ (fuel : Nat) (s : St) (la : Option Token) (col : Option Nat) (dropped : List Token),
      Inv C I s → s.states.length = statesLen → la.isSome = col.isSome →
      (∀ t, la = some t → GoodTok I t) → (∀ t ∈ dropped, GoodTok I t) →
      match findState T error statesLen s la col dropped fuel with
      | (_, .inl (.done o)) => GoodOutcome I o
      | (_, .inl _) => False
      | (s', .inr (top, la', col', dropped')) =>
          Inv C I s' ∧ s'.states.length = statesLen ∧ Found T I statesLen s' top la' col' dropped'
          ∧ (la = none → la' = none) := by
  intro fuel
  induction fuel with
  | zero => intro s la col dropped _ _ _ _ _; unfold findState; trivial
  | succ f ih =>
    intro s la col dropped h hlen hlc hla hdr
    unfold findState
    cases hc : errorCandidate T statesLen s col with
    | some top =>
      obtain ⟨h1, h2⟩ := errorCandidate_spec T hc
      exact ⟨h, hlen, ⟨h1, h2, hlc, hla, hdr⟩, id⟩
    | none =>
      dsimp only
      cases la with
      | none => exact herr
      | some l =>
        dsimp only
        have hdr' : ∀ t ∈ dropped ++ [l], GoodTok I t := by
          intro t ht
          rcases List.mem_append.mp ht with ht | ht
          · exact hdr t ht
          · simp only [List.mem_cons, List.mem_nil_iff, or_false] at ht; rw [ht]; exact hla _ rfl
        have hn := nextToken_inv T C I s h
        have hst : (nextToken T s).1.states = s.states := by
          unfold nextToken
          split <;> (try rfl)
          split <;> rfl
        cases hnt : nextToken T s with
        | mk s' r =>
          rw [hnt] at hn hst
          cases r with
          | found t c =>
            have := ih s' (some t) (some c) _ hn.1 (by rw [hst]; exact hlen) rfl
              (by intro t' ht'; cases ht'; exact hn.2) hdr'
            dsimp only
            revert this
            cases findState T error statesLen s' (some t) (some c) (dropped ++ [l]) f with
            | mk s'' r =>
              cases r with
              | inl nt => cases nt <;> exact id
              | inr x => intro hx; exact ⟨hx.1, hx.2.1, hx.2.2.1, by intro hh; cases hh⟩
          | eof =>
            have := ih s' none none _ hn (by rw [hst]; exact hlen) rfl (by intro t' ht'; cases ht') hdr'
            dsimp only
            revert this
            cases findState T error statesLen s' none none (dropped ++ [l]) f with
            | mk s'' r =>
              cases r with
              | inl nt => cases nt <;> exact id
              | inr x => intro hx; exact ⟨hx.1, hx.2.1, hx.2.2.1, by intro hh; cases hh⟩
          | done o => exact hn


theorem bd_recoverStart (s : St) (top : Nat) (dropped : List Token)
    (hs : ∀ x ∈ s.syms, GoodSym I x) (hd : ∀ t ∈ dropped, GoodTok I t) : Bd I (recoverStart s top dropped) := by
  unfold recoverStart
  dsimp only
  cases h1 : s.syms.reverse[top]? with
  | some sym => exact (hs sym (List.mem_reverse.mp (List.mem_of_getElem? h1))).1
  | none =>
    dsimp only
    cases h2 : dropped.head? with
    | some t => exact (hd t (List.mem_of_mem_head? h2)).1
    | none =>
      dsimp only
      split
      · cases h3 : s.syms.reverse[top - 1]? with
        | some sym => exact (hs sym (List.mem_reverse.mp (List.mem_of_getElem? h3))).2.1
        | none => exact Bd.zero I
      · exact Bd.zero I

theorem bd_recoverStop (statesLen : Nat) (s : St) (top : Nat) (la : Option Token) (dropped : List Token) (start : Nat)
    (hs : ∀ x ∈ s.syms, GoodSym I x) (hd : ∀ t ∈ dropped, GoodTok I t) (hla : ∀ t, la = some t → GoodTok I t)
    (hst : Bd I start) : Bd I (recoverStop statesLen s top la dropped start) := by
  unfold recoverStop
  cases h1 : dropped.getLast? with
  | some t => exact (hd t (List.mem_of_getLast? h1)).2
  | none =>
    dsimp only
    split
    · cases h2 : s.syms.head? with
      | some sym => exact (hs sym (List.mem_of_mem_head? h2)).2.1
      | none => exact Bd.zero I
    · cases la with
      | some l => exact (hla l rfl).1
      | none => exact hst

/-- a state that differs from a good one only in its stacks (and ghost fields) -/
theorem inv_push (s s' : St) (x : Sym) (syms : List Sym)
    (hsy : s'.syms = x :: syms) (hc : Chain C s'.states s'.syms)
    (hlex : s'.input = s.input ∧ s'.pos = s.pos ∧ s'.last = s.last)
    (hx : GoodSym I x) (hs : ∀ y ∈ syms, GoodSym I y) (hg : GoodSt I s) :
    Inv C I s' :=
  { chain := hc
    good := { lex := by rw [hlex.1, hlex.2.1]; exact hg.lex
              last := by rw [hlex.2.2]; exact hg.last
              syms := by
                rw [hsy]
                intro y hy
                rcases List.mem_cons.mp hy with rfl | hy
                · exact hx
                · exact hs y hy } }

theorem recoverPush_inv (F : CertFacts T C) (error : ParseErr) (herr : GoodErr I error) (statesLen : Nat)
    (s : St) (top : Nat) (la : Option Token) (col : Option Nat) (dropped : List Token)
    (h : Inv C I s) (hlen : s.states.length = statesLen) (hf : Found T I statesLen s top la col dropped) :
    match recoverPush T error statesLen s top la col dropped with
    | (s', .found t _) => Inv C I s' ∧ GoodTok I t ∧ la = some t
    | (s', .eof) => Inv C I s' ∧ la = none
    | (_, .done o) => GoodOutcome I o := by
  have hsl := h.chain.length
  have hn : statesLen - 1 - top ≤ s.syms.length := by omega
  have hdrop := h.chain.drop (statesLen - 1 - top) hn
  have hsyms : (s.syms.reverse.take top).reverse = s.syms.drop (statesLen - 1 - top) := by
    rw [List.take_reverse, List.reverse_reverse]
    congr 1
    have := hf.top_lt
    omega
  have hstart := bd_recoverStart I s top dropped h.good.syms hf.dropped_good
  have hstop := bd_recoverStop I statesLen s top la dropped _ h.good.syms hf.dropped_good hf.la_good hstart
  unfold recoverPush
  dsimp only
  have hshift := hf.shift
  cases hsh : asShift (errorAction T ((s.states.drop (statesLen - 1 - top)).headD 0)) with
  | none => rw [hsh] at hshift; cases hshift
  | some errState =>
    dsimp only
    -- the truncated state stack is not empty
    have hne : ∃ q rest, s.states.drop (statesLen - 1 - top) = q :: rest := by
      cases hd : s.states.drop (statesLen - 1 - top) with
      | nil =>
        have := congrArg List.length hd
        simp only [List.length_drop, List.length_nil] at this
        have := hf.top_lt
        omega
      | cons q rest => exact ⟨q, rest, rfl⟩
    obtain ⟨q, rest, hq⟩ := hne
    rw [hq] at hsh hdrop
    simp only [List.headD_cons] at hsh
    have hedge := F.shift q (T.ncols - 1) errState hsh
    have hchain : Chain C (errState :: s.states.drop (statesLen - 1 - top))
        ({ start := recoverStart s top dropped, id := T.ncols - 1, name := "error", val := .recovery error dropped, stop := recoverStop statesLen s top la dropped (recoverStart s top dropped) } :: (s.syms.reverse.take top).reverse) := by
      rw [hsyms, hq]
      exact Chain.step hdrop hedge
    have hinv : ∀ (s' : St), s'.states = errState :: s.states.drop (statesLen - 1 - top) →
        s'.syms = { start := recoverStart s top dropped, id := T.ncols - 1, name := "error", val := .recovery error dropped, stop := recoverStop statesLen s top la dropped (recoverStart s top dropped) } :: (s.syms.reverse.take top).reverse →
        (s'.input = s.input ∧ s'.pos = s.pos ∧ s'.last = s.last) → Inv C I s' := by
      intro s' h1 h2 h3
      exact inv_push C I s s' _ _ h2 (by rw [h1, h2]; exact hchain) h3 ⟨hstart, hstop, herr, hf.dropped_good⟩
        (by intro x hx; rw [hsyms] at hx; exact h.good.syms x (List.mem_of_mem_drop hx)) h.good
    have hlc := hf.la_col
    cases la with
    | some l =>
      cases col with
      | some c => exact ⟨hinv _ rfl rfl ⟨rfl, rfl, rfl⟩, hf.la_good l rfl, rfl⟩
      | none => simp at hlc
    | none =>
      cases col with
      | some c => simp at hlc
      | none => exact ⟨hinv _ rfl rfl ⟨rfl, rfl, rfl⟩, rfl⟩

theorem good_unrecognized (s : St) (la : Option Token) (h : GoodSt I s) (hla : ∀ t, la = some t → GoodTok I t) :
    GoodErr I (unrecognized T s la) := by
  unfold unrecognized
  cases la with
  | some t => exact hla t rfl
  | none => exact h.last

theorem errorRecovery_inv (F : CertFacts T C) (hA : ActionsSafe T env I) (s : St) (la : Option Token) (col : Option Nat)
    (fuel : Nat) (h : Inv C I s) (hlc : la.isSome = col.isSome) (hla : ∀ t, la = some t → GoodTok I t) :
    match errorRecovery T env s la col fuel with
    | (s', .found t _) => Inv C I s' ∧ GoodTok I t ∧ la.isSome = true
    | (s', .eof) => Inv C I s'
    | (_, .done o) => GoodOutcome I o := by
  have herr := good_unrecognized T I s la h.good hla
  unfold errorRecovery
  dsimp only
  have h1 := reduceOnError_inv T C env I F hA la hla fuel s h
  cases hr : reduceOnError T env la s fuel with
  | mk s1 oo =>
    rw [hr] at h1
    cases oo with
    | some o => exact h1
    | none =>
      dsimp only
      have h2 := findState_inv T C I _ herr s1.states.length fuel s1 la col [] h1 rfl hlc hla (by intro t ht; cases ht)
      cases hfs : findState T (unrecognized T s la) s1.states.length s1 la col [] fuel with
      | mk s2 r =>
        rw [hfs] at h2
        cases r with
        | inl nt =>
          cases nt with
          | done o => exact h2
          | found t c => exact h2.elim
          | eof => exact h2.elim
        | inr x =>
          obtain ⟨top, la', col', dropped'⟩ := x
          obtain ⟨hi, hl, hf, hnone⟩ := h2
          dsimp only
          have h3 := recoverPush_inv T C I F _ herr s1.states.length s2 top la' col' dropped' hi hl hf
          revert h3
          cases recoverPush T (unrecognized T s la) s1.states.length s2 top la' col' dropped' with
          | mk s3 r3 =>
            cases r3 with
            | found t c =>
              intro h3
              refine ⟨h3.1, h3.2.1, ?_⟩
              cases la with
              | some _ => rfl
              | none => have := hnone rfl; rw [this] at h3; cases h3.2.2
            | eof => intro h3; exact h3.1
            | done o => exact id


/-! ### the main loops -/

theorem parseEof_inv (F : CertFacts T C) (hA : ActionsSafe T env I) :
    ∀ (fuel : Nat) (s : St), Inv C I s → GoodOutcome I (parseEof T env s fuel).2 := by
  intro fuel
  induction fuel with
  | zero => intro s _; unfold parseEof; trivial
  | succ f ih =>
    intro s h
    unfold parseEof
    cases hr : asReduce (eofActionAt T (topState s)) with
    | some r =>
      dsimp only
      have hred := F.redEof (topState s) r hr
      have := reduce_inv T C env I F hA s r none h hred (by intro n hn; cases hn)
      revert this
      cases reduce T env s r none with
      | mk s' oo =>
        cases oo with
        | some o => exact id
        | none => intro h'; exact ih s' h'
    | none =>
      dsimp only
      have := errorRecovery_inv T C env I F hA s none none f h rfl (by intro t ht; cases ht)
      revert this
      cases errorRecovery T env s none none f with
      | mk s' r =>
        cases r with
        | found t c => intro h'; have := h'.2.2; cases this
        | eof => intro h'; exact ih s' h'
        | done o => exact id

theorem parseInner_inv (F : CertFacts T C) (hA : ActionsSafe T env I) :
    ∀ (fuel : Nat) (s : St) (la : Token) (col : Nat), Inv C I s → GoodTok I la →
      match parseInner T env s la col fuel with
      | (s', .inl ()) => Inv C I s'
      | (_, .inr o) => GoodOutcome I o := by
  intro fuel
  induction fuel with
  | zero => intro s la col _ _; unfold parseInner; trivial
  | succ f ih =>
    intro s la col h hla
    unfold parseInner
    dsimp only
    cases hs : asShift (actionAt T (topState s) col) with
    | some target =>
      dsimp only
      obtain ⟨st, hst⟩ := topState_of_chain C h.chain
      have hedge := F.shift (topState s) col target hs
      refine inv_push C I s _ _ s.syms rfl ?_ ⟨rfl, rfl, rfl⟩ ⟨hla.1, hla.2, trivial⟩ h.good.syms h.good
      show Chain C (target :: s.states) (_ :: s.syms)
      have hc := h.chain
      rw [hst] at hc ⊢
      exact Chain.step hc hedge
    | none =>
      dsimp only
      cases hr : asReduce (actionAt T (topState s) col) with
      | some r =>
        dsimp only
        have hred := F.red (topState s) col r hr
        have := reduce_inv T C env I F hA s r (some la.start) h hred (by intro n hn; cases hn; exact hla.1)
        revert this
        cases reduce T env s r (some la.start) with
        | mk s' oo =>
          cases oo with
          | some o =>
            cases o with
            | accept v => intro _; exact hla
            | error e => exact id
            | panic m => exact id
            | actionPanic p => exact id
            | fuelOut => exact id
          | none => intro h'; exact ih s' la col h' hla
      | none =>
        dsimp only
        have := errorRecovery_inv T C env I F hA s (some la) (some col) f h rfl (by intro t ht; cases ht; exact hla)
        revert this
        cases errorRecovery T env s (some la) (some col) f with
        | mk s' r =>
          cases r with
          | found l c => intro h'; exact ih s' l c h'.1 h'.2.1
          | eof => intro h'; exact parseEof_inv T C env I F hA f s' h'
          | done o => exact id

theorem parseLoop_inv (F : CertFacts T C) (hA : ActionsSafe T env I) :
    ∀ (fuel : Nat) (s : St), Inv C I s → GoodOutcome I (parseLoop T env s fuel).2 := by
  intro fuel
  induction fuel with
  | zero => intro s _; unfold parseLoop; trivial
  | succ f ih =>
    intro s h
    unfold parseLoop
    have hn := nextToken_inv T C I s h
    revert hn
    cases nextToken T s with
    | mk s' r =>
      cases r with
      | eof => intro hn; exact parseEof_inv T C env I F hA f s' hn
      | done o => exact id
      | found la col =>
        intro hn
        dsimp only
        have := parseInner_inv T C env I F hA f s' la col hn.1 hn.2
        revert this
        cases parseInner T env s' la col f with
        | mk s'' r' =>
          cases r' with
          | inl u => cases u; intro h'; exact ih s'' h'
          | inr o => exact id

/-- the initial state -/
theorem inv_init (text : List Char) : Inv C text { input := text } :=
  { chain := Chain.base
    good := { lex := ⟨[], rfl, rfl⟩, last := Bd.zero text, syms := by intro x hx; cases hx } }

/-- **For every input**: the run of the parser model never ends in a panic of the LR driver
    (symbol mismatch, stack underflow, a failed `unwrap`), never in a `bounds` panic of an action
    (`Range::new` off a boundary, a slice of `javadoc.rs`), and a parse error it returns lies on
    character boundaries of the input — whatever the fuel. -/
theorem parse_outcome_good (F : CertFacts T C) (text : List Char) (hA : ActionsSafe T env text) (fuel : Nat) :
    GoodOutcome text (parseLoop T env { input := text } fuel).2 :=
  parseLoop_inv T C env text F hA fuel _ (inv_init C text)

end Aidl.Props.LrInv
