import AidlVerif.Props.LrSafe
import AidlVerif.Props.LexerBounds

/-!
# The invariant of a run of the parser model

`Inv`: the stack is a certified chain (`LrSafe.Chain`) AND every location anywhere in the state — in
symbols, in semantic values, in dropped tokens, in errors, the lexer position — is a character
boundary of the input. It holds initially and is preserved by every step of the driver, for every
input; so the run never ends in a panic of the driver, never in a `bounds` panic of an action, and an
error it returns lies on character boundaries.

The single hypothesis about actions (`ActionsSafe`: an action given good arguments returns a good
value and does not stop with a `bounds` panic) is proved in `Props/ActionsSafe.lean`.
-/

namespace Aidl.Props.LrInv
open Aidl Aidl.Lr Aidl.Actions Aidl.Lexer Aidl.Javadoc
open Aidl.Props.LrSafe Aidl.Props.JavadocTotal Aidl.Props.LexerBounds

/-- byte offset `n` is a character boundary of the text `I` -/
def Bd (I : List Char) (n : Nat) : Prop := ∃ pre post, I = pre ++ post ∧ utf8Len pre = n

theorem Bd.zero (I : List Char) : Bd I 0 := ⟨[], I, rfl, rfl⟩

def GoodTok (I : List Char) (t : Token) : Prop := Bd I t.start ∧ Bd I t.stop

def GoodErr (I : List Char) : ParseErr → Prop
  | .invalidToken l => Bd I l
  | .unrecognizedEof l _ => Bd I l
  | .unrecognizedToken t _ => GoodTok I t
  | .extraToken t => GoodTok I t

/-! ### positions stored in trees: on a character boundary of the text, line and column as the lookup says -/

def PosGood (env : Env) (I : List Char) (p : Pos) : Prop := Bd I p.off ∧ env.lineCol p.off = some (p.line, p.col)
def RangeGood (env : Env) (I : List Char) (r : Range) : Prop := PosGood env I r.start ∧ PosGood env I r.stop

/-- a position stored in a diagnostic is one the lookup accepts, with its line and column -/
def PosLc (env : Env) (p : Pos) : Prop := env.lineCol p.off = some (p.line, p.col)
def RangeLc (env : Env) (r : Range) : Prop := PosLc env r.start ∧ PosLc env r.stop
/-- the context messages the syntax stage writes (`from_parse_error`; `none`: the transact-code Error of
    the `Method` action) -/
def synCtx (c : Option String) : Bool :=
  c == none || c == some "invalid token" || c == some "unrecognized EOF" || c == some "unrecognized token"
    || c == some "extra token"
def DiagLc (env : Env) (d : Diag) : Prop :=
  RangeLc env d.range ∧ (∀ ri ∈ d.related, RangeLc env ri.range) ∧ synCtx d.context = true
def DiagsLc (env : Env) (ds : List Diag) : Prop := ∀ d ∈ ds, DiagLc env d

theorem RangeGood.lc {env : Env} {I : List Char} {r : Range} (h : RangeGood env I r) : RangeLc env r := ⟨h.1.2, h.2.2⟩

mutual
def TyGood (env : Env) (I : List Char) : Ty → Prop
  | .mk _ _ g s f => RangeGood env I s ∧ RangeGood env I f ∧ TysGood env I g
def TysGood (env : Env) (I : List Char) : List Ty → Prop
  | [] => True
  | t :: ts => TyGood env I t ∧ TysGood env I ts
end

def DirGood (env : Env) (I : List Char) : Direction → Prop
  | .in_ r => RangeGood env I r
  | .out r => RangeGood env I r
  | .inout r => RangeGood env I r
  | .unspecified => True

def ArgGood (env : Env) (I : List Char) (a : Arg) : Prop :=
  RangeGood env I a.sym ∧ RangeGood env I a.full ∧ DirGood env I a.direction ∧ TyGood env I a.argType
def MethodGood (env : Env) (I : List Char) (m : Method) : Prop :=
  RangeGood env I m.sym ∧ RangeGood env I m.full ∧ RangeGood env I m.transactCodeRange ∧ RangeGood env I m.onewayRange
    ∧ TyGood env I m.returnType ∧ ∀ a ∈ m.args, ArgGood env I a
def ConstGood (env : Env) (I : List Char) (c : Const) : Prop :=
  RangeGood env I c.sym ∧ RangeGood env I c.full ∧ TyGood env I c.constType
def FieldGood (env : Env) (I : List Char) (f : Field) : Prop :=
  RangeGood env I f.sym ∧ RangeGood env I f.full ∧ TyGood env I f.fieldType
def EnumElGood (env : Env) (I : List Char) (e : EnumElement) : Prop := RangeGood env I e.sym ∧ RangeGood env I e.full
def IelGood (env : Env) (I : List Char) : InterfaceElement → Prop
  | .const c => ConstGood env I c
  | .method m => MethodGood env I m
def PelGood (env : Env) (I : List Char) : ParcelableElement → Prop
  | .const c => ConstGood env I c
  | .field f => FieldGood env I f
def IfaceGood (env : Env) (I : List Char) (i : Interface) : Prop :=
  RangeGood env I i.sym ∧ RangeGood env I i.full ∧ ∀ e ∈ i.elements, IelGood env I e
def ParcGood (env : Env) (I : List Char) (p : Parcelable) : Prop :=
  RangeGood env I p.sym ∧ RangeGood env I p.full ∧ ∀ e ∈ p.elements, PelGood env I e
def EnmGood (env : Env) (I : List Char) (e : Enum) : Prop :=
  RangeGood env I e.sym ∧ RangeGood env I e.full ∧ ∀ x ∈ e.elements, EnumElGood env I x
def ItemGood (env : Env) (I : List Char) : Item → Prop
  | .interface i => IfaceGood env I i
  | .parcelable p => ParcGood env I p
  | .enum e => EnmGood env I e
def PackageGood (env : Env) (I : List Char) (p : Package) : Prop := RangeGood env I p.sym ∧ RangeGood env I p.full
def ImportGood (env : Env) (I : List Char) (i : Import) : Prop := RangeGood env I i.sym ∧ RangeGood env I i.full
/-- every position stored in the tree is good -/
def AidlGood (env : Env) (I : List Char) (a : AidlFile) : Prop :=
  PackageGood env I a.package ∧ (∀ i ∈ a.imports, ImportGood env I i) ∧ (∀ i ∈ a.declaredParcelables, ImportGood env I i)
    ∧ ItemGood env I a.item

mutual
/-- every location inside a semantic value is a character boundary of the input; every position
    stored in a tree value is good -/
def GoodVal (env : Env) (I : List Char) : Val → Prop
  | .loc n => Bd I n
  | .some_ v => GoodVal env I v
  | .list l => GoodVals env I l
  | .pair a b => GoodVal env I a ∧ GoodVal env I b
  | .recovery e d => GoodErr I e ∧ ∀ t ∈ d, GoodTok I t
  | .package p => PackageGood env I p
  | .import_ i => ImportGood env I i
  | .ty t => TyGood env I t
  | .dir d => DirGood env I d
  | .arg a => ArgGood env I a
  | .method m => MethodGood env I m
  | .const c => ConstGood env I c
  | .field f => FieldGood env I f
  | .enumEl e => EnumElGood env I e
  | .iel e => IelGood env I e
  | .pel e => PelGood env I e
  | .iface i => IfaceGood env I i
  | .parc p => ParcGood env I p
  | .enm e => EnmGood env I e
  | .item i => ItemGood env I i
  | .aidl a => AidlGood env I a
  | _ => True
def GoodVals (env : Env) (I : List Char) : List Val → Prop
  | [] => True
  | v :: vs => GoodVal env I v ∧ GoodVals env I vs
end

def GoodArg (env : Env) (I : List Char) : ArgV → Prop
  | .triple a v b => Bd I a ∧ GoodVal env I v ∧ Bd I b
  | .locRef n => Bd I n

def GoodSym (env : Env) (I : List Char) (x : Sym) : Prop := Bd I x.start ∧ Bd I x.stop ∧ GoodVal env I x.val

structure GoodSt (env : Env) (I : List Char) (s : St) : Prop where
  lex : ∃ pre, I = pre ++ s.input ∧ s.pos = utf8Len pre
  last : Bd I s.last
  syms : ∀ x ∈ s.syms, GoodSym env I x
  diags : DiagsLc env s.diags

def GoodOutcome (env : Env) (I : List Char) : Outcome → Prop
  | .accept v => GoodVal env I v
  | .error e => GoodErr I e
  | .panic _ => False
  | .actionPanic p => p.kind ≠ .bounds
  | _ => True

/-- how a run may end: a good outcome, and every diagnostic of the final state is good -/
def GoodOS (env : Env) (I : List Char) (s : St) (o : Outcome) : Prop := GoodOutcome env I o ∧ DiagsLc env s.diags

/-- what the actions see: the text itself, and a line/column lookup defined on every boundary -/
structure EnvOk (env : Env) (I : List Char) : Prop where
  text : env.text = I
  lineCol : ∀ n, Bd I n → (env.lineCol n).isSome = true

/-- an action given good arguments returns a good value and does not stop with a `bounds` panic -/
def ActionsSafe (T : Tables) (env : Env) (I : List Char) : Prop :=
  ∀ (id : Nat) (args : List ArgV) (ds : List Diag), (∀ a ∈ args, GoodArg env I a) → DiagsLc env ds →
    match (evalAction T.actions 16 id args).run env |>.run ds with
    | .ok (v, ds') => GoodVal env I v ∧ DiagsLc env ds'
    | .error p => p.kind ≠ .bounds

variable (T : Tables) (C : Cert) (env : Env) (I : List Char)

structure Inv (s : St) : Prop where
  chain : Chain C s.states s.syms
  good : GoodSt env I s

/-! ### the lexer step -/

theorem nextToken_inv (s : St) (h : Inv C env I s) :
    match nextToken T s with
    | (s', .found t _) => Inv C env I s' ∧ GoodTok I t
    | (s', .eof) => Inv C env I s'
    | (s', .done o) => GoodOS env I s' o := by
  obtain ⟨pre, hI, hpos⟩ := h.good.lex
  unfold nextToken
  have hn := next_ok T.lex (s.input.length + 1) s.input s.pos
  cases hr : Lexer.next T.lex (s.input.length + 1) s.input s.pos with
  | eof => exact h
  | invalid l =>
    rw [hr] at hn
    obtain ⟨a, b, h1, h2⟩ := hn
    exact ⟨⟨pre ++ a, b, by rw [hI, h1]; simp, by rw [utf8Len_append, h2, hpos]⟩, h.good.diags⟩
  | token t rest =>
    rw [hr] at hn
    obtain ⟨sk, tok, h1, h2, h3, _⟩ := hn
    have hstart : Bd I t.start := ⟨pre ++ sk, tok ++ rest, by rw [hI, h1]; simp, by rw [utf8Len_append, h2, hpos]⟩
    have hstop : Bd I t.stop :=
      ⟨pre ++ sk ++ tok, rest, by rw [hI, h1]; simp, by rw [utf8Len_append, utf8Len_append, h3, h2, hpos]⟩
    have hinv : Inv C env I { s with input := rest, pos := t.stop, last := t.stop } :=
      { chain := h.chain
        good := { lex := ⟨pre ++ sk ++ tok, by rw [hI, h1]; simp, by
                    show t.stop = _
                    rw [utf8Len_append, utf8Len_append, h3, h2, hpos]⟩
                  last := hstop
                  syms := h.good.syms
                  diags := h.good.diags } }
    dsimp only
    cases hc : T.tokToCol.lookup t.index with
    | some col => exact ⟨hinv, hstart, hstop⟩
    | none =>
      exact ⟨⟨hstart, hstop⟩, h.good.diags⟩


/-! ### reductions -/

theorem bd_reduceStart (popped rest : List Sym) (la : Option Nat)
    (hp : ∀ x ∈ popped, GoodSym env I x) (hr : ∀ x ∈ rest, GoodSym env I x) (hla : ∀ n, la = some n → Bd I n) :
    Bd I (reduceStart popped rest la) := by
  unfold reduceStart
  cases hh : popped.head? with
  | some f => exact (hp f (List.mem_of_mem_head? hh)).1
  | none =>
    dsimp only
    cases la with
    | some n => exact hla n rfl
    | none =>
      simp only [Option.orElse]
      cases hr' : rest.head? with
      | some y => exact (hr y (List.mem_of_mem_head? hr')).2.1
      | none => exact Bd.zero I

theorem bd_reduceStop (popped : List Sym) (start : Nat) (hp : ∀ x ∈ popped, GoodSym env I x) (hs : Bd I start) :
    Bd I (reduceStop popped start) := by
  unfold reduceStop
  cases hh : popped.getLast? with
  | some l => exact (hp l (List.mem_of_getLast? hh)).2.1
  | none => exact hs

theorem good_reduceArgs (popped : List Sym) (start stop : Nat) (hp : ∀ x ∈ popped, GoodSym env I x)
    (hs : Bd I start) (he : Bd I stop) : ∀ a ∈ reduceArgs popped start stop, GoodArg env I a := by
  unfold reduceArgs
  split
  · intro a ha
    simp only [List.mem_cons, List.mem_nil_iff, or_false] at ha
    rcases ha with rfl | rfl
    · exact hs
    · exact he
  · intro a ha
    obtain ⟨x, hx, rfl⟩ := List.mem_map.mp ha
    have := hp x hx
    exact ⟨this.1, this.2.2, this.2.1⟩

theorem topState_of_chain {s : St} (hc : Chain C s.states s.syms) : ∃ st, s.states = topState s :: st := by
  unfold topState
  cases hc' : s.states with
  | nil => have := hc.length; rw [hc'] at this; simp at this
  | cons t st => exact ⟨st, rfl⟩

theorem reduce_inv (F : CertFacts T C) (hA : ActionsSafe T env I) (s : St) (p : Nat) (la : Option Nat)
    (h : Inv C env I s) (hred : C.redOK T (topState s) p = true) (hla : ∀ n, la = some n → Bd I n) :
    match reduce T env s p la with
    | (s', some o) => GoodOS env I s' o
    | (s', none) => Inv C env I s' := by
  obtain ⟨st, hst⟩ := topState_of_chain C h.chain
  obtain ⟨prod, hp, hk, _, heq, hdrv, hchain⟩ := reduce_safe T C F env s (topState s) st p la hst h.chain hred
  have hpop : ∀ x ∈ (s.syms.take prod.rhs.length).reverse, GoodSym env I x := by
    intro x hx
    exact h.good.syms x (List.mem_of_mem_take (List.mem_reverse.mp hx))
  have hrest : ∀ x ∈ s.syms.drop prod.rhs.length, GoodSym env I x := by
    intro x hx
    exact h.good.syms x (List.mem_of_mem_drop hx)
  have hstart := bd_reduceStart env I _ _ la hpop hrest hla
  have hstop := bd_reduceStop env I _ _ hpop hstart
  have hargs := good_reduceArgs env I _ _ _ hpop hstart hstop
  have hact := hA prod.action _ s.diags hargs h.good.diags
  cases hres : reduce T env s p la with
  | mk s' oo =>
    have hdrv' := hdrv s'
    have hchain' := hchain s'
    rw [hres] at hdrv' hchain'
    rw [heq] at hres
    unfold reduceCore at hres
    dsimp only at hres
    cases oo with
    | some o =>
      show GoodOS env I s' o
      have hd := hdrv' o rfl
      split at hres
      · rename_i e he
        rw [he] at hact
        cases hres
        exact ⟨hact, h.good.diags⟩
      · rename_i v diags hv
        rw [hv] at hact
        unfold reducePush at hres
        dsimp only at hres
        split at hres
        · cases hres; exact ⟨hact.1, hact.2⟩
        · split at hres
          · cases hres; exact hd.elim
          · cases hres
    | none =>
      show Inv C env I s'
      refine ⟨hchain' rfl, ?_⟩
      split at hres
      · cases hres
      · rename_i v diags hv
        rw [hv] at hact
        unfold reducePush at hres
        dsimp only at hres
        split at hres
        · cases hres
        · split at hres
          · cases hres
          · cases hres
            exact { lex := h.good.lex, last := h.good.last
                    diags := hact.2
                    syms := by
                      intro x hx
                      rcases List.mem_cons.mp hx with rfl | hx
                      · exact ⟨hstart, hstop, hact.1⟩
                      · exact hrest x hx }


/-! ### error recovery -/

theorem reduceOnError_inv (F : CertFacts T C) (hA : ActionsSafe T env I) (la : Option Token)
    (hla : ∀ t, la = some t → GoodTok I t) :
    ∀ (fuel : Nat) (s : St), Inv C env I s →
      match reduceOnError T env la s fuel with
      | (s', some o) => GoodOS env I s' o
      | (s', none) => Inv C env I s' := by
  intro fuel
  induction fuel with
  | zero => intro s h; unfold reduceOnError; exact ⟨trivial, h.good.diags⟩
  | succ f ih =>
    intro s h
    unfold reduceOnError
    cases hr : asReduce (errorAction T (topState s)) with
    | none => exact h
    | some r =>
      dsimp only
      have hred := F.red (topState s) (T.ncols - 1) r hr
      have hla' : ∀ n, la.map (·.start) = some n → Bd I n := by
        intro n hn
        cases la with
        | none => cases hn
        | some t => cases hn; exact (hla t rfl).1
      have := reduce_inv T C env I F hA s r (la.map (·.start)) h hred hla'
      cases hres : reduce T env s r (la.map (·.start)) with
      | mk s' oo =>
        rw [hres] at this
        cases oo with
        | some o => exact this
        | none => exact ih s' this

/-- what `findState` hands to `recoverPush` -/
structure Found (statesLen : Nat) (s : St) (top : Nat) (la : Option Token) (col : Option Nat) (dropped : List Token) : Prop where
  top_lt : top < statesLen
  shift : (asShift (errorAction T ((s.states.drop (statesLen - 1 - top)).headD 0))).isSome = true
  la_col : la.isSome = col.isSome
  la_good : ∀ t, la = some t → GoodTok I t
  dropped_good : ∀ t ∈ dropped, GoodTok I t

theorem errorCandidate_spec {statesLen : Nat} {s : St} {col : Option Nat} {top : Nat}
    (h : errorCandidate T statesLen s col = some top) :
    top < statesLen ∧ (asShift (errorAction T ((s.states.drop (statesLen - 1 - top)).headD 0))).isSome = true := by
  unfold errorCandidate at h
  have hmem := List.mem_of_find?_eq_some h
  have hp := List.find?_some h
  refine ⟨by simpa using hmem, ?_⟩
  dsimp only at hp
  split at hp
  · rename_i e he; rw [he]; rfl
  · cases hp

theorem findState_inv (error : ParseErr) (herr : GoodErr I error) (statesLen : Nat) :
    ∀ (fuel : Nat) (s : St) (la : Option Token) (col : Option Nat) (dropped : List Token),
      Inv C env I s → s.states.length = statesLen → la.isSome = col.isSome →
      (∀ t, la = some t → GoodTok I t) → (∀ t ∈ dropped, GoodTok I t) →
      match findState T error statesLen s la col dropped fuel with
      | (s', .inl (.done o)) => GoodOS env I s' o
      | (_, .inl _) => False
      | (s', .inr (top, la', col', dropped')) =>
          Inv C env I s' ∧ s'.states.length = statesLen ∧ Found T I statesLen s' top la' col' dropped'
          ∧ (la = none → la' = none) := by
  intro fuel
  induction fuel with
  | zero => intro s la col dropped h _ _ _ _; unfold findState; exact ⟨trivial, h.good.diags⟩
  | succ f ih =>
    intro s la col dropped h hlen hlc hla hdr
    unfold findState
    cases hc : errorCandidate T statesLen s col with
    | some top =>
      obtain ⟨h1, h2⟩ := errorCandidate_spec T hc
      exact ⟨h, hlen, ⟨h1, h2, hlc, hla, hdr⟩, id⟩
    | none =>
      dsimp only
      cases la with
      | none => exact ⟨herr, h.good.diags⟩
      | some l =>
        dsimp only
        have hdr' : ∀ t ∈ dropped ++ [l], GoodTok I t := by
          intro t ht
          rcases List.mem_append.mp ht with ht | ht
          · exact hdr t ht
          · simp only [List.mem_cons, List.mem_nil_iff, or_false] at ht; rw [ht]; exact hla _ rfl
        have hn := nextToken_inv T C env I s h
        have hst : (nextToken T s).1.states = s.states := by
          unfold nextToken
          split <;> (try rfl)
          split <;> rfl
        cases hnt : nextToken T s with
        | mk s' r =>
          rw [hnt] at hn hst
          cases r with
          | found t c =>
            have := ih s' (some t) (some c) _ hn.1 (by rw [hst]; exact hlen) rfl
              (by intro t' ht'; cases ht'; exact hn.2) hdr'
            dsimp only
            revert this
            cases findState T error statesLen s' (some t) (some c) (dropped ++ [l]) f with
            | mk s'' r =>
              cases r with
              | inl nt => cases nt <;> exact id
              | inr x => intro hx; exact ⟨hx.1, hx.2.1, hx.2.2.1, by intro hh; cases hh⟩
          | eof =>
            have := ih s' none none _ hn (by rw [hst]; exact hlen) rfl (by intro t' ht'; cases ht') hdr'
            dsimp only
            revert this
            cases findState T error statesLen s' none none (dropped ++ [l]) f with
            | mk s'' r =>
              cases r with
              | inl nt => cases nt <;> exact id
              | inr x => intro hx; exact ⟨hx.1, hx.2.1, hx.2.2.1, by intro hh; cases hh⟩
          | done o => exact hn


theorem bd_recoverStart (s : St) (top : Nat) (dropped : List Token)
    (hs : ∀ x ∈ s.syms, GoodSym env I x) (hd : ∀ t ∈ dropped, GoodTok I t) : Bd I (recoverStart s top dropped) := by
  unfold recoverStart
  dsimp only
  cases h1 : s.syms.reverse[top]? with
  | some sym => exact (hs sym (List.mem_reverse.mp (List.mem_of_getElem? h1))).1
  | none =>
    dsimp only
    cases h2 : dropped.head? with
    | some t => exact (hd t (List.mem_of_mem_head? h2)).1
    | none =>
      dsimp only
      split
      · cases h3 : s.syms.reverse[top - 1]? with
        | some sym => exact (hs sym (List.mem_reverse.mp (List.mem_of_getElem? h3))).2.1
        | none => exact Bd.zero I
      · exact Bd.zero I

theorem bd_recoverStop (statesLen : Nat) (s : St) (top : Nat) (la : Option Token) (dropped : List Token) (start : Nat)
    (hs : ∀ x ∈ s.syms, GoodSym env I x) (hd : ∀ t ∈ dropped, GoodTok I t) (hla : ∀ t, la = some t → GoodTok I t)
    (hst : Bd I start) : Bd I (recoverStop statesLen s top la dropped start) := by
  unfold recoverStop
  cases h1 : dropped.getLast? with
  | some t => exact (hd t (List.mem_of_getLast? h1)).2
  | none =>
    dsimp only
    split
    · cases h2 : s.syms.head? with
      | some sym => exact (hs sym (List.mem_of_mem_head? h2)).2.1
      | none => exact Bd.zero I
    · cases la with
      | some l => exact (hla l rfl).1
      | none => exact hst

/-- a state that differs from a good one only in its stacks (and ghost fields) -/
theorem inv_push (s s' : St) (x : Sym) (syms : List Sym)
    (hsy : s'.syms = x :: syms) (hc : Chain C s'.states s'.syms)
    (hlex : s'.input = s.input ∧ s'.pos = s.pos ∧ s'.last = s.last ∧ s'.diags = s.diags)
    (hx : GoodSym env I x) (hs : ∀ y ∈ syms, GoodSym env I y) (hg : GoodSt env I s) :
    Inv C env I s' :=
  { chain := hc
    good := { lex := by rw [hlex.1, hlex.2.1]; exact hg.lex
              last := by rw [hlex.2.2.1]; exact hg.last
              diags := by rw [hlex.2.2.2]; exact hg.diags
              syms := by
                rw [hsy]
                intro y hy
                rcases List.mem_cons.mp hy with rfl | hy
                · exact hx
                · exact hs y hy } }

theorem recoverPush_inv (F : CertFacts T C) (error : ParseErr) (herr : GoodErr I error) (statesLen : Nat)
    (s : St) (top : Nat) (la : Option Token) (col : Option Nat) (dropped : List Token)
    (h : Inv C env I s) (hlen : s.states.length = statesLen) (hf : Found T I statesLen s top la col dropped) :
    match recoverPush T error statesLen s top la col dropped with
    | (s', .found t _) => Inv C env I s' ∧ GoodTok I t ∧ la = some t
    | (s', .eof) => Inv C env I s' ∧ la = none
    | (s', .done o) => GoodOS env I s' o := by
  have hsl := h.chain.length
  have hn : statesLen - 1 - top ≤ s.syms.length := by omega
  have hdrop := h.chain.drop (statesLen - 1 - top) hn
  have hsyms : (s.syms.reverse.take top).reverse = s.syms.drop (statesLen - 1 - top) := by
    rw [List.take_reverse, List.reverse_reverse]
    congr 1
    have := hf.top_lt
    omega
  have hstart := bd_recoverStart env I s top dropped h.good.syms hf.dropped_good
  have hstop := bd_recoverStop env I statesLen s top la dropped _ h.good.syms hf.dropped_good hf.la_good hstart
  unfold recoverPush
  dsimp only
  have hshift := hf.shift
  cases hsh : asShift (errorAction T ((s.states.drop (statesLen - 1 - top)).headD 0)) with
  | none => rw [hsh] at hshift; cases hshift
  | some errState =>
    dsimp only
    -- the truncated state stack is not empty
    have hne : ∃ q rest, s.states.drop (statesLen - 1 - top) = q :: rest := by
      cases hd : s.states.drop (statesLen - 1 - top) with
      | nil =>
        have := congrArg List.length hd
        simp only [List.length_drop, List.length_nil] at this
        have := hf.top_lt
        omega
      | cons q rest => exact ⟨q, rest, rfl⟩
    obtain ⟨q, rest, hq⟩ := hne
    rw [hq] at hsh hdrop
    simp only [List.headD_cons] at hsh
    have hedge := F.shift q (T.ncols - 1) errState hsh
    have hchain : Chain C (errState :: s.states.drop (statesLen - 1 - top))
        ({ start := recoverStart s top dropped, id := T.ncols - 1, name := "error", val := .recovery error dropped, stop := recoverStop statesLen s top la dropped (recoverStart s top dropped) } :: (s.syms.reverse.take top).reverse) := by
      rw [hsyms, hq]
      exact Chain.step hdrop hedge
    have hinv : ∀ (s' : St), s'.states = errState :: s.states.drop (statesLen - 1 - top) →
        s'.syms = { start := recoverStart s top dropped, id := T.ncols - 1, name := "error", val := .recovery error dropped, stop := recoverStop statesLen s top la dropped (recoverStart s top dropped) } :: (s.syms.reverse.take top).reverse →
        (s'.input = s.input ∧ s'.pos = s.pos ∧ s'.last = s.last ∧ s'.diags = s.diags) → Inv C env I s' := by
      intro s' h1 h2 h3
      exact inv_push C env I s s' _ _ h2 (by rw [h1, h2]; exact hchain) h3 ⟨hstart, hstop, herr, hf.dropped_good⟩
        (by intro x hx; rw [hsyms] at hx; exact h.good.syms x (List.mem_of_mem_drop hx)) h.good
    have hlc := hf.la_col
    cases la with
    | some l =>
      cases col with
      | some c => exact ⟨hinv _ rfl rfl ⟨rfl, rfl, rfl, rfl⟩, hf.la_good l rfl, rfl⟩
      | none => simp at hlc
    | none =>
      cases col with
      | some c => simp at hlc
      | none => exact ⟨hinv _ rfl rfl ⟨rfl, rfl, rfl, rfl⟩, rfl⟩

theorem good_unrecognized (s : St) (la : Option Token) (h : GoodSt env I s) (hla : ∀ t, la = some t → GoodTok I t) :
    GoodErr I (unrecognized T s la) := by
  unfold unrecognized
  cases la with
  | some t => exact hla t rfl
  | none => exact h.last

theorem errorRecovery_inv (F : CertFacts T C) (hA : ActionsSafe T env I) (s : St) (la : Option Token) (col : Option Nat)
    (fuel : Nat) (h : Inv C env I s) (hlc : la.isSome = col.isSome) (hla : ∀ t, la = some t → GoodTok I t) :
    match errorRecovery T env s la col fuel with
    | (s', .found t _) => Inv C env I s' ∧ GoodTok I t ∧ la.isSome = true
    | (s', .eof) => Inv C env I s'
    | (s', .done o) => GoodOS env I s' o := by
  have herr := good_unrecognized T env I s la h.good hla
  unfold errorRecovery
  dsimp only
  have h1 := reduceOnError_inv T C env I F hA la hla fuel s h
  cases hr : reduceOnError T env la s fuel with
  | mk s1 oo =>
    rw [hr] at h1
    cases oo with
    | some o => exact h1
    | none =>
      dsimp only
      have h2 := findState_inv T C env I _ herr s1.states.length fuel s1 la col [] h1 rfl hlc hla (by intro t ht; cases ht)
      cases hfs : findState T (unrecognized T s la) s1.states.length s1 la col [] fuel with
      | mk s2 r =>
        rw [hfs] at h2
        cases r with
        | inl nt =>
          cases nt with
          | done o => exact h2
          | found t c => exact h2.elim
          | eof => exact h2.elim
        | inr x =>
          obtain ⟨top, la', col', dropped'⟩ := x
          obtain ⟨hi, hl, hf, hnone⟩ := h2
          dsimp only
          have h3 := recoverPush_inv T C env I F _ herr s1.states.length s2 top la' col' dropped' hi hl hf
          revert h3
          cases recoverPush T (unrecognized T s la) s1.states.length s2 top la' col' dropped' with
          | mk s3 r3 =>
            cases r3 with
            | found t c =>
              intro h3
              refine ⟨h3.1, h3.2.1, ?_⟩
              cases la with
              | some _ => rfl
              | none => have := hnone rfl; rw [this] at h3; cases h3.2.2
            | eof => intro h3; exact h3.1
            | done o => exact id


/-! ### the main loops -/

theorem parseEof_inv (F : CertFacts T C) (hA : ActionsSafe T env I) :
    ∀ (fuel : Nat) (s : St), Inv C env I s → GoodOS env I (parseEof T env s fuel).1 (parseEof T env s fuel).2 := by
  intro fuel
  induction fuel with
  | zero => intro s h; unfold parseEof; exact ⟨trivial, h.good.diags⟩
  | succ f ih =>
    intro s h
    unfold parseEof
    cases hr : asReduce (eofActionAt T (topState s)) with
    | some r =>
      dsimp only
      have hred := F.redEof (topState s) r hr
      have := reduce_inv T C env I F hA s r none h hred (by intro n hn; cases hn)
      revert this
      cases reduce T env s r none with
      | mk s' oo =>
        cases oo with
        | some o => exact id
        | none => intro h'; exact ih s' h'
    | none =>
      dsimp only
      have := errorRecovery_inv T C env I F hA s none none f h rfl (by intro t ht; cases ht)
      revert this
      cases errorRecovery T env s none none f with
      | mk s' r =>
        cases r with
        | found t c => intro h'; have := h'.2.2; cases this
        | eof => intro h'; exact ih s' h'
        | done o => exact id

theorem parseInner_inv (F : CertFacts T C) (hA : ActionsSafe T env I) :
    ∀ (fuel : Nat) (s : St) (la : Token) (col : Nat), Inv C env I s → GoodTok I la →
      match parseInner T env s la col fuel with
      | (s', .inl ()) => Inv C env I s'
      | (s', .inr o) => GoodOS env I s' o := by
  intro fuel
  induction fuel with
  | zero => intro s la col h _; unfold parseInner; exact ⟨trivial, h.good.diags⟩
  | succ f ih =>
    intro s la col h hla
    unfold parseInner
    dsimp only
    cases hs : asShift (actionAt T (topState s) col) with
    | some target =>
      dsimp only
      obtain ⟨st, hst⟩ := topState_of_chain C h.chain
      have hedge := F.shift (topState s) col target hs
      refine inv_push C env I s _ _ s.syms rfl ?_ ⟨rfl, rfl, rfl, rfl⟩ ⟨hla.1, hla.2, trivial⟩ h.good.syms h.good
      show Chain C (target :: s.states) (_ :: s.syms)
      have hc := h.chain
      rw [hst] at hc ⊢
      exact Chain.step hc hedge
    | none =>
      dsimp only
      cases hr : asReduce (actionAt T (topState s) col) with
      | some r =>
        dsimp only
        have hred := F.red (topState s) col r hr
        have := reduce_inv T C env I F hA s r (some la.start) h hred (by intro n hn; cases hn; exact hla.1)
        revert this
        cases reduce T env s r (some la.start) with
        | mk s' oo =>
          cases oo with
          | some o =>
            cases o with
            | accept v => intro hh; exact ⟨hla, hh.2⟩
            | error e => exact id
            | panic m => exact id
            | actionPanic p => exact id
            | fuelOut => exact id
          | none => intro h'; exact ih s' la col h' hla
      | none =>
        dsimp only
        have := errorRecovery_inv T C env I F hA s (some la) (some col) f h rfl (by intro t ht; cases ht; exact hla)
        revert this
        cases errorRecovery T env s (some la) (some col) f with
        | mk s' r =>
          cases r with
          | found l c => intro h'; exact ih s' l c h'.1 h'.2.1
          | eof => intro h'; exact parseEof_inv T C env I F hA f s' h'
          | done o => exact id

theorem parseLoop_inv (F : CertFacts T C) (hA : ActionsSafe T env I) :
    ∀ (fuel : Nat) (s : St), Inv C env I s → GoodOS env I (parseLoop T env s fuel).1 (parseLoop T env s fuel).2 := by
  intro fuel
  induction fuel with
  | zero => intro s h; unfold parseLoop; exact ⟨trivial, h.good.diags⟩
  | succ f ih =>
    intro s h
    unfold parseLoop
    have hn := nextToken_inv T C env I s h
    revert hn
    cases nextToken T s with
    | mk s' r =>
      cases r with
      | eof => intro hn; exact parseEof_inv T C env I F hA f s' hn
      | done o => exact id
      | found la col =>
        intro hn
        dsimp only
        have := parseInner_inv T C env I F hA f s' la col hn.1 hn.2
        revert this
        cases parseInner T env s' la col f with
        | mk s'' r' =>
          cases r' with
          | inl u => cases u; intro h'; exact ih s'' h'
          | inr o => exact id

/-- the initial state -/
theorem inv_init (text : List Char) : Inv C env text { input := text } :=
  { chain := Chain.base
    good := { lex := ⟨[], rfl, rfl⟩, last := Bd.zero text, syms := (by intro x hx; cases hx),
              diags := (by intro d hd; cases hd) } }

/-- **For every input**: the run of the parser model never ends in a panic of the LR driver
    (symbol mismatch, stack underflow, a failed `unwrap`), never in a `bounds` panic of an action
    (`Range::new` off a boundary, a slice of `javadoc.rs`), and a parse error it returns lies on
    character boundaries of the input — whatever the fuel. -/
theorem parse_outcome_good (F : CertFacts T C) (text : List Char) (hA : ActionsSafe T env text) (fuel : Nat) :
    GoodOutcome env text (parseLoop T env { input := text } fuel).2 :=
  (parseLoop_inv T C env text F hA fuel _ (inv_init C env text)).1

/-- … and every diagnostic of the final state holds positions the lookup accepts, with their line and column -/
theorem parse_diags_good (F : CertFacts T C) (text : List Char) (hA : ActionsSafe T env text) (fuel : Nat) :
    DiagsLc env (parseLoop T env { input := text } fuel).1.diags :=
  (parseLoop_inv T C env text F hA fuel _ (inv_init C env text)).2

end Aidl.Props.LrInv
