import AidlVerif.Spec.C16
import AidlVerif.Props.C15

/-!
# C16 — property theorems (about the model of traverse.rs)
-/

namespace Aidl.Props.C16
open Aidl Aidl.Spec Aidl.Spec.C15 Aidl.Spec.C16

/-- the four early returns of `range_contains` are the two-sided lexicographic comparison -/
theorem contains_iff (r : Range) (lc : Nat × Nat) : rangeContains r lc = contains r lc := by
  unfold rangeContains contains lcLe
  simp only [beq_iff_eq, decide_eq_true_eq]
  by_cases h1 : r.start.line > lc.1
  · have : ¬ r.start.line < lc.1 := by omega
    have : ¬ r.start.line = lc.1 := by omega
    simp [h1, *]
  · by_cases h2 : r.start.line = lc.1 ∧ r.start.col > lc.2
    · have : ¬ r.start.line < lc.1 := by omega
      have : ¬ r.start.col ≤ lc.2 := by omega
      simp [h1, h2, *]
    · by_cases h3 : r.stop.line < lc.1
      · have : ¬ lc.1 < r.stop.line := by omega
        have : ¬ lc.1 = r.stop.line := by omega
        simp [h1, h2, h3, *]
      · by_cases h4 : r.stop.line = lc.1 ∧ r.stop.col < lc.2
        · have : ¬ lc.1 < r.stop.line := by omega
          have : ¬ lc.2 ≤ r.stop.col := by omega
          simp [h1, h2, h3, h4, *]
        · simp only [h1, h2, h3, h4, if_false]
          have a1 : r.start.line < lc.1 ∨ (r.start.line = lc.1 ∧ r.start.col ≤ lc.2) := by omega
          have a2 : lc.1 < r.stop.line ∨ (lc.1 = r.stop.line ∧ lc.2 ≤ r.stop.col) := by omega
          simp [a1, a2]

/-- **Position lookup returns the first visited symbol whose range contains the position**, or
    nothing when there is none — for every tree, filter level and position -/
theorem find_at_eq (ast : AidlFile) (filter : SymbolFilter) (lc : Nat × Nat) :
    findSymbolAtLineCol ast filter lc = expected filter ast lc := by
  unfold findSymbolAtLineCol expected
  rw [Props.C15.find_pure]
  congr 1
  funext s
  exact contains_iff _ _

/-- the returned symbol's range contains the position -/
theorem found_contains (ast : AidlFile) (filter : SymbolFilter) (lc : Nat × Nat) (s : Symbol)
    (h : findSymbolAtLineCol ast filter lc = some s) : contains s.range lc = true := by
  rw [find_at_eq] at h
  unfold expected at h
  exact List.find?_some (p := fun (s : Symbol) => contains s.range lc) h

/-- a position inside some visited symbol is always found -/
theorem point_inside_finds (ast : AidlFile) (filter : SymbolFilter) (lc : Nat × Nat) (s : Symbol)
    (hs : s ∈ symbols filter ast) (hc : contains s.range lc = true) :
    ∃ s', findSymbolAtLineCol ast filter lc = some s' ∧ contains s'.range lc = true := by
  rw [find_at_eq]
  unfold expected
  cases hf : (symbols filter ast).find? (fun s => contains s.range lc) with
  | some s' => exact ⟨s', rfl, List.find?_some (p := fun (s : Symbol) => contains s.range lc) hf⟩
  | none =>
    have := List.find?_eq_none.mp hf s hs
    simp [hc] at this

/-- a position no visited symbol's range contains returns nothing -/
theorem nothing_outside (ast : AidlFile) (filter : SymbolFilter) (lc : Nat × Nat)
    (h : ∀ s ∈ symbols filter ast, contains s.range lc = false) :
    findSymbolAtLineCol ast filter lc = none := by
  rw [find_at_eq]
  unfold expected
  apply List.find?_eq_none.mpr
  intro s hs
  simp [h s hs]

/-- With a line/column lookup that is monotone in the offset (`LcMonotone`, checked by the harness
    for every generated text), every offset from the first character of a symbol's range through
    the position just after its last character is a position that the range contains. -/
theorem offsets_inside (pos : Nat → Nat × Nat)
    (mono : ∀ a b, a ≤ b → lcLe (pos a) (pos b) = true)
    (r : Range) (hs : (r.start.line, r.start.col) = pos r.start.off) (he : (r.stop.line, r.stop.col) = pos r.stop.off)
    (o : Nat) (h1 : r.start.off ≤ o) (h2 : o ≤ r.stop.off) : contains r (pos o) = true := by
  unfold contains
  rw [hs, he, mono _ _ h1, mono _ _ h2]
  rfl

end Aidl.Props.C16
