import AidlVerif.Props.EvalRel
import AidlVerif.Model.Lr

/-!
# The parser does not look at positions: two runs on texts with the same token sequence

`StRel`: same state stack, symbols with the same ids and values equal after erasure, and inputs that
lex to the same sequence of (lexer entry, text) pairs (`LexRel`). Every step of the driver preserves
it, unless one of the two runs stops (panic / step bound — excluded by the totality theorems). At the
end: both runs accept values equal after erasure, or both report a parse error.
-/

namespace Aidl.Props.Rel
open Aidl Aidl.Lr Aidl.Actions Aidl.Lexer Aidl.Erase Aidl.Props.PL

variable (T : Tables) (e1 e2 : Env)

/-- the two inputs lex to the same sequence of tokens (entry index and text; positions are free) -/
inductive LexRel : List Char → Nat → List Char → Nat → Prop
  | eof {i1 p1 i2 p2} : Lexer.next T.lex (i1.length + 1) i1 p1 = .eof → Lexer.next T.lex (i2.length + 1) i2 p2 = .eof →
      LexRel i1 p1 i2 p2
  | invalid {i1 p1 i2 p2 l1 l2} : Lexer.next T.lex (i1.length + 1) i1 p1 = .invalid l1 →
      Lexer.next T.lex (i2.length + 1) i2 p2 = .invalid l2 → LexRel i1 p1 i2 p2
  | tok {i1 p1 i2 p2 t1 r1 t2 r2} : Lexer.next T.lex (i1.length + 1) i1 p1 = .token t1 r1 →
      Lexer.next T.lex (i2.length + 1) i2 p2 = .token t2 r2 → t1.index = t2.index → t1.text = t2.text →
      LexRel r1 t1.stop r2 t2.stop → LexRel i1 p1 i2 p2

def symEr (x : Sym) : Nat × Val := (x.id, erVal x.val)

structure StRel (s1 s2 : St) : Prop where
  states : s1.states = s2.states
  syms : s1.syms.map symEr = s2.syms.map symEr
  lex : LexRel T s1.input s1.pos s2.input s2.pos

/-- the run is over without a verdict: a panic or the step bound (excluded by `addContent_total`) -/
def StopO : Outcome → Prop
  | .accept _ => False
  | .error _ => False
  | _ => True

/-- how two finished runs compare -/
def ORel : Outcome → Outcome → Prop
  | .accept v1, .accept v2 => erVal v1 = erVal v2
  | .error _, .error _ => True
  | .accept _, .error _ => False
  | .error _, .accept _ => False
  | _, _ => True

theorem ORel.of_stop_left {o1 o2 : Outcome} (h : StopO o1) : ORel o1 o2 := by
  cases o1 <;> first | exact h.elim | (cases o2 <;> trivial)
theorem ORel.of_stop_right {o1 o2 : Outcome} (h : StopO o2) : ORel o1 o2 := by
  cases o2 <;> first | exact h.elim | (cases o1 <;> trivial)

def TokRel (t1 t2 : Token) : Prop := t1.index = t2.index ∧ t1.text = t2.text

/-! ### the lexer step -/

def NextRel : St × NextToken → St × NextToken → Prop
  | (s1, .found t1 c1), (s2, .found t2 c2) => StRel T s1 s2 ∧ c1 = c2 ∧ TokRel t1 t2
  | (s1, .eof), (s2, .eof) => StRel T s1 s2
  | (_, .done o1), (_, .done o2) => ORel o1 o2
  | (_, .done o1), (_, .found _ _) => StopO o1
  | (_, .done o1), (_, .eof) => StopO o1
  | (_, .found _ _), (_, .done o2) => StopO o2
  | (_, .eof), (_, .done o2) => StopO o2
  | _, _ => False

theorem nextToken_rel (s1 s2 : St) (h : StRel T s1 s2) : NextRel T (nextToken T s1) (nextToken T s2) := by
  unfold nextToken
  cases h.lex with
  | eof h1 h2 => rw [h1, h2]; exact h
  | invalid h1 h2 => rw [h1, h2]; trivial
  | tok h1 h2 hi ht hr =>
    rename_i t1 r1 t2 r2
    rw [h1, h2]
    dsimp only
    rw [hi]
    cases T.tokToCol.lookup t2.index with
    | none => trivial
    | some c => exact ⟨⟨h.states, h.syms, hr⟩, rfl, hi, ht⟩

/-! ### `reduce` -/

def RedRel : St × Option Outcome → St × Option Outcome → Prop
  | (s1, none), (s2, none) => StRel T s1 s2
  | (_, some o1), (_, some o2) => ORel o1 o2
  | (_, some o1), (_, none) => StopO o1
  | (_, none), (_, some o2) => StopO o2

theorem RedRel.stop_left {s : St} {o : Outcome} (h : StopO o) (r : St × Option Outcome) : RedRel T (s, some o) r := by
  obtain ⟨s2, oo⟩ := r
  cases oo with
  | none => exact h
  | some o2 => exact ORel.of_stop_left h
theorem RedRel.stop_right {s : St} {o : Outcome} (h : StopO o) (r : St × Option Outcome) : RedRel T r (s, some o) := by
  obtain ⟨s1, oo⟩ := r
  cases oo with
  | none => exact h
  | some o1 => exact ORel.of_stop_right h

theorem syms_ids {l1 l2 : List Sym} (h : l1.map symEr = l2.map symEr) : l1.map (·.id) = l2.map (·.id) := by
  have := congrArg (List.map Prod.fst) h
  simpa [List.map_map, symEr, Function.comp_def] using this

theorem syms_vals {l1 l2 : List Sym} (h : l1.map symEr = l2.map symEr) :
    l1.map (fun x => erVal x.val) = l2.map (fun x => erVal x.val) := by
  have := congrArg (List.map Prod.snd) h
  simpa [List.map_map, symEr, Function.comp_def] using this

theorem syms_len {l1 l2 : List Sym} (h : l1.map symEr = l2.map symEr) : l1.length = l2.length := by
  have := congrArg List.length h
  simpa using this

theorem syms_take_rev {l1 l2 : List Sym} (h : l1.map symEr = l2.map symEr) (k : Nat) :
    ((l1.take k).reverse).map symEr = ((l2.take k).reverse).map symEr := by
  rw [List.map_reverse, List.map_reverse, List.map_take, List.map_take, h]

theorem syms_drop {l1 l2 : List Sym} (h : l1.map symEr = l2.map symEr) (k : Nat) :
    (l1.drop k).map symEr = (l2.drop k).map symEr := by
  rw [List.map_drop, List.map_drop, h]

theorem reduceArgs_rel {p1 p2 : List Sym} (h : p1.map symEr = p2.map symEr) (a b c d : Nat) :
    ArgsRel (reduceArgs p1 a b) (reduceArgs p2 c d) := by
  unfold reduceArgs ArgsRel
  rw [syms_len h]
  split
  · rfl
  · have := syms_vals h
    simp only [List.map_map, Function.comp_def, erArgV]
    have h2 := congrArg (List.map (fun v => ArgV.triple 0 v 0)) this
    simpa [List.map_map, Function.comp_def] using h2

theorem reduceCore_rel (s1 s2 : St) (h : StRel T s1 s2) (prod : Production) (la1 la2 : Option Nat) :
    RedRel T (reduceCore T e1 s1 prod la1) (reduceCore T e2 s2 prod la2) := by
  unfold reduceCore
  dsimp only
  have hpop := syms_take_rev h.syms prod.rhs.length
  have hargs := reduceArgs_rel hpop
    (reduceStart (s1.syms.take prod.rhs.length).reverse (s1.syms.drop prod.rhs.length) la1)
    (reduceStop (s1.syms.take prod.rhs.length).reverse (reduceStart (s1.syms.take prod.rhs.length).reverse (s1.syms.drop prod.rhs.length) la1))
    (reduceStart (s2.syms.take prod.rhs.length).reverse (s2.syms.drop prod.rhs.length) la2)
    (reduceStop (s2.syms.take prod.rhs.length).reverse (reduceStart (s2.syms.take prod.rhs.length).reverse (s2.syms.drop prod.rhs.length) la2))
  have hrel := evalAction_rel (e1 := e1) (e2 := e2) T.actions 16 prod.action _ _ hargs s1.diags s2.diags
  unfold runM at hrel
  revert hrel
  cases (ReaderT.run (evalAction T.actions 16 prod.action _) e1).run s1.diags with
  | error p1 => intro _; exact RedRel.stop_left T (o := .actionPanic p1) trivial _
  | ok r1 =>
    obtain ⟨v1, d1⟩ := r1
    cases (ReaderT.run (evalAction T.actions 16 prod.action _) e2).run s2.diags with
    | error p2 => intro _; exact RedRel.stop_right T (o := .actionPanic p2) trivial _
    | ok r2 =>
      obtain ⟨v2, d2⟩ := r2
      intro hv
      dsimp only at hv ⊢
      unfold reducePush
      dsimp only
      by_cases hacc : prod.accept = true
      · rw [if_pos hacc, if_pos hacc]; exact hv
      · rw [if_neg hacc, if_neg hacc]
        rw [h.states]
        by_cases hlt : s2.states.length < prod.pops + 1
        · rw [if_pos hlt, if_pos hlt]; trivial
        · rw [if_neg hlt, if_neg hlt]
          refine ⟨rfl, ?_, h.lex⟩
          simp only [List.map_cons, symEr, List.cons.injEq, Prod.mk.injEq, true_and]
          exact ⟨hv, syms_drop h.syms _⟩

theorem reduce_rel (s1 s2 : St) (h : StRel T s1 s2) (p : Nat) (la1 la2 : Option Nat) :
    RedRel T (reduce T e1 s1 p la1) (reduce T e2 s2 p la2) := by
  unfold reduce
  cases T.prods[p]? with
  | none => trivial
  | some prod =>
    dsimp only
    rw [syms_len h.syms]
    by_cases hlt : s2.syms.length < prod.rhs.length
    · rw [if_pos hlt, if_pos hlt]; trivial
    · rw [if_neg hlt, if_neg hlt]
      have hids := syms_ids (syms_take_rev h.syms prod.rhs.length)
      rw [hids]
      split
      · trivial
      · exact reduceCore_rel T e1 e2 s1 s2 h prod la1 la2

/-! ### `error_recovery` -/

theorem topState_eq {s1 s2 : St} (h : StRel T s1 s2) : topState s1 = topState s2 := by
  unfold topState; rw [h.states]

theorem reduceOnError_rel (la1 la2 : Option Token) :
    ∀ (f1 f2 : Nat) (s1 s2 : St), StRel T s1 s2 →
      RedRel T (reduceOnError T e1 la1 s1 f1) (reduceOnError T e2 la2 s2 f2) := by
  intro f1
  induction f1 with
  | zero => intro f2 s1 s2 _; unfold reduceOnError; exact RedRel.stop_left T (o := .fuelOut) trivial _
  | succ f1 ih =>
    intro f2 s1 s2 h
    cases f2 with
    | zero =>
      conv => rhs; unfold reduceOnError
      exact RedRel.stop_right T (o := .fuelOut) trivial _
    | succ f2 =>
      unfold reduceOnError
      rw [topState_eq T h]
      cases asReduce (errorAction T (topState s2)) with
      | none => exact h
      | some r =>
        dsimp only
        have hr := reduce_rel T e1 e2 s1 s2 h r (la1.map (·.start)) (la2.map (·.start))
        revert hr
        cases reduce T e1 s1 r (la1.map (·.start)) with
        | mk s1' o1 =>
          cases reduce T e2 s2 r (la2.map (·.start)) with
          | mk s2' o2 =>
            cases o1 with
            | some x1 =>
              cases o2 with
              | some x2 => exact fun hh => hh
              | none => intro hh; exact RedRel.stop_left T hh _
            | none =>
              cases o2 with
              | some x2 => intro hh; exact RedRel.stop_right T hh _
              | none => intro hh; exact ih f2 s1' s2' hh

theorem errorCandidate_congr {s1 s2 : St} (h : s1.states = s2.states) (n : Nat) (col : Option Nat) :
    errorCandidate T n s1 col = errorCandidate T n s2 col := by
  unfold errorCandidate; rw [h]

def LaRel : Option Token → Option Token → Prop
  | some t1, some t2 => TokRel t1 t2
  | none, none => True
  | _, _ => False

abbrev FindRes := St × Sum NextToken (Nat × Option Token × Option Nat × List Token)

/-- `findState` answers `.inl (.done _)` or `.inr _` -/
def FindShape : FindRes → Prop
  | (_, .inl (.done _)) => True
  | (_, .inl _) => False
  | (_, .inr _) => True

theorem findState_shape (error : ParseErr) (n : Nat) :
    ∀ (f : Nat) (s : St) (la : Option Token) (col : Option Nat) (dropped : List Token),
      FindShape (findState T error n s la col dropped f) := by
  intro f
  induction f with
  | zero => intro s la col dropped; unfold findState; trivial
  | succ f ih =>
    intro s la col dropped
    unfold findState
    cases errorCandidate T n s col with
    | some top => trivial
    | none =>
      dsimp only
      cases la with
      | none => trivial
      | some l =>
        dsimp only
        cases nextToken T s with
        | mk s' r =>
          cases r with
          | found t c => exact ih _ _ _ _
          | eof => exact ih _ _ _ _
          | done o => trivial

def FindRel : FindRes → FindRes → Prop
  | (s1, .inr (top1, la1, col1, _)), (s2, .inr (top2, la2, col2, _)) =>
      StRel T s1 s2 ∧ top1 = top2 ∧ col1 = col2 ∧ LaRel la1 la2
  | (_, .inl (.done o1)), (_, .inl (.done o2)) => ORel o1 o2
  | (_, .inl (.done o1)), (_, .inr _) => StopO o1
  | (_, .inr _), (_, .inl (.done o2)) => StopO o2
  | _, _ => False

theorem FindRel.stop_left {s : St} {o : Outcome} (h : StopO o) (r : FindRes) (hr : FindShape r) :
    FindRel T (s, .inl (.done o)) r := by
  obtain ⟨s2, x⟩ := r
  cases x with
  | inl nt =>
    cases nt with
    | done o2 => exact ORel.of_stop_left h
    | found _ _ => exact hr.elim
    | eof => exact hr.elim
  | inr y => exact h

theorem FindRel.stop_right {s : St} {o : Outcome} (h : StopO o) (r : FindRes) (hr : FindShape r) :
    FindRel T r (s, .inl (.done o)) := by
  obtain ⟨s1, x⟩ := r
  cases x with
  | inl nt =>
    cases nt with
    | done o1 => exact ORel.of_stop_right h
    | found _ _ => exact hr.elim
    | eof => exact hr.elim
  | inr y => exact h

theorem findState_rel (err1 err2 : ParseErr) (n : Nat) :
    ∀ (f1 f2 : Nat) (s1 s2 : St) (la1 la2 : Option Token) (col : Option Nat) (d1 d2 : List Token),
      StRel T s1 s2 → LaRel la1 la2 →
      FindRel T (findState T err1 n s1 la1 col d1 f1) (findState T err2 n s2 la2 col d2 f2) := by
  intro f1
  induction f1 with
  | zero =>
    intro f2 s1 s2 la1 la2 col d1 d2 _ _
    conv => lhs; unfold findState
    exact FindRel.stop_left T (o := .fuelOut) trivial _ (findState_shape T _ _ _ _ _ _ _)
  | succ f1 ih =>
    intro f2 s1 s2 la1 la2 col d1 d2 h hla
    cases f2 with
    | zero =>
      conv => rhs; unfold findState
      exact FindRel.stop_right T (o := .fuelOut) trivial _ (findState_shape T _ _ _ _ _ _ _)
    | succ f2 =>
      unfold findState
      rw [errorCandidate_congr T h.states]
      cases errorCandidate T n s2 col with
      | some top => exact ⟨h, rfl, rfl, hla⟩
      | none =>
        dsimp only
        cases la1 with
        | none =>
          cases la2 with
          | none => trivial
          | some _ => exact hla.elim
        | some l1 =>
          cases la2 with
          | none => exact hla.elim
          | some l2 =>
            dsimp only
            have hn := nextToken_rel T s1 s2 h
            revert hn
            cases nextToken T s1 with
            | mk s1' r1 =>
              cases nextToken T s2 with
              | mk s2' r2 =>
                cases r1 with
                | found t1 c1 =>
                  cases r2 with
                  | found t2 c2 =>
                    rintro ⟨hs, rfl, ht⟩
                    exact ih f2 s1' s2' (some t1) (some t2) (some c1) _ _ hs ht
                  | eof => exact fun hh => hh.elim
                  | done o2 => intro hh; exact FindRel.stop_right T hh _ (findState_shape T _ _ _ _ _ _ _)
                | eof =>
                  cases r2 with
                  | found _ _ => exact fun hh => hh.elim
                  | eof => intro hs; exact ih f2 s1' s2' none none none _ _ hs trivial
                  | done o2 => intro hh; exact FindRel.stop_right T hh _ (findState_shape T _ _ _ _ _ _ _)
                | done o1 =>
                  cases r2 with
                  | found _ _ => intro hh; exact FindRel.stop_left T hh _ (findState_shape T _ _ _ _ _ _ _)
                  | eof => intro hh; exact FindRel.stop_left T hh _ (findState_shape T _ _ _ _ _ _ _)
                  | done o2 => exact fun hh => hh

theorem NextRel.stop_left {s : St} {o : Outcome} (h : StopO o) (r : St × NextToken) : NextRel T (s, .done o) r := by
  obtain ⟨s2, x⟩ := r
  cases x with
  | found _ _ => exact h
  | eof => exact h
  | done o2 => exact ORel.of_stop_left h

theorem NextRel.stop_right {s : St} {o : Outcome} (h : StopO o) (r : St × NextToken) : NextRel T r (s, .done o) := by
  obtain ⟨s1, x⟩ := r
  cases x with
  | found _ _ => exact h
  | eof => exact h
  | done o1 => exact ORel.of_stop_right h

theorem syms_rev_take {l1 l2 : List Sym} (h : l1.map symEr = l2.map symEr) (k : Nat) :
    ((l1.reverse.take k).reverse).map symEr = ((l2.reverse.take k).reverse).map symEr := by
  rw [List.map_reverse, List.map_reverse, List.map_take, List.map_take, List.map_reverse, List.map_reverse, h]

theorem recoverPush_rel (err1 err2 : ParseErr) (n : Nat) (s1 s2 : St) (top : Nat) (la1 la2 : Option Token)
    (col : Option Nat) (d1 d2 : List Token) (h : StRel T s1 s2) (hla : LaRel la1 la2) :
    NextRel T (recoverPush T err1 n s1 top la1 col d1) (recoverPush T err2 n s2 top la2 col d2) := by
  unfold recoverPush
  dsimp only
  rw [h.states]
  cases asShift (errorAction T ((s2.states.drop (n - 1 - top)).headD 0)) with
  | none => trivial
  | some errState =>
    dsimp only
    have hst : ∀ (a b c d : Nat), StRel T
        { s1 with states := errState :: s2.states.drop (n - 1 - top), recovered := true,
                  syms := { start := a, id := T.ncols - 1, name := "error", val := .recovery err1 d1, stop := b } :: (s1.syms.reverse.take top).reverse }
        { s2 with states := errState :: s2.states.drop (n - 1 - top), recovered := true,
                  syms := { start := c, id := T.ncols - 1, name := "error", val := .recovery err2 d2, stop := d } :: (s2.syms.reverse.take top).reverse } := by
      intro a b c d
      refine ⟨rfl, ?_, h.lex⟩
      simp only [List.map_cons, symEr, erVal, List.cons.injEq, true_and]
      exact syms_rev_take h.syms top
    cases la1 with
    | none =>
      cases la2 with
      | some _ => exact hla.elim
      | none =>
        cases col with
        | none => exact hst _ _ _ _
        | some c => trivial
    | some l1 =>
      cases la2 with
      | none => exact hla.elim
      | some l2 =>
        cases col with
        | none => trivial
        | some c => exact ⟨hst _ _ _ _, rfl, hla⟩

theorem errorRecovery_rel (s1 s2 : St) (la1 la2 : Option Token) (col : Option Nat) (f1 f2 : Nat)
    (h : StRel T s1 s2) (hla : LaRel la1 la2) :
    NextRel T (errorRecovery T e1 s1 la1 col f1) (errorRecovery T e2 s2 la2 col f2) := by
  unfold errorRecovery
  dsimp only
  have h1 := reduceOnError_rel T e1 e2 la1 la2 f1 f2 s1 s2 h
  revert h1
  cases reduceOnError T e1 la1 s1 f1 with
  | mk s1' o1 =>
    cases reduceOnError T e2 la2 s2 f2 with
    | mk s2' o2 =>
      cases o1 with
      | some x1 =>
        cases o2 with
        | some x2 => exact fun hh => hh
        | none => intro hh; exact NextRel.stop_left T hh _
      | none =>
        cases o2 with
        | some x2 => intro hh; exact NextRel.stop_right T hh _
        | none =>
          intro hs
          dsimp only
          rw [hs.states]
          have h2 := findState_rel T (unrecognized T s1 la1) (unrecognized T s2 la2) s2'.states.length f1 f2 s1' s2' la1 la2 col [] [] hs hla
          have hsh1 := findState_shape T (unrecognized T s1 la1) s2'.states.length f1 s1' la1 col []
          have hsh2 := findState_shape T (unrecognized T s2 la2) s2'.states.length f2 s2' la2 col []
          revert h2 hsh1 hsh2
          cases findState T (unrecognized T s1 la1) s2'.states.length s1' la1 col [] f1 with
          | mk t1 r1 =>
            cases findState T (unrecognized T s2 la2) s2'.states.length s2' la2 col [] f2 with
            | mk t2 r2 =>
              cases r1 with
              | inl n1 =>
                cases n1 with
                | found _ _ => exact fun _ hh _ => hh.elim
                | eof => exact fun _ hh _ => hh.elim
                | done o1 =>
                  cases r2 with
                  | inl n2 =>
                    cases n2 with
                    | found _ _ => exact fun _ _ hh => hh.elim
                    | eof => exact fun _ _ hh => hh.elim
                    | done o2 => exact fun hh _ _ => hh
                  | inr y =>
                    obtain ⟨top2, la2', col2, dd2⟩ := y
                    intro hh _ _
                    exact NextRel.stop_left T hh _
              | inr x =>
                obtain ⟨top1, la1', col1, dd1⟩ := x
                cases r2 with
                | inl n2 =>
                  cases n2 with
                  | found _ _ => exact fun _ _ hh => hh.elim
                  | eof => exact fun _ _ hh => hh.elim
                  | done o2 => intro hh _ _; exact NextRel.stop_right T hh _
                | inr y =>
                  obtain ⟨top2, la2', col2, dd2⟩ := y
                  rintro ⟨hst, rfl, rfl, hl⟩ _ _
                  exact recoverPush_rel T _ _ _ t1 t2 top1 la1' la2' col1 dd1 dd2 hst hl

/-! ### the loops -/

theorem parseEof_rel : ∀ (f1 f2 : Nat) (s1 s2 : St), StRel T s1 s2 →
    ORel (parseEof T e1 s1 f1).2 (parseEof T e2 s2 f2).2 := by
  intro f1
  induction f1 with
  | zero => intro f2 s1 s2 _; unfold parseEof; exact ORel.of_stop_left (o1 := .fuelOut) trivial
  | succ f1 ih =>
    intro f2 s1 s2 h
    cases f2 with
    | zero =>
      conv => arg 2; unfold parseEof
      exact ORel.of_stop_right (o2 := .fuelOut) trivial
    | succ f2 =>
      unfold parseEof
      rw [topState_eq T h]
      cases asReduce (eofActionAt T (topState s2)) with
      | some r =>
        dsimp only
        have hr := reduce_rel T e1 e2 s1 s2 h r none none
        revert hr
        cases reduce T e1 s1 r none with
        | mk s1' o1 =>
          cases reduce T e2 s2 r none with
          | mk s2' o2 =>
            cases o1 with
            | some x1 =>
              cases o2 with
              | some x2 => exact fun hh => hh
              | none => intro hh; exact ORel.of_stop_left hh
            | none =>
              cases o2 with
              | some x2 => intro hh; exact ORel.of_stop_right hh
              | none => intro hh; exact ih f2 s1' s2' hh
      | none =>
        dsimp only
        have hr := errorRecovery_rel T e1 e2 s1 s2 none none none f1 f2 h trivial
        revert hr
        cases errorRecovery T e1 s1 none none f1 with
        | mk s1' r1 =>
          cases errorRecovery T e2 s2 none none f2 with
          | mk s2' r2 =>
            cases r1 with
            | found _ _ =>
              cases r2 with
              | found _ _ => intro _; trivial
              | eof => exact fun hh => hh.elim
              | done o2 => intro hh; exact ORel.of_stop_right hh
            | eof =>
              cases r2 with
              | found _ _ => exact fun hh => hh.elim
              | eof => intro hh; exact ih f2 s1' s2' hh
              | done o2 => intro hh; exact ORel.of_stop_right hh
            | done o1 =>
              cases r2 with
              | found _ _ => intro hh; exact ORel.of_stop_left hh
              | eof => intro hh; exact ORel.of_stop_left hh
              | done o2 => exact fun hh => hh

def IRel : St × Sum Unit Outcome → St × Sum Unit Outcome → Prop
  | (s1, .inl ()), (s2, .inl ()) => StRel T s1 s2
  | (_, .inr o1), (_, .inr o2) => ORel o1 o2
  | (_, .inr o1), (_, .inl ()) => StopO o1
  | (_, .inl ()), (_, .inr o2) => StopO o2

theorem IRel.stop_left {s : St} {o : Outcome} (h : StopO o) (r : St × Sum Unit Outcome) : IRel T (s, .inr o) r := by
  obtain ⟨s2, x⟩ := r
  cases x with
  | inl u => cases u; exact h
  | inr o2 => exact ORel.of_stop_left h

theorem IRel.stop_right {s : St} {o : Outcome} (h : StopO o) (r : St × Sum Unit Outcome) : IRel T r (s, .inr o) := by
  obtain ⟨s1, x⟩ := r
  cases x with
  | inl u => cases u; exact h
  | inr o1 => exact ORel.of_stop_right h

theorem parseInner_rel : ∀ (f1 f2 : Nat) (s1 s2 : St) (la1 la2 : Token) (col : Nat), StRel T s1 s2 → TokRel la1 la2 →
    IRel T (parseInner T e1 s1 la1 col f1) (parseInner T e2 s2 la2 col f2) := by
  intro f1
  induction f1 with
  | zero => intro f2 s1 s2 la1 la2 col _ _; unfold parseInner; exact IRel.stop_left T (o := .fuelOut) trivial _
  | succ f1 ih =>
    intro f2 s1 s2 la1 la2 col h hla
    cases f2 with
    | zero =>
      conv => arg 3; unfold parseInner
      exact IRel.stop_right T (o := .fuelOut) trivial _
    | succ f2 =>
      unfold parseInner
      dsimp only
      rw [topState_eq T h]
      cases asShift (actionAt T (topState s2) col) with
      | some target =>
        dsimp only
        refine ⟨by rw [h.states], ?_, h.lex⟩
        simp only [List.map_cons, symEr, erVal, List.cons.injEq, Prod.mk.injEq, true_and]
        exact ⟨by rw [hla.2], h.syms⟩
      | none =>
        dsimp only
        cases asReduce (actionAt T (topState s2) col) with
        | some r =>
          dsimp only
          have hr := reduce_rel T e1 e2 s1 s2 h r (some la1.start) (some la2.start)
          revert hr
          cases reduce T e1 s1 r (some la1.start) with
          | mk s1' o1 =>
            cases reduce T e2 s2 r (some la2.start) with
            | mk s2' o2 =>
              cases o1 with
              | some x1 =>
                cases o2 with
                | some x2 =>
                  intro hh
                  cases x1 <;> cases x2 <;> first | trivial | exact hh.elim | exact hh
                | none =>
                  intro hh
                  cases x1 with
                  | accept _ => exact hh.elim
                  | error _ => exact hh.elim
                  | panic m => exact IRel.stop_left T (o := .panic m) trivial _
                  | actionPanic p => exact IRel.stop_left T (o := .actionPanic p) trivial _
                  | fuelOut => exact IRel.stop_left T (o := .fuelOut) trivial _
              | none =>
                cases o2 with
                | some x2 =>
                  intro hh
                  cases x2 with
                  | accept _ => exact hh.elim
                  | error _ => exact hh.elim
                  | panic m => exact IRel.stop_right T (o := .panic m) trivial _
                  | actionPanic p => exact IRel.stop_right T (o := .actionPanic p) trivial _
                  | fuelOut => exact IRel.stop_right T (o := .fuelOut) trivial _
                | none => intro hh; exact ih f2 s1' s2' la1 la2 col hh hla
        | none =>
          dsimp only
          have hr := errorRecovery_rel T e1 e2 s1 s2 (some la1) (some la2) (some col) f1 f2 h hla
          revert hr
          cases errorRecovery T e1 s1 (some la1) (some col) f1 with
          | mk s1' r1 =>
            cases errorRecovery T e2 s2 (some la2) (some col) f2 with
            | mk s2' r2 =>
              cases r1 with
              | found l1 c1 =>
                cases r2 with
                | found l2 c2 =>
                  rintro ⟨hs, rfl, hl⟩
                  exact ih f2 s1' s2' l1 l2 c1 hs hl
                | eof => exact fun hh => hh.elim
                | done o2 => intro hh; exact IRel.stop_right T hh _
              | eof =>
                cases r2 with
                | found _ _ => exact fun hh => hh.elim
                | eof => intro hh; exact parseEof_rel T e1 e2 f1 f2 s1' s2' hh
                | done o2 => intro hh; exact IRel.stop_right T hh _
              | done o1 =>
                cases r2 with
                | found _ _ => intro hh; exact IRel.stop_left T hh _
                | eof => intro hh; exact IRel.stop_left T hh _
                | done o2 => exact fun hh => hh

theorem parseLoop_rel : ∀ (f1 f2 : Nat) (s1 s2 : St), StRel T s1 s2 →
    ORel (parseLoop T e1 s1 f1).2 (parseLoop T e2 s2 f2).2 := by
  intro f1
  induction f1 with
  | zero => intro f2 s1 s2 _; unfold parseLoop; exact ORel.of_stop_left (o1 := .fuelOut) trivial
  | succ f1 ih =>
    intro f2 s1 s2 h
    cases f2 with
    | zero =>
      conv => arg 2; unfold parseLoop
      exact ORel.of_stop_right (o2 := .fuelOut) trivial
    | succ f2 =>
      unfold parseLoop
      have hn := nextToken_rel T s1 s2 h
      revert hn
      cases nextToken T s1 with
      | mk s1' r1 =>
        cases nextToken T s2 with
        | mk s2' r2 =>
          cases r1 with
          | eof =>
            cases r2 with
            | eof => intro hh; exact parseEof_rel T e1 e2 f1 f2 s1' s2' hh
            | found _ _ => exact fun hh => hh.elim
            | done o2 => intro hh; exact ORel.of_stop_right hh
          | done o1 =>
            cases r2 with
            | eof => intro hh; exact ORel.of_stop_left hh
            | found _ _ => intro hh; exact ORel.of_stop_left hh
            | done o2 => exact fun hh => hh
          | found l1 c1 =>
            cases r2 with
            | eof => exact fun hh => hh.elim
            | done o2 => intro hh; exact ORel.of_stop_right hh
            | found l2 c2 =>
              rintro ⟨hs, rfl, hl⟩
              dsimp only
              have hi := parseInner_rel T e1 e2 f1 f2 s1' s2' l1 l2 c1 hs hl
              revert hi
              cases parseInner T e1 s1' l1 c1 f1 with
              | mk t1 x1 =>
                cases parseInner T e2 s2' l2 c1 f2 with
                | mk t2 x2 =>
                  cases x1 with
                  | inl u1 =>
                    cases u1
                    cases x2 with
                    | inl u2 => cases u2; intro hh; exact ih f2 t1 t2 hh
                    | inr o2 => intro hh; exact ORel.of_stop_right hh
                  | inr o1 =>
                    cases x2 with
                    | inl u2 => cases u2; intro hh; exact ORel.of_stop_left hh
                    | inr o2 => exact fun hh => hh

/-! ### the result of `add_content` -/

theorem erVal_none {v : Val} (h : erVal v = .none_) : v = .none_ := by
  cases v <;> simp [erVal] at h ⊢

theorem erVal_some_aidl {v : Val} {a : AidlFile} (h : erVal (.some_ (.aidl a)) = erVal v) :
    ∃ b, v = .some_ (.aidl b) ∧ erAidl a = erAidl b := by
  cases v <;> simp [erVal] at h
  rename_i w
  cases w <;> simp [erVal] at h
  rename_i b
  exact ⟨b, rfl, h⟩

/-- **The tree depends only on the token sequence** (generic over the tables): two texts that lex to
    the same sequence of tokens, parsed in any two environments — if both calls of `add_content`
    return, the trees are equal up to positions and documentation (or both absent). -/
theorem addContent_layout_gen (id1 id2 text1 text2 : String) (r1 r2 : FileResult)
    (hlex : LexRel T text1.toList 0 text2.toList 0)
    (h1 : addContentE T e1 id1 text1 = .ok r1) (h2 : addContentE T e2 id2 text2 = .ok r2) :
    r1.ast.map erAidl = r2.ast.map erAidl := by
  unfold addContentE at h1 h2
  have hrel := parseLoop_rel T e1 e2 (parseFuel text1) (parseFuel text2) { input := text1.toList } { input := text2.toList }
    ⟨rfl, rfl, hlex⟩
  revert h1 h2 hrel
  generalize (parseLoop T e1 { input := text1.toList } (parseFuel text1)) = p1
  generalize (parseLoop T e2 { input := text2.toList } (parseFuel text2)) = p2
  obtain ⟨t1, o1⟩ := p1
  obtain ⟨t2, o2⟩ := p2
  intro h1 h2 hrel
  dsimp only at h1 h2 hrel
  unfold finishE at h1 h2
  cases o1 with
  | panic m => cases h1
  | actionPanic p => cases h1
  | fuelOut => cases h1
  | accept v1 =>
    cases o2 with
    | panic m => cases h2
    | actionPanic p => cases h2
    | fuelOut => cases h2
    | error e => exact hrel.elim
    | accept v2 =>
      dsimp only at h1 h2
      have hv : erVal v1 = erVal v2 := hrel
      split at h1
      · cases h1
        have := erVal_none (hv ▸ rfl : erVal v2 = .none_)
        subst this
        dsimp only at h2
        cases h2
        rfl
      · rename_i a
        cases h1
        obtain ⟨b, rfl, hab⟩ := erVal_some_aidl hv
        dsimp only at h2
        cases h2
        simp [hab]
      · cases h1
  | error er1 =>
    cases o2 with
    | panic m => cases h2
    | actionPanic p => cases h2
    | fuelOut => cases h2
    | accept v => exact hrel.elim
    | error er2 =>
      dsimp only at h1 h2
      split at h1
      · cases h1
      · cases h1
        split at h2
        · cases h2
        · cases h2; rfl

end Aidl.Props.Rel
