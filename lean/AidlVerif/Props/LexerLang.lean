import AidlVerif.Props.LexerProgress

/-!
# The text of a token belongs to the language of its lexer entry — for star-free entries

`lang r`: the finite language of an expression built from single characters, sequence and
alternative (`none` for anything else). `matchAt_lang`: a match of such an expression consumes one
of these words. `next_token_lang`: the text of a token returned by `Matcher::next` is a word of the
language of the entry that produced it. Used for `DIRECTION` (`in`, `out`, `inout`).
-/

namespace Aidl.Props.LexerLang
open Aidl.Regex Aidl.Lexer Aidl.Javadoc Aidl.Props.JavadocTotal Aidl.Props.LexerBounds Aidl.Props.LexerProgress

def lang : Re → Option (List (List Char))
  | .eps => some [[]]
  | .cls rs =>
    match rs with
    | [(a, b)] => if a = b then some [[Char.ofNat a]] else none
    | _ => none
  | .seq x y =>
    match lang x, lang y with
    | some A, some B => some (A.flatMap fun u => B.map fun v => u ++ v)
    | _, _ => none
  | .alt x y =>
    match lang x, lang y with
    | some A, some B => some (A ++ B)
    | _, _ => none
  | .star _ => none

theorem m_lang (r : Re) : ∀ (L : List (List Char)), lang r = some L → ∀ (fuel : Nat) (s : List Char) (p : Nat) (k : K) (e : Nat),
    m r fuel s p k = some e → ∃ w ∈ L, ∃ s', s = w ++ s' ∧ k s' (p + utf8Len w) = some e := by
  induction r with
  | eps =>
    intro L hL fuel s p k e h
    simp only [lang, Option.some.injEq] at hL
    subst hL
    exact ⟨[], by simp, s, rfl, by simpa [m, utf8Len_nil] using h⟩
  | cls rs =>
    intro L hL fuel s p k e h
    simp only [lang] at hL
    split at hL
    · rename_i a b
      split at hL
      · rename_i hab
        simp only [Option.some.injEq] at hL
        subst hL
        cases s with
        | nil => simp [m] at h
        | cons c s' =>
          simp only [m] at h
          split at h
          · rename_i hin
            have hc : c.toNat = a := by
              simp only [inCls, List.any_cons, List.any_nil, Bool.or_false, Bool.and_eq_true, decide_eq_true_eq] at hin
              omega
            have hch : Char.ofNat a = c := by rw [← hc]; exact Char.ofNat_toNat c
            refine ⟨[c], by simp [hch], s', rfl, ?_⟩
            rw [utf8Len_cons, utf8Len_nil]
            simpa using h
          · cases h
      · cases hL
    · cases hL
  | seq x y ihx ihy =>
    intro L hL fuel s p k e h
    simp only [lang] at hL
    cases hx : lang x with
    | none => simp [hx] at hL
    | some A =>
      cases hy : lang y with
      | none => simp [hx, hy] at hL
      | some B =>
        simp only [hx, hy, Option.some.injEq] at hL
        subst hL
        simp only [m] at h
        obtain ⟨u, hu, s1, hs1, h1⟩ := ihx A hx fuel s p _ e h
        obtain ⟨v, hv, s2, hs2, h2⟩ := ihy B hy fuel s1 _ k e h1
        refine ⟨u ++ v, ?_, s2, by rw [hs1, hs2]; simp, ?_⟩
        · exact List.mem_flatMap.mpr ⟨u, hu, List.mem_map.mpr ⟨v, hv, rfl⟩⟩
        · rw [utf8Len_append, ← Nat.add_assoc]; exact h2
  | alt x y ihx ihy =>
    intro L hL fuel s p k e h
    simp only [lang] at hL
    cases hx : lang x with
    | none => simp [hx] at hL
    | some A =>
      cases hy : lang y with
      | none => simp [hx, hy] at hL
      | some B =>
        simp only [hx, hy, Option.some.injEq] at hL
        subst hL
        simp only [m] at h
        split at h
        · rename_i r' ha
          cases h
          obtain ⟨w, hw, s', hs', hk⟩ := ihx A hx fuel s p k _ ha
          exact ⟨w, List.mem_append_left _ hw, s', hs', hk⟩
        · obtain ⟨w, hw, s', hs', hk⟩ := ihy B hy fuel s p k e h
          exact ⟨w, List.mem_append_right _ hw, s', hs', hk⟩
  | star a _ => intro L hL; simp [lang] at hL

theorem matchAt_lang (r : Re) (L : List (List Char)) (hL : lang r = some L) (fuel : Nat) (s : List Char) (p e : Nat)
    (h : matchAt r fuel s p = some e) : ∃ w ∈ L, ∃ s', s = w ++ s' ∧ e = p + utf8Len w := by
  unfold matchAt at h
  obtain ⟨w, hw, s', hs', hk⟩ := m_lang r L hL fuel s p _ e h
  exact ⟨w, hw, s', hs', by simpa using hk.symm⟩

/-- two prefixes of one text with the same byte length are equal -/
theorem prefix_inj : ∀ (a b x y : List Char), a ++ x = b ++ y → utf8Len a = utf8Len b → a = b
  | [], b, _, _, _, h => by
    cases b with
    | nil => rfl
    | cons d ds => rw [utf8Len_nil, utf8Len_cons] at h; have := utf8Size_pos d; omega
  | c :: cs, [], _, _, _, h => by
    rw [utf8Len_nil, utf8Len_cons] at h; have := utf8Size_pos c; omega
  | c :: cs, d :: ds, x, y, heq, h => by
    simp only [List.cons_append, List.cons.injEq] at heq
    obtain ⟨hcd, hrest⟩ := heq
    subst hcd
    rw [utf8Len_cons, utf8Len_cons] at h
    rw [prefix_inj cs ds x y hrest (by omega)]

/-- the text of a token is what its own entry matched -/
theorem next_token_match (table : LexTable) (fuel : Nat) :
    ∀ (s : List Char) (p : Nat) (t : Token) (rest : List Char), next table fuel s p = .token t rest →
      ∃ f1 s1 p1 tok, matchAt table[t.index]!.1 f1 s1 p1 = some (p1 + utf8Len tok) ∧ s1 = tok ++ rest
        ∧ t.text = String.ofList tok := by
  induction fuel with
  | zero => intro s p t rest h; simp [next] at h
  | succ fuel ih =>
    intro s p t rest h
    cases s with
    | nil => rw [next] at h; cases h
    | cons c cs =>
      rw [next] at h
      case x_4 => intro h; cases h
      dsimp only at h
      cases hb : bestMatch table (fuel + 1) (c :: cs) p with
      | none => rw [hb] at h; cases h
      | some li =>
        obtain ⟨len, i⟩ := li
        obtain ⟨pre, post, h1, h2⟩ := bestMatch_prefix table _ _ p len i hb
        obtain ⟨hi, e, hm, hlen⟩ := bestMatch_match table _ _ p len i hb
        have hsp : splitBytes len (c :: cs) = (pre, post) := by rw [h1, h2]; exact splitBytes_prefix pre post
        rw [hb] at h
        dsimp only at h
        rw [hsp] at h
        dsimp only at h
        by_cases hskip : table[i]!.2 = true
        · rw [if_pos hskip] at h
          by_cases hz : len = 0
          · rw [if_pos hz] at h; cases h
          · rw [if_neg hz] at h
            exact ih post (p + len) t rest h
        · rw [if_neg hskip] at h
          cases h
          obtain ⟨pre', post', h1', h2'⟩ := matchAt_prefix _ _ _ _ _ hm
          refine ⟨fuel + 1, c :: cs, p, pre, ?_, h1, rfl⟩
          dsimp only
          rw [hm]
          congr 1
          omega

/-- **the text of a token is a word of the language of its entry** -/
theorem next_token_lang (table : LexTable) (fuel : Nat) (s : List Char) (p : Nat) (t : Token) (rest : List Char)
    (h : next table fuel s p = .token t rest) (L : List (List Char)) (hL : lang table[t.index]!.1 = some L) :
    ∃ w ∈ L, t.text = String.ofList w := by
  obtain ⟨f1, s1, p1, tok, hm, hs1, htext⟩ := next_token_match table fuel s p t rest h
  obtain ⟨w, hw, s', hs', he⟩ := matchAt_lang _ L hL f1 s1 p1 _ hm
  have : tok = w := prefix_inj tok w rest s' (by rw [← hs1, hs']) (by omega)
  exact ⟨w, hw, by rw [htext, this]⟩

end Aidl.Props.LexerLang
