import AidlVerif.Spec.C05
import AidlVerif.Lemmas.Sort
import AidlVerif.Lemmas.Oneway

/-!
# C05 — property theorems (about the model)
-/

namespace Aidl.Props.C05
open Aidl Aidl.Spec Aidl.Spec.C05

theorem find_decl (declared : List String) (name : String) :
    declared.find? (fun ip => name == ip && !(ip.toList.contains '.'))
      = if declared.contains name && !(name.toList.contains '.') then some name else none := by
  induction declared with
  | nil => simp
  | cons d ds ih =>
    simp only [List.find?_cons, List.contains_cons]
    by_cases h : name = d
    · subst h
      by_cases hd : name.toList.contains '.' <;> simp_all
    · have h1 : (name == d) = false := by simpa using h
      rw [h1, ih]
      simp

/-- the model's `resolve_type` computes the scoping rule of the specification, and pushes its
    'unknown type' Error exactly when the rule leaves the name unresolved -/
theorem classify_eq (imports declared : List String) (defined : Defined) (name : String) :
    resolveKind imports declared defined name .unresolved
      = (classify imports declared defined name,
         isUnresolved (classify imports declared defined name)) := by
  unfold resolveKind classify matchingImports
  simp only [ne_eq, not_true_eq_false, if_false, find_decl]
  have hq : ∀ n, AKind.fromQualifiedName n = builtinQualified n := fun _ => rfl
  have hs : AKind.fromName name = builtinSimple name := rfl
  simp only [hq, hs]
  have himp : (fun ip => name == ip || strEndsWith ip ("." ++ name)) = importMatches name := rfl
  rw [himp]
  rcases hbq : builtinQualified name with _ | a
  · -- not a qualified built-in name
    simp only [Option.filter]
    rcases hm : minStr? (List.filter (importMatches name) imports) with _ | ip
    · by_cases hdc : name ∈ declared ∧ ¬'.' ∈ name.toList
      · simp [hdc, isUnresolved]
      · rcases hbs : builtinSimple name with _ | b <;> simp [hdc, isUnresolved]
    · simp only []
      rcases hb : builtinQualified ip with _ | b
      · rcases hd : defined.get ip with _ | k <;> simp [isUnresolved]
      · simp [isUnresolved]
  · by_cases hc : a.canBeQualified = true ∨ name ∈ imports
    · simp [Option.filter, hc, isUnresolved]
    · have hcq : a.canBeQualified = false := by
        cases hh : a.canBeQualified <;> simp_all
      have hni : name ∉ imports := fun h => hc (Or.inr h)
      rcases hm : minStr? (List.filter (importMatches name) imports) with _ | ip
      · by_cases hdc : name ∈ declared ∧ ¬'.' ∈ name.toList
        · simp [Option.filter, hcq, hni, hdc, isUnresolved]
        · simp [Option.filter, hcq, hni, hdc, isUnresolved]
      · rcases hb : builtinQualified ip with _ | b
        · rcases hd : defined.get ip with _ | k <;> simp [Option.filter, hcq, hni, hb, hd, isUnresolved]
        · simp [Option.filter, hcq, hni, hb, isUnresolved]


/-- node-wise kind computed by `resolve_type` -/
def hKind (imports declared : List String) (defined : Defined) (t : Ty) : TypeKind :=
  (resolveKind imports declared defined t.name t.kind).1

theorem resolveKind_eq (imports declared : List String) (defined : Defined) (t : Ty) :
    resolveKind imports declared defined t.name t.kind
      = (newKind imports declared defined t, isUnresolved (newKind imports declared defined t)) := by
  unfold newKind
  by_cases hk : t.kind = .unresolved
  · rw [hk, classify_eq]; simp
  · have : resolveKind imports declared defined t.name t.kind = (t.kind, false) := by
      unfold resolveKind; simp [hk]
    rw [this]
    simp only [hk, if_false]
    cases hh : t.kind <;> simp_all [isUnresolved]

/-- the state update performed by `resolve_types`' closure -/
def resolveUpd (imports declared : List String) (defined : Defined) (s : ResolveState) (t : Ty) : ResolveState :=
  (resolveStep imports declared defined s t).1

theorem foldl_resolveUpd (imports declared : List String) (defined : Defined) (l : List Ty) (s : ResolveState) :
    let r := l.foldl (resolveUpd imports declared defined) s
    r.resolved = s.resolved ++ l.filterMap (fun t => resolvedKeyOfKind (newKind imports declared defined t))
    ∧ r.diags = s.diags ++ (l.filter (fun t => isUnresolved (newKind imports declared defined t))).map unknownTypeDiag := by
  induction l generalizing s with
  | nil => simp
  | cons t ts ih =>
    simp only [List.foldl_cons]
    have := ih (resolveUpd imports declared defined s t)
    simp only at this
    rw [this.1, this.2]
    unfold resolveUpd resolveStep
    simp only [resolveKind_eq]
    constructor
    · cases hr : resolvedKeyOfKind (newKind imports declared defined t) <;> simp [List.filterMap_cons, hr]
    · cases hu : isUnresolved (newKind imports declared defined t) <;> simp [List.filter_cons, hu]

/-- **Every type node at any depth** is rewritten by the scoping rule, and the 'unknown type'
    Errors are exactly one per node left unresolved, in source order. -/
theorem resolveTypes_eq (ast : AidlFile) (imports declared : List String) (defined : Defined) :
    resolveTypes ast imports declared defined =
      (mapTypes (newKind imports declared defined) ast,
       (allTypesPre ast).filterMap (fun t => resolvedKeyOfKind (newKind imports declared defined t)),
       ((allTypesPre ast).filter (fun t => isUnresolved (newKind imports declared defined t))).map unknownTypeDiag) := by
  unfold resolveTypes
  have hf : ∀ s t, resolveStep imports declared defined s t
      = (resolveUpd imports declared defined s t, newKind imports declared defined t) := by
    intro s t
    unfold resolveUpd
    have : (resolveStep imports declared defined s t).2 = newKind imports declared defined t := by
      unfold resolveStep; simp [resolveKind_eq]
    rw [← this]
  rw [walkTypesMut_eq _ _ _ hf]
  have h := foldl_resolveUpd imports declared defined (allTypesPre ast) {}
  simp only at h
  simp [h.1, h.2]

/-- the nodes of the validated tree are the nodes of the parsed tree with the rule applied -/
theorem nodes_validated {ho : HashOrder} {defined : Defined} {syn : List Diag} {ast : AidlFile} {g : Groups}
    (hg : validateGroups ho defined syn ast = .ok g) :
    nodes g.ast = (allTypesPre ast).map (fun t =>
      (t.name, t.sym, newKind (ast.imports.map Import.qname) (ast.declaredParcelables.map Import.qname) defined t)) := by
  rw [validateGroups_ast hg, resolveTypes_eq]
  unfold nodes
  rw [allTypesPre_setUpOneway, allTypesPre_mapTypes, List.map_map]
  apply List.map_congr_left
  intro t _
  simp [Ty.mapKind_name, Ty.mapKind_sym, Ty.mapKind_kind]

theorem validateGroups_unknown {ho : HashOrder} {defined : Defined} {syn : List Diag} {ast : AidlFile} {g : Groups}
    (hg : validateGroups ho defined syn ast = .ok g) :
    g.unknown = ((allTypesPre ast).filter (fun t => isUnresolved
      (newKind (ast.imports.map Import.qname) (ast.declaredParcelables.map Import.qname) defined t))).map unknownTypeDiag := by
  unfold validateGroups at hg
  simp only at hg
  split at hg
  · cases hg
  · split at hg
    · cases hg
    · cases hg
      simp [resolveTypes_eq]

/-- none of the diagnostics pushed by the other steps is an 'unknown type' Error (decidable;
    evaluated by the harness on every case) -/
def Fresh (g : Groups) : Prop :=
  ∀ d ∈ g.syn ++ g.imports ++ g.decls ++ g.containers ++ g.oneway ++ g.methods, isUnknownType d = false

instance (g : Groups) : Decidable (Fresh g) := by unfold Fresh; infer_instance

theorem countP_unknown (g : Groups) (fresh : Fresh g) (p : Diag → Bool)
    (hp : ∀ d, p d = true → isUnknownType d = true) :
    (sortDiags g.all).countP p = g.unknown.countP p := by
  rw [(sortDiags_perm g.all).countP_eq]
  unfold Groups.all
  simp only [List.countP_append]
  have hz : ∀ l : List Diag, (∀ d ∈ l, d ∈ g.syn ++ g.imports ++ g.decls ++ g.containers ++ g.oneway ++ g.methods) →
      l.countP p = 0 := by
    intro l hl
    apply List.countP_eq_zero.mpr
    intro d hd hpd
    have := fresh d (hl d hd)
    rw [hp d hpd] at this
    cases this
  rw [hz g.syn (by intro d hd; simp [hd]), hz g.imports (by intro d hd; simp [hd]),
    hz g.decls (by intro d hd; simp [hd]), hz g.containers (by intro d hd; simp [hd]),
    hz g.oneway (by intro d hd; simp [hd]), hz g.methods (by intro d hd; simp [hd])]
  simp

theorem countP_map_unknownTypeDiag (l : List Ty) (q : Range → Bool) :
    (l.map unknownTypeDiag).countP (fun d => isUnknownType d && q d.range) = l.countP (fun t => q t.sym) := by
  rw [List.countP_map]
  congr 1

/-- **C05 for the model**: in the result of validating any file (any hash order, any project),
    every type reference at any depth carries the kind the scoping rule prescribes, each
    reference left unresolved has exactly one 'unknown type' Error on its name, and there is no
    other 'unknown type' Error. -/
theorem holds (ho : HashOrder) (defined : Defined) (fr out : FileResult)
    (h : validateFile ho defined fr = .ok out)
    (fresh : ∀ ast g, fr.ast = some ast → validateGroups ho defined fr.diags ast = .ok g → Fresh g) :
    holdsFile defined fr out = true := by
  unfold validateFile at h
  cases hast : fr.ast with
  | none =>
    simp only [hast] at h
    cases h
    simp [holdsFile, hast]
  | some ast =>
    simp only [hast] at h
    cases hg : validateGroups ho defined fr.diags ast with
    | error e => simp [hg] at h
    | ok g =>
      simp only [hg] at h
      cases h
      have hfresh := fresh ast g hast hg
      have hn := nodes_validated hg
      have hu := validateGroups_unknown hg
      simp only [holdsFile, hast, hn, Bool.and_eq_true, beq_self_eq_true, true_and, List.all_eq_true,
        beq_iff_eq]
      constructor
      · intro n hnmem
        have h1 : unknownAt (sortDiags g.all) n.2.1 = g.unknown.countP (fun d => isUnknownType d && d.range == n.2.1) :=
          countP_unknown g hfresh _ (by intro d hd; simp at hd; exact hd.1)
        rw [h1, hu, countP_map_unknownTypeDiag _ (fun r => r == n.2.1)]
        rw [List.countP_filter, List.filter_map, List.length_map, List.countP_eq_length_filter]
        congr 1
        apply List.filter_congr
        intro t _
        simp [Function.comp, Bool.and_comm]
      · have h1 : (sortDiags g.all).countP isUnknownType = g.unknown.countP isUnknownType :=
          countP_unknown g hfresh _ (fun _ h => h)
        rw [h1, hu, List.filter_map, List.length_map]
        rw [List.countP_eq_length_filter]
        have : ∀ l : List Ty, (l.map unknownTypeDiag).filter isUnknownType = l.map unknownTypeDiag := by
          intro l
          apply List.filter_eq_self.mpr
          intro d hd
          obtain ⟨t, _, rfl⟩ := List.mem_map.mp hd
          rfl
        rw [this, List.length_map]
        congr 1

end Aidl.Props.C05
