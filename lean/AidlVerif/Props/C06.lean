import AidlVerif.Spec.C06
import AidlVerif.Props.C05
import AidlVerif.Lemmas.Sort

/-!
# C06 — property theorems (about the model)
-/

namespace Aidl.Props.C06
open Aidl Aidl.Spec Aidl.Spec.C06

def keyed (l : List Import) : List (String × Import) := l.map (fun i => (i.qname, i))

/-! ### imports -/

def importsStep (acc : List (String × Import) × List Diag) (imp : Import) : List (String × Import) × List Diag :=
  match acc.1.lookup imp.qname with
  | some previous =>
    (acc.1, acc.2 ++ [mkDiag .error imp.sym ("Duplicated import `" ++ imp.qname ++ "`")
      (some "duplicated import") none [{ message := "previous location", range := previous.sym }]])
  | none => (acc.1 ++ [(imp.qname, imp)], acc.2)

theorem importsFold_eq (imports : List Import) : importsFold imports = imports.foldl importsStep ([], []) := rfl

theorem imports_fold (pre rest : List Import) (acc : List Diag) :
    ∃ ds, rest.foldl importsStep (keyed (firsts Import.qname pre), acc)
        = (keyed (firsts Import.qname (pre ++ rest)), acc ++ ds)
      ∧ ds.map reportOf = dupReports pre rest
      ∧ ∀ d ∈ ds, ∃ i ∈ rest, d.range = i.sym := by
  induction rest generalizing pre acc with
  | nil => exact ⟨[], by simp, rfl, by simp⟩
  | cons i rest ih =>
    simp only [List.foldl_cons]
    have hl : (keyed (firsts Import.qname pre)).lookup i.qname = pre.find? (fun p => p.qname == i.qname) := by
      unfold keyed; rw [lookup_keyed, find_firsts]
    cases hf : pre.find? (fun p => p.qname == i.qname) with
    | some p =>
      let dg := mkDiag .error i.sym ("Duplicated import `" ++ i.qname ++ "`")
        (some "duplicated import") none [{ message := "previous location", range := p.sym }]
      have hs : importsStep (keyed (firsts Import.qname pre), acc) i
          = (keyed (firsts Import.qname pre), acc ++ [dg]) := by
        simp only [importsStep, hl, hf]; rfl
      rw [hs]
      have hany : pre.any (fun p => p.qname == i.qname) = true := by
        cases h : pre.any (fun p => p.qname == i.qname)
        · rw [(find_none_any' _ _).mpr h] at hf; cases hf
        · rfl
      have hk : firsts Import.qname (pre ++ [i]) = firsts Import.qname pre := by
        rw [firsts_snoc]; simp [hany]
      obtain ⟨ds, h1, h2, h3⟩ := ih (pre ++ [i]) (acc ++ [dg])
      rw [hk] at h1
      refine ⟨dg :: ds, ?_, ?_, ?_⟩
      · rw [h1]; simp
      · simp [dupReports, hf, h2, reportOf, mkDiag, dg]
      · intro d hd
        rcases List.mem_cons.mp hd with rfl | hd
        · exact ⟨i, by simp, rfl⟩
        · obtain ⟨j, hj, e⟩ := h3 d hd
          exact ⟨j, by simp [hj], e⟩
    | none =>
      have hs : importsStep (keyed (firsts Import.qname pre), acc) i
          = (keyed (firsts Import.qname pre) ++ [(i.qname, i)], acc) := by
        simp only [importsStep, hl, hf]
      rw [hs]
      have hany : pre.any (fun p => p.qname == i.qname) = false := (find_none_any' _ _).mp hf
      have hk : keyed (firsts Import.qname (pre ++ [i])) = keyed (firsts Import.qname pre) ++ [(i.qname, i)] := by
        rw [firsts_snoc]; simp [hany, keyed]
      obtain ⟨ds, h1, h2, h3⟩ := ih (pre ++ [i]) acc
      rw [hk] at h1
      refine ⟨ds, ?_, ?_, ?_⟩
      · rw [h1]; simp
      · simp [dupReports, hf, h2]
      · intro d hd
        obtain ⟨j, hj, e⟩ := h3 d hd
        exact ⟨j, by simp [hj], e⟩

theorem importUsage_eq (resolved : List String) (defined : Defined) (i : Import) :
    (importUsageDiag resolved defined (i.qname, i)).map reportOf = importUsageReport resolved defined i
    ∧ ∀ d ∈ importUsageDiag resolved defined (i.qname, i), d.range = i.sym := by
  unfold importUsageDiag importUsageReport
  have : AKind.fromQualifiedName i.qname = C05.builtinQualified i.qname := rfl
  simp only [this]
  split
  · simp [reportOf, mkDiag]
  · split <;> simp [reportOf, mkDiag]

/-- **Imports**: the import map holds the first occurrence of every qualified name, and the
    diagnostics are — as a multiset, whatever the hash order — the repeats plus one usage report
    per first occurrence -/
theorem checkImports_spec (ho : HashOrder) (imports : List Import) (resolved : List String) (defined : Defined) :
    (checkImports ho imports resolved defined).1 = keyed (firsts Import.qname imports)
    ∧ ((checkImports ho imports resolved defined).2.map reportOf).Perm (importReports resolved defined imports)
    ∧ ∀ d ∈ (checkImports ho imports resolved defined).2, ∃ i ∈ imports, d.range = i.sym := by
  unfold checkImports
  rw [importsFold_eq]
  obtain ⟨ds, h1, h2, h3⟩ := imports_fold [] imports []
  have h0 : keyed (firsts Import.qname ([] : List Import)) = [] := rfl
  rw [h0] at h1
  simp only [List.nil_append] at h1
  simp only [h1]
  refine ⟨by first | rfl | trivial, ?_, ?_⟩
  · unfold importReports
    simp only [List.map_append, h2]
    apply List.Perm.append_left
    have hp : ((ho.ord (keyed (firsts Import.qname imports))).flatMap (importUsageDiag resolved defined)).Perm
        ((keyed (firsts Import.qname imports)).flatMap (importUsageDiag resolved defined)) :=
      (ho.perm _).flatMap_right _
    refine (hp.map reportOf).trans ?_
    unfold keyed
    simp only [List.flatMap_map, List.map_flatMap]
    apply List.Perm.of_eq
    congr 1
    funext i
    exact (importUsage_eq resolved defined i).1
  · intro d hd
    rcases List.mem_append.mp hd with hd | hd
    · exact h3 d hd
    · obtain ⟨e, he, hde⟩ := List.mem_flatMap.mp hd
      have he' : e ∈ keyed (firsts Import.qname imports) := (ho.perm _).mem_iff.mp he
      obtain ⟨i, hi, rfl⟩ := List.mem_map.mp he'
      have hmem : i ∈ imports := by
        have : ∀ (seen : List String) (l : List Import), ∀ x ∈ firstsAux Import.qname seen l, x ∈ l := by
          intro seen l
          induction l generalizing seen with
          | nil => simp [firstsAux]
          | cons y ys ih =>
            intro x hx
            simp only [firstsAux] at hx
            split at hx
            · exact List.mem_cons_of_mem _ (ih seen x hx)
            · rcases List.mem_cons.mp hx with rfl | hx
              · simp
              · exact List.mem_cons_of_mem _ (ih _ x hx)
        exact this [] imports i hi
      exact ⟨i, hmem, (importUsage_eq resolved defined i).2 d hde⟩


/-! ### forward declarations -/

def declStep (importMap : List (String × Import)) (acc : List (String × Import) × List Diag) (dp : Import) :
    List (String × Import) × List Diag :=
  match minByKey? (importMap.filter (fun e => e.2.name == dp.name)) with
  | some conflicting =>
    (acc.1, acc.2 ++ [mkDiag .error dp.sym
      ("Declared parcelable conflicts with import `" ++ conflicting.2.qname ++ "`")
      (some "conflicting declaration") none
      [{ message := "location of conflicting import", range := conflicting.2.sym }]])
  | none =>
    match acc.1.lookup dp.qname with
    | some previous =>
      (acc.1, acc.2 ++ [mkDiag .error dp.sym ("Multiple parcelable declarations `" ++ dp.qname ++ "`")
        (some "duplicated declaration") none [{ message := "previous location", range := previous.sym }]])
    | none => (acc.1 ++ [(dp.qname, dp)], acc.2)

theorem declaredFold_eq (decls : List Import) (importMap : List (String × Import)) :
    declaredFold decls importMap = decls.foldl (declStep importMap) ([], []) := rfl

theorem conflict_eq (imports : List Import) (d : Import) :
    (minByKey? ((keyed (firsts Import.qname imports)).filter (fun e => e.2.name == d.name))).map (·.2)
      = conflictOf imports d := by
  unfold conflictOf keyed
  rw [List.filter_map]
  rfl

theorem freeDecls_snoc (imports pre : List Import) (d : Import) :
    freeDecls imports (pre ++ [d]) = freeDecls imports pre ++ (if (conflictOf imports d).isNone then [d] else []) := by
  unfold freeDecls
  simp [List.filter_append, List.filter_cons]

theorem decls_fold (imports pre rest : List Import) (acc : List Diag) :
    ∃ ds, rest.foldl (declStep (keyed (firsts Import.qname imports)))
          (keyed (firsts Import.qname (freeDecls imports pre)), acc)
        = (keyed (firsts Import.qname (freeDecls imports (pre ++ rest))), acc ++ ds)
      ∧ ds.map reportOf = declStructReports imports pre rest
      ∧ ∀ d ∈ ds, ∃ i ∈ rest, d.range = i.sym := by
  induction rest generalizing pre acc with
  | nil => exact ⟨[], by simp, rfl, by simp⟩
  | cons i rest ih =>
    simp only [List.foldl_cons]
    have hl : (keyed (firsts Import.qname (freeDecls imports pre))).lookup i.qname
        = (freeDecls imports pre).find? (fun p => p.qname == i.qname) := by
      unfold keyed; rw [lookup_keyed, find_firsts]
    have hc := conflict_eq imports i
    cases hm : minByKey? ((keyed (firsts Import.qname imports)).filter (fun e => e.2.name == i.name)) with
    | some c =>
      rw [hm] at hc
      simp only [Option.map_some] at hc
      let dg := mkDiag .error i.sym ("Declared parcelable conflicts with import `" ++ c.2.qname ++ "`")
        (some "conflicting declaration") none [{ message := "location of conflicting import", range := c.2.sym }]
      have hs : declStep (keyed (firsts Import.qname imports)) (keyed (firsts Import.qname (freeDecls imports pre)), acc) i
          = (keyed (firsts Import.qname (freeDecls imports pre)), acc ++ [dg]) := by
        simp only [declStep, hm]; rfl
      rw [hs]
      have hk : freeDecls imports (pre ++ [i]) = freeDecls imports pre := by
        rw [freeDecls_snoc, ← hc]; simp
      obtain ⟨ds, h1, h2, h3⟩ := ih (pre ++ [i]) (acc ++ [dg])
      rw [hk] at h1
      refine ⟨dg :: ds, ?_, ?_, ?_⟩
      · rw [h1]; simp
      · simp [declStructReports, ← hc, h2, reportOf, mkDiag, dg]
      · intro d hd
        rcases List.mem_cons.mp hd with rfl | hd
        · exact ⟨i, by simp, rfl⟩
        · obtain ⟨j, hj, e⟩ := h3 d hd
          exact ⟨j, by simp [hj], e⟩
    | none =>
      rw [hm] at hc
      simp only [Option.map_none] at hc
      have hfree : freeDecls imports (pre ++ [i]) = freeDecls imports pre ++ [i] := by
        rw [freeDecls_snoc, ← hc]; simp
      cases hf : (freeDecls imports pre).find? (fun p => p.qname == i.qname) with
      | some p =>
        let dg := mkDiag .error i.sym ("Multiple parcelable declarations `" ++ i.qname ++ "`")
          (some "duplicated declaration") none [{ message := "previous location", range := p.sym }]
        have hs : declStep (keyed (firsts Import.qname imports)) (keyed (firsts Import.qname (freeDecls imports pre)), acc) i
            = (keyed (firsts Import.qname (freeDecls imports pre)), acc ++ [dg]) := by
          simp only [declStep, hm, hl, hf]; rfl
        rw [hs]
        have hany : (freeDecls imports pre).any (fun p => p.qname == i.qname) = true := by
          cases h : (freeDecls imports pre).any (fun p => p.qname == i.qname)
          · rw [(find_none_any' _ _).mpr h] at hf; cases hf
          · rfl
        have hk : firsts Import.qname (freeDecls imports (pre ++ [i])) = firsts Import.qname (freeDecls imports pre) := by
          rw [hfree, firsts_snoc]; simp [hany]
        obtain ⟨ds, h1, h2, h3⟩ := ih (pre ++ [i]) (acc ++ [dg])
        rw [hk] at h1
        refine ⟨dg :: ds, ?_, ?_, ?_⟩
        · rw [h1]; simp
        · simp [declStructReports, ← hc, hf, h2, reportOf, mkDiag, dg]
        · intro d hd
          rcases List.mem_cons.mp hd with rfl | hd
          · exact ⟨i, by simp, rfl⟩
          · obtain ⟨j, hj, e⟩ := h3 d hd
            exact ⟨j, by simp [hj], e⟩
      | none =>
        have hs : declStep (keyed (firsts Import.qname imports)) (keyed (firsts Import.qname (freeDecls imports pre)), acc) i
            = (keyed (firsts Import.qname (freeDecls imports pre)) ++ [(i.qname, i)], acc) := by
          simp only [declStep, hm, hl, hf]
        rw [hs]
        have hany : (freeDecls imports pre).any (fun p => p.qname == i.qname) = false := (find_none_any' _ _).mp hf
        have hk : keyed (firsts Import.qname (freeDecls imports (pre ++ [i])))
            = keyed (firsts Import.qname (freeDecls imports pre)) ++ [(i.qname, i)] := by
          rw [hfree, firsts_snoc]; simp [hany, keyed]
        obtain ⟨ds, h1, h2, h3⟩ := ih (pre ++ [i]) acc
        rw [hk] at h1
        refine ⟨ds, ?_, ?_, ?_⟩
        · rw [h1]; simp
        · simp [declStructReports, ← hc, hf, h2]
        · intro d hd
          obtain ⟨j, hj, e⟩ := h3 d hd
          exact ⟨j, by simp [hj], e⟩

theorem declUsage_eq (resolved : List String) (i : Import) :
    (declaredUsageDiag resolved (i.qname, i)).map reportOf = declUsageReport resolved i
    ∧ ∀ d ∈ declaredUsageDiag resolved (i.qname, i), d.range = i.sym ∨ d.range = i.full := by
  unfold declaredUsageDiag declUsageReport
  split <;> simp [reportOf, mkDiag]

theorem mem_firstsAux {α} (key : α → String) (seen : List String) (l : List α) :
    ∀ x ∈ firstsAux key seen l, x ∈ l := by
  induction l generalizing seen with
  | nil => simp [firstsAux]
  | cons y ys ih =>
    intro x hx
    simp only [firstsAux] at hx
    split at hx
    · exact List.mem_cons_of_mem _ (ih seen x hx)
    · rcases List.mem_cons.mp hx with rfl | hx
      · simp
      · exact List.mem_cons_of_mem _ (ih _ x hx)

/-- **Forward declarations**: as a multiset, whatever the hash order, the diagnostics are the
    conflict / repeat Errors plus one usage report per first free occurrence -/
theorem checkDecls_spec (ho : HashOrder) (imports decls : List Import) (resolved : List String) :
    ((checkDeclaredParcelables ho decls (keyed (firsts Import.qname imports)) resolved).map reportOf).Perm
      (declReports resolved imports decls)
    ∧ ∀ d ∈ checkDeclaredParcelables ho decls (keyed (firsts Import.qname imports)) resolved,
        ∃ i ∈ decls, d.range = i.sym ∨ d.range = i.full := by
  unfold checkDeclaredParcelables
  rw [declaredFold_eq]
  obtain ⟨ds, h1, h2, h3⟩ := decls_fold imports [] decls []
  have h0 : keyed (firsts Import.qname (freeDecls imports [])) = [] := rfl
  rw [h0] at h1
  simp only [List.nil_append] at h1
  simp only [h1]
  constructor
  · unfold declReports
    simp only [List.map_append, h2]
    apply List.Perm.append_left
    have hp : ((ho.ord (keyed (firsts Import.qname (freeDecls imports decls)))).flatMap (declaredUsageDiag resolved)).Perm
        ((keyed (firsts Import.qname (freeDecls imports decls))).flatMap (declaredUsageDiag resolved)) :=
      (ho.perm _).flatMap_right _
    refine (hp.map reportOf).trans ?_
    unfold keyed
    simp only [List.flatMap_map, List.map_flatMap]
    apply List.Perm.of_eq
    congr 1
    funext i
    exact (declUsage_eq resolved i).1
  · intro d hd
    rcases List.mem_append.mp hd with hd | hd
    · obtain ⟨i, hi, e⟩ := h3 d hd
      exact ⟨i, hi, Or.inl e⟩
    · obtain ⟨e, he, hde⟩ := List.mem_flatMap.mp hd
      have he' : e ∈ keyed (firsts Import.qname (freeDecls imports decls)) := (ho.perm _).mem_iff.mp he
      obtain ⟨i, hi, rfl⟩ := List.mem_map.mp he'
      have hmem : i ∈ decls := by
        have := mem_firstsAux Import.qname [] _ i hi
        exact (List.mem_filter.mp this).1
      exact ⟨i, hmem, (declUsage_eq resolved i).2 d hde⟩


/-! ### the validated file -/

theorem mapTypes_imports (h : Ty → TypeKind) (ast : AidlFile) :
    (mapTypes h ast).imports = ast.imports ∧ (mapTypes h ast).declaredParcelables = ast.declaredParcelables := by
  unfold mapTypes; cases ast.item <;> exact ⟨rfl, rfl⟩

theorem setUpOneway_imports (x : AidlFile) :
    (setUpOneway x).1.imports = x.imports ∧ (setUpOneway x).1.declaredParcelables = x.declaredParcelables := by
  unfold setUpOneway; cases x.item <;> exact ⟨rfl, rfl⟩

/-- the set `resolved` handed to the import checks is exactly the set of keys of ALL type nodes of
    the validated tree, at any depth -/
theorem resolved_is_deep {ho : HashOrder} {defined : Defined} {syn : List Diag} {ast : AidlFile} {g : Groups}
    (hg : validateGroups ho defined syn ast = .ok g) :
    (resolveTypes ast (ast.imports.map Import.qname) (ast.declaredParcelables.map Import.qname) defined).2.1
      = resolvedKeys g.ast := by
  rw [Props.C05.resolveTypes_eq]
  unfold resolvedKeys
  have := Props.C05.nodes_validated hg
  unfold Spec.C05.nodes at this
  -- kinds of the nodes of the validated tree
  have hk : (allTypesPre g.ast).map (·.kind) = (allTypesPre ast).map (fun t =>
      Spec.C05.newKind (ast.imports.map Import.qname) (ast.declaredParcelables.map Import.qname) defined t) := by
    have := congrArg (List.map (fun n : String × Range × TypeKind => n.2.2)) this
    simpa [List.map_map, Function.comp_def] using this
  have e1 : (allTypesPre g.ast).filterMap (fun t => resolvedKeyOfKind t.kind)
      = ((allTypesPre g.ast).map (·.kind)).filterMap resolvedKeyOfKind := by
    rw [List.filterMap_map]; rfl
  rw [e1, hk, List.filterMap_map]
  rfl

theorem validateGroups_imports {ho : HashOrder} {defined : Defined} {syn : List Diag} {ast : AidlFile} {g : Groups}
    (hg : validateGroups ho defined syn ast = .ok g) :
    let r1 := resolveTypes ast (ast.imports.map Import.qname) (ast.declaredParcelables.map Import.qname) defined
    g.imports = (checkImports ho r1.1.imports r1.2.1 defined).2
    ∧ g.decls = checkDeclaredParcelables ho r1.1.declaredParcelables (checkImports ho r1.1.imports r1.2.1 defined).1 r1.2.1 := by
  unfold validateGroups at hg
  simp only at hg
  split at hg
  · cases hg
  · split at hg
    · cases hg
    · cases hg; exact ⟨rfl, rfl⟩

/-- no diagnostic of another step sits on an import / declaration statement (decidable; evaluated
    by the harness on every case) -/
def Fresh (g : Groups) : Prop :=
  ∀ d ∈ g.syn ++ g.unknown ++ g.containers ++ g.oneway ++ g.methods, (stmtRanges g.ast).contains d.range = false

instance (g : Groups) : Decidable (Fresh g) := by unfold Fresh; infer_instance

/-- **C06 for the model**: for any hash order, the diagnostics on the import / declaration
    statements of a validated file are, as a multiset, exactly the specified reports. -/
theorem holds (ho : HashOrder) (defined : Defined) (fr out : FileResult)
    (h : validateFile ho defined fr = .ok out)
    (fresh : ∀ ast g, fr.ast = some ast → validateGroups ho defined fr.diags ast = .ok g → Fresh g) :
    holdsFile defined out = true := by
  unfold validateFile at h
  cases hast : fr.ast with
  | none =>
    simp only [hast] at h
    cases h
    simp [holdsFile, hast]
  | some ast =>
    simp only [hast] at h
    cases hg : validateGroups ho defined fr.diags ast with
    | error e => simp [hg] at h
    | ok g =>
      simp only [hg] at h
      cases h
      have hfresh := fresh ast g hast hg
      obtain ⟨hi, hd⟩ := validateGroups_imports hg
      have hdeep := resolved_is_deep hg
      have himp : g.ast.imports = ast.imports ∧ g.ast.declaredParcelables = ast.declaredParcelables := by
        rw [validateGroups_ast hg, Props.C05.resolveTypes_eq]
        exact ⟨(setUpOneway_imports _).1.trans (mapTypes_imports _ _).1,
               (setUpOneway_imports _).2.trans (mapTypes_imports _ _).2⟩
      have hr1 : (resolveTypes ast (ast.imports.map Import.qname) (ast.declaredParcelables.map Import.qname) defined).1.imports = ast.imports
          ∧ (resolveTypes ast (ast.imports.map Import.qname) (ast.declaredParcelables.map Import.qname) defined).1.declaredParcelables = ast.declaredParcelables := by
        rw [Props.C05.resolveTypes_eq]; exact mapTypes_imports _ _
      rw [hr1.1, hdeep] at hi
      rw [hr1.1, hr1.2, hdeep] at hd
      obtain ⟨hm, hpi, hri⟩ := checkImports_spec ho ast.imports (resolvedKeys g.ast) defined
      rw [hm] at hd
      obtain ⟨hpd, hrd⟩ := checkDecls_spec ho ast.imports ast.declaredParcelables (resolvedKeys g.ast)
      simp only [holdsFile, List.isPerm_iff, himp.1, himp.2]
      refine List.Perm.trans ?_ (List.Perm.append hpi hpd)
      rw [← List.map_append, ← hi, ← hd]
      apply List.Perm.map
      unfold sortDiags
      rw [stableSortBy_filter_comm]
      refine (stableSortBy_perm _ _).trans ?_
      unfold Groups.all
      simp only [List.filter_append]
      have hz : ∀ l : List Diag, (∀ d ∈ l, d ∈ g.syn ++ g.unknown ++ g.containers ++ g.oneway ++ g.methods) →
          l.filter (fun d => (stmtRanges g.ast).contains d.range) = [] := by
        intro l hl
        apply List.filter_eq_nil_iff.mpr
        intro d hdm
        have := hfresh d (hl d hdm)
        simpa using this
      rw [hz g.syn (by intro d hd; simp [hd]), hz g.unknown (by intro d hd; simp [hd]),
        hz g.containers (by intro d hd; simp [hd]), hz g.oneway (by intro d hd; simp [hd]),
        hz g.methods (by intro d hd; simp [hd])]
      simp only [List.nil_append, List.append_nil]
      have hall1 : g.imports.filter (fun d => (stmtRanges g.ast).contains d.range) = g.imports := by
        apply List.filter_eq_self.mpr
        intro d hdm
        rw [hi] at hdm
        obtain ⟨i, him, e⟩ := hri d hdm
        simp only [stmtRanges, himp.1, himp.2, List.contains_eq_mem, List.mem_append, List.mem_map, decide_eq_true_eq]
        exact Or.inl (Or.inl ⟨i, him, e.symm⟩)
      have hall2 : g.decls.filter (fun d => (stmtRanges g.ast).contains d.range) = g.decls := by
        apply List.filter_eq_self.mpr
        intro d hdm
        rw [hd] at hdm
        obtain ⟨i, him, e⟩ := hrd d hdm
        simp only [stmtRanges, himp.1, himp.2, List.contains_eq_mem, List.mem_append, List.mem_map, decide_eq_true_eq]
        rcases e with e | e
        · exact Or.inl (Or.inr ⟨i, him, e.symm⟩)
        · exact Or.inr ⟨i, him, e.symm⟩
      rw [hall1, hall2]

end Aidl.Props.C06
