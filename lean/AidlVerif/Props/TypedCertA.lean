import AidlVerif.Props.TypedCertDefs
namespace Aidl.Props.LrTyped
open Aidl Aidl.Props.Typed
set_option maxRecDepth 1000000 in
/-- every action of the regenerated table type-checks against the Rust signatures (kernel evaluation) -/
theorem actions_typed : tt.actionsOk = true := by decide +kernel
end Aidl.Props.LrTyped
