import AidlVerif.Props.LrSafeCertA
import AidlVerif.Props.LrSafeCertB
import AidlVerif.Props.LrSafeCertC

/-!
The LR stack-shape certificate of THIS run's tables is accepted by the checker `Cert.ok`
(kernel evaluation, in three parts built in parallel).
-/

namespace Aidl.Props.LrSafe
open Aidl Aidl.Lr

theorem ncols_pos : 0 < Driver.Parse.tables.ncols := by decide +kernel

/-- every lexer entry maps to a terminal column (not to `error`) -/
theorem cols_ok : Driver.Parse.tables.tokToCol.all (fun e => decide (e.2 < Driver.Parse.tables.ncols - 1)) = true := by decide +kernel

theorem cert_ok : Cert.ok Driver.Parse.tables cert = true := by
  unfold Cert.ok
  rw [rows_ok, eof_ok, edges_ok, reds_ok]
  simp [ncols_pos]

end Aidl.Props.LrSafe
