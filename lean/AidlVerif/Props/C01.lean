import AidlVerif.Props.Parser
import AidlVerif.Props.C09
import AidlVerif.Props.C12

/-!
# C01 — parsing and validation are total: no panic, one result per id

Rust partial operations are explicit `Except.error` outcomes of the model; the theorems below show
them unreachable in validation. For the parser model the corresponding obligations are the table
certificates of `Props/Parser.lean` and the correspondence run (outcome: ok / panic / fuelOut).
-/

namespace Aidl.Props.C01
open Aidl Aidl.Spec

/-- what the grammar guarantees about generic lists: an array has its element, a list at most one
    parameter, a map none or two -/
def arityOk (t : Ty) : Bool :=
  match t.kind with
  | .array => t.gens.length ≥ 1
  | .list => t.gens.length ≤ 1
  | .map => t.gens.length = 0 ∨ t.gens.length = 2
  | _ => true

def ArityOK (ast : AidlFile) : Prop := ∀ t ∈ allTypesWalk ast, arityOk t = true

instance (ast : AidlFile) : Decidable (ArityOK ast) := by unfold ArityOK; infer_instance

theorem checkContainer_ok (t : Ty) (h : arityOk t = true) : ∃ ds, checkContainer t = .ok ds := by
  obtain ⟨n, k, g, s, f⟩ := t
  unfold checkContainer
  unfold arityOk at h
  simp only [Ty.kind, Ty.gens] at *
  cases k with
  | array =>
    cases g with
    | nil => simp at h
    | cons e es => exact ⟨_, rfl⟩
  | list =>
    match g, h with
    | [], _ => exact ⟨_, rfl⟩
    | [e], _ => exact ⟨_, rfl⟩
    | _ :: _ :: _, h => simp at h
  | map =>
    match g, h with
    | [], _ => exact ⟨_, rfl⟩
    | [a], h => simp at h
    | [a, b], _ => exact ⟨_, rfl⟩
    | _ :: _ :: _ :: _, h => simp at h
  | _ => exact ⟨_, rfl⟩

/-- `check_containers` does not panic on a tree with the grammar's arities -/
theorem checkContainers_ok (ast : AidlFile) (h : ArityOK ast) : ∃ ds, checkContainers ast = .ok ds := by
  unfold checkContainers
  rw [walkTypes_eq]
  unfold ArityOK at h
  generalize allTypesWalk ast = l at h
  have : ∀ (acc : List Diag), ∃ ds, l.foldl (fun (acc : Except String (List Diag)) t =>
      match acc with
      | .error e => .error e
      | .ok ds => match checkContainer t with
        | .ok d => .ok (ds ++ d)
        | .error e => .error e) (.ok acc) = .ok ds := by
    induction l with
    | nil => intro acc; exact ⟨acc, rfl⟩
    | cons t ts ih =>
      intro acc
      obtain ⟨d, hd⟩ := checkContainer_ok t (h t (by simp))
      simp only [List.foldl_cons, hd]
      exact ih (fun x hx => h x (List.mem_cons_of_mem _ hx)) (acc ++ d)
  exact this []

/-- `check_methods` never panics: its two `unwrap()`s are guarded by the state invariant -/
theorem checkMethods_ok (ast : AidlFile) : ∃ ds, checkMethods ast = .ok ds := by
  unfold checkMethods
  rw [walkMethods_eq_foldl]
  have : ∀ (ms pre : List Method) (acc : List Diag),
      ∃ st ds, ms.foldl checkMethodsStep (.ok (Props.C09.absState pre, acc)) = .ok (st, ds) := by
    intro ms
    induction ms with
    | nil => intro pre acc; exact ⟨_, _, rfl⟩
    | cons m ms ih =>
      intro pre acc
      obtain ⟨d, hstep, _⟩ := Props.C09.step_spec pre m
      simp only [List.foldl_cons]
      have hs : checkMethodsStep (.ok (Props.C09.absState pre, acc)) m
          = .ok (Props.C09.absState (pre ++ [m]), acc ++ checkMethod m ++ d) := by
        simp [checkMethodsStep, hstep]
      rw [hs]
      exact ih (pre ++ [m]) _
  obtain ⟨st, ds, h⟩ := this (methodsOf ast) [] []
  have h0 : Props.C09.absState [] = {} := rfl
  rw [h0] at h
  rw [h]
  exact ⟨ds, rfl⟩

/-- resolution does not turn anything into or out of a container kind -/
theorem newKind_container (imports declared : List String) (defined : Defined) (t : Ty) :
    (Spec.C05.newKind imports declared defined t = .array ↔ t.kind = .array)
    ∧ (Spec.C05.newKind imports declared defined t = .list ↔ t.kind = .list)
    ∧ (Spec.C05.newKind imports declared defined t = .map ↔ t.kind = .map) := by
  unfold Spec.C05.newKind
  by_cases hk : t.kind = .unresolved
  · simp only [hk, if_true]
    have hc : ∀ k, Spec.C05.classify imports declared defined t.name = k →
        k ≠ .array ∧ k ≠ .list ∧ k ≠ .map := by
      intro k h
      unfold Spec.C05.classify at h
      repeat (first | split at h | (subst h; simp))
    have := hc _ rfl
    simp [this.1, this.2.1, this.2.2]
  · simp [hk]

mutual
theorem walkOrder_mapKind (h : Ty → TypeKind) (harr : ∀ t, h t = .array ↔ t.kind = .array) : (t : Ty) →
    Ty.walkOrder (Ty.mapKind h t) = (Ty.walkOrder t).map (Ty.mapKind h)
  | .mk n k g s f => by
    simp only [Ty.mapKind, Ty.walkOrder]
    have := harr (.mk n k g s f)
    simp only [Ty.kind] at this
    by_cases hk : k = .array
    · subst hk
      have e := this.mpr rfl
      simp only [e, if_true, List.map_append, List.map_cons, List.map_nil, Ty.mapKind]
      rw [walkOrderList_mapKind h harr g]
    · have hk' : ¬ h (.mk n k g s f) = .array := fun e => hk (this.mp e)
      simp only [hk', hk, if_false, List.map_cons, Ty.mapKind]
      rw [walkOrderList_mapKind h harr g]
theorem walkOrderList_mapKind (h : Ty → TypeKind) (harr : ∀ t, h t = .array ↔ t.kind = .array) : (l : List Ty) →
    Ty.walkOrderList (Ty.mapKindList h l) = (Ty.walkOrderList l).map (Ty.mapKind h)
  | [] => by simp [Ty.mapKindList, Ty.walkOrderList]
  | t :: ts => by
    simp only [Ty.mapKindList, Ty.walkOrderList, List.map_append]
    rw [walkOrder_mapKind h harr t, walkOrderList_mapKind h harr ts]
end

theorem mapKind_gens_length (h : Ty → TypeKind) (t : Ty) : (Ty.mapKind h t).gens.length = t.gens.length := by
  obtain ⟨n, k, g, s, f⟩ := t
  simp [Ty.mapKind, Ty.gens, Ty.mapKindList_eq]

/-- the arities survive resolution -/
theorem arityOK_resolved (ast : AidlFile) (imports declared : List String) (defined : Defined) (h : ArityOK ast) :
    ArityOK (mapTypes (Spec.C05.newKind imports declared defined) ast) := by
  unfold ArityOK allTypesWalk at *
  rw [topTypes_mapTypes, List.flatMap_map]
  intro t ht
  obtain ⟨t0, ht0, htm⟩ := List.mem_flatMap.mp ht
  rw [walkOrder_mapKind _ (fun x => (newKind_container imports declared defined x).1) t0] at htm
  obtain ⟨t1, ht1, rfl⟩ := List.mem_map.mp htm
  have h1 := h t1 (List.mem_flatMap.mpr ⟨t0, ht0, ht1⟩)
  unfold arityOk at h1 ⊢
  rw [mapKind_gens_length, Ty.mapKind_kind]
  have hc := newKind_container imports declared defined t1
  cases hk : Spec.C05.newKind imports declared defined t1 with
  | array => simp only [hc.1.mp hk] at h1; exact h1
  | list => simp only [hc.2.1.mp hk] at h1; exact h1
  | map => simp only [hc.2.2.mp hk] at h1; exact h1
  | _ => rfl

/-- **Validation never panics** on trees with the grammar's arities — every file, every hash
    order, every set of defined keys. -/
theorem validateFile_ok (ho : HashOrder) (defined : Defined) (fr : FileResult)
    (h : ∀ a, fr.ast = some a → ArityOK a) : ∃ out, validateFile ho defined fr = .ok out := by
  unfold validateFile
  cases hast : fr.ast with
  | none => exact ⟨fr, rfl⟩
  | some ast =>
    simp only
    unfold validateGroups
    simp only
    have hres := Props.C05.resolveTypes_eq ast (ast.imports.map Import.qname) (ast.declaredParcelables.map Import.qname) defined
    generalize resolveTypes ast (ast.imports.map Import.qname) (ast.declaredParcelables.map Import.qname) defined = r1 at hres
    have har : ArityOK r1.1 := by rw [hres]; exact arityOK_resolved ast _ _ defined (h ast hast)
    obtain ⟨d4, h4⟩ := checkContainers_ok r1.1 har
    obtain ⟨d6, h6⟩ := checkMethods_ok (setUpOneway r1.1).1
    simp only [h4, h6]
    exact ⟨_, rfl⟩

/-- validating a file keeps its id -/
theorem validateFile_id (ho : HashOrder) (defined : Defined) (fr out : FileResult)
    (h : validateFile ho defined fr = .ok out) : out.id = fr.id := by
  unfold validateFile at h
  cases hast : fr.ast with
  | none => simp only [hast] at h; cases h; rfl
  | some ast =>
    simp only [hast] at h
    cases hg : validateGroups ho defined fr.diags ast with
    | error e => simp [hg] at h
    | ok g => simp only [hg] at h; cases h; rfl

theorem mapExcept_ids {α β} (F : α → Except String β) (ida : α → String) (idb : β → String)
    (hid : ∀ x y, F x = .ok y → idb y = ida x) (l : List α) (r : List β) (h : mapExcept F l = .ok r) :
    r.map idb = l.map ida := by
  induction l generalizing r with
  | nil => simp [mapExcept] at h; simp [h]
  | cons x xs ih =>
    simp only [mapExcept] at h
    cases hx : F x with
    | error e => simp [hx] at h
    | ok y =>
      simp only [hx] at h
      cases hxs : mapExcept F xs with
      | error e => simp [hxs] at h
      | ok ys =>
        simp only [hxs] at h
        cases h
        simp [hid x y hx, ih ys hxs]

/-- **One result per file, each tagged with its own id**: the results of `validate` carry exactly
    the ids of the files in the parser (as a list, in iteration order) -/
theorem validate_keys (ho : HashOrder) (files r : List FileResult) (h : validate ho files = .ok r) :
    r.map (·.id) = (ho.ord files).map (·.id) := by
  unfold validate at h
  exact mapExcept_ids _ _ _ (fun x y hxy => validateFile_id ho _ x y hxy) _ r h

/-- **Totality of validation for a whole project** -/
theorem validate_no_panic (ho : HashOrder) (files : List FileResult)
    (h : ∀ fr ∈ files, ∀ a, fr.ast = some a → ArityOK a) : ∃ r, validate ho files = .ok r := by
  unfold validate
  simp only
  rw [Props.C11.mapExcept_isOk]
  intro fr hfr
  exact validateFile_ok ho _ fr (h fr ((ho.perm files).mem_iff.mp hfr))

/-- after ANY history, the ids of the results are exactly the ids currently in the parser, once each -/
theorem results_per_id (parse : ParseFn) (read : String → Except String String) (ho ho' : HashOrder)
    (ops : List Op) (r : List FileResult)
    (h : validate ho' (run parse read ho [] ops).values = .ok r) :
    (r.map (·.id)).Perm ((Spec.C12.contents read ops).map (·.1)) ∧ (r.map (·.id)).Nodup := by
  have hk := validate_keys ho' _ r h
  rw [Props.C12.store_refines] at hk
  have hperm : (r.map (·.id)).Perm ((Spec.C12.contents read ops).map (·.1)) := by
    rw [hk]
    refine ((ho'.perm _).map _).trans ?_
    unfold Store.values
    simp [List.map_map, Spec.C12.entry, Function.comp_def]
  exact ⟨hperm, hperm.nodup_iff.mpr (Props.C12.contents_keys_nodup read ops)⟩

end Aidl.Props.C01
