import AidlVerif.Props.LexSkip
import AidlVerif.Props.LexerFuel

/-!
# Words: identifiers and reserved words — for every text, from the table alone

On a text that begins with a word (a letter or `_`, then the maximal run of letters, digits and `_`) the lexer of
THIS run's table returns ONE token whose text is exactly that word, whatever follows it; the entry (token kind)
of that token is the LAST entry of the table that matches the whole word, and that depends on the word alone —
not on what follows, not on the position, not on the step bound (`next_word`).

* `m_rel`: a matcher over an expression all of whose classes lie inside a set `P` of characters cannot see past
  the first character outside `P`, and reports positions relative to where it starts — one induction gives
  both locality (`matchAt_local`) and translation of positions.
* `wordClasses_ok`: kernel evaluation over the table — every entry either only has classes inside the word
  characters, or cannot begin with a word-start character.
* `bestMatch_max`: the longest-match fold, when one entry matches `L` bytes and no entry more, returns `L`
  and the last entry that matches `L` bytes.
-/

namespace Aidl.Props.LexIdent
open Aidl.Regex Aidl.Lexer Aidl.Javadoc Aidl.Props.JavadocTotal Aidl.Props.LexerBounds Aidl.Props.LexerProgress
  Aidl.Props.RegexSound Aidl.Props.JavadocSpec Aidl.Props.SkipEntries Aidl.Props.LexSkip Aidl.Props.LexerFuel

/-! ### a matcher cannot see past the characters of its classes -/

theorem starLoop_rel (rest : List Char) (d : Nat) (body : List Char → Nat → K → Option Nat)
    (hb : ∀ (x : List Char) (p : Nat) (k k' : K), (∀ y q, k (y ++ rest) (q + d) = (k' y q).map (· + d)) →
      body (x ++ rest) (p + d) k = (body x p k').map (· + d))
    (k k' : K) (hk : ∀ y q, k (y ++ rest) (q + d) = (k' y q).map (· + d)) :
    ∀ (n : Nat) (x : List Char) (p : Nat), starLoop body k n (x ++ rest) (p + d) = (starLoop body k' n x p).map (· + d) := by
  intro n
  induction n with
  | zero => intro x p; exact hk x p
  | succ n ih =>
    intro x p
    simp only [starLoop]
    have hc : ∀ y q, (fun s' p' => if p + d < p' then starLoop body k n s' p' else none) (y ++ rest) (q + d)
        = ((fun s' p' => if p < p' then starLoop body k' n s' p' else none) y q).map (· + d) := by
      intro y q
      simp only
      by_cases hlt : p < q
      · rw [if_pos (by omega), if_pos hlt]; exact ih y q
      · rw [if_neg (by omega), if_neg hlt]; rfl
    rw [hb x p _ _ hc, hk x p]
    generalize body x p (fun s' p' => if p < p' then starLoop body k' n s' p' else none) = A
    cases A <;> rfl

/-- **locality and translation**: if every class of `r` only admits characters with `P` and `rest` does not
    begin with such a character, matching `r` on `x ++ rest` at `p + d` is matching it on `x` at `p`, moved by `d` -/
theorem m_rel (P : Char → Prop) (rest : List Char) (hrest : ∀ c t, rest = c :: t → ¬ P c) (d : Nat) (r : Re) (hr : clsAll P r) (f : Nat) :
    ∀ (x : List Char) (p : Nat) (k k' : K), (∀ y q, k (y ++ rest) (q + d) = (k' y q).map (· + d)) →
      m r f (x ++ rest) (p + d) k = (m r f x p k').map (· + d) := by
  induction r with
  | eps => intro x p k k' hk; simp only [m]; exact hk x p
  | cls rs =>
    intro x p k k' hk
    cases x with
    | nil =>
      rw [List.nil_append]
      cases hre : rest with
      | nil => simp [m]
      | cons c t =>
        simp only [m]
        have : inCls rs c = false := by
          cases hin : inCls rs c with
          | false => rfl
          | true => exact absurd (hr c hin) (hrest c t hre)
        rw [this]; rfl
    | cons c x' =>
      rw [List.cons_append]
      simp only [m]
      split
      · have : p + d + c.utf8Size = p + c.utf8Size + d := by omega
        rw [this]; exact hk x' _
      · rfl
  | seq a b iha ihb =>
    intro x p k k' hk
    simp only [m]
    exact iha hr.1 x p _ _ (fun y q => ihb hr.2 y q k k' hk)
  | alt a b iha ihb =>
    intro x p k k' hk
    simp only [m]
    rw [iha hr.1 x p k k' hk, ihb hr.2 x p k k' hk]
    generalize m a f x p k' = A
    cases A <;> rfl
  | star a iha =>
    intro x p k k' hk
    simp only [m]
    exact starLoop_rel rest d (m a f) (fun x p k k' h => iha hr x p k k' h) k k' hk f x p

theorem matchAt_local (P : Char → Prop) (r : Re) (hr : clsAll P r) (f : Nat) (x rest : List Char) (p : Nat)
    (hrest : ∀ c t, rest = c :: t → ¬ P c) :
    matchAt r f (x ++ rest) p = (matchAt r f x 0).map (· + p) := by
  unfold matchAt
  have := m_rel P rest hrest p r hr f x 0 (fun _ p' => some p') (fun _ p' => some p') (fun _ _ => rfl)
  rw [Nat.zero_add] at this
  exact this

/-! ### a decidable sufficient condition for `clsAll` -/

def rangesSub (rs cls : List (Nat × Nat)) : Bool := rs.all fun r => cls.any fun s => decide (s.1 ≤ r.1) && decide (r.2 ≤ s.2)

theorem rangesSub_sound (rs cls : List (Nat × Nat)) (h : rangesSub rs cls = true) (c : Char) (hc : inCls rs c = true) : inCls cls c = true := by
  unfold inCls at hc ⊢
  rw [List.any_eq_true] at hc ⊢
  obtain ⟨r, hr, hrc⟩ := hc
  unfold rangesSub at h
  rw [List.all_eq_true] at h
  have := h r hr
  rw [List.any_eq_true] at this
  obtain ⟨s, hs, hsr⟩ := this
  refine ⟨s, hs, ?_⟩
  simp only [Bool.and_eq_true, decide_eq_true_eq] at hsr hrc ⊢
  omega

def clsInside (cls : List (Nat × Nat)) : Re → Bool
  | .eps => true
  | .cls rs => rangesSub rs cls
  | .seq a b => clsInside cls a && clsInside cls b
  | .alt a b => clsInside cls a && clsInside cls b
  | .star a => clsInside cls a

theorem clsInside_sound (cls : List (Nat × Nat)) : ∀ (r : Re), clsInside cls r = true → clsAll (fun c => inCls cls c = true) r
  | .eps, _ => trivial
  | .cls rs, h => fun c hc => rangesSub_sound rs cls h c hc
  | .seq a b, h => by
    simp only [clsInside, Bool.and_eq_true] at h
    exact ⟨clsInside_sound cls a h.1, clsInside_sound cls b h.2⟩
  | .alt a b, h => by
    simp only [clsInside, Bool.and_eq_true] at h
    exact ⟨clsInside_sound cls a h.1, clsInside_sound cls b h.2⟩
  | .star a, h => clsInside_sound cls a h

/-! ### the longest-match fold returns the last of the longest -/

/-- the result of the fold over the first `n` entries -/
def bestUpTo (table : LexTable) (f : Nat) (s : List Char) (p n : Nat) : Option (Nat × Nat) :=
  (List.range n).foldl (stepBest table f s p) none

theorem bestUpTo_succ (table : LexTable) (f : Nat) (s : List Char) (p n : Nat) :
    bestUpTo table f s p (n + 1) = stepBest table f s p (bestUpTo table f s p n) n := by
  unfold bestUpTo
  rw [List.range_succ, List.foldl_append]
  rfl

/-- entry `i` matches exactly `L` bytes -/
def Full (table : LexTable) (f : Nat) (s : List Char) (p L i : Nat) : Prop := matchAt (table[i]! : Re × Bool).1 f s p = some (p + L)

theorem bestUpTo_inv (table : LexTable) (f : Nat) (s : List Char) (p L : Nat) (hL : 0 < L)
    (hle : ∀ (i e : Nat), matchAt table[i]!.1 f s p = some e → e ≤ p + L) :
    ∀ n, (∀ bl bi, bestUpTo table f s p n = some (bl, bi) → bl ≤ L) ∧
      (∀ i, i < n → Full table f s p L i →
        ∃ j, j < n ∧ bestUpTo table f s p n = some (L, j) ∧ Full table f s p L j ∧ ∀ i', i' < n → Full table f s p L i' → i' ≤ j) := by
  intro n
  induction n with
  | zero =>
    refine ⟨fun bl bi h => ?_, fun i hi => absurd hi (Nat.not_lt_zero _)⟩
    simp [bestUpTo] at h
  | succ n ih =>
    obtain ⟨ih1, ih2⟩ := ih
    rw [bestUpTo_succ]
    cases hm : matchAt table[n]!.1 f s p with
    | none =>
      have hstep : stepBest table f s p (bestUpTo table f s p n) n = bestUpTo table f s p n := by
        unfold stepBest; rw [hm]
      rw [hstep]
      refine ⟨ih1, fun i hi hfull => ?_⟩
      have hin : i < n := by
        rcases Nat.lt_succ_iff_lt_or_eq.mp hi with h | h
        · exact h
        · subst h; unfold Full at hfull; rw [hm] at hfull; cases hfull
      obtain ⟨j, hj, hb, hjf, hmax⟩ := ih2 i hin hfull
      refine ⟨j, by omega, hb, hjf, fun i' hi' hf' => ?_⟩
      rcases Nat.lt_succ_iff_lt_or_eq.mp hi' with h | h
      · exact hmax i' h hf'
      · subst h; unfold Full at hf'; rw [hm] at hf'; cases hf'
    | some e =>
      have hel := hle n e hm
      by_cases hfullN : e = p + L
      · -- the entry matches `L` bytes: it replaces whatever was best
        have hstep : stepBest table f s p (bestUpTo table f s p n) n = some (L, n) := by
          unfold stepBest; rw [hm]
          have hlen : e - p = L := by omega
          simp only [hlen]
          cases hb : bestUpTo table f s p n with
          | none => rfl
          | some b =>
            obtain ⟨bl, bi⟩ := b
            have := ih1 bl bi hb
            simp only
            rw [if_pos (by omega)]
        rw [hstep]
        refine ⟨fun bl bi h => by cases h; exact Nat.le_refl _, fun i _ _ => ?_⟩
        refine ⟨n, by omega, rfl, by unfold Full; rw [hm, hfullN], fun i' hi' _ => by omega⟩
      · -- a shorter match
        have hLpos : e - p < L := by omega
        refine ⟨fun bl bi h => ?_, fun i hi hfull => ?_⟩
        · unfold stepBest at h; rw [hm] at h
          simp only at h
          cases hb : bestUpTo table f s p n with
          | none => rw [hb] at h; cases h; omega
          | some b =>
            obtain ⟨bl0, bi0⟩ := b
            rw [hb] at h
            simp only at h
            split at h
            · cases h; omega
            · have := ih1 bl0 bi0 hb
              cases h; exact this
        · have hin : i < n := by
            rcases Nat.lt_succ_iff_lt_or_eq.mp hi with h | h
            · exact h
            · subst h; unfold Full at hfull; rw [hm] at hfull; cases hfull; exact absurd rfl hfullN
          obtain ⟨j, hj, hb, hjf, hmax⟩ := ih2 i hin hfull
          have hstep : stepBest table f s p (bestUpTo table f s p n) n = some (L, j) := by
            unfold stepBest; rw [hm, hb]
            simp only
            rw [if_neg (by omega)]
          rw [hstep]
          refine ⟨j, by omega, rfl, hjf, fun i' hi' hf' => ?_⟩
          rcases Nat.lt_succ_iff_lt_or_eq.mp hi' with h | h
          · exact hmax i' h hf'
          · subst h; unfold Full at hf'; rw [hm] at hf'; cases hf'; exact absurd rfl hfullN

/-- **the fold returns the last of the longest** -/
theorem bestMatch_max (table : LexTable) (f : Nat) (s : List Char) (p L j0 : Nat) (hj0 : j0 < table.size) (hL : 0 < L)
    (hfull : Full table f s p L j0) (hle : ∀ (i e : Nat), matchAt table[i]!.1 f s p = some e → e ≤ p + L) :
    ∃ j, j < table.size ∧ bestMatch table f s p = some (L, j) ∧ Full table f s p L j ∧
      ∀ i, i < table.size → Full table f s p L i → i ≤ j := by
  obtain ⟨j, hj, hb, hjf, hmax⟩ := (bestUpTo_inv table f s p L hL hle table.size).2 j0 hj0 hfull
  exact ⟨j, hj, hb, hjf, hmax⟩

/-! ### the table of this run at a word -/

def identIdx : Nat := Gen.lexTable.toList.idxOf (identRe, false)

theorem identIdx_entry : identIdx < Gen.lexTable.size ∧ Gen.lexTable[identIdx]! = (identRe, false) := by decide

/-- every entry of this run's table either only has classes inside the word characters and is not skipped, or
    cannot begin with a word-start character (kernel evaluation over the regenerated table) -/
def wordClasses : Bool :=
  (List.range Gen.lexTable.size).all fun i =>
    (clsInside identPartCls Gen.lexTable[i]!.1 && !Gen.lexTable[i]!.2) || disjointCls identStartCls (firstCls Gen.lexTable[i]!.1)

theorem wordClasses_ok : wordClasses = true := by decide +kernel

theorem entry_class (i : Nat) (hi : i < Gen.lexTable.size) :
    (clsInside identPartCls Gen.lexTable[i]!.1 = true ∧ Gen.lexTable[i]!.2 = false) ∨
      disjointCls identStartCls (firstCls Gen.lexTable[i]!.1) = true := by
  have hall := List.all_eq_true.mp wordClasses_ok i (List.mem_range.mpr hi)
  simp only [Bool.or_eq_true, Bool.and_eq_true, Bool.not_eq_true'] at hall
  exact hall

/-- entry `i` of this run's table matches the whole word `w` — a property of the word alone -/
def fullOn (i : Nat) (w : List Char) : Bool := matchAt Gen.lexTable[i]!.1 (w.length + 1) w 0 == some (utf8Len w)

/-- what an entry does on a text that begins with a word: a word-only entry sees the word alone, the others
    match nothing or the empty word -/
theorem entry_at_word (i : Nat) (f : Nat) (c : Char) (t rest : List Char) (p : Nat)
    (hc : inCls identStartCls c = true) (hout : ∀ d u, rest = d :: u → isIdentPart d = false) (hf : (c :: t).length < f) :
    (∀ e, matchAt Gen.lexTable[i]!.1 f (c :: t ++ rest) p = some e → e ≤ p + utf8Len (c :: t)) ∧
    (matchAt Gen.lexTable[i]!.1 f (c :: t ++ rest) p = some (p + utf8Len (c :: t)) ↔ (i < Gen.lexTable.size ∧ fullOn i (c :: t) = true)) ∧
    (matchAt Gen.lexTable[i]!.1 f (c :: t ++ rest) p = some (p + utf8Len (c :: t)) → Gen.lexTable[i]!.2 = false) := by
  have hLpos : 0 < utf8Len (c :: t) := by rw [utf8Len_cons]; have := utf8Size_pos c; omega
  by_cases hi : i < Gen.lexTable.size
  · rcases entry_class i hi with ⟨hin, hskip⟩ | hdis
    · -- a word-only entry
      have hall := clsInside_sound identPartCls _ hin
      have hrest : ∀ d u, rest = d :: u → ¬ (inCls identPartCls d = true) := fun d u h => by
        have := hout d u h; unfold isIdentPart at this; rw [this]; exact Bool.false_ne_true
      have hloc := matchAt_local _ _ hall f (c :: t) rest p hrest
      have hfu := matchAt_fuel Gen.lexTable[i]!.1 f ((c :: t).length + 1) (c :: t) 0 hf (Nat.lt_succ_self _)
      refine ⟨fun e he => ?_, ?_, fun _ => hskip⟩
      · rw [hloc] at he
        cases hm : matchAt Gen.lexTable[i]!.1 f (c :: t) 0 with
        | none => rw [hm] at he; cases he
        | some e0 =>
          rw [hm] at he
          simp only [Option.map_some, Option.some.injEq] at he
          obtain ⟨w, s', hs, _, he0⟩ := matchAt_sound _ f _ 0 e0 hm
          have : utf8Len (c :: t) = utf8Len w + utf8Len s' := by rw [hs, utf8Len_append]
          omega
      · rw [hloc, hfu]
        unfold fullOn
        constructor
        · intro h
          refine ⟨hi, ?_⟩
          cases hm : matchAt Gen.lexTable[i]!.1 ((c :: t).length + 1) (c :: t) 0 with
          | none => rw [hm] at h; cases h
          | some e0 =>
            rw [hm] at h
            simp only [Option.map_some, Option.some.injEq] at h
            have : e0 = utf8Len (c :: t) := by omega
            rw [this]; exact beq_self_eq_true _
        · intro ⟨_, h⟩
          have := eq_of_beq h
          rw [this]
          simp only [Option.map_some, Option.some.injEq]
          omega
    · -- an entry that cannot begin with a word-start character
      have hcout := disjoint_sound _ _ hdis c hc
      have hempty : ∀ f' s' p' e, matchAt Gen.lexTable[i]!.1 f' (c :: s') p' = some e → e = p' :=
        fun f' s' p' e h => matchAt_outside _ f' c s' p' e hcout h
      refine ⟨fun e he => ?_, ?_, fun h => ?_⟩
      · have := hempty f (t ++ rest) p e he; omega
      · constructor
        · intro h
          have := hempty f (t ++ rest) p _ h; omega
        · intro ⟨_, h⟩
          unfold fullOn at h
          have := hempty _ t 0 _ (eq_of_beq h); omega
      · have := hempty f (t ++ rest) p _ h; omega
  · have hd := default_entry i hi f (c :: t ++ rest) p
    refine ⟨fun e he => ?_, ?_, fun h => ?_⟩
    · rw [hd] at he; cases he; omega
    · constructor
      · intro h; rw [hd] at h; simp only [Option.some.injEq] at h; omega
      · intro ⟨h, _⟩; exact absurd h hi
    · rw [hd] at h; simp only [Option.some.injEq] at h; omega

/-- **A word is one token**: on a text that begins with a word — a letter or `_`, then the maximal run of letters,
    digits and `_` — the lexer of this run's table returns one token whose text is exactly the word, and whose
    entry is the LAST entry of the table that matches the whole word (`fullOn`, a property of the word alone):
    for every text, whatever follows the word, wherever it stands. -/
theorem next_word (fuel : Nat) (c : Char) (t rest : List Char) (p : Nat)
    (hc : inCls identStartCls c = true) (ht : ∀ d ∈ t, isIdentPart d = true)
    (hout : ∀ d u, rest = d :: u → isIdentPart d = false) (hf : (c :: t ++ rest).length ≤ fuel) :
    ∃ j, j < Gen.lexTable.size ∧ fullOn j (c :: t) = true ∧
      (∀ i, i < Gen.lexTable.size → fullOn i (c :: t) = true → i ≤ j) ∧
      next Gen.lexTable (fuel + 1) (c :: t ++ rest) p
        = .token { start := p, index := j, text := String.ofList (c :: t), stop := p + utf8Len (c :: t) } rest := by
  have hlen : (c :: t).length < fuel + 1 := by
    have : (c :: t ++ rest).length = (c :: t).length + rest.length := List.length_append
    omega
  have hLpos : 0 < utf8Len (c :: t) := by rw [utf8Len_cons]; have := utf8Size_pos c; omega
  have hE := fun i => entry_at_word i (fuel + 1) c t rest p hc hout hlen
  -- the IDENT entry matches the whole word
  have hident : Full Gen.lexTable (fuel + 1) (c :: t ++ rest) p (utf8Len (c :: t)) identIdx := by
    unfold Full
    rw [identIdx_entry.2, List.cons_append, matchAt_ident (fuel + 1) c (t ++ rest) p (by simp only [List.cons_append, List.length_cons] at hf; omega),
      if_pos hc, takeWhile_run isIdentPart t rest ht hout, utf8Len_cons]
    congr 1; omega
  obtain ⟨j, hj, hbest, hjfull, hmax⟩ := bestMatch_max Gen.lexTable (fuel + 1) (c :: t ++ rest) p (utf8Len (c :: t)) identIdx
    identIdx_entry.1 hLpos hident (fun i e he => (hE i).1 e he)
  refine ⟨j, hj, (((hE j).2.1).mp hjfull).2, fun i hi hfu => hmax i hi (((hE i).2.1).mpr ⟨hi, hfu⟩), ?_⟩
  have hskip := (hE j).2.2 hjfull
  have hshape : c :: t ++ rest = c :: (t ++ rest) := rfl
  rw [hshape, next]
  case x_4 => intro h; cases h
  rw [← hshape, hbest]
  simp only
  rw [hskip]
  simp only [Bool.false_eq_true, if_false]
  rw [LexSkip.splitBytes_prefix]

/-- a word that no other entry matches entirely is an IDENT -/
theorem next_plain_ident (fuel : Nat) (c : Char) (t rest : List Char) (p : Nat)
    (hc : inCls identStartCls c = true) (ht : ∀ d ∈ t, isIdentPart d = true)
    (hout : ∀ d u, rest = d :: u → isIdentPart d = false) (hf : (c :: t ++ rest).length ≤ fuel)
    (hplain : ∀ i, i < Gen.lexTable.size → fullOn i (c :: t) = true → i = identIdx) :
    next Gen.lexTable (fuel + 1) (c :: t ++ rest) p
      = .token { start := p, index := identIdx, text := String.ofList (c :: t), stop := p + utf8Len (c :: t) } rest := by
  obtain ⟨j, hj, hjf, _, hnext⟩ := next_word fuel c t rest p hc ht hout hf
  rw [hnext, hplain j hj hjf]

/-! ### non-vacuity: the entries of some words of this run's table -/

/-- the last entry of this run's table that matches the whole word -/
def wordEntry (w : String) : Option Nat :=
  ((List.range Gen.lexTable.size).filter (fun i => fullOn i w.toList)).getLast?

example : wordEntry "interface" = (Gen.lexTable.toList.idxOf (Re.seqs ("interface".toList.map Re.chr), false)) := by decide +kernel
example : wordEntry "interfaces" = some identIdx := by decide +kernel
example : wordEntry "in" ≠ some identIdx ∧ wordEntry "in" = wordEntry "inout" ∧ wordEntry "in" = wordEntry "out" := by decide +kernel
example : wordEntry "int" ≠ some identIdx ∧ wordEntry "int" = wordEntry "byte" ∧ wordEntry "into" = some identIdx := by decide +kernel

end Aidl.Props.LexIdent
