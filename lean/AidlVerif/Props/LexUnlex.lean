import AidlVerif.Props.LexSpec

/-!
# Printing lexemes and lexing them again gives them back — for every list of lexemes

`IsLexeme j w`: `w` is, on its own, a lexeme of entry `j` — a word (identifier or reserved word), a punctuation
character, a string literal, an annotation name, or a number-like run (INTEGER, FLOAT, `-`, `.`). These are conditions
on `w` alone. `unlex ls`: the lexemes joined by single blanks.

`lex_unlex`: for EVERY list of lexemes, `LexesTo (unlex ls) ls` — hence (`lexToks_unlex`) the lexer of this run's
table lexes the printed text back to exactly these lexemes, and (`unlex_layouts_same_tree`, with
`relayout_same_tree`) every other layout of the same lexemes has the same tree up to positions and documentation
as the text printed with single blanks.
-/

namespace Aidl.Props.LexUnlex
open Aidl Aidl.Lr Aidl.Actions Aidl.Erase Aidl.Props.LrInv
open Aidl.Regex Aidl.Lexer Aidl.Javadoc Aidl.Props.JavadocTotal Aidl.Props.LexerBounds Aidl.Props.LexerProgress
  Aidl.Props.RegexSound Aidl.Props.JavadocSpec Aidl.Props.SkipEntries Aidl.Props.LexSkip Aidl.Props.LexerFuel Aidl.Props.LexIdent
  Aidl.Props.LexTokens Aidl.Props.LexNumbers Aidl.Props.LexRuns Aidl.Props.LexSpec

inductive IsLexeme : Nat → List Char → Prop
  | word (c : Char) (t : List Char) (j : Nat) :
      inCls identStartCls c = true → (∀ d ∈ t, isIdentPart d = true) →
      j < Gen.lexTable.size → fullOn j (c :: t) = true → (∀ i, i < Gen.lexTable.size → fullOn i (c :: t) = true → i ≤ j) →
      IsLexeme j (c :: t)
  | punct (j a : Nat) (c : Char) : (j, a) ∈ punctEntries → c.toNat = a → IsLexeme j [c]
  | str (body : List Char) : (∀ d ∈ body, isStrBody d = true) → IsLexeme strIdx ('"' :: body ++ ['"'])
  | ann (c : Char) (t : List Char) : inCls identStartCls c = true → (∀ d ∈ t, isIdentPart d = true) → IsLexeme annIdx ('@' :: c :: t)
  | number (c : Char) (t : List Char) (j : Nat) :
      inCls floatStart c = true →
      j < Gen.lexTable.size → fullOn j (c :: t) = true → (∀ i, i < Gen.lexTable.size → fullOn i (c :: t) = true → i ≤ j) →
      IsLexeme j (c :: t)
  | int (c : Char) (t : List Char) : isDigit c = true → (∀ d ∈ t, isDigit d = true) → IsLexeme intIdx (c :: t)
  | shared (j a o : Nat) : (j, a, o) ∈ sharedEntries → IsLexeme j [Char.ofNat a]

/-- what may follow a printed lexeme: nothing, or a blank -/
def BlankHead (rest : List Char) : Prop := ∀ d u, rest = d :: u → d = ' '

theorem blank_not_identPart : isIdentPart ' ' = false := by decide
theorem blank_not_float : inCls floatChars ' ' = false := by decide +kernel

/-- a blank cannot continue a number that begins with `-` or `.` (kernel evaluation over the entries of `sharedEntries`) -/
theorem sharedBlank_ok : sharedEntries.all (fun e => !inCls (firstCls (deriv Gen.lexTable[e.2.2]!.1 (Char.ofNat e.2.1))) ' ') = true := by
  decide +kernel

theorem IsLexeme.tokenAt {j : Nat} {w : List Char} (h : IsLexeme j w) (rest : List Char) (hr : BlankHead rest) :
    TokenAt (w ++ rest) j w rest := by
  cases h with
  | word c t j hc ht hj hjf hmax =>
    exact TokenAt.word c t rest j hc ht (fun d u h => by rw [hr d u h]; exact blank_not_identPart) hj hjf hmax
  | punct j a c hmem hc => exact TokenAt.punct j a c rest hmem hc
  | str body hbody =>
    have : ('"' :: body ++ ['"']) ++ rest = '"' :: body ++ '"' :: rest := by simp
    rw [this]
    exact TokenAt.str body rest hbody
  | ann c t hc ht =>
    exact TokenAt.ann c t rest hc ht (fun d u h => by rw [hr d u h]; exact blank_not_identPart)
  | number c t j hc hj hjf hmax =>
    exact TokenAt.number c t rest j hc (fun d u h => by rw [hr d u h]; exact blank_not_float) hj hjf hmax
  | int c t hc ht =>
    exact TokenAt.int c t rest hc ht (fun d u h => by rw [hr d u h]; exact blank_not_float)
  | shared j a o hmem =>
    exact TokenAt.shared j a o rest hmem (fun d u h => by
      rw [hr d u h]
      have := List.all_eq_true.mp sharedBlank_ok (j, a, o) hmem
      simpa using this)

theorem ws_disjoint_identStart : disjointCls identStartCls wsCls = true := by decide
theorem ws_disjoint_floatStart : disjointCls floatStart wsCls = true := by decide +kernel
theorem ws_disjoint_digit : disjointCls digitCls wsCls = true := by decide

/-- a lexeme does not begin with white space -/
theorem IsLexeme.head_not_ws {j : Nat} {w : List Char} (h : IsLexeme j w) : ∃ c t, w = c :: t ∧ isWsChar c = false := by
  cases h with
  | word c t j hc _ _ _ _ => exact ⟨c, t, rfl, disjoint_sound _ _ ws_disjoint_identStart c hc⟩
  | punct j a c hmem hc =>
    refine ⟨c, [], rfl, ?_⟩
    obtain ⟨hj, hent, hmiss⟩ := punct_facts j a hmem
    have hne : wsIdx ≠ j := by
      intro h
      have h1 := wsIdx_entry.2
      rw [h, hent] at h1
      cases h1
    have hall := List.all_eq_true.mp hmiss wsIdx (List.mem_range.mpr wsIdx_entry.1)
    simp only [Bool.or_eq_true, beq_iff_eq] at hall
    rcases hall with h' | h'
    · exact absurd h' hne
    · rw [wsIdx_entry.2] at h'
      have hin : inCls [(a, a)] c = true := by
        unfold inCls
        simp only [List.any_cons, List.any_nil, Bool.or_false, Bool.and_eq_true, decide_eq_true_eq]
        omega
      exact disjoint_sound _ _ h' c hin
  | str body _ => exact ⟨'"', body ++ ['"'], rfl, by decide⟩
  | ann c t _ _ => exact ⟨'@', c :: t, rfl, by decide⟩
  | number c t j hc _ _ _ => exact ⟨c, t, rfl, disjoint_sound _ _ ws_disjoint_floatStart c hc⟩
  | int c t hc _ => exact ⟨c, t, rfl, disjoint_sound _ _ ws_disjoint_digit c hc⟩
  | shared j a o hmem =>
    refine ⟨Char.ofNat a, [], rfl, ?_⟩
    obtain ⟨hj, hent, hval, hoj, hnn, _, hall⟩ := shared_facts j a o hmem
    have hnej : wsIdx ≠ j := by
      intro h
      have h1 := wsIdx_entry.2
      rw [h, hent] at h1
      cases h1
    have hneo : wsIdx ≠ o := by
      intro h
      have h1 := wsIdx_entry.2
      rw [← h] at hnn
      rw [h1] at hnn
      revert hnn; decide
    have hw := List.all_eq_true.mp hall wsIdx (List.mem_range.mpr wsIdx_entry.1)
    simp only [Bool.or_eq_true, beq_iff_eq] at hw
    rcases hw with (h' | h') | h'
    · exact absurd h' hnej
    · exact absurd h' hneo
    · rw [wsIdx_entry.2] at h'
      have hin : inCls [(a, a)] (Char.ofNat a) = true := by
        unfold inCls
        simp only [List.any_cons, List.any_nil, Bool.or_false, Bool.and_eq_true, decide_eq_true_eq]
        omega
      exact disjoint_sound _ _ h' _ hin

/-- the lexemes printed with single blanks between them -/
def unlex : List (Nat × List Char) → List Char
  | [] => []
  | [(_, w)] => w
  | (_, w) :: l :: ls => w ++ ' ' :: unlex (l :: ls)

theorem blank_ws : isWsChar ' ' = true := by decide

/-- a blank before a text that does not begin with white space is skipped -/
theorem LexesTo.blank {s : List Char} {toks : List (Nat × String)} (h : LexesTo s toks)
    (hs : ∀ c t, s = c :: t → isWsChar c = false) : LexesTo (' ' :: s) toks := by
  have hsk : ∀ r, Skips s r → Skips (' ' :: s) r := fun r hr =>
    Skips.ws [' '] s r (by simp) (fun c hc => by simp at hc; rw [hc]; exact blank_ws) hs hr
  cases h with
  | eof _ hsk' => exact LexesTo.eof _ (hsk [] hsk')
  | tok _ s' w rest j toks hsk' ht hl => exact LexesTo.tok _ s' w rest j toks (hsk s' hsk') ht hl

theorem unlex_head (l : Nat × List Char) (ls : List (Nat × List Char)) (h : IsLexeme l.1 l.2) :
    ∀ c t, unlex (l :: ls) = c :: t → isWsChar c = false := by
  obtain ⟨c0, t0, hw, hc0⟩ := h.head_not_ws
  intro c t hu
  obtain ⟨j, w⟩ := l
  simp only at hw
  subst hw
  cases ls with
  | nil => simp only [unlex, List.cons.injEq] at hu; rw [← hu.1]; exact hc0
  | cons l' ls' => simp only [unlex, List.cons_append, List.cons.injEq] at hu; rw [← hu.1]; exact hc0

/-- **Printing and lexing again**: every list of lexemes, printed with single blanks, is a text of `LexesTo` with
    exactly these lexemes. -/
theorem lex_unlex : ∀ (ls : List (Nat × List Char)), (∀ l ∈ ls, IsLexeme l.1 l.2) →
    LexesTo (unlex ls) (ls.map fun l => (l.1, String.ofList l.2))
  | [], _ => LexesTo.eof _ (Skips.done _)
  | [(j, w)], h => by
    have hl : IsLexeme j w := h (j, w) (by simp)
    have ht := hl.tokenAt [] (fun _ _ h => by cases h)
    rw [List.append_nil] at ht
    exact LexesTo.tok _ _ w [] j [] (Skips.done _) ht (LexesTo.eof _ (Skips.done _))
  | (j, w) :: l :: ls, h => by
    have hl : IsLexeme j w := h (j, w) (by simp)
    have hl' : IsLexeme l.1 l.2 := h l (by simp)
    have ih := lex_unlex (l :: ls) (fun x hx => h x (List.mem_cons_of_mem _ hx))
    have ht := hl.tokenAt (' ' :: unlex (l :: ls)) (fun d u h => by cases h; rfl)
    exact LexesTo.tok _ _ w _ j _ (Skips.done _) ht (LexesTo.blank ih (unlex_head l ls hl'))

/-- the lexer of this run's table gives the printed lexemes back -/
theorem lexToks_unlex (ls : List (Nat × List Char)) (h : ∀ l ∈ ls, IsLexeme l.1 l.2) :
    lexToks Driver.Parse.tables ((unlex ls).length + 1) (unlex ls) 0 = some (ls.map fun l => (l.1, String.ofList l.2), true) :=
  lexToks_of_lexesTo (lex_unlex ls h) _ 0 (Nat.lt_succ_self _)

/-- **every layout of a list of lexemes has the tree of the text printed with single blanks** (up to positions and docs) -/
theorem unlex_layouts_same_tree (env1 env2 : Env) (id1 id2 text1 text2 : String) (ls : List (Nat × List Char))
    (h : ∀ l ∈ ls, IsLexeme l.1 l.2) (hprint : text1.toList = unlex ls)
    (hE1 : EnvOk env1 text1.toList) (hE2 : EnvOk env2 text2.toList)
    (h2 : LexesTo text2.toList (ls.map fun l => (l.1, String.ofList l.2))) :
    ∃ r1 r2, addContentE Driver.Parse.tables env1 id1 text1 = .ok r1
      ∧ addContentE Driver.Parse.tables env2 id2 text2 = .ok r2
      ∧ r1.ast.map erAidl = r2.ast.map erAidl :=
  relayout_same_tree env1 env2 id1 id2 text1 text2 hE1 hE2 _ (by rw [hprint]; exact lex_unlex ls h) h2

/-! ### the one-blank print is a normal form -/

theorem isLexeme_of_tokenAt {s w rest : List Char} {j : Nat} (h : TokenAt s j w rest) : IsLexeme j w := by
  cases h with
  | word c t rest j hc ht _ hj hjf hmax => exact IsLexeme.word c t j hc ht hj hjf hmax
  | punct j a c rest hmem hc => exact IsLexeme.punct j a c hmem hc
  | str body rest hb => exact IsLexeme.str body hb
  | ann c t rest hc ht _ => exact IsLexeme.ann c t hc ht
  | int c t rest hc ht _ => exact IsLexeme.int c t hc ht
  | number c t rest j hc _ hj hjf hmax => exact IsLexeme.number c t j hc hj hjf hmax
  | shared j a o rest hmem _ => exact IsLexeme.shared j a o hmem

/-- the lexemes of a text of the specification, each a lexeme on its own -/
theorem lexemes_of_lexesTo {s : List Char} {toks : List (Nat × String)} (h : LexesTo s toks) :
    ∃ ls : List (Nat × List Char), (∀ l ∈ ls, IsLexeme l.1 l.2) ∧ toks = ls.map fun l => (l.1, String.ofList l.2) := by
  induction h with
  | eof s _ => exact ⟨[], ⟨fun _ h => (by cases h), rfl⟩⟩
  | tok s s' w rest j toks _ ht _ ih =>
    obtain ⟨ls, hl, htoks⟩ := ih
    refine ⟨(j, w) :: ls, ⟨fun l hm => ?_, by rw [htoks]; rfl⟩⟩
    rcases List.mem_cons.mp hm with h | h
    · rw [h]; exact isLexeme_of_tokenAt ht
    · exact hl l h

/-- **Normal form**: every text of the specification has the tree (up to positions and documentation) of the text that
    prints its lexemes with single blanks — whatever white space, line endings and comments it contains. -/
theorem canonical_same_tree (env1 : Env) (id1 text1 : String) (hE1 : EnvOk env1 text1.toList) (toks : List (Nat × String))
    (h1 : LexesTo text1.toList toks) :
    ∃ ls : List (Nat × List Char), (∀ l ∈ ls, IsLexeme l.1 l.2) ∧ toks = (ls.map fun l => (l.1, String.ofList l.2)) ∧
      ∀ (env2 : Env) (id2 text2 : String), text2.toList = unlex ls → EnvOk env2 text2.toList →
        ∃ r1 r2, addContentE Driver.Parse.tables env1 id1 text1 = .ok r1
          ∧ addContentE Driver.Parse.tables env2 id2 text2 = .ok r2
          ∧ r1.ast.map erAidl = r2.ast.map erAidl := by
  obtain ⟨ls, hl, htoks⟩ := lexemes_of_lexesTo h1
  refine ⟨ls, hl, htoks, fun env2 id2 text2 hprint hE2 => ?_⟩
  obtain ⟨r2, r1, h2, h1', heq⟩ := unlex_layouts_same_tree env2 env1 id2 id1 text2 text1 ls hl hprint hE2 hE1 (by rw [← htoks]; exact h1)
  exact ⟨r1, r2, h1', h2, heq.symm⟩

/-! ### non-vacuity -/

example : IsLexeme identIdx "foo".toList :=
  IsLexeme.word 'f' "oo".toList identIdx (by decide) (by decide) identIdx_entry.1 (by decide +kernel) (by decide +kernel)
example : IsLexeme floatIdx "1.5f".toList :=
  IsLexeme.number '1' ".5f".toList floatIdx (by decide +kernel) (by decide +kernel) (by decide +kernel) (by decide +kernel)
example : IsLexeme intIdx "42".toList :=
  IsLexeme.number '4' "2".toList intIdx (by decide +kernel) (by decide +kernel) (by decide +kernel) (by decide +kernel)

end Aidl.Props.LexUnlex
