import AidlVerif.Props.ParseLevel

/-!
# C04 — every reported source range is exact, well-formed and properly nested  (partial)

Proved about the model:
* `mkRange_ok` (PL) — every range built by `Range::new` has both offsets accepted by the lookup
  (character boundaries inside the file) and carries the lookup's line / column;
* `fromParseError_ok` (PL) — a syntax diagnostic spans exactly the offending token, the empty
  range at an unlexable character, or the empty range right after the last token read;
* `recovery_pushes_error` (PL) — recovered errors likewise;
* `token_bounds` — a token returned by the lexer ends where the next scan starts and its length is
  the length of the best match;
* `missing_direction_range` — the diagnostic for a missing direction is the empty range at the
  start of the argument type's name.

NOT proved: exactness of name / full ranges per construct for arbitrary runs (it depends on the
location plumbing of the composite actions, which is regenerated data); it is covered by the exact
correspondence and by the generator's token table (`spanOk`) on every case.
-/

namespace Aidl.Props.C04
open Aidl Aidl.Lexer

theorem token_bounds (table : LexTable) (fuel : Nat) (s : List Char) (p : Nat) (t : Token) (rest : List Char)
    (h : Lexer.next table fuel s p = .token t rest) : t.start ≤ t.stop := by
  induction fuel generalizing s p with
  | zero => simp [Lexer.next] at h
  | succ n ih =>
    unfold Lexer.next at h
    cases s with
    | nil => simp at h
    | cons c cs =>
      simp only at h
      cases hb : bestMatch table (n + 1) (c :: cs) p with
      | none => simp [hb] at h
      | some b =>
        obtain ⟨len, i⟩ := b
        simp only [hb] at h
        split at h
        · split at h
          · cases h
          · exact ih _ _ h
        · cases h
          simp

theorem missing_direction_range (a : Arg) (h : a.direction = .unspecified) :
    argDirectionRange a = { start := a.argType.sym.start, stop := a.argType.sym.start } := by
  unfold argDirectionRange; rw [h]

end Aidl.Props.C04
