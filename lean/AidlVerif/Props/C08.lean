import AidlVerif.Spec.C08
import AidlVerif.Lemmas.Sort
import AidlVerif.Lemmas.Oneway

/-!
# C08 — property theorems (about the model)
-/

namespace Aidl.Props.C08
open Aidl Aidl.Spec Aidl.Spec.C08

theorem array_elem (e : Ty) :
    (checkArrayElement e).map reportOf = (if arrayElemOk (Category.of e.kind) then [] else [(.error, e.sym)])
    ∧ ∀ d ∈ checkArrayElement e, isContainerDiag d = true := by
  obtain ⟨n, k, g, s, f⟩ := e
  cases k with
  | android a => cases a <;> simp [checkArrayElement, arrayElemOk, Category.of, Ty.kind, Ty.sym, mkDiag, reportOf, isContainerDiag, containerContexts]
  | resolved key rk => cases rk <;> simp [checkArrayElement, arrayElemOk, Category.of, Ty.kind, Ty.sym, mkDiag, reportOf, isContainerDiag, containerContexts]
  | _ => simp [checkArrayElement, arrayElemOk, Category.of, Ty.kind, Ty.sym, mkDiag, reportOf, isContainerDiag, containerContexts]

theorem list_elem (e : Ty) :
    (checkListElement e).map reportOf = (if listElemOk (Category.of e.kind) then [] else [(.error, e.sym)])
    ∧ ∀ d ∈ checkListElement e, isContainerDiag d = true := by
  obtain ⟨n, k, g, s, f⟩ := e
  cases k with
  | android a => cases a <;> simp [checkListElement, listElemOk, Category.of, Ty.kind, Ty.sym, mkDiag, reportOf, isContainerDiag, containerContexts]
  | resolved key rk => cases rk <;> simp [checkListElement, listElemOk, Category.of, Ty.kind, Ty.sym, mkDiag, reportOf, isContainerDiag, containerContexts]
  | _ => simp [checkListElement, listElemOk, Category.of, Ty.kind, Ty.sym, mkDiag, reportOf, isContainerDiag, containerContexts]

theorem map_value (e : Ty) :
    (checkMapValue e).map reportOf = (if mapValueOk (Category.of e.kind) then [] else [(.error, e.sym)])
    ∧ ∀ d ∈ checkMapValue e, isContainerDiag d = true := by
  obtain ⟨n, k, g, s, f⟩ := e
  cases k with
  | android a => cases a <;> simp [checkMapValue, mapValueOk, Category.of, Ty.kind, Ty.sym, mkDiag, reportOf, isContainerDiag, containerContexts]
  | resolved key rk => cases rk <;> simp [checkMapValue, mapValueOk, Category.of, Ty.kind, Ty.sym, mkDiag, reportOf, isContainerDiag, containerContexts]
  | _ => simp [checkMapValue, mapValueOk, Category.of, Ty.kind, Ty.sym, mkDiag, reportOf, isContainerDiag, containerContexts]

theorem map_key (e : Ty) :
    (checkMapKey e).map reportOf = (if mapKeyOk e then [] else [(.error, e.sym)])
    ∧ ∀ d ∈ checkMapKey e, isContainerDiag d = true := by
  obtain ⟨n, k, g, s, f⟩ := e
  by_cases hn : n = "String"
  · cases k with
    | android a => cases a <;> simp [checkMapKey, mapKeyOk, Category.of, Ty.kind, Ty.sym, Ty.name, mkDiag, reportOf, isContainerDiag, containerContexts, hn]
    | resolved key rk => cases rk <;> simp [checkMapKey, mapKeyOk, Category.of, Ty.kind, Ty.sym, Ty.name, mkDiag, reportOf, isContainerDiag, containerContexts, hn]
    | _ => simp [checkMapKey, mapKeyOk, Category.of, Ty.kind, Ty.sym, Ty.name, mkDiag, reportOf, isContainerDiag, containerContexts, hn]
  · simp [checkMapKey, mapKeyOk, Ty.kind, Ty.sym, Ty.name, mkDiag, reportOf, isContainerDiag, containerContexts, hn]

/-- **Per container node**: when `check_container` does not panic, it reports exactly what the
    element rules call for, and only container diagnostics -/
theorem container_rule (t : Ty) (ds : List Diag) (h : checkContainer t = .ok ds) :
    ds.map reportOf = containerRule t ∧ ∀ d ∈ ds, isContainerDiag d = true := by
  obtain ⟨n, k, g, s, f⟩ := t
  unfold checkContainer containerRule at *
  simp only [Ty.kind, Ty.gens, Ty.sym] at *
  cases k with
  | array =>
    cases g with
    | nil => cases h
    | cons e es => simp only at h; cases h; exact array_elem e
  | list =>
    match g, h with
    | [], h => simp only at h; cases h; simp [mkDiag, reportOf, isContainerDiag, containerContexts]
    | [e], h => simp only at h; cases h; exact list_elem e
    | _ :: _ :: _, h => simp only at h; cases h
  | map =>
    match g, h with
    | [], h => simp only at h; cases h; simp [mkDiag, reportOf, isContainerDiag, containerContexts]
    | [e], h => simp only at h; cases h
    | [k, v], h =>
      simp only at h; cases h
      constructor
      · simp only [List.map_append, (map_key k).1, (map_value v).1]; rfl
      · intro d hd
        rcases List.mem_append.mp hd with hd | hd
        · exact (map_key k).2 d hd
        · exact (map_value v).2 d hd
    | _ :: _ :: _ :: _, h => simp only at h; cases h
  | _ => simp only at h; cases h; simp

/-- the fold of `check_containers` over a list of nodes -/
theorem fold_containers (l : List Ty) (acc ds : List Diag)
    (h : l.foldl (fun (acc : Except String (List Diag)) t =>
      match acc with
      | .error e => .error e
      | .ok ds => match checkContainer t with
        | .ok d => .ok (ds ++ d)
        | .error e => .error e) (.ok acc) = .ok ds) :
    ∃ rest, ds = acc ++ rest ∧ rest.map reportOf = l.flatMap containerRule
      ∧ ∀ d ∈ rest, isContainerDiag d = true := by
  induction l generalizing acc with
  | nil =>
    simp only [List.foldl_nil] at h
    cases h
    exact ⟨[], by simp, rfl, by simp⟩
  | cons t ts ih =>
    simp only [List.foldl_cons] at h
    cases hc : checkContainer t with
    | error e =>
      rw [hc] at h
      simp only at h
      have : ∀ (l : List Ty), l.foldl (fun (acc : Except String (List Diag)) t =>
          match acc with
          | .error e => .error e
          | .ok ds => match checkContainer t with
            | .ok d => .ok (ds ++ d)
            | .error e => .error e) (.error e) = .error e := by
        intro l; induction l with
        | nil => rfl
        | cons x xs ihx => simpa using ihx
      rw [this] at h
      cases h
    | ok d =>
      rw [hc] at h
      simp only at h
      obtain ⟨rest, h1, h2, h3⟩ := ih (acc ++ d) h
      obtain ⟨hr, hcd⟩ := container_rule t d hc
      refine ⟨d ++ rest, by simp [h1], by simp [hr, h2], ?_⟩
      intro x hx
      rcases List.mem_append.mp hx with hx | hx
      · exact hcd x hx
      · exact h3 x hx

/-- **Every container node at any depth, in every position**: the diagnostics of
    `check_containers` are exactly the reports of the element rules over all type nodes -/
theorem checkContainers_eq (ast : AidlFile) (ds : List Diag) (h : checkContainers ast = .ok ds) :
    ds.map reportOf = spec ast ∧ ∀ d ∈ ds, isContainerDiag d = true := by
  unfold checkContainers at h
  rw [walkTypes_eq] at h
  obtain ⟨rest, h1, h2, h3⟩ := fold_containers (allTypesWalk ast) [] ds h
  simp only [List.nil_append] at h1
  subst h1
  exact ⟨h2, h3⟩

/-- no diagnostic pushed by another step carries one of the container context messages
    (decidable; evaluated by the harness on every case) -/
def Fresh (g : Groups) : Prop :=
  ∀ d ∈ g.syn ++ g.unknown ++ g.imports ++ g.decls ++ g.oneway ++ g.methods, isContainerDiag d = false

instance (g : Groups) : Decidable (Fresh g) := by unfold Fresh; infer_instance

theorem validateGroups_containers {ho : HashOrder} {defined : Defined} {syn : List Diag} {ast : AidlFile} {g : Groups}
    (hg : validateGroups ho defined syn ast = .ok g) :
    ∃ x, g.ast = (setUpOneway x).1 ∧ checkContainers x = .ok g.containers := by
  unfold validateGroups at hg
  simp only at hg
  split at hg
  · cases hg
  · rename_i d4 h4
    split at hg
    · cases hg
    · cases hg
      exact ⟨_, rfl, h4⟩

/-- **C08 for the model.** -/
theorem holds (ho : HashOrder) (defined : Defined) (fr out : FileResult)
    (h : validateFile ho defined fr = .ok out)
    (fresh : ∀ ast g, fr.ast = some ast → validateGroups ho defined fr.diags ast = .ok g → Fresh g) :
    holdsFile out = true := by
  unfold validateFile at h
  cases hast : fr.ast with
  | none =>
    simp only [hast] at h
    cases h
    simp [holdsFile, hast]
  | some ast =>
    simp only [hast] at h
    cases hg : validateGroups ho defined fr.diags ast with
    | error e => simp [hg] at h
    | ok g =>
      simp only [hg] at h
      cases h
      have hfresh := fresh ast g hast hg
      obtain ⟨x, hx, hcx⟩ := validateGroups_containers hg
      obtain ⟨hrep, hall⟩ := checkContainers_eq x g.containers hcx
      simp only [holdsFile, List.isPerm_iff]
      have hspec : spec g.ast = spec x := by
        unfold spec; rw [hx, allTypesWalk_setUpOneway]
      rw [hspec, ← hrep]
      apply List.Perm.map
      unfold sortDiags
      rw [stableSortBy_filter_comm]
      refine (stableSortBy_perm _ _).trans ?_
      unfold Groups.all
      simp only [List.filter_append]
      have hz : ∀ l : List Diag, (∀ d ∈ l, d ∈ g.syn ++ g.unknown ++ g.imports ++ g.decls ++ g.oneway ++ g.methods) →
          l.filter isContainerDiag = [] := by
        intro l hl
        apply List.filter_eq_nil_iff.mpr
        intro d hd
        simp [hfresh d (hl d hd)]
      rw [hz g.syn (by intro d hd; simp [hd]), hz g.unknown (by intro d hd; simp [hd]),
        hz g.imports (by intro d hd; simp [hd]), hz g.decls (by intro d hd; simp [hd]),
        hz g.oneway (by intro d hd; simp [hd]), hz g.methods (by intro d hd; simp [hd])]
      simp only [List.nil_append, List.append_nil]
      rw [List.filter_eq_self.mpr hall]

end Aidl.Props.C08
