import AidlVerif.Props.TypedCertDefs
namespace Aidl.Props.LrTyped
open Aidl Aidl.Props.Typed
set_option maxRecDepth 1000000 in
/-- every production hands its symbols' types to its action and receives its left-hand side's type -/
theorem tables_typed : tablesOk Driver.Parse.tables tt = true := by decide +kernel
end Aidl.Props.LrTyped
