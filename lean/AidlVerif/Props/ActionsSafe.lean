import AidlVerif.Props.LrInv
import AidlVerif.Lemmas.RunM

/-!
# Actions are safe: good arguments in, good value out, no `bounds` panic

`Safe env x P`: from every diagnostics state, `x` either returns a value satisfying `P` or stops with
a panic that is not of kind `bounds`.
-/

namespace Aidl.Props.ActionsSafe
open Aidl Aidl.Lr Aidl.Actions Aidl.Lexer Aidl.Javadoc
open Aidl.Props.LrInv Aidl.Props.JavadocTotal

variable (env : Env) (I : List Char)

def Safe {α} (x : M α) (P : α → Prop) : Prop :=
  ∀ ds, DiagsLc env ds → match (x.run env).run ds with
    | .ok (a, ds') => P a ∧ DiagsLc env ds'
    | .error p => p.kind ≠ .bounds

theorem Safe.pure {α} {P : α → Prop} (a : α) (h : P a) : Safe env (pure a : M α) P := fun _ hd => ⟨h, hd⟩

theorem Safe.bad {α} {P : α → Prop} (k : PanicKind) (m : String) (h : k ≠ .bounds) : Safe env (bad k m : M α) P :=
  fun _ _ => h

theorem Safe.bind {α β} {P : α → Prop} {Q : β → Prop} {x : M α} {f : α → M β}
    (hx : Safe env x P) (hf : ∀ a, P a → Safe env (f a) Q) : Safe env (x >>= f) Q := by
  intro ds hd
  have h1 := hx ds hd
  show match ((x >>= f).run env).run ds with | .ok (a, ds') => Q a ∧ DiagsLc env ds' | .error p => p.kind ≠ .bounds
  simp only [ReaderT.run_bind, StateT.run_bind]
  cases hr : (x.run env).run ds with
  | error p => rw [hr] at h1; exact h1
  | ok r =>
    obtain ⟨a, ds'⟩ := r
    rw [hr] at h1
    exact hf a h1.1 ds' h1.2

theorem Safe.mono {α} {P Q : α → Prop} {x : M α} (hx : Safe env x P) (h : ∀ a, P a → Q a) : Safe env x Q := by
  intro ds hd
  have := hx ds hd
  revert this
  cases (x.run env).run ds with
  | error p => exact id
  | ok r => exact fun hh => ⟨h r.1 hh.1, hh.2⟩

theorem Safe.map {α β} {P : α → Prop} {Q : β → Prop} {x : M α} {g : α → β}
    (hx : Safe env x P) (h : ∀ a, P a → Q (g a)) : Safe env (g <$> x) Q := by
  have : g <$> x = x >>= fun a => Pure.pure (g a) := by rfl
  rw [this]
  exact Safe.bind env hx (fun a ha => Safe.pure env _ (h a ha))

theorem Safe.pushDiag (d : Diag) (hd : DiagLc env d) : Safe env (pushDiag d) (fun _ => True) := by
  intro ds hds
  refine ⟨trivial, ?_⟩
  intro x hx
  rcases List.mem_append.mp hx with h | h
  · exact hds x h
  · simp only [List.mem_cons, List.mem_nil_iff, or_false] at h; rw [h]; exact hd

theorem Safe.mapM {α β} {P : β → Prop} (f : α → M β) :
    ∀ (l : List α), (∀ a ∈ l, Safe env (f a) P) → Safe env (l.mapM f) (fun r => ∀ b ∈ r, P b) := by
  intro l
  induction l with
  | nil => intro _; rw [List.mapM_nil]; exact Safe.pure env _ (by intro b hb; cases hb)
  | cons a l ih =>
    intro h
    rw [List.mapM_cons]
    refine Safe.bind env (h a (List.mem_cons_self ..)) ?_
    intro b hb
    refine Safe.bind env (ih (fun a' ha' => h a' (List.mem_cons_of_mem _ ha'))) ?_
    intro bs hbs
    refine Safe.pure env _ ?_
    intro x hx
    rcases List.mem_cons.mp hx with rfl | hx
    · exact hb
    · exact hbs x hx

/-! ### the primitives -/

variable {env I}

theorem safe_mkPos (hE : EnvOk env I) {n : Nat} (h : Bd I n) : Safe env (mkPos n) (PosGood env I) := by
  intro ds hd
  have := hE.lineCol n h
  have he := Aidl.Props.PL.mkPos_eq env ds n
  unfold Aidl.Props.PL.runM at he
  rw [he]
  cases hl : env.lineCol n with
  | none => rw [hl] at this; cases this
  | some lc => exact ⟨⟨h, hl⟩, hd⟩

theorem safe_mkRange (hE : EnvOk env I) {a b : Nat} (ha : Bd I a) (hb : Bd I b) :
    Safe env (mkRange a b) (RangeGood env I) := by
  unfold mkRange
  refine Safe.bind env (safe_mkPos hE ha) (fun _ h1 => ?_)
  refine Safe.bind env (safe_mkPos hE hb) (fun _ h2 => ?_)
  exact Safe.pure env _ ⟨h1, h2⟩

theorem safe_getJavadoc (hE : EnvOk env I) {n : Nat} (h : Bd I n) : Safe env (Actions.getJavadoc n) (fun _ => True) := by
  intro ds hds
  obtain ⟨pre, post, h1, h2⟩ := h
  obtain ⟨r, hr⟩ := javadoc_no_panic I n ⟨pre, post, h1, h2⟩
  unfold Actions.getJavadoc
  refine Safe.bind env (P := fun e => e = env) (fun ds' hd => show (env = env ∧ DiagsLc env ds') from ⟨rfl, hd⟩) (fun e he => ?_) ds hds
  subst he
  rw [hE.text, hr]
  exact Safe.pure e _ trivial

theorem diagLc_mk {r : Range} (h : RangeGood env I r) (k : DiagKind) (m : String) (c hh : Option String)
    (hc : synCtx c = true := by decide) :
    DiagLc env { kind := k, range := r, message := m, context := c, hint := hh, related := [] } :=
  ⟨h.lc, (by intro ri hri; cases hri), hc⟩

def GoodArgs (env : Env) (I : List Char) (args : List ArgV) : Prop := ∀ a ∈ args, GoodArg env I a

theorem safe_nth {args : List ArgV} (h : GoodArgs env I args) (i : Nat) : Safe env (nth args i) (GoodVal env I) := by
  unfold nth
  cases hi : args[i]? with
  | none => exact Safe.bad env _ _ (by decide)
  | some a =>
    have ha := h a (List.mem_of_getElem? hi)
    cases a with
    | triple s v e => exact Safe.pure env _ ha.2.1
    | locRef n => exact Safe.pure env _ ha

theorem safe_asLoc {v : Val} (h : GoodVal env I v) : Safe env (asLoc v) (Bd I) := by
  cases v <;> first | exact Safe.bad env _ _ (by decide) | exact Safe.pure env _ (by simpa [GoodVal] using h)

theorem safe_locAt {args : List ArgV} (h : GoodArgs env I args) (i : Nat) : Safe env (locAt args i) (Bd I) := by
  unfold locAt
  exact Safe.bind env (safe_nth h i) (fun v hv => safe_asLoc hv)

theorem safe_asTok (v : Val) : Safe env (asTok v) (fun _ => True) := by
  cases v <;> first | exact Safe.bad env _ _ (by decide) | exact Safe.pure env _ trivial
theorem safe_asStr (v : Val) : Safe env (asStr v) (fun _ => True) := by
  cases v <;> first | exact Safe.bad env _ _ (by decide) | exact Safe.pure env _ trivial
theorem safe_asTy {v : Val} (h : GoodVal env I v) : Safe env (asTy v) (TyGood env I) := by
  cases v <;> first | exact Safe.bad env _ _ (by decide) | exact Safe.pure env _ (by simpa [GoodVal] using h)
theorem safe_asPackageV {v : Val} (h : GoodVal env I v) : Safe env (asPackageV v) (PackageGood env I) := by
  cases v <;> first | exact Safe.bad env _ _ (by decide) | exact Safe.pure env _ (by simpa [GoodVal] using h)
theorem safe_asImportV {v : Val} (h : GoodVal env I v) : Safe env (asImportV v) (ImportGood env I) := by
  cases v <;> first | exact Safe.bad env _ _ (by decide) | exact Safe.pure env _ (by simpa [GoodVal] using h)
theorem safe_asItemV {v : Val} (h : GoodVal env I v) : Safe env (asItemV v) (ItemGood env I) := by
  cases v <;> first | exact Safe.bad env _ _ (by decide) | exact Safe.pure env _ (by simpa [GoodVal] using h)
theorem safe_asIfaceV {v : Val} (h : GoodVal env I v) : Safe env (asIfaceV v) (IfaceGood env I) := by
  cases v <;> first | exact Safe.bad env _ _ (by decide) | exact Safe.pure env _ (by simpa [GoodVal] using h)
theorem safe_asParcV {v : Val} (h : GoodVal env I v) : Safe env (asParcV v) (ParcGood env I) := by
  cases v <;> first | exact Safe.bad env _ _ (by decide) | exact Safe.pure env _ (by simpa [GoodVal] using h)
theorem safe_asEnmV {v : Val} (h : GoodVal env I v) : Safe env (asEnmV v) (EnmGood env I) := by
  cases v <;> first | exact Safe.bad env _ _ (by decide) | exact Safe.pure env _ (by simpa [GoodVal] using h)
theorem safe_asMethodV {v : Val} (h : GoodVal env I v) : Safe env (asMethodV v) (MethodGood env I) := by
  cases v <;> first | exact Safe.bad env _ _ (by decide) | exact Safe.pure env _ (by simpa [GoodVal] using h)
theorem safe_asConstV {v : Val} (h : GoodVal env I v) : Safe env (asConstV v) (ConstGood env I) := by
  cases v <;> first | exact Safe.bad env _ _ (by decide) | exact Safe.pure env _ (by simpa [GoodVal] using h)
theorem safe_asFieldV {v : Val} (h : GoodVal env I v) : Safe env (asFieldV v) (FieldGood env I) := by
  cases v <;> first | exact Safe.bad env _ _ (by decide) | exact Safe.pure env _ (by simpa [GoodVal] using h)
theorem safe_asEnumElV {v : Val} (h : GoodVal env I v) : Safe env (asEnumElV v) (EnumElGood env I) := by
  cases v <;> first | exact Safe.bad env _ _ (by decide) | exact Safe.pure env _ (by simpa [GoodVal] using h)
theorem safe_asDirV {v : Val} (h : GoodVal env I v) : Safe env (asDirV v) (DirGood env I) := by
  cases v <;> first | exact Safe.bad env _ _ (by decide) | exact Safe.pure env _ (by simpa [GoodVal] using h)
theorem safe_asStrPairV (v : Val) : Safe env (asStrPairV v) (fun _ => True) := by
  unfold asStrPairV
  split <;> first | exact Safe.bad env _ _ (by decide) | exact Safe.pure env _ trivial
theorem safe_asAnnParamV (v : Val) : Safe env (asAnnParamV v) (fun _ => True) := by
  unfold asAnnParamV
  split <;> first | exact Safe.bad env _ _ (by decide) | exact Safe.pure env _ trivial
theorem safe_asLocTokV {v : Val} (h : GoodVal env I v) : Safe env (asLocTokV v) (fun ls => Bd I ls.1) := by
  unfold asLocTokV
  split
  · exact Safe.pure env _ (by simp only [GoodVal] at h; exact h.1)
  · exact Safe.bad env _ _ (by decide)
theorem safe_asArgV {v : Val} (h : GoodVal env I v) : Safe env (asArgV v) (ArgGood env I) := by
  cases v <;> first | exact Safe.bad env _ _ (by decide) | exact Safe.pure env _ (by simpa [GoodVal] using h)
theorem safe_asIelV {v : Val} (h : GoodVal env I v) : Safe env (asIelV v) (IelGood env I) := by
  cases v <;> first | exact Safe.bad env _ _ (by decide) | exact Safe.pure env _ (by simpa [GoodVal] using h)
theorem safe_asPelV {v : Val} (h : GoodVal env I v) : Safe env (asPelV v) (PelGood env I) := by
  cases v <;> first | exact Safe.bad env _ _ (by decide) | exact Safe.pure env _ (by simpa [GoodVal] using h)

theorem safe_mapM_asArgV {l : List Val} (h : ∀ x ∈ l, GoodVal env I x) :
    Safe env (l.mapM asArgV) (fun r => ∀ a ∈ r, ArgGood env I a) :=
  Safe.mapM env _ l (fun a ha => safe_asArgV (h a ha))
theorem safe_mapM_asIelV {l : List Val} (h : ∀ x ∈ l, GoodVal env I x) :
    Safe env (l.mapM asIelV) (fun r => ∀ a ∈ r, IelGood env I a) :=
  Safe.mapM env _ l (fun a ha => safe_asIelV (h a ha))
theorem safe_mapM_asPelV {l : List Val} (h : ∀ x ∈ l, GoodVal env I x) :
    Safe env (l.mapM asPelV) (fun r => ∀ a ∈ r, PelGood env I a) :=
  Safe.mapM env _ l (fun a ha => safe_asPelV (h a ha))
theorem safe_mapM_asEnumElV {l : List Val} (h : ∀ x ∈ l, GoodVal env I x) :
    Safe env (l.mapM asEnumElV) (fun r => ∀ a ∈ r, EnumElGood env I a) :=
  Safe.mapM env _ l (fun a ha => safe_asEnumElV (h a ha))
theorem safe_mapM_asImportV {l : List Val} (h : ∀ x ∈ l, GoodVal env I x) :
    Safe env (l.mapM asImportV) (fun r => ∀ a ∈ r, ImportGood env I a) :=
  Safe.mapM env _ l (fun a ha => safe_asImportV (h a ha))

theorem goodVals_iff (l : List Val) : GoodVals env I l ↔ ∀ x ∈ l, GoodVal env I x := by
  induction l with
  | nil => simp [GoodVals]
  | cons v vs ih => simp [GoodVals, ih]

theorem safe_asList {v : Val} (h : GoodVal env I v) : Safe env (asList v) (fun l => ∀ x ∈ l, GoodVal env I x) := by
  cases v <;> first | exact Safe.bad env _ _ (by decide) | skip
  rename_i l
  exact Safe.pure env _ ((goodVals_iff l).mp (by simpa [GoodVal] using h))

theorem safe_asOpt {v : Val} (h : GoodVal env I v) : Safe env (asOpt v) (fun o => ∀ x, o = some x → GoodVal env I x) := by
  cases v <;> first | exact Safe.bad env _ _ (by decide) | skip
  · exact Safe.pure env _ (by intro x hx; cases hx)
  · exact Safe.pure env _ (by intro x hx; cases hx; simpa [GoodVal] using h)

theorem safe_tokAt {args : List ArgV} (h : GoodArgs env I args) (i : Nat) : Safe env (tokAt args i) (fun _ => True) := by
  unfold tokAt
  exact Safe.bind env (safe_nth h i) (fun v _ => safe_asTok v)

theorem safe_asAnns {v : Val} (h : GoodVal env I v) : Safe env (asAnns v) (fun _ => True) := by
  unfold asAnns
  refine Safe.bind env (safe_asList h) (fun l _ => ?_)
  refine Safe.mono env (Safe.mapM env (P := fun _ => True) _ l ?_) (fun _ _ => trivial)
  intro a _
  cases a <;> first | exact Safe.bad env _ _ (by decide) | exact Safe.pure env _ trivial

theorem safe_optTokStr {v : Val} (h : GoodVal env I v) : Safe env (optTokStr v) (fun _ => True) := by
  unfold optTokStr
  refine Safe.bind env (safe_asOpt h) (fun o _ => ?_)
  cases o with
  | none => exact Safe.pure env _ trivial
  | some t => exact Safe.map env (safe_asTok t) (fun _ _ => trivial)

theorem safe_joinToks {v : Val} (h : GoodVal env I v) : Safe env (joinToks v) (fun _ => True) := by
  unfold joinToks
  refine Safe.bind env (safe_asList h) (fun l _ => ?_)
  refine Safe.bind env (Safe.mapM env (P := fun _ => True) _ l (fun a _ => safe_asTok a)) (fun _ _ => ?_)
  exact Safe.pure env _ trivial

theorem safe_flattenOpts {v : Val} (h : GoodVal env I v) : Safe env (flattenOpts v) (fun l => ∀ x ∈ l, GoodVal env I x) := by
  unfold flattenOpts
  refine Safe.bind env (safe_asList h) (fun l hl => ?_)
  refine Safe.bind env (P := fun os => ∀ o ∈ os, ∀ x, o = some x → GoodVal env I x) ?_ (fun os hos => ?_)
  · -- mapM asOpt
    have : ∀ (l : List Val), (∀ x ∈ l, GoodVal env I x) →
        Safe env (l.mapM asOpt) (fun os => ∀ o ∈ os, ∀ x, o = some x → GoodVal env I x) := by
      intro l
      induction l with
      | nil => intro _; rw [List.mapM_nil]; exact Safe.pure env _ (by intro o ho; cases ho)
      | cons a l ih =>
        intro h
        rw [List.mapM_cons]
        refine Safe.bind env (safe_asOpt (h a (List.mem_cons_self ..))) (fun o ho => ?_)
        refine Safe.bind env (ih (fun x hx => h x (List.mem_cons_of_mem _ hx))) (fun os hos => ?_)
        refine Safe.pure env _ ?_
        intro o' ho'
        rcases List.mem_cons.mp ho' with rfl | ho'
        · exact ho
        · exact hos o' ho'
    exact this l hl
  · refine Safe.pure env _ ?_
    intro x hx
    obtain ⟨o, ho, hox⟩ := List.mem_filterMap.mp hx
    exact hos o ho x hox

theorem safe_simpleType (hE : EnvOk env I) (name : String) (k : TypeKind) {a b : Nat} (ha : Bd I a) (hb : Bd I b) :
    Safe env (simpleType name k a b) (GoodVal env I) := by
  unfold simpleType
  refine Safe.bind env (safe_mkRange hE ha hb) (fun _ hr => ?_)
  exact Safe.pure env _ ⟨hr, hr, trivial⟩


/-! ### every hand-written action (one lemma per label, all by the same tactic) -/

theorem safe_bind_pure {env : Env} {α β} {Q : β → Prop} {a : α} {f : α → M β}
    (h : Safe env (f a) Q) : Safe env (pure a >>= f) Q :=
  Safe.bind env (Safe.pure env (P := fun x => x = a) a rfl) (fun x hx => by subst hx; exact h)

theorem safe_bind_bad {env : Env} {α β} {Q : β → Prop} {k : PanicKind} {m : String} {f : α → M β}
    (h : k ≠ .bounds) : Safe env (bad k m >>= f) Q :=
  Safe.bind env (Safe.bad env (P := fun _ => False) k m h) (fun _ hf => hf.elim)

theorem safe_recoveryAction {env : Env} {I : List Char} (hE : EnvOk env I) (msg : String) {args : List ArgV}
    (h : GoodArgs env I args) : Safe env (recoveryAction msg args) (GoodVal env I) := by
  unfold recoveryAction
  refine Safe.bind _ (safe_nth h 0) (fun v hv => ?_)
  cases v <;> first | exact Safe.bad _ _ _ (by decide) | skip
  rename_i e d
  have he : GoodErr I e := by simp only [GoodVal] at hv; exact hv.1
  have hfe : Safe env (fromParseError e) (DiagLc env) := by
    unfold fromParseError
    cases e with
    | invalidToken l =>
      exact Safe.bind _ (safe_mkRange hE he he) (fun _ hr => Safe.pure _ _ (diagLc_mk hr _ _ _ _))
    | unrecognizedEof l ex =>
      exact Safe.bind _ (safe_mkRange hE he he) (fun _ hr => Safe.pure _ _ (diagLc_mk hr _ _ _ _))
    | unrecognizedToken t ex =>
      exact Safe.bind _ (safe_mkRange hE he.1 he.2) (fun _ hr => Safe.pure _ _ (diagLc_mk hr _ _ _ _))
    | extraToken t =>
      exact Safe.bind _ (safe_mkRange hE he.1 he.2) (fun _ hr => Safe.pure _ _ (diagLc_mk hr _ _ _ _))
  refine Safe.bind _ (P := DiagLc env) ?_ (fun d hd => ?_)
  · unfold fromErrorRecovery
    exact Safe.bind _ hfe (fun d hd => Safe.pure _ _ hd)
  · exact Safe.bind _ (Safe.pushDiag _ _ hd) (fun _ _ => Safe.pure _ _ trivial)

theorem bd_of_pair {I : List Char} {ip : Nat} {s : String}
    (h : ∀ x, some ((Val.loc ip).pair (Val.tok s)) = some x → GoodVal env I x) : Bd I ip := by
  have := h _ rfl
  simp only [GoodVal] at this
  exact this.1

macro "goodval" : tactic => `(tactic| first
  | trivial
  | assumption
  | exact bd_of_pair (by assumption)
  | solve_by_elim
  | (simp only [GoodVal, GoodVals, goodVals_iff, and_true, true_and]; first | trivial | assumption | (intros; simp_all))
  | (simp only [GoodVal, GoodVals, goodVals_iff, TyGood, TysGood, DirGood, ArgGood, MethodGood, ConstGood, FieldGood, EnumElGood,
       IelGood, PelGood, IfaceGood, ParcGood, EnmGood, ItemGood, PackageGood, ImportGood, AidlGood, and_true, true_and];
     first | trivial | assumption | (intros; simp_all) | grind))

macro "sstep" : tactic => `(tactic| first
  | with_reducible refine Safe.bind _ (safe_locAt (by assumption) _) (fun _ _ => ?_)
  | with_reducible refine Safe.bind _ (safe_tokAt (by assumption) _) (fun _ _ => ?_)
  | with_reducible refine Safe.bind _ (safe_nth (by assumption) _) (fun _ _ => ?_)
  | with_reducible refine Safe.bind _ (safe_mkRange (by assumption) (by with_unfolding_all goodval) (by with_unfolding_all goodval)) (fun _ _ => ?_)
  | with_reducible refine Safe.bind _ (safe_getJavadoc (by assumption) (by assumption)) (fun _ _ => ?_)
  | with_reducible refine Safe.bind _ (safe_asLoc (by with_unfolding_all goodval)) (fun _ _ => ?_)
  | with_reducible refine Safe.bind _ (safe_asTok _) (fun _ _ => ?_)
  | with_reducible refine Safe.bind _ (safe_asStr _) (fun _ _ => ?_)
  | with_reducible refine Safe.bind _ (safe_asTy (by with_unfolding_all goodval)) (fun _ _ => ?_)
  | with_reducible refine Safe.bind _ (safe_asList (by with_unfolding_all goodval)) (fun _ _ => ?_)
  | with_reducible refine Safe.bind _ (safe_asOpt (by with_unfolding_all goodval)) (fun _ _ => ?_)
  | with_reducible refine Safe.bind _ (safe_asAnns (by with_unfolding_all goodval)) (fun _ _ => ?_)
  | with_reducible refine Safe.bind _ (safe_optTokStr (by with_unfolding_all goodval)) (fun _ _ => ?_)
  | with_reducible refine Safe.bind _ (safe_joinToks (by with_unfolding_all goodval)) (fun _ _ => ?_)
  | with_reducible refine Safe.bind _ (safe_flattenOpts (by with_unfolding_all goodval)) (fun _ _ => ?_)
  | with_reducible refine Safe.bind _ (Safe.pushDiag _ _ (diagLc_mk (by assumption) _ _ _ _)) (fun _ _ => ?_)
  | with_reducible refine safe_bind_pure ?_
  | (with_reducible refine safe_bind_bad ?_) <;> decide
  | with_reducible refine Safe.bind _ (Safe.map _ (safe_asStr _) (fun _ _ => trivial) (Q := fun _ => True)) (fun _ _ => ?_)
  | with_reducible refine Safe.bind _ (Safe.map _ (safe_asTok _) (fun _ _ => trivial) (Q := fun _ => True)) (fun _ _ => ?_)
  | with_reducible refine Safe.bind _ (safe_mapM_asArgV (by assumption)) (fun _ _ => ?_)
  | with_reducible refine Safe.bind _ (safe_mapM_asIelV (by assumption)) (fun _ _ => ?_)
  | with_reducible refine Safe.bind _ (safe_mapM_asPelV (by assumption)) (fun _ _ => ?_)
  | with_reducible refine Safe.bind _ (safe_mapM_asEnumElV (by assumption)) (fun _ _ => ?_)
  | with_reducible refine Safe.bind _ (safe_mapM_asImportV (by assumption)) (fun _ _ => ?_)
  | with_reducible refine Safe.bind _ (Safe.mapM _ (P := fun _ => True) _ _ (fun _ _ => ?_)) (fun _ _ => ?_)
  | with_reducible exact safe_simpleType (by assumption) _ _ (by assumption) (by assumption)
  | with_reducible refine Safe.bind _ (safe_asPackageV (by with_unfolding_all goodval)) (fun _ _ => ?_)
  | with_reducible refine Safe.bind _ (safe_asImportV (by with_unfolding_all goodval)) (fun _ _ => ?_)
  | with_reducible refine Safe.bind _ (safe_asItemV (by with_unfolding_all goodval)) (fun _ _ => ?_)
  | with_reducible refine Safe.bind _ (safe_asIfaceV (by with_unfolding_all goodval)) (fun _ _ => ?_)
  | with_reducible refine Safe.bind _ (safe_asParcV (by with_unfolding_all goodval)) (fun _ _ => ?_)
  | with_reducible refine Safe.bind _ (safe_asEnmV (by with_unfolding_all goodval)) (fun _ _ => ?_)
  | with_reducible refine Safe.bind _ (safe_asMethodV (by with_unfolding_all goodval)) (fun _ _ => ?_)
  | with_reducible refine Safe.bind _ (safe_asConstV (by with_unfolding_all goodval)) (fun _ _ => ?_)
  | with_reducible refine Safe.bind _ (safe_asFieldV (by with_unfolding_all goodval)) (fun _ _ => ?_)
  | with_reducible refine Safe.bind _ (safe_asEnumElV (by with_unfolding_all goodval)) (fun _ _ => ?_)
  | with_reducible refine Safe.bind _ (safe_asDirV (by with_unfolding_all goodval)) (fun _ _ => ?_)
  | with_reducible exact safe_asStrPairV _
  | with_reducible refine Safe.bind _ (safe_asStrPairV _) (fun _ _ => ?_)
  | with_reducible exact safe_asAnnParamV _
  | with_reducible refine Safe.bind _ (safe_asAnnParamV _) (fun _ _ => ?_)
  | with_reducible refine Safe.bind _ (safe_asLocTokV (by with_unfolding_all goodval)) (fun _ _ => ?_)
  | with_reducible exact safe_recoveryAction (by assumption) _ (by assumption)
  | with_reducible refine Safe.pure _ _ ?_
  | (with_reducible refine Safe.bad _ _ _ ?_) <;> decide)

macro "sauto" : tactic => `(tactic| (repeat (any_goals (first | sstep | split))) <;> (try goodval))


set_option maxRecDepth 10000 in
theorem act_16 (env : Env) (I : List Char) (hE : EnvOk env I) (args : List ArgV) (h : GoodArgs env I args) :
    Safe env (userAction 16 args) (GoodVal env I) := by
  unfold userAction
  simp only []
  sauto

set_option maxRecDepth 10000 in
theorem act_17 (env : Env) (I : List Char) (hE : EnvOk env I) (args : List ArgV) (h : GoodArgs env I args) :
    Safe env (userAction 17 args) (GoodVal env I) := by
  unfold userAction
  simp only []
  sauto

set_option maxRecDepth 10000 in
theorem act_18 (env : Env) (I : List Char) (hE : EnvOk env I) (args : List ArgV) (h : GoodArgs env I args) :
    Safe env (userAction 18 args) (GoodVal env I) := by
  unfold userAction
  simp only []
  sauto

set_option maxRecDepth 10000 in
theorem act_19 (env : Env) (I : List Char) (hE : EnvOk env I) (args : List ArgV) (h : GoodArgs env I args) :
    Safe env (userAction 19 args) (GoodVal env I) := by
  unfold userAction
  simp only []
  sauto

set_option maxRecDepth 10000 in
theorem act_20 (env : Env) (I : List Char) (hE : EnvOk env I) (args : List ArgV) (h : GoodArgs env I args) :
    Safe env (userAction 20 args) (GoodVal env I) := by
  unfold userAction
  simp only []
  sauto

set_option maxRecDepth 10000 in
theorem act_21 (env : Env) (I : List Char) (hE : EnvOk env I) (args : List ArgV) (h : GoodArgs env I args) :
    Safe env (userAction 21 args) (GoodVal env I) := by
  unfold userAction
  simp only []
  sauto

set_option maxRecDepth 10000 in
theorem act_22 (env : Env) (I : List Char) (hE : EnvOk env I) (args : List ArgV) (h : GoodArgs env I args) :
    Safe env (userAction 22 args) (GoodVal env I) := by
  unfold userAction
  simp only []
  sauto

set_option maxRecDepth 10000 in
theorem act_23 (env : Env) (I : List Char) (hE : EnvOk env I) (args : List ArgV) (h : GoodArgs env I args) :
    Safe env (userAction 23 args) (GoodVal env I) := by
  unfold userAction
  simp only []
  sauto

set_option maxRecDepth 10000 in
theorem act_24 (env : Env) (I : List Char) (hE : EnvOk env I) (args : List ArgV) (h : GoodArgs env I args) :
    Safe env (userAction 24 args) (GoodVal env I) := by
  unfold userAction
  simp only []
  sauto

set_option maxRecDepth 10000 in
theorem act_25 (env : Env) (I : List Char) (hE : EnvOk env I) (args : List ArgV) (h : GoodArgs env I args) :
    Safe env (userAction 25 args) (GoodVal env I) := by
  unfold userAction
  simp only []
  sauto

set_option maxRecDepth 10000 in
theorem act_26 (env : Env) (I : List Char) (hE : EnvOk env I) (args : List ArgV) (h : GoodArgs env I args) :
    Safe env (userAction 26 args) (GoodVal env I) := by
  unfold userAction
  simp only []
  sauto

set_option maxRecDepth 10000 in
theorem act_27 (env : Env) (I : List Char) (hE : EnvOk env I) (args : List ArgV) (h : GoodArgs env I args) :
    Safe env (userAction 27 args) (GoodVal env I) := by
  unfold userAction
  simp only []
  sauto

set_option maxRecDepth 10000 in
theorem act_28 (env : Env) (I : List Char) (hE : EnvOk env I) (args : List ArgV) (h : GoodArgs env I args) :
    Safe env (userAction 28 args) (GoodVal env I) := by
  unfold userAction
  simp only []
  sauto

set_option maxRecDepth 10000 in
theorem act_29 (env : Env) (I : List Char) (hE : EnvOk env I) (args : List ArgV) (h : GoodArgs env I args) :
    Safe env (userAction 29 args) (GoodVal env I) := by
  unfold userAction
  simp only []
  sauto

set_option maxRecDepth 10000 in
theorem act_30 (env : Env) (I : List Char) (hE : EnvOk env I) (args : List ArgV) (h : GoodArgs env I args) :
    Safe env (userAction 30 args) (GoodVal env I) := by
  unfold userAction
  simp only []
  sauto

set_option maxRecDepth 10000 in
theorem act_31 (env : Env) (I : List Char) (hE : EnvOk env I) (args : List ArgV) (h : GoodArgs env I args) :
    Safe env (userAction 31 args) (GoodVal env I) := by
  unfold userAction
  simp only []
  sauto

set_option maxRecDepth 10000 in
theorem act_32 (env : Env) (I : List Char) (hE : EnvOk env I) (args : List ArgV) (h : GoodArgs env I args) :
    Safe env (userAction 32 args) (GoodVal env I) := by
  unfold userAction
  simp only []
  sauto

set_option maxRecDepth 10000 in
theorem act_33 (env : Env) (I : List Char) (hE : EnvOk env I) (args : List ArgV) (h : GoodArgs env I args) :
    Safe env (userAction 33 args) (GoodVal env I) := by
  unfold userAction
  simp only []
  sauto

set_option maxRecDepth 10000 in
theorem act_34 (env : Env) (I : List Char) (hE : EnvOk env I) (args : List ArgV) (h : GoodArgs env I args) :
    Safe env (userAction 34 args) (GoodVal env I) := by
  unfold userAction
  simp only []
  sauto

set_option maxRecDepth 10000 in
theorem act_35 (env : Env) (I : List Char) (hE : EnvOk env I) (args : List ArgV) (h : GoodArgs env I args) :
    Safe env (userAction 35 args) (GoodVal env I) := by
  unfold userAction
  simp only []
  sauto

set_option maxHeartbeats 4000000 in
set_option maxRecDepth 10000 in
theorem act_36 (env : Env) (I : List Char) (hE : EnvOk env I) (args : List ArgV) (h : GoodArgs env I args) :
    Safe env (userAction 36 args) (GoodVal env I) := by
  unfold userAction
  simp only []
  sauto

set_option maxRecDepth 10000 in
theorem act_37 (env : Env) (I : List Char) (hE : EnvOk env I) (args : List ArgV) (h : GoodArgs env I args) :
    Safe env (userAction 37 args) (GoodVal env I) := by
  unfold userAction
  simp only []
  sauto

set_option maxRecDepth 10000 in
theorem act_38 (env : Env) (I : List Char) (hE : EnvOk env I) (args : List ArgV) (h : GoodArgs env I args) :
    Safe env (userAction 38 args) (GoodVal env I) := by
  unfold userAction
  simp only []
  sauto

set_option maxRecDepth 10000 in
theorem act_39 (env : Env) (I : List Char) (hE : EnvOk env I) (args : List ArgV) (h : GoodArgs env I args) :
    Safe env (userAction 39 args) (GoodVal env I) := by
  unfold userAction
  simp only []
  sauto

set_option maxRecDepth 10000 in
theorem act_40 (env : Env) (I : List Char) (hE : EnvOk env I) (args : List ArgV) (h : GoodArgs env I args) :
    Safe env (userAction 40 args) (GoodVal env I) := by
  unfold userAction
  simp only []
  sauto

set_option maxRecDepth 10000 in
theorem act_41 (env : Env) (I : List Char) (hE : EnvOk env I) (args : List ArgV) (h : GoodArgs env I args) :
    Safe env (userAction 41 args) (GoodVal env I) := by
  unfold userAction
  simp only []
  sauto

set_option maxRecDepth 10000 in
theorem act_50 (env : Env) (I : List Char) (hE : EnvOk env I) (args : List ArgV) (h : GoodArgs env I args) :
    Safe env (userAction 50 args) (GoodVal env I) := by
  unfold userAction
  simp only []
  sauto

set_option maxRecDepth 10000 in
theorem act_51 (env : Env) (I : List Char) (hE : EnvOk env I) (args : List ArgV) (h : GoodArgs env I args) :
    Safe env (userAction 51 args) (GoodVal env I) := by
  unfold userAction
  simp only []
  sauto

set_option maxRecDepth 10000 in
theorem act_52 (env : Env) (I : List Char) (hE : EnvOk env I) (args : List ArgV) (h : GoodArgs env I args) :
    Safe env (userAction 52 args) (GoodVal env I) := by
  unfold userAction
  simp only []
  sauto

set_option maxRecDepth 10000 in
theorem act_53 (env : Env) (I : List Char) (hE : EnvOk env I) (args : List ArgV) (h : GoodArgs env I args) :
    Safe env (userAction 53 args) (GoodVal env I) := by
  unfold userAction
  simp only []
  sauto

set_option maxRecDepth 10000 in
theorem act_54 (env : Env) (I : List Char) (hE : EnvOk env I) (args : List ArgV) (h : GoodArgs env I args) :
    Safe env (userAction 54 args) (GoodVal env I) := by
  unfold userAction
  simp only []
  sauto

set_option maxRecDepth 10000 in
theorem act_55 (env : Env) (I : List Char) (hE : EnvOk env I) (args : List ArgV) (h : GoodArgs env I args) :
    Safe env (userAction 55 args) (GoodVal env I) := by
  unfold userAction
  simp only []
  sauto

set_option maxRecDepth 10000 in
theorem act_56 (env : Env) (I : List Char) (hE : EnvOk env I) (args : List ArgV) (h : GoodArgs env I args) :
    Safe env (userAction 56 args) (GoodVal env I) := by
  unfold userAction
  simp only []
  sauto

set_option maxRecDepth 10000 in
theorem act_57 (env : Env) (I : List Char) (hE : EnvOk env I) (args : List ArgV) (h : GoodArgs env I args) :
    Safe env (userAction 57 args) (GoodVal env I) := by
  unfold userAction
  simp only []
  sauto

set_option maxRecDepth 10000 in
theorem act_58 (env : Env) (I : List Char) (hE : EnvOk env I) (args : List ArgV) (h : GoodArgs env I args) :
    Safe env (userAction 58 args) (GoodVal env I) := by
  unfold userAction
  simp only []
  sauto

set_option maxRecDepth 10000 in
theorem act_59 (env : Env) (I : List Char) (hE : EnvOk env I) (args : List ArgV) (h : GoodArgs env I args) :
    Safe env (userAction 59 args) (GoodVal env I) := by
  unfold userAction
  simp only []
  sauto

set_option maxRecDepth 10000 in
theorem act_60 (env : Env) (I : List Char) (hE : EnvOk env I) (args : List ArgV) (h : GoodArgs env I args) :
    Safe env (userAction 60 args) (GoodVal env I) := by
  unfold userAction
  simp only []
  sauto

set_option maxRecDepth 10000 in
theorem act_61 (env : Env) (I : List Char) (hE : EnvOk env I) (args : List ArgV) (h : GoodArgs env I args) :
    Safe env (userAction 61 args) (GoodVal env I) := by
  unfold userAction
  simp only []
  sauto

set_option maxRecDepth 10000 in
theorem act_62 (env : Env) (I : List Char) (hE : EnvOk env I) (args : List ArgV) (h : GoodArgs env I args) :
    Safe env (userAction 62 args) (GoodVal env I) := by
  unfold userAction
  simp only []
  sauto

set_option maxRecDepth 10000 in
theorem act_63 (env : Env) (I : List Char) (hE : EnvOk env I) (args : List ArgV) (h : GoodArgs env I args) :
    Safe env (userAction 63 args) (GoodVal env I) := by
  unfold userAction
  simp only []
  sauto

set_option maxRecDepth 10000 in
theorem act_64 (env : Env) (I : List Char) (hE : EnvOk env I) (args : List ArgV) (h : GoodArgs env I args) :
    Safe env (userAction 64 args) (GoodVal env I) := by
  unfold userAction
  simp only []
  sauto

set_option maxRecDepth 10000 in
theorem act_65 (env : Env) (I : List Char) (hE : EnvOk env I) (args : List ArgV) (h : GoodArgs env I args) :
    Safe env (userAction 65 args) (GoodVal env I) := by
  unfold userAction
  simp only []
  sauto

set_option maxRecDepth 10000 in
theorem act_66 (env : Env) (I : List Char) (hE : EnvOk env I) (args : List ArgV) (h : GoodArgs env I args) :
    Safe env (userAction 66 args) (GoodVal env I) := by
  unfold userAction
  simp only []
  sauto

set_option maxRecDepth 10000 in
theorem act_67 (env : Env) (I : List Char) (hE : EnvOk env I) (args : List ArgV) (h : GoodArgs env I args) :
    Safe env (userAction 67 args) (GoodVal env I) := by
  unfold userAction
  simp only []
  sauto

set_option maxRecDepth 10000 in
theorem act_68 (env : Env) (I : List Char) (hE : EnvOk env I) (args : List ArgV) (h : GoodArgs env I args) :
    Safe env (userAction 68 args) (GoodVal env I) := by
  unfold userAction
  simp only []
  sauto

set_option maxRecDepth 10000 in
theorem act_69 (env : Env) (I : List Char) (hE : EnvOk env I) (args : List ArgV) (h : GoodArgs env I args) :
    Safe env (userAction 69 args) (GoodVal env I) := by
  unfold userAction
  simp only []
  sauto

set_option maxRecDepth 10000 in
theorem act_100 (env : Env) (I : List Char) (hE : EnvOk env I) (args : List ArgV) (h : GoodArgs env I args) :
    Safe env (userAction 100 args) (GoodVal env I) := by
  unfold userAction
  simp only []
  sauto


theorem lookup_mem {α β} [BEq α] [LawfulBEq α] {l : List (α × β)} {k : α} {v : β} (h : l.lookup k = some v) : (k, v) ∈ l := by
  induction l with
  | nil => cases h
  | cons x xs ih =>
    obtain ⟨k', v'⟩ := x
    simp only [List.lookup] at h
    split at h
    · rename_i heq
      have : k = k' := by simpa using heq
      cases h; subst this; exact List.mem_cons_self ..
    · exact List.mem_cons_of_mem _ (ih h)

set_option maxHeartbeats 2000000 in
set_option maxRecDepth 100000 in
/-- every label of the pinned table is the label of an action proved safe above -/
theorem userAction_safe (env : Env) (I : List Char) (hE : EnvOk env I) (print label : Nat) (args : List ArgV)
    (hl : printToLabel.lookup print = some label) (h : GoodArgs env I args) :
    Safe env (userAction label args) (GoodVal env I) := by
  have hmem := lookup_mem hl
  unfold printToLabel at hmem
  simp only [List.mem_cons, Prod.mk.injEq, List.mem_nil_iff, or_false] at hmem
  rcases hmem with ⟨_, rfl⟩ | ⟨_, rfl⟩ | ⟨_, rfl⟩ | ⟨_, rfl⟩ | ⟨_, rfl⟩ | ⟨_, rfl⟩ | ⟨_, rfl⟩ | ⟨_, rfl⟩ | ⟨_, rfl⟩ | ⟨_, rfl⟩ | ⟨_, rfl⟩ | ⟨_, rfl⟩ | ⟨_, rfl⟩ | ⟨_, rfl⟩ | ⟨_, rfl⟩ | ⟨_, rfl⟩ | ⟨_, rfl⟩ | ⟨_, rfl⟩ | ⟨_, rfl⟩ | ⟨_, rfl⟩ | ⟨_, rfl⟩ | ⟨_, rfl⟩ | ⟨_, rfl⟩ | ⟨_, rfl⟩ | ⟨_, rfl⟩ | ⟨_, rfl⟩ | ⟨_, rfl⟩ | ⟨_, rfl⟩ | ⟨_, rfl⟩ | ⟨_, rfl⟩ | ⟨_, rfl⟩ | ⟨_, rfl⟩ | ⟨_, rfl⟩ | ⟨_, rfl⟩ | ⟨_, rfl⟩ | ⟨_, rfl⟩ | ⟨_, rfl⟩ | ⟨_, rfl⟩ | ⟨_, rfl⟩ | ⟨_, rfl⟩ | ⟨_, rfl⟩ | ⟨_, rfl⟩ | ⟨_, rfl⟩ | ⟨_, rfl⟩ | ⟨_, rfl⟩ | ⟨_, rfl⟩ | ⟨_, rfl⟩
  · exact act_16 env I hE args h
  · exact act_17 env I hE args h
  · exact act_18 env I hE args h
  · exact act_19 env I hE args h
  · exact act_20 env I hE args h
  · exact act_100 env I hE args h
  · exact act_21 env I hE args h
  · exact act_22 env I hE args h
  · exact act_23 env I hE args h
  · exact act_24 env I hE args h
  · exact act_25 env I hE args h
  · exact act_26 env I hE args h
  · exact act_27 env I hE args h
  · exact act_28 env I hE args h
  · exact act_29 env I hE args h
  · exact act_30 env I hE args h
  · exact act_31 env I hE args h
  · exact act_32 env I hE args h
  · exact act_33 env I hE args h
  · exact act_34 env I hE args h
  · exact act_35 env I hE args h
  · exact act_36 env I hE args h
  · exact act_37 env I hE args h
  · exact act_38 env I hE args h
  · exact act_39 env I hE args h
  · exact act_40 env I hE args h
  · exact act_41 env I hE args h
  · exact act_50 env I hE args h
  · exact act_51 env I hE args h
  · exact act_52 env I hE args h
  · exact act_53 env I hE args h
  · exact act_54 env I hE args h
  · exact act_55 env I hE args h
  · exact act_56 env I hE args h
  · exact act_57 env I hE args h
  · exact act_58 env I hE args h
  · exact act_59 env I hE args h
  · exact act_60 env I hE args h
  · exact act_61 env I hE args h
  · exact act_62 env I hE args h
  · exact act_63 env I hE args h
  · exact act_64 env I hE args h
  · exact act_65 env I hE args h
  · exact act_66 env I hE args h
  · exact act_67 env I hE args h
  · exact act_68 env I hE args h
  · exact act_69 env I hE args h

/-! ### generic builders, composite actions, `evalAction` -/

theorem evalPrim_safe (env : Env) (I : List Char) (p : Prim) (args : List ArgV) (h : GoodArgs env I args) :
    Safe env (evalPrim p args) (GoodVal env I) := by
  unfold evalPrim
  cases p with
  | arg i => exact safe_nth h i
  | some i => exact Safe.bind _ (safe_nth h i) (fun v hv => Safe.pure _ _ (by simpa [GoodVal] using hv))
  | none => exact Safe.pure _ _ trivial
  | nil => exact Safe.pure _ _ (by simp [GoodVal, GoodVals])
  | sing i =>
    exact Safe.bind _ (safe_nth h i) (fun v hv => Safe.pure _ _ (by simpa [GoodVal, GoodVals] using hv))
  | push v e =>
    dsimp only
    refine Safe.bind _ (safe_nth h v) (fun l hl => ?_)
    refine Safe.bind _ (safe_asList hl) (fun l' hl' => ?_)
    refine Safe.bind _ (safe_nth h e) (fun x hx => ?_)
    refine Safe.pure _ _ ?_
    simp only [GoodVal, goodVals_iff]
    intro y hy
    rcases List.mem_append.mp hy with hy | hy
    · exact hl' y hy
    · simp only [List.mem_cons, List.mem_nil_iff, or_false] at hy; rw [hy]; exact hx
  | pushOpt v e =>
    dsimp only
    refine Safe.bind _ (safe_nth h e) (fun o ho => ?_)
    refine Safe.bind _ (safe_asOpt ho) (fun o' ho' => ?_)
    cases o' with
    | none => exact safe_nth h v
    | some x =>
      dsimp only
      refine Safe.bind _ (safe_nth h v) (fun l hl => ?_)
      refine Safe.bind _ (safe_asList hl) (fun l' hl' => ?_)
      refine Safe.pure _ _ ?_
      simp only [GoodVal, goodVals_iff]
      intro y hy
      rcases List.mem_append.mp hy with hy | hy
      · exact hl' y hy
      · simp only [List.mem_cons, List.mem_nil_iff, or_false] at hy; rw [hy]; exact ho' x rfl
  | pair i j =>
    dsimp only
    refine Safe.bind _ (safe_nth h i) (fun a ha => ?_)
    refine Safe.bind _ (safe_nth h j) (fun b hb => ?_)
    exact Safe.pure _ _ (by simp only [GoodVal]; exact ⟨ha, hb⟩)

def GoodScope (env : Env) (I : List Char) (sc : Scope) : Prop :=
  (∀ n v, sc.locs.lookup n = some v → Bd I v) ∧ (∀ n a, sc.temps.lookup n = some a → GoodArg env I a)

theorem goodScope_empty (I : List Char) : GoodScope env I {} := by
  refine ⟨?_, ?_⟩ <;> intro n v h <;> simp [List.lookup] at h

theorem lookup_cons_some {β} {n m : String} {v w : β} {l : List (String × β)}
    (h : List.lookup m ((n, v) :: l) = some w) : w = v ∨ l.lookup m = some w := by
  simp only [List.lookup] at h
  split at h
  · left; cases h; rfl
  · right; exact h

theorem evalLoc_safe (env : Env) (I : List Char) (sc : Scope) (args : List ArgV) (e : LocExpr)
    (hs : GoodScope env I sc) (h : GoodArgs env I args) : Safe env (evalLoc sc args e) (Bd I) := by
  cases e with
  | param i start =>
    simp only [evalLoc]
    cases hi : args[i]? with
    | none => exact Safe.bad _ _ _ (by decide)
    | some a =>
      have ha := h a (List.mem_of_getElem? hi)
      cases a with
      | triple s v e' =>
        refine Safe.pure _ _ ?_
        cases start
        · exact ha.2.2
        · exact ha.1
      | locRef n => exact Safe.pure _ _ ha
  | var n =>
    simp only [evalLoc]
    cases hl : sc.locs.lookup n with
    | none => exact Safe.bad _ _ _ (by decide)
    | some v => exact Safe.pure _ _ (hs.1 n v hl)

theorem evalArg_safe (env : Env) (I : List Char) (sc : Scope) (args : List ArgV) (e : ArgExpr)
    (hs : GoodScope env I sc) (h : GoodArgs env I args) : Safe env (evalArg sc args e) (GoodArg env I) := by
  cases e with
  | param i =>
    simp only [evalArg]
    cases hi : args[i]? with
    | none => exact Safe.bad _ _ _ (by decide)
    | some a => exact Safe.pure _ _ (h a (List.mem_of_getElem? hi))
  | temp n =>
    simp only [evalArg]
    cases hl : sc.temps.lookup n with
    | none => exact Safe.bad _ _ _ (by decide)
    | some v => exact Safe.pure _ _ (hs.2 n v hl)
  | loc n =>
    simp only [evalArg]
    cases hl : sc.locs.lookup n with
    | none => exact Safe.bad _ _ _ (by decide)
    | some v => exact Safe.pure _ _ (hs.1 n v hl)

theorem runStmts_safe (env : Env) (I : List Char) (call : Nat → List ArgV → M Val)
    (hcall : ∀ id args, GoodArgs env I args → Safe env (call id args) (GoodVal env I)) (args : List ArgV) (h : GoodArgs env I args) :
    ∀ (stmts : List Stmt) (sc : Scope), GoodScope env I sc → Safe env (runStmts call args sc stmts) (GoodVal env I) := by
  intro stmts
  induction stmts with
  | nil => intro sc _; unfold runStmts; exact Safe.bad _ _ _ (by decide)
  | cons st rest ih =>
    intro sc hs
    cases st with
    | letLoc n e =>
      unfold runStmts
      refine Safe.bind _ (evalLoc_safe env I sc args e hs h) (fun v hv => ?_)
      refine ih _ ⟨?_, hs.2⟩
      intro m w hm
      rcases lookup_cons_some hm with rfl | hm
      · exact hv
      · exact hs.1 m w hm
    | letCall n a as =>
      unfold runStmts
      refine Safe.bind _ (Safe.mapM env _ as (fun e _ => evalArg_safe env I sc args e hs h)) (fun vs hvs => ?_)
      refine Safe.bind _ (hcall a vs hvs) (fun r hr => ?_)
      refine ih _ ⟨hs.1, ?_⟩
      intro m w hm
      rcases lookup_cons_some hm with rfl | hm
      · exact ⟨Bd.zero I, hr, Bd.zero I⟩
      · exact hs.2 m w hm
    | letTriple n s e =>
      unfold runStmts
      refine Safe.bind _ (evalLoc_safe env I sc args (.var s) hs h) (fun sv hsv => ?_)
      refine Safe.bind _ (evalLoc_safe env I sc args (.var e) hs h) (fun ev hev => ?_)
      cases hl : sc.temps.lookup n with
      | none => exact Safe.bad _ _ _ (by decide)
      | some t =>
        cases t with
        | locRef k => exact Safe.bad _ _ _ (by decide)
        | triple a v b =>
          have hv := hs.2 n _ hl
          refine ih _ ⟨hs.1, ?_⟩
          intro m w hm
          rcases lookup_cons_some hm with rfl | hm
          · exact ⟨hsv, hv.2.1, hev⟩
          · exact hs.2 m w hm
    | ret a as =>
      unfold runStmts
      refine Safe.bind _ (Safe.mapM env _ as (fun e _ => evalArg_safe env I sc args e hs h)) (fun vs hvs => ?_)
      exact hcall a vs hvs

theorem evalAction_safe (env : Env) (I : List Char) (hE : EnvOk env I) (defs : Array ActionDef) :
    ∀ (fuel id : Nat) (args : List ArgV), GoodArgs env I args → Safe env (evalAction defs fuel id args) (GoodVal env I) := by
  intro fuel
  induction fuel with
  | zero => intro id args _; unfold evalAction; exact Safe.bad _ _ _ (by decide)
  | succ f ih =>
    intro id args h
    unfold evalAction
    cases hd : defs[id]? with
    | none => exact Safe.bad _ _ _ (by decide)
    | some d =>
      cases d with
      | user ar print =>
        dsimp only
        cases hl : printToLabel.lookup print with
        | none => exact Safe.bad _ _ _ (by decide)
        | some label => exact userAction_safe env I hE print label args hl h
      | prim ar p => exact evalPrim_safe env I p args h
      | composite ar body => exact runStmts_safe env I _ (ih) args h body {} (goodScope_empty I)

/-- **Actions are safe** (the hypothesis of `LrInv.parse_outcome_good`), for every table of actions -/
theorem actionsSafe (T : Tables) (env : Env) (I : List Char) (hE : EnvOk env I) : ActionsSafe T env I := by
  intro id args ds h
  have := evalAction_safe env I hE T.actions 16 id args h ds
  revert this
  cases (ReaderT.run (evalAction T.actions 16 id args) env).run ds with
  | error p => exact fun hh => hh
  | ok r => exact fun hh => hh

end Aidl.Props.ActionsSafe
