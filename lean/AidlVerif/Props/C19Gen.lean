import AidlVerif.Props.C19
import AidlVerif.Gen.SerdeSpec

/-!
# C19 — certificate over the schema regenerated from `/repo/src/ast.rs`
-/

namespace Aidl.Props.C19
open Aidl.Serde

/-- **every `skip_serializing_if` of ast.rs comes with a `default` that is the value its predicate
    recognises, and field names are distinct** — re-checked by the kernel against the regenerated
    schema on every run -/
theorem attrs_consistent : Aidl.Gen.schema.consistent = true := by decide

/-- hence every value matching the regenerated schema survives the round trip -/
theorem roundtrip_gen (v : V) (h : V.wf Aidl.Gen.schema v = true) :
    de Aidl.Gen.schema (ser Aidl.Gen.schema v) = some v :=
  roundtrip Aidl.Gen.schema attrs_consistent v h

end Aidl.Props.C19
