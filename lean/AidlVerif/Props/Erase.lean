import AidlVerif.Model.Actions

/-!
# Position- and documentation-erasure of trees and semantic values

`erAidl` keeps everything of a tree except ranges and attached documentation (C02: "apart from
positions and attached documentation"). `erVal` extends it to the parser's semantic values:
locations become 0, an error-recovery record becomes a fixed one.
-/

namespace Aidl.Erase
open Aidl Aidl.Actions Aidl.Lexer

def R0 : Range := default

mutual
def erTy : Ty → Ty
  | .mk n k g _ _ => .mk n k (erTys g) R0 R0
def erTys : List Ty → List Ty
  | [] => []
  | t :: ts => erTy t :: erTys ts
end

theorem erTys_eq (l : List Ty) : erTys l = l.map erTy := by
  induction l with
  | nil => rfl
  | cons t ts ih => simp [erTys, ih]

def erDir : Direction → Direction
  | .in_ _ => .in_ R0
  | .out _ => .out R0
  | .inout _ => .inout R0
  | .unspecified => .unspecified

def erArg (a : Arg) : Arg :=
  { a with direction := erDir a.direction, argType := erTy a.argType, doc := none, sym := R0, full := R0 }

def erMethod (m : Method) : Method :=
  { m with returnType := erTy m.returnType, args := m.args.map erArg, doc := none, sym := R0, full := R0,
           transactCodeRange := R0, onewayRange := R0 }

def erConst (c : Const) : Const := { c with constType := erTy c.constType, doc := none, sym := R0, full := R0 }
def erField (f : Field) : Field := { f with fieldType := erTy f.fieldType, doc := none, sym := R0, full := R0 }
def erEnumEl (e : EnumElement) : EnumElement := { e with doc := none, sym := R0, full := R0 }

def erIel : InterfaceElement → InterfaceElement
  | .const c => .const (erConst c)
  | .method m => .method (erMethod m)
def erPel : ParcelableElement → ParcelableElement
  | .const c => .const (erConst c)
  | .field f => .field (erField f)

def erIface (i : Interface) : Interface := { i with elements := i.elements.map erIel, doc := none, sym := R0, full := R0 }
def erParc (p : Parcelable) : Parcelable := { p with elements := p.elements.map erPel, doc := none, sym := R0, full := R0 }
def erEnm (e : Enum) : Enum := { e with elements := e.elements.map erEnumEl, doc := none, sym := R0, full := R0 }

def erItem : Item → Item
  | .interface i => .interface (erIface i)
  | .parcelable p => .parcelable (erParc p)
  | .enum e => .enum (erEnm e)

def erPackage (p : Package) : Package := { p with sym := R0, full := R0 }
def erImport (i : Import) : Import := { i with sym := R0, full := R0 }

/-- the tree without its ranges and documentation -/
def erAidl (a : AidlFile) : AidlFile :=
  { package := erPackage a.package, imports := a.imports.map erImport,
    declaredParcelables := a.declaredParcelables.map erImport, item := erItem a.item }

mutual
def erVal : Val → Val
  | .tok s => .tok s
  | .loc _ => .loc 0
  | .str s => .str s
  | .none_ => .none_
  | .some_ v => .some_ (erVal v)
  | .list l => .list (erVals l)
  | .pair a b => .pair (erVal a) (erVal b)
  | .recovery _ _ => .recovery (.invalidToken 0) []
  | .package p => .package (erPackage p)
  | .import_ i => .import_ (erImport i)
  | .ty t => .ty (erTy t)
  | .dir d => .dir (erDir d)
  | .ann a => .ann a
  | .arg a => .arg (erArg a)
  | .method m => .method (erMethod m)
  | .const c => .const (erConst c)
  | .field f => .field (erField f)
  | .enumEl e => .enumEl (erEnumEl e)
  | .iel e => .iel (erIel e)
  | .pel e => .pel (erPel e)
  | .iface i => .iface (erIface i)
  | .parc p => .parc (erParc p)
  | .enm e => .enm (erEnm e)
  | .item i => .item (erItem i)
  | .aidl a => .aidl (erAidl a)
def erVals : List Val → List Val
  | [] => []
  | v :: vs => erVal v :: erVals vs
end

theorem erVals_eq (l : List Val) : erVals l = l.map erVal := by
  induction l with
  | nil => rfl
  | cons t ts ih => simp [erVals, ih]

def erArgV : ArgV → ArgV
  | .triple _ v _ => .triple 0 (erVal v) 0
  | .locRef _ => .locRef 0

end Aidl.Erase
