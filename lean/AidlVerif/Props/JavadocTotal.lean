import AidlVerif.Model.Javadoc

/-!
# `get_javadoc` never panics (the F1 site), for every text and every character boundary

The backward scan of `find_content_string` counts BYTES from the end of the prefix. The theorem:
both slice offsets `len - start_pos` and `len - end_pos` are character boundaries of the prefix and
`len - start_pos ≤ len - end_pos`, so `&input[start..end]` is defined — for all inputs.
-/

namespace Aidl.Props.JavadocTotal
open Aidl.Javadoc

theorem utf8Size_pos (c : Char) : 0 < c.utf8Size := Char.utf8Size_pos c

theorem utf8Len_foldl (cs : List Char) (n : Nat) : cs.foldl (fun n c => n + c.utf8Size) n = n + utf8Len cs := by
  unfold utf8Len
  induction cs generalizing n with
  | nil => simp
  | cons c cs ih => simp only [List.foldl_cons]; rw [ih, ih (0 + c.utf8Size)]; omega

theorem utf8Len_nil : utf8Len [] = 0 := rfl
theorem utf8Len_cons (c : Char) (cs : List Char) : utf8Len (c :: cs) = c.utf8Size + utf8Len cs := by
  unfold utf8Len
  simp only [List.foldl_cons]
  rw [utf8Len_foldl]
  unfold utf8Len
  omega
theorem utf8Len_append (a b : List Char) : utf8Len (a ++ b) = utf8Len a + utf8Len b := by
  induction a with
  | nil => simp [utf8Len_nil]
  | cons c cs ih => simp only [List.cons_append, utf8Len_cons, ih]; omega
theorem utf8Len_reverse (a : List Char) : utf8Len a.reverse = utf8Len a := by
  induction a with
  | nil => rfl
  | cons c cs ih => simp only [List.reverse_cons, utf8Len_append, utf8Len_cons, utf8Len_nil, ih]; omega

/-- splitting at the byte length of a prefix gives back that prefix -/
theorem splitAtBytes_prefix (pre post : List Char) :
    splitAtBytes (pre ++ post) (utf8Len pre) = some (pre, post) := by
  induction pre with
  | nil => simp [utf8Len_nil, splitAtBytes]
  | cons c cs ih =>
    rw [utf8Len_cons]
    have hpos := utf8Size_pos c
    obtain ⟨k, hk⟩ : ∃ k, c.utf8Size + utf8Len cs = k + 1 := ⟨c.utf8Size + utf8Len cs - 1, by omega⟩
    rw [hk]
    simp only [List.cons_append, splitAtBytes]
    have h1 : c.utf8Size ≤ k + 1 := by omega
    have h2 : k + 1 - c.utf8Size = utf8Len cs := by omega
    simp [h1, h2, ih]

/-- a slice between two boundaries, the first not after the second, is defined -/
theorem sliceBytes_ok (a b c : List Char) :
    sliceBytes (a ++ b ++ c) (utf8Len a) (utf8Len a + utf8Len b) = some b := by
  unfold sliceBytes
  have h : ¬ utf8Len a > utf8Len a + utf8Len b := by omega
  simp only [h, if_false, List.append_assoc]
  rw [splitAtBytes_prefix a (b ++ c)]
  simp only
  have : utf8Len a + utf8Len b - utf8Len a = utf8Len b := by omega
  rw [this, splitAtBytes_prefix b c]
  rfl

/-! ### the scan invariant -/

/-- `r₁` = the characters scanned so far (last character of the prefix first) -/
structure Inv (s : Scan) (r₁ : List Char) : Prop where
  pos : s.done = false → s.pos = utf8Len r₁
  endp : ∀ e, s.endPos = some e → ∃ r₀ t, r₁ = r₀ ++ t ∧ e = utf8Len r₀
  inside : s.done = false → s.state = .insideComment → ∃ e, s.endPos = some e ∧ e ≤ s.pos
  bbs : s.done = false → s.state = .beforeBeginStar →
    ∃ e r', s.endPos = some e ∧ e + 1 ≤ s.pos ∧ r₁ = r' ++ ['*']
  bbss : s.done = false → s.state = .beforeBeginStarStar →
    ∃ e r', s.endPos = some e ∧ e + 2 ≤ s.pos ∧ r₁ = r' ++ ['*', '*']
  startp : ∀ st, s.startPos = some st → ∃ r₀ t e, r₁ = r₀ ++ t ∧ st = utf8Len r₀ ∧ s.endPos = some e ∧ e ≤ st
  nostart : s.done = false → s.startPos = none

theorem inv_init : Inv {} [] where
  pos := fun _ => rfl
  endp := by intro e h; cases h
  inside := by intro _ h; cases h
  bbs := by intro _ h; cases h
  bbss := by intro _ h; cases h
  startp := by intro st h; cases h
  nostart := fun _ => rfl

theorem star_size : ('*' : Char).utf8Size = 1 := by decide
theorem slash_size : ('/' : Char).utf8Size = 1 := by decide

local macro "no_state" : tactic => `(tactic| (intros; simp_all))

theorem inv_step (s : Scan) (r₁ : List Char) (c : Char) (h : Inv s r₁) :
    Inv (scanStep Char.utf8Size s c) (r₁ ++ [c]) := by
  unfold scanStep
  by_cases hd : s.done = true
  · -- the scan has stopped: nothing changes, the scanned list only grows
    simp only [hd, if_true]
    refine ⟨?_, ?_, ?_, ?_, ?_, ?_, ?_⟩
    · intro h'; rw [hd] at h'; cases h'
    · intro e he
      obtain ⟨r₀, t, h1, h2⟩ := h.endp e he
      exact ⟨r₀, t ++ [c], by rw [h1, List.append_assoc], h2⟩
    · intro h'; rw [hd] at h'; cases h'
    · intro h'; rw [hd] at h'; cases h'
    · intro h'; rw [hd] at h'; cases h'
    · intro st hst
      obtain ⟨r₀, t, e, h1, h2, h3, h4⟩ := h.startp st hst
      exact ⟨r₀, t ++ [c], e, by rw [h1, List.append_assoc], h2, h3, h4⟩
    · intro h'; rw [hd] at h'; cases h'
  · have hd' : s.done = false := by simpa using hd
    have hpos := h.pos hd'
    have hns := h.nostart hd'
    simp only [hd', Bool.false_eq_true, if_false]
    have hlen : s.pos + c.utf8Size = utf8Len (r₁ ++ [c]) := by
      rw [utf8Len_append, utf8Len_cons, utf8Len_nil, hpos]; omega
    have hendp : ∀ e, s.endPos = some e → ∃ r₀ t, r₁ ++ [c] = r₀ ++ t ∧ e = utf8Len r₀ := by
      intro e he
      obtain ⟨r₀, t, h1, h2⟩ := h.endp e he
      exact ⟨r₀, t ++ [c], by rw [h1, List.append_assoc], h2⟩
    have hcp := utf8Size_pos c
    cases hst : s.state with
    | idle =>
      simp only
      split
      · exact ⟨fun _ => hlen, hendp, by no_state, by no_state, by no_state, by no_state, fun _ => hns⟩
      · split
        · exact ⟨fun _ => hlen, hendp, by no_state, by no_state, by no_state, by no_state, fun _ => hns⟩
        · exact ⟨fun _ => hlen, hendp, by no_state, by no_state, by no_state, by no_state, fun _ => hns⟩
    | lineCommentOrSomethingElse =>
      simp only
      split
      · exact ⟨fun _ => hlen, hendp, by no_state, by no_state, by no_state, by no_state, fun _ => hns⟩
      · split
        · exact ⟨by no_state, hendp, by no_state, by no_state, by no_state, by no_state, by no_state⟩
        · exact ⟨fun _ => hlen, hendp, by no_state, by no_state, by no_state, by no_state, fun _ => hns⟩
    | lineCommentOrSomethingElseBeforeSlash =>
      simp only
      split
      · exact ⟨fun _ => hlen, hendp, by no_state, by no_state, by no_state, by no_state, fun _ => hns⟩
      · exact ⟨by no_state, hendp, by no_state, by no_state, by no_state, by no_state, by no_state⟩
    | beforeEndSlash =>
      simp only
      split
      · refine ⟨fun _ => hlen, ?_, ?_, by no_state, by no_state, by no_state, fun _ => hns⟩
        · intro e he
          cases he
          exact ⟨r₁ ++ [c], [], by simp, hlen⟩
        · intro _ _
          exact ⟨_, rfl, Nat.le_refl _⟩
      · exact ⟨fun _ => hlen, hendp, by no_state, by no_state, by no_state, by no_state, fun _ => hns⟩
    | insideComment =>
      obtain ⟨e, he, hle⟩ := h.inside hd' hst
      simp only
      split
      · rename_i hc
        refine ⟨fun _ => hlen, hendp, by no_state, ?_, by no_state, by no_state, fun _ => hns⟩
        intro _ _
        exact ⟨e, r₁, he, by simp only; omega, by rw [hc]⟩
      · refine ⟨fun _ => hlen, hendp, ?_, by no_state, by no_state, by no_state, fun _ => hns⟩
        intro _ _
        exact ⟨e, he, by simp only; omega⟩
    | beforeBeginStar =>
      obtain ⟨e, r', he, hle, hr⟩ := h.bbs hd' hst
      simp only
      split
      · rename_i hc
        refine ⟨fun _ => hlen, hendp, by no_state, by no_state, ?_, by no_state, fun _ => hns⟩
        intro _ _
        exact ⟨e, r', he, by simp only; omega, by rw [hc, hr]; simp⟩
      · split
        · exact ⟨fun _ => hlen, hendp, by no_state, by no_state, by no_state, by no_state, fun _ => hns⟩
        · refine ⟨fun _ => hlen, hendp, ?_, by no_state, by no_state, by no_state, fun _ => hns⟩
          intro _ _
          exact ⟨e, he, by simp only; omega⟩
    | beforeBeginStarStar =>
      obtain ⟨e, r', he, hle, hr⟩ := h.bbss hd' hst
      simp only
      split
      · rename_i hc
        refine ⟨by no_state, hendp, by no_state, by no_state, by no_state, ?_, by no_state⟩
        intro st hst'
        have hst'' : st = s.pos + c.utf8Size - 3 := by
          have : some (s.pos + c.utf8Size - 3) = some st := hst'
          exact (Option.some.inj this).symm
        refine ⟨r', ['*', '*', c], e, by rw [hr]; simp, ?_, he, ?_⟩
        · rw [hst'', hc, slash_size, hpos, hr, utf8Len_append, utf8Len_cons, utf8Len_cons, utf8Len_nil, star_size]
          omega
        · rw [hst'', hc, slash_size]; omega
      · refine ⟨fun _ => hlen, hendp, ?_, by no_state, by no_state, by no_state, fun _ => hns⟩
        intro _ _
        exact ⟨e, he, by simp only; omega⟩

theorem inv_foldl (cs : List Char) (s : Scan) (r₁ : List Char) (h : Inv s r₁) :
    Inv (cs.foldl (scanStep Char.utf8Size) s) (r₁ ++ cs) := by
  induction cs generalizing s r₁ with
  | nil => simpa using h
  | cons c cs ih =>
    have := ih _ _ (inv_step s r₁ c h)
    simpa [List.append_assoc] using this

theorem utf8Len_eq_zero (cs : List Char) (h : utf8Len cs = 0) : cs = [] := by
  cases cs with
  | nil => rfl
  | cons c cs => rw [utf8Len_cons] at h; have := utf8Size_pos c; omega

/-- two prefixes of one list, ordered by byte length, nest -/
theorem prefix_nest (a ta b tb : List Char) (h : a ++ ta = b ++ tb) (hle : utf8Len b ≤ utf8Len a) :
    ∃ m, a = b ++ m := by
  rcases List.append_eq_append_iff.mp h with ⟨m, h1, _⟩ | ⟨m, h1, _⟩
  · rw [h1, utf8Len_append] at hle
    have : m = [] := utf8Len_eq_zero m (by omega)
    exact ⟨[], by rw [h1, this]; simp⟩
  · exact ⟨m, h1⟩

/-- `find_content_string` never panics: the subtraction never underflows, and the slice is on
    character boundaries with start ≤ end — for every text -/
theorem findContent_no_panic (input : List Char) : ∃ r, findContent input = .ok r := by
  unfold findContent findContentWith
  have hinv := inv_foldl input.reverse {} [] inv_init
  simp only [List.nil_append] at hinv
  generalize input.reverse.foldl (scanStep Char.utf8Size) {} = s at hinv
  cases hsp : s.startPos with
  | none => exact ⟨none, by simp only [hsp]⟩
  | some sp =>
    obtain ⟨r₀, t, e, h1, h2, h3, h4⟩ := hinv.startp sp hsp
    obtain ⟨q₀, u, h5, h6⟩ := hinv.endp e h3
    have hnest : ∃ m, r₀ = q₀ ++ m := prefix_nest r₀ t q₀ u (by rw [← h1, ← h5]) (by omega)
    obtain ⟨m, hm⟩ := hnest
    have hin : input = t.reverse ++ m.reverse ++ q₀.reverse := by
      have : input.reverse.reverse = (q₀ ++ m ++ t).reverse := by rw [h1, hm]
      simpa [List.reverse_append, List.append_assoc] using this
    have hlen : utf8Len input = utf8Len t + utf8Len m + utf8Len q₀ := by
      rw [hin, utf8Len_append, utf8Len_append, utf8Len_reverse, utf8Len_reverse, utf8Len_reverse]
    have hsp' : sp = utf8Len q₀ + utf8Len m := by rw [h2, hm, utf8Len_append]
    simp only [hsp, h3]
    have hno : ¬ (sp > utf8Len input ∨ e > utf8Len input) := by omega
    simp only [hno, if_false]
    have ha : utf8Len input - sp = utf8Len t.reverse := by rw [utf8Len_reverse]; omega
    have hb : utf8Len input - e = utf8Len t.reverse + utf8Len m.reverse := by
      rw [utf8Len_reverse, utf8Len_reverse]; omega
    rw [ha, hb]
    have hs : sliceBytes input (utf8Len t.reverse) (utf8Len t.reverse + utf8Len m.reverse) = some m.reverse := by
      rw [hin]; exact sliceBytes_ok _ _ _
    rw [hs]
    exact ⟨_, rfl⟩

/-- character boundary: the byte length of a prefix -/
def IsBoundary (input : List Char) (p : Nat) : Prop := ∃ pre post, input = pre ++ post ∧ utf8Len pre = p

/-- `get_javadoc(input, pos)` never panics when `pos` is a character boundary of `input`
    (the parser only passes token start offsets) — for every text -/
theorem javadoc_no_panic (input : List Char) (p : Nat) (hb : IsBoundary input p) :
    ∃ r, getJavadoc input p = .ok r := by
  obtain ⟨pre, post, h1, h2⟩ := hb
  unfold getJavadoc
  have : sliceBytes input 0 p = some pre := by
    have := sliceBytes_ok [] pre post
    simp only [List.nil_append, utf8Len_nil, Nat.zero_add] at this
    rw [h1, ← h2]; exact this
  rw [this]
  simp only
  obtain ⟨r, hr⟩ := findContent_no_panic pre
  rw [hr]
  cases r with
  | none => exact ⟨_, rfl⟩
  | some c => exact ⟨_, rfl⟩

/-- the unrepaired function (`pos += 1` per character) does panic: the F1 witness -/
theorem v0_panics : (findContentV0 "/**é*/".toList).toOption = none := by decide +kernel

/-- non-vacuity: a multi-byte comment is extracted -/
example : (getJavadoc "/** é */x".toList 9).toOption = some (some "é") := by decide +kernel
example : IsBoundary "/** é */x".toList 9 := ⟨"/** é */".toList, "x".toList, by decide, by decide⟩

end Aidl.Props.JavadocTotal
