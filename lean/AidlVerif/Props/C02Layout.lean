import AidlVerif.Props.LrRel
import AidlVerif.Props.ParseTerm

/-!
# C02 — the tree depends only on the token sequence: layout independence, for every pair of texts

`Rel.addContent_layout_gen`: two texts that lex to the same sequence of (lexer entry, text) pairs give
trees that are equal up to positions and documentation. `lexToks` computes that sequence; the
hypothesis of `layout_independent` is an equation between two evaluations of it (what the driver
evaluates on every pair of layouts of one document). With `addContent_total` both results exist.
Whitespace, line endings and comments are skip entries of the lexer: they never become tokens
(`C02.skip_does_not_reach_parser`), so two layouts of one token sequence satisfy the hypothesis.
-/

namespace Aidl.Props.C02Layout
open Aidl Aidl.Lr Aidl.Actions Aidl.Lexer Aidl.Erase Aidl.Props.Rel Aidl.Props.LrInv

theorem lexToks_rel (T : Tables) : ∀ (f1 f2 : Nat) (i1 : List Char) (p1 : Nat) (i2 : List Char) (p2 : Nat)
    (x : List (Nat × String) × Bool), lexToks T f1 i1 p1 = some x → lexToks T f2 i2 p2 = some x → LexRel T i1 p1 i2 p2 := by
  intro f1
  induction f1 with
  | zero => intro f2 i1 p1 i2 p2 x h; simp [lexToks] at h
  | succ f1 ih =>
    intro f2 i1 p1 i2 p2 x h1 h2
    cases f2 with
    | zero => simp [lexToks] at h2
    | succ f2 =>
      unfold lexToks at h1 h2
      cases hn1 : Lexer.next T.lex (i1.length + 1) i1 p1 with
      | eof =>
        rw [hn1] at h1
        cases h1
        cases hn2 : Lexer.next T.lex (i2.length + 1) i2 p2 with
        | eof => exact LexRel.eof hn1 hn2
        | invalid l => rw [hn2] at h2; cases h2
        | token t r =>
          rw [hn2] at h2
          dsimp only at h2
          cases hr : lexToks T f2 r t.stop with
          | none => rw [hr] at h2; cases h2
          | some y => rw [hr] at h2; cases h2
      | invalid l1 =>
        rw [hn1] at h1
        cases h1
        cases hn2 : Lexer.next T.lex (i2.length + 1) i2 p2 with
        | eof => rw [hn2] at h2; cases h2
        | invalid l2 => exact LexRel.invalid hn1 hn2
        | token t r =>
          rw [hn2] at h2
          dsimp only at h2
          cases hr : lexToks T f2 r t.stop with
          | none => rw [hr] at h2; cases h2
          | some y => rw [hr] at h2; cases h2
      | token t1 r1 =>
        rw [hn1] at h1
        dsimp only at h1
        cases hr1 : lexToks T f1 r1 t1.stop with
        | none => rw [hr1] at h1; cases h1
        | some y1 =>
          rw [hr1] at h1
          cases h1
          cases hn2 : Lexer.next T.lex (i2.length + 1) i2 p2 with
          | eof => rw [hn2] at h2; cases h2
          | invalid l2 => rw [hn2] at h2; cases h2
          | token t2 r2 =>
            rw [hn2] at h2
            dsimp only at h2
            cases hr2 : lexToks T f2 r2 t2.stop with
            | none => rw [hr2] at h2; cases h2
            | some y2 =>
              rw [hr2] at h2
              simp only [Option.map_some, Option.some.injEq, Prod.mk.injEq, List.cons.injEq] at h2
              obtain ⟨⟨⟨hi, ht⟩, hl⟩, he⟩ := h2
              have hy : y2 = y1 := by
                obtain ⟨a, b⟩ := y1
                obtain ⟨c, d⟩ := y2
                simp only at hl he
                subst hl he
                rfl
              subst hy
              exact LexRel.tok hn1 hn2 hi.symm ht.symm (ih f2 r1 t1.stop r2 t2.stop y2 hr1 hr2)

/-- **Layout independence (C02), for every pair of texts** (tables of this run): if two texts have
    the same token sequence, then — whatever whitespace, line endings and comments separate the
    tokens, and whatever the two line/column lookups — both calls of the model's `add_content` return
    and their trees are equal up to positions and documentation (or both absent). -/
theorem layout_independent (env1 env2 : Env) (id1 id2 text1 text2 : String)
    (hE1 : EnvOk env1 text1.toList) (hE2 : EnvOk env2 text2.toList)
    (x : List (Nat × String) × Bool)
    (h1 : lexToks Driver.Parse.tables (text1.toList.length + 1) text1.toList 0 = some x)
    (h2 : lexToks Driver.Parse.tables (text2.toList.length + 1) text2.toList 0 = some x) :
    ∃ r1 r2, addContentE Driver.Parse.tables env1 id1 text1 = .ok r1
      ∧ addContentE Driver.Parse.tables env2 id2 text2 = .ok r2
      ∧ r1.ast.map erAidl = r2.ast.map erAidl := by
  obtain ⟨r1, hr1⟩ := ParseTerm.addContent_total env1 id1 text1 hE1
  obtain ⟨r2, hr2⟩ := ParseTerm.addContent_total env2 id2 text2 hE2
  exact ⟨r1, r2, hr1, hr2, addContent_layout_gen Driver.Parse.tables env1 env2 id1 id2 text1 text2 r1 r2
    (lexToks_rel _ _ _ _ _ _ _ x h1 h2) hr1 hr2⟩

end Aidl.Props.C02Layout
