import AidlVerif.Props.Erase
import AidlVerif.Lemmas.RunM

/-!
# The actions do not look at positions: a relational logic for two runs

`Rel2 e1 e2 x1 x2 Q`: whenever both runs return, the results are related by `Q` (a run that stops is
not constrained: the totality theorems deal with stops). With it: every hand-written action, given
arguments that are equal after erasure (`erArgV`), returns values that are equal after erasure —
whatever the two environments (texts, line/column lookups) and diagnostics so far.
-/

namespace Aidl.Props.Rel
open Aidl Aidl.Actions Aidl.Lexer Aidl.Erase Aidl.Props.PL

variable {e1 e2 : Env}

def Rel2 {α} (e1 e2 : Env) (x1 x2 : M α) (Q : α → α → Prop) : Prop :=
  ∀ ds1 ds2, match runM x1 e1 ds1, runM x2 e2 ds2 with
    | .ok (a1, _), .ok (a2, _) => Q a1 a2
    | _, _ => True

theorem Rel2.pure {α} {Q : α → α → Prop} (a1 a2 : α) (h : Q a1 a2) : Rel2 e1 e2 (pure a1 : M α) (pure a2) Q :=
  fun _ _ => h

theorem Rel2.bad_left {α} {Q : α → α → Prop} (k : PanicKind) (m : String) (x2 : M α) : Rel2 e1 e2 (bad k m : M α) x2 Q :=
  fun _ _ => trivial

theorem Rel2.bad_right {α} {Q : α → α → Prop} (k : PanicKind) (m : String) (x1 : M α) : Rel2 e1 e2 x1 (bad k m : M α) Q := by
  intro ds1 ds2
  rw [runM_bad]
  cases runM x1 e1 ds1 with
  | error _ => trivial
  | ok r => obtain ⟨a, d⟩ := r; trivial

theorem Rel2.bind {α β} {P : α → α → Prop} {Q : β → β → Prop} {x1 x2 : M α} {f1 f2 : α → M β}
    (hx : Rel2 e1 e2 x1 x2 P) (hf : ∀ a1 a2, P a1 a2 → Rel2 e1 e2 (f1 a1) (f2 a2) Q) :
    Rel2 e1 e2 (x1 >>= f1) (x2 >>= f2) Q := by
  intro ds1 ds2
  rw [runM_bind, runM_bind]
  have h := hx ds1 ds2
  revert h
  cases runM x1 e1 ds1 with
  | error _ => intro _; trivial
  | ok r1 =>
    obtain ⟨a1, d1⟩ := r1
    cases runM x2 e2 ds2 with
    | error _ =>
      intro _
      dsimp only
      cases runM (f1 a1) e1 d1 with
      | error _ => trivial
      | ok r => obtain ⟨a, d⟩ := r; trivial
    | ok r2 =>
      obtain ⟨a2, d2⟩ := r2
      intro h
      exact hf a1 a2 h d1 d2

theorem Rel2.mono {α} {P Q : α → α → Prop} {x1 x2 : M α} (hx : Rel2 e1 e2 x1 x2 P) (h : ∀ a1 a2, P a1 a2 → Q a1 a2) :
    Rel2 e1 e2 x1 x2 Q := by
  intro ds1 ds2
  have := hx ds1 ds2
  revert this
  cases runM x1 e1 ds1 with
  | error _ => intro _; trivial
  | ok r1 =>
    obtain ⟨a1, d1⟩ := r1
    cases runM x2 e2 ds2 with
    | error _ => intro _; trivial
    | ok r2 => obtain ⟨a2, d2⟩ := r2; exact fun hh => h _ _ hh

theorem Rel2.map {α β} {P : α → α → Prop} {Q : β → β → Prop} {x1 x2 : M α} {g : α → β}
    (hx : Rel2 e1 e2 x1 x2 P) (h : ∀ a1 a2, P a1 a2 → Q (g a1) (g a2)) : Rel2 e1 e2 (g <$> x1) (g <$> x2) Q := by
  have e : ∀ x : M α, g <$> x = x >>= fun a => Pure.pure (g a) := fun _ => rfl
  rw [e, e]
  exact Rel2.bind hx (fun a1 a2 ha => Rel2.pure _ _ (h a1 a2 ha))

theorem rel_bind_pure {α β} {Q : β → β → Prop} {a1 a2 : α} {f1 f2 : α → M β} (h : Rel2 e1 e2 (f1 a1) (f2 a2) Q) :
    Rel2 e1 e2 (pure a1 >>= f1) (pure a2 >>= f2) Q :=
  Rel2.bind (Rel2.pure (Q := fun x y => x = a1 ∧ y = a2) a1 a2 ⟨rfl, rfl⟩) (fun x y hxy => by obtain ⟨rfl, rfl⟩ := hxy; exact h)

/-- `mapM` over two lists that are equal after erasure -/
theorem Rel2.mapM {β γ} (f : Val → M β) (er : β → γ)
    (hf : ∀ v1 v2, erVal v1 = erVal v2 → Rel2 e1 e2 (f v1) (f v2) (fun b1 b2 => er b1 = er b2)) :
    ∀ (l1 l2 : List Val), erVals l1 = erVals l2 → Rel2 e1 e2 (l1.mapM f) (l2.mapM f) (fun r1 r2 => r1.map er = r2.map er) := by
  intro l1
  induction l1 with
  | nil =>
    intro l2 h
    cases l2 with
    | nil => rw [List.mapM_nil]; exact Rel2.pure _ _ rfl
    | cons _ _ => simp [erVals] at h
  | cons a as ih =>
    intro l2 h
    cases l2 with
    | nil => simp [erVals] at h
    | cons b bs =>
      simp only [erVals, List.cons.injEq] at h
      rw [List.mapM_cons, List.mapM_cons]
      refine Rel2.bind (hf a b h.1) (fun x y hxy => ?_)
      refine Rel2.bind (ih bs h.2) (fun xs ys hxs => ?_)
      exact Rel2.pure _ _ (by simp [hxy, hxs])

/-! ### primitives -/

/-- related argument lists -/
def ArgsRel (a1 a2 : List ArgV) : Prop := a1.map erArgV = a2.map erArgV

theorem rel_nth {a1 a2 : List ArgV} (h : ArgsRel a1 a2) (i : Nat) :
    Rel2 e1 e2 (nth a1 i) (nth a2 i) (fun v1 v2 => erVal v1 = erVal v2) := by
  unfold nth
  have hi : (a1[i]?).map erArgV = (a2[i]?).map erArgV := by
    rw [← List.getElem?_map, ← List.getElem?_map, h]
  cases h1 : a1[i]? with
  | none => exact Rel2.bad_left _ _ _
  | some x =>
    cases h2 : a2[i]? with
    | none => exact Rel2.bad_right _ _ _
    | some y =>
      rw [h1, h2] at hi
      simp only [Option.map_some, Option.some.injEq] at hi
      cases x with
      | triple s v e =>
        cases y with
        | triple s' v' e' => simp only [erArgV, ArgV.triple.injEq] at hi; exact Rel2.pure _ _ hi.2.1
        | locRef n => simp [erArgV] at hi
      | locRef n =>
        cases y with
        | triple s' v' e' => simp [erArgV] at hi
        | locRef n' => exact Rel2.pure _ _ (by simp [erVal])

theorem rel_asLoc (v1 v2 : Val) : Rel2 e1 e2 (asLoc v1) (asLoc v2) (fun _ _ => True) := by
  cases v1 <;> first | exact Rel2.bad_left _ _ _ | skip
  cases v2 <;> first | exact Rel2.bad_right _ _ _ | exact Rel2.pure _ _ trivial

theorem rel_locAt {a1 a2 : List ArgV} (h : ArgsRel a1 a2) (i : Nat) :
    Rel2 e1 e2 (locAt a1 i) (locAt a2 i) (fun _ _ => True) := by
  unfold locAt
  exact Rel2.bind (rel_nth h i) (fun v1 v2 _ => rel_asLoc v1 v2)

theorem rel_mkPos (a b : Nat) : Rel2 e1 e2 (mkPos a) (mkPos b) (fun _ _ => True) := by
  intro ds1 ds2
  cases runM (mkPos a) e1 ds1 with
  | error _ => trivial
  | ok r1 =>
    obtain ⟨x, d⟩ := r1
    cases runM (mkPos b) e2 ds2 with
    | error _ => trivial
    | ok r2 => obtain ⟨y, d'⟩ := r2; trivial

theorem rel_any {α} (x1 x2 : M α) : Rel2 e1 e2 x1 x2 (fun _ _ => True) := by
  intro ds1 ds2
  cases runM x1 e1 ds1 with
  | error _ => trivial
  | ok r1 =>
    obtain ⟨x, d⟩ := r1
    cases runM x2 e2 ds2 with
    | error _ => trivial
    | ok r2 => obtain ⟨y, d'⟩ := r2; trivial

theorem rel_asTok {v1 v2 : Val} (h : erVal v1 = erVal v2) : Rel2 e1 e2 (asTok v1) (asTok v2) (fun s1 s2 => s1 = s2) := by
  cases v1 <;> first | exact Rel2.bad_left _ _ _ | skip
  cases v2 <;> first | exact Rel2.bad_right _ _ _ | skip
  exact Rel2.pure _ _ (by simpa [erVal] using h)
theorem rel_asStr {v1 v2 : Val} (h : erVal v1 = erVal v2) : Rel2 e1 e2 (asStr v1) (asStr v2) (fun s1 s2 => s1 = s2) := by
  cases v1 <;> first | exact Rel2.bad_left _ _ _ | skip
  cases v2 <;> first | exact Rel2.bad_right _ _ _ | skip
  exact Rel2.pure _ _ (by simpa [erVal] using h)
theorem rel_asTy {v1 v2 : Val} (h : erVal v1 = erVal v2) : Rel2 e1 e2 (asTy v1) (asTy v2) (fun s1 s2 => erTy s1 = erTy s2) := by
  cases v1 <;> first | exact Rel2.bad_left _ _ _ | skip
  cases v2 <;> first | exact Rel2.bad_right _ _ _ | skip
  exact Rel2.pure _ _ (by simpa [erVal] using h)
theorem rel_asPackageV {v1 v2 : Val} (h : erVal v1 = erVal v2) : Rel2 e1 e2 (asPackageV v1) (asPackageV v2) (fun s1 s2 => erPackage s1 = erPackage s2) := by
  cases v1 <;> first | exact Rel2.bad_left _ _ _ | skip
  cases v2 <;> first | exact Rel2.bad_right _ _ _ | skip
  exact Rel2.pure _ _ (by simpa [erVal] using h)
theorem rel_asImportV {v1 v2 : Val} (h : erVal v1 = erVal v2) : Rel2 e1 e2 (asImportV v1) (asImportV v2) (fun s1 s2 => erImport s1 = erImport s2) := by
  cases v1 <;> first | exact Rel2.bad_left _ _ _ | skip
  cases v2 <;> first | exact Rel2.bad_right _ _ _ | skip
  exact Rel2.pure _ _ (by simpa [erVal] using h)
theorem rel_asItemV {v1 v2 : Val} (h : erVal v1 = erVal v2) : Rel2 e1 e2 (asItemV v1) (asItemV v2) (fun s1 s2 => erItem s1 = erItem s2) := by
  cases v1 <;> first | exact Rel2.bad_left _ _ _ | skip
  cases v2 <;> first | exact Rel2.bad_right _ _ _ | skip
  exact Rel2.pure _ _ (by simpa [erVal] using h)
theorem rel_asIfaceV {v1 v2 : Val} (h : erVal v1 = erVal v2) : Rel2 e1 e2 (asIfaceV v1) (asIfaceV v2) (fun s1 s2 => erIface s1 = erIface s2) := by
  cases v1 <;> first | exact Rel2.bad_left _ _ _ | skip
  cases v2 <;> first | exact Rel2.bad_right _ _ _ | skip
  exact Rel2.pure _ _ (by simpa [erVal] using h)
theorem rel_asParcV {v1 v2 : Val} (h : erVal v1 = erVal v2) : Rel2 e1 e2 (asParcV v1) (asParcV v2) (fun s1 s2 => erParc s1 = erParc s2) := by
  cases v1 <;> first | exact Rel2.bad_left _ _ _ | skip
  cases v2 <;> first | exact Rel2.bad_right _ _ _ | skip
  exact Rel2.pure _ _ (by simpa [erVal] using h)
theorem rel_asEnmV {v1 v2 : Val} (h : erVal v1 = erVal v2) : Rel2 e1 e2 (asEnmV v1) (asEnmV v2) (fun s1 s2 => erEnm s1 = erEnm s2) := by
  cases v1 <;> first | exact Rel2.bad_left _ _ _ | skip
  cases v2 <;> first | exact Rel2.bad_right _ _ _ | skip
  exact Rel2.pure _ _ (by simpa [erVal] using h)
theorem rel_asMethodV {v1 v2 : Val} (h : erVal v1 = erVal v2) : Rel2 e1 e2 (asMethodV v1) (asMethodV v2) (fun s1 s2 => erMethod s1 = erMethod s2) := by
  cases v1 <;> first | exact Rel2.bad_left _ _ _ | skip
  cases v2 <;> first | exact Rel2.bad_right _ _ _ | skip
  exact Rel2.pure _ _ (by simpa [erVal] using h)
theorem rel_asConstV {v1 v2 : Val} (h : erVal v1 = erVal v2) : Rel2 e1 e2 (asConstV v1) (asConstV v2) (fun s1 s2 => erConst s1 = erConst s2) := by
  cases v1 <;> first | exact Rel2.bad_left _ _ _ | skip
  cases v2 <;> first | exact Rel2.bad_right _ _ _ | skip
  exact Rel2.pure _ _ (by simpa [erVal] using h)
theorem rel_asFieldV {v1 v2 : Val} (h : erVal v1 = erVal v2) : Rel2 e1 e2 (asFieldV v1) (asFieldV v2) (fun s1 s2 => erField s1 = erField s2) := by
  cases v1 <;> first | exact Rel2.bad_left _ _ _ | skip
  cases v2 <;> first | exact Rel2.bad_right _ _ _ | skip
  exact Rel2.pure _ _ (by simpa [erVal] using h)
theorem rel_asEnumElV {v1 v2 : Val} (h : erVal v1 = erVal v2) : Rel2 e1 e2 (asEnumElV v1) (asEnumElV v2) (fun s1 s2 => erEnumEl s1 = erEnumEl s2) := by
  cases v1 <;> first | exact Rel2.bad_left _ _ _ | skip
  cases v2 <;> first | exact Rel2.bad_right _ _ _ | skip
  exact Rel2.pure _ _ (by simpa [erVal] using h)
theorem rel_asDirV {v1 v2 : Val} (h : erVal v1 = erVal v2) : Rel2 e1 e2 (asDirV v1) (asDirV v2) (fun s1 s2 => erDir s1 = erDir s2) := by
  cases v1 <;> first | exact Rel2.bad_left _ _ _ | skip
  cases v2 <;> first | exact Rel2.bad_right _ _ _ | skip
  exact Rel2.pure _ _ (by simpa [erVal] using h)
theorem rel_asArgV {v1 v2 : Val} (h : erVal v1 = erVal v2) : Rel2 e1 e2 (asArgV v1) (asArgV v2) (fun s1 s2 => erArg s1 = erArg s2) := by
  cases v1 <;> first | exact Rel2.bad_left _ _ _ | skip
  cases v2 <;> first | exact Rel2.bad_right _ _ _ | skip
  exact Rel2.pure _ _ (by simpa [erVal] using h)
theorem rel_asIelV {v1 v2 : Val} (h : erVal v1 = erVal v2) : Rel2 e1 e2 (asIelV v1) (asIelV v2) (fun s1 s2 => erIel s1 = erIel s2) := by
  cases v1 <;> first | exact Rel2.bad_left _ _ _ | skip
  cases v2 <;> first | exact Rel2.bad_right _ _ _ | skip
  exact Rel2.pure _ _ (by simpa [erVal] using h)
theorem rel_asPelV {v1 v2 : Val} (h : erVal v1 = erVal v2) : Rel2 e1 e2 (asPelV v1) (asPelV v2) (fun s1 s2 => erPel s1 = erPel s2) := by
  cases v1 <;> first | exact Rel2.bad_left _ _ _ | skip
  cases v2 <;> first | exact Rel2.bad_right _ _ _ | skip
  exact Rel2.pure _ _ (by simpa [erVal] using h)

theorem rel_asList {v1 v2 : Val} (h : erVal v1 = erVal v2) : Rel2 e1 e2 (asList v1) (asList v2) (fun l1 l2 => erVals l1 = erVals l2) := by
  cases v1 <;> first | exact Rel2.bad_left _ _ _ | skip
  cases v2 <;> first | exact Rel2.bad_right _ _ _ | skip
  exact Rel2.pure _ _ (by simpa [erVal] using h)

theorem rel_asOpt {v1 v2 : Val} (h : erVal v1 = erVal v2) :
    Rel2 e1 e2 (asOpt v1) (asOpt v2) (fun o1 o2 => o1.map erVal = o2.map erVal ∧ o1.isSome = o2.isSome) := by
  cases v1 <;> first | exact Rel2.bad_left _ _ _ | skip
  all_goals (cases v2 <;> first | exact Rel2.bad_right _ _ _ | skip)
  all_goals first
    | exact Rel2.pure _ _ (by simpa [erVal] using h)
    | (exfalso; simp [erVal] at h)

theorem rel_tokAt {a1 a2 : List ArgV} (h : ArgsRel a1 a2) (i : Nat) :
    Rel2 e1 e2 (tokAt a1 i) (tokAt a2 i) (fun s1 s2 => s1 = s2) := by
  unfold tokAt
  exact Rel2.bind (rel_nth h i) (fun v1 v2 hv => rel_asTok hv)

theorem rel_asStrPairV {v1 v2 : Val} (h : erVal v1 = erVal v2) : Rel2 e1 e2 (asStrPairV v1) (asStrPairV v2) (fun s1 s2 => s1 = s2) := by
  unfold asStrPairV
  split
  · split
    · exact Rel2.pure _ _ (by simp only [erVal, Val.pair.injEq, Val.str.injEq] at h; simp [h.1, h.2])
    · exact Rel2.bad_right _ _ _
  · exact Rel2.bad_left _ _ _

theorem rel_asLocTokV {v1 v2 : Val} (h : erVal v1 = erVal v2) : Rel2 e1 e2 (asLocTokV v1) (asLocTokV v2) (fun s1 s2 => s1.2 = s2.2) := by
  unfold asLocTokV
  split
  · split
    · exact Rel2.pure _ _ (by simp only [erVal, Val.pair.injEq, Val.tok.injEq] at h; exact h.2)
    · exact Rel2.bad_right _ _ _
  · exact Rel2.bad_left _ _ _

theorem rel_asAnnParamV {v1 v2 : Val} (h : erVal v1 = erVal v2) : Rel2 e1 e2 (asAnnParamV v1) (asAnnParamV v2) (fun s1 s2 => s1 = s2) := by
  unfold asAnnParamV
  split
  · split
    · exact Rel2.pure _ _ (by simp only [erVal, Val.pair.injEq, Val.str.injEq] at h; simp [h.1])
    · exfalso; simp [erVal] at h
    · exact Rel2.bad_right _ _ _
  · split
    · exfalso; simp [erVal] at h
    · exact Rel2.pure _ _ (by simp only [erVal, Val.pair.injEq, Val.str.injEq, Val.some_.injEq] at h; simp [h.1, h.2])
    · exact Rel2.bad_right _ _ _
  · exact Rel2.bad_left _ _ _

theorem map_id_of_ann (l : List Annotation) : l.map id = l := by simp

theorem rel_asAnns {v1 v2 : Val} (h : erVal v1 = erVal v2) : Rel2 e1 e2 (asAnns v1) (asAnns v2) (fun s1 s2 => s1 = s2) := by
  unfold asAnns
  refine Rel2.bind (rel_asList h) (fun l1 l2 hl => ?_)
  refine Rel2.mono (Rel2.mapM _ (fun a : Annotation => a) ?_ l1 l2 hl) (fun r1 r2 hr => by simpa using hr)
  intro a b hab
  cases a <;> first | exact Rel2.bad_left _ _ _ | skip
  cases b <;> first | exact Rel2.bad_right _ _ _ | skip
  exact Rel2.pure _ _ (by simpa [erVal] using hab)

theorem rel_optTokStr {v1 v2 : Val} (h : erVal v1 = erVal v2) : Rel2 e1 e2 (optTokStr v1) (optTokStr v2) (fun s1 s2 => s1 = s2) := by
  unfold optTokStr
  refine Rel2.bind (rel_asOpt h) (fun o1 o2 ho => ?_)
  cases o1 with
  | none =>
    cases o2 with
    | none => exact Rel2.pure _ _ rfl
    | some _ => simp at ho
  | some a =>
    cases o2 with
    | none => simp at ho
    | some b =>
      have ho' := ho.1
      simp only [Option.map_some, Option.some.injEq] at ho'
      exact Rel2.map (rel_asTok ho') (fun _ _ hh => by rw [hh])

theorem rel_joinToks {v1 v2 : Val} (h : erVal v1 = erVal v2) : Rel2 e1 e2 (joinToks v1) (joinToks v2) (fun s1 s2 => s1 = s2) := by
  unfold joinToks
  refine Rel2.bind (rel_asList h) (fun l1 l2 hl => ?_)
  refine Rel2.bind (Rel2.mapM _ (fun s : String => s) (fun a b hab => rel_asTok hab) l1 l2 hl) (fun r1 r2 hr => ?_)
  exact Rel2.pure _ _ (by simp only [List.map_id'] at hr; rw [hr])

theorem filterMap_er (os : List (Option Val)) : (os.filterMap id).map erVal = (os.map (Option.map erVal)).filterMap id := by
  induction os with
  | nil => rfl
  | cons o os ih => cases o <;> simp [ih]

theorem rel_flattenOpts {v1 v2 : Val} (h : erVal v1 = erVal v2) :
    Rel2 e1 e2 (flattenOpts v1) (flattenOpts v2) (fun l1 l2 => erVals l1 = erVals l2) := by
  unfold flattenOpts
  refine Rel2.bind (rel_asList h) (fun l1 l2 hl => ?_)
  refine Rel2.bind (Rel2.mapM _ (Option.map erVal) (fun a b hab => Rel2.mono (rel_asOpt hab) (fun _ _ hh => hh.1)) l1 l2 hl) (fun r1 r2 hr => ?_)
  exact Rel2.pure _ _ (by rw [erVals_eq, erVals_eq, filterMap_er, filterMap_er, hr])

theorem rel_simpleType (n1 n2 : String) (k : TypeKind) (a b a' b' : Nat) (hn : n1 = n2) :
    Rel2 e1 e2 (simpleType n1 k a b) (simpleType n2 k a' b') (fun v1 v2 => erVal v1 = erVal v2) := by
  unfold simpleType
  exact Rel2.bind (rel_any _ _) (fun _ _ _ => Rel2.pure _ _ (by simp [erVal, erTy, erTys, hn]))

theorem rel_recoveryAction (msg : String) {a1 a2 : List ArgV} (h : ArgsRel a1 a2) :
    Rel2 e1 e2 (recoveryAction msg a1) (recoveryAction msg a2) (fun v1 v2 => erVal v1 = erVal v2) := by
  unfold recoveryAction
  refine Rel2.bind (rel_nth h 0) (fun v1 v2 _ => ?_)
  cases v1 <;> first | exact Rel2.bad_left _ _ _ | skip
  cases v2 <;> first | exact Rel2.bad_right _ _ _ | skip
  exact Rel2.bind (rel_any _ _) (fun _ _ _ => Rel2.bind (rel_any _ _) (fun _ _ _ => Rel2.pure _ _ rfl))

/-! ### every hand-written action -/

theorem isSome_of_map_eq {o1 o2 : Option Val} (h : o1.map erVal = o2.map erVal) : o1.isSome = o2.isSome := by
  cases o1 <;> cases o2 <;> simp_all

macro "rstep" : tactic => `(tactic| first
  | with_reducible refine Rel2.bind (rel_tokAt (by assumption) _) (fun _ _ _ => ?_)
  | with_reducible refine Rel2.bind (rel_any (locAt _ _) (locAt _ _)) (fun _ _ _ => ?_)
  | with_reducible refine Rel2.bind (rel_nth (by assumption) _) (fun _ _ _ => ?_)
  | with_reducible refine Rel2.bind (rel_any (mkRange _ _) (mkRange _ _)) (fun _ _ _ => ?_)
  | with_reducible refine Rel2.bind (rel_any (Actions.getJavadoc _) (Actions.getJavadoc _)) (fun _ _ _ => ?_)
  | with_reducible refine Rel2.bind (rel_any (pushDiag _) (pushDiag _)) (fun _ _ _ => ?_)
  | with_reducible refine Rel2.bind (rel_asTok (by assumption)) (fun _ _ _ => ?_)
  | with_reducible refine Rel2.bind (rel_asStr (by assumption)) (fun _ _ _ => ?_)
  | with_reducible refine Rel2.bind (rel_asTy (by assumption)) (fun _ _ _ => ?_)
  | with_reducible refine Rel2.bind (rel_asList (by assumption)) (fun _ _ _ => ?_)
  | with_reducible refine Rel2.bind (rel_asOpt (by assumption)) (fun _ _ _ => ?_)
  | with_reducible refine Rel2.bind (rel_asAnns (by assumption)) (fun _ _ _ => ?_)
  | with_reducible refine Rel2.bind (rel_optTokStr (by assumption)) (fun _ _ _ => ?_)
  | with_reducible refine Rel2.bind (rel_joinToks (by assumption)) (fun _ _ _ => ?_)
  | with_reducible refine Rel2.bind (rel_flattenOpts (by assumption)) (fun _ _ _ => ?_)
  | with_reducible refine Rel2.bind (rel_asPackageV (by assumption)) (fun _ _ _ => ?_)
  | with_reducible refine Rel2.bind (rel_asImportV (by assumption)) (fun _ _ _ => ?_)
  | with_reducible refine Rel2.bind (rel_asItemV (by assumption)) (fun _ _ _ => ?_)
  | with_reducible refine Rel2.bind (rel_asIfaceV (by assumption)) (fun _ _ _ => ?_)
  | with_reducible refine Rel2.bind (rel_asParcV (by assumption)) (fun _ _ _ => ?_)
  | with_reducible refine Rel2.bind (rel_asEnmV (by assumption)) (fun _ _ _ => ?_)
  | with_reducible refine Rel2.bind (rel_asMethodV (by assumption)) (fun _ _ _ => ?_)
  | with_reducible refine Rel2.bind (rel_asConstV (by assumption)) (fun _ _ _ => ?_)
  | with_reducible refine Rel2.bind (rel_asFieldV (by assumption)) (fun _ _ _ => ?_)
  | with_reducible refine Rel2.bind (rel_asEnumElV (by assumption)) (fun _ _ _ => ?_)
  | with_reducible refine Rel2.bind (rel_asDirV (by assumption)) (fun _ _ _ => ?_)
  | with_reducible refine Rel2.bind (rel_asArgV (by assumption)) (fun _ _ _ => ?_)
  | with_reducible refine Rel2.bind (rel_asIelV (by assumption)) (fun _ _ _ => ?_)
  | with_reducible refine Rel2.bind (rel_asPelV (by assumption)) (fun _ _ _ => ?_)
  | with_reducible refine Rel2.bind (rel_asStrPairV (by assumption)) (fun _ _ _ => ?_)
  | with_reducible refine Rel2.bind (rel_asLocTokV (by assumption)) (fun _ _ _ => ?_)
  | with_reducible refine Rel2.bind (rel_asAnnParamV (by assumption)) (fun _ _ _ => ?_)
  | with_reducible refine Rel2.bind (Rel2.mapM _ erImport (fun _ _ h => rel_asImportV h) _ _ (by assumption)) (fun _ _ _ => ?_)
  | with_reducible refine Rel2.bind (Rel2.mapM _ erEnumEl (fun _ _ h => rel_asEnumElV h) _ _ (by assumption)) (fun _ _ _ => ?_)
  | with_reducible refine Rel2.bind (Rel2.mapM _ erArg (fun _ _ h => rel_asArgV h) _ _ (by assumption)) (fun _ _ _ => ?_)
  | with_reducible refine Rel2.bind (Rel2.mapM _ erIel (fun _ _ h => rel_asIelV h) _ _ (by assumption)) (fun _ _ _ => ?_)
  | with_reducible refine Rel2.bind (Rel2.mapM _ erPel (fun _ _ h => rel_asPelV h) _ _ (by assumption)) (fun _ _ _ => ?_)
  | with_reducible refine Rel2.bind (Rel2.mapM _ (fun x : String × Option String => x) (fun _ _ h => rel_asAnnParamV h) _ _ (by assumption)) (fun _ _ _ => ?_)
  | with_reducible refine rel_bind_pure ?_
  | with_reducible exact rel_simpleType _ _ _ _ _ _ _ (by assumption)
  | with_reducible exact rel_recoveryAction _ (by assumption)
  | with_reducible refine Rel2.pure _ _ ?_
  | with_reducible exact Rel2.bad_left _ _ _)

macro "rgood" : tactic => `(tactic| first
  | rfl
  | assumption
  | (simp only [erVal, erVals, erItem, erIel, erPel, erTy, erTys]; (first | rfl | assumption | (simp [*]; done)))
  | (subst_vars; simp only [erVal, erVals, erTy, erTys, erDir, erArg, erMethod, erConst, erField, erEnumEl, erIel, erPel, erIface, erParc, erEnm, erItem, erPackage, erImport, erAidl]; (first | rfl | (simp_all; done) | grind))
  | (simp_all [erVal, erVals, erTy, erTys, erDir, erArg, erMethod, erConst, erField, erEnumEl, erIel, erPel, erIface, erParc, erEnm, erItem, erPackage, erImport, erAidl]; done))

macro "rauto" : tactic => `(tactic| (repeat (any_goals (first | rstep | split))) <;> (try rgood))

set_option maxHeartbeats 4000000 in
set_option maxRecDepth 10000 in
theorem rel_16 (a1 a2 : List ArgV) (h : ArgsRel a1 a2) :
    Rel2 e1 e2 (userAction 16 a1) (userAction 16 a2) (fun v1 v2 => erVal v1 = erVal v2) := by
  unfold userAction
  simp only []
  refine Rel2.bind (rel_nth h _) (fun v0 w0 h0 => ?_)
  refine Rel2.bind (rel_asPackageV h0) (fun p1 p2 hp => ?_)
  refine Rel2.bind (rel_nth h _) (fun v1 w1 h1 => ?_)
  refine Rel2.bind (rel_asList h1) (fun l1 m1 hl1 => ?_)
  refine Rel2.bind (Rel2.mapM _ erImport (fun _ _ hh => rel_asImportV hh) _ _ hl1) (fun i1 i2 hi => ?_)
  refine Rel2.bind (rel_nth h _) (fun v2 w2 h2 => ?_)
  refine Rel2.bind (rel_asList h2) (fun l2 m2 hl2 => ?_)
  refine Rel2.bind (Rel2.mapM _ erImport (fun _ _ hh => rel_asImportV hh) _ _ hl2) (fun d1 d2 hd => ?_)
  refine Rel2.bind (rel_nth h _) (fun v3 w3 h3 => ?_)
  refine Rel2.bind (rel_asOpt h3) (fun o1 o2 ho => ?_)
  cases o1 with
  | none =>
    cases o2 with
    | none => exact Rel2.pure _ _ rfl
    | some _ => simp at ho
  | some a =>
    cases o2 with
    | none => simp at ho
    | some b =>
      have hab : erVal a = erVal b := by simpa using ho.1
      refine Rel2.bind (rel_asItemV hab) (fun it1 it2 hit => ?_)
      exact Rel2.pure _ _ (by simp [erVal, erAidl, hp, hi, hd, hit])

set_option maxHeartbeats 4000000 in
set_option maxRecDepth 10000 in
theorem rel_17 (a1 a2 : List ArgV) (h : ArgsRel a1 a2) :
    Rel2 e1 e2 (userAction 17 a1) (userAction 17 a2) (fun v1 v2 => erVal v1 = erVal v2) := by
  unfold userAction
  simp only []
  rauto

set_option maxHeartbeats 4000000 in
set_option maxRecDepth 10000 in
theorem rel_18 (a1 a2 : List ArgV) (h : ArgsRel a1 a2) :
    Rel2 e1 e2 (userAction 18 a1) (userAction 18 a2) (fun v1 v2 => erVal v1 = erVal v2) := by
  unfold userAction
  simp only []
  rauto

set_option maxHeartbeats 4000000 in
set_option maxRecDepth 10000 in
theorem rel_19 (a1 a2 : List ArgV) (h : ArgsRel a1 a2) :
    Rel2 e1 e2 (userAction 19 a1) (userAction 19 a2) (fun v1 v2 => erVal v1 = erVal v2) := by
  unfold userAction
  simp only []
  refine Rel2.bind (rel_nth h _) (fun v0 w0 h0 => ?_)
  refine Rel2.bind (rel_asList h0) (fun l1 l2 hl => ?_)
  refine Rel2.bind (rel_tokAt h _) (fun n1 n2 hn => ?_)
  subst hn
  have hemp : l1.isEmpty = l2.isEmpty := by
    have := congrArg List.length hl
    rw [erVals_eq, erVals_eq, List.length_map, List.length_map] at this
    cases l1 <;> cases l2 <;> simp_all
  rw [hemp]
  split
  · exact Rel2.pure _ _ rfl
  · refine Rel2.bind (rel_joinToks (v1 := .list l1) (v2 := .list l2) (by simp [erVal, hl])) (fun x y hh => ?_)
    subst hh
    exact Rel2.pure _ _ rfl

set_option maxHeartbeats 4000000 in
set_option maxRecDepth 10000 in
theorem rel_20 (a1 a2 : List ArgV) (h : ArgsRel a1 a2) :
    Rel2 e1 e2 (userAction 20 a1) (userAction 20 a2) (fun v1 v2 => erVal v1 = erVal v2) := by
  unfold userAction
  simp only []
  rauto

set_option maxHeartbeats 4000000 in
set_option maxRecDepth 10000 in
theorem rel_21 (a1 a2 : List ArgV) (h : ArgsRel a1 a2) :
    Rel2 e1 e2 (userAction 21 a1) (userAction 21 a2) (fun v1 v2 => erVal v1 = erVal v2) := by
  unfold userAction
  simp only []
  rauto

set_option maxHeartbeats 4000000 in
set_option maxRecDepth 10000 in
theorem rel_22 (a1 a2 : List ArgV) (h : ArgsRel a1 a2) :
    Rel2 e1 e2 (userAction 22 a1) (userAction 22 a2) (fun v1 v2 => erVal v1 = erVal v2) := by
  unfold userAction
  simp only []
  rauto

set_option maxHeartbeats 4000000 in
set_option maxRecDepth 10000 in
theorem rel_23 (a1 a2 : List ArgV) (h : ArgsRel a1 a2) :
    Rel2 e1 e2 (userAction 23 a1) (userAction 23 a2) (fun v1 v2 => erVal v1 = erVal v2) := by
  unfold userAction
  simp only []
  rauto

set_option maxHeartbeats 4000000 in
set_option maxRecDepth 10000 in
theorem rel_24 (a1 a2 : List ArgV) (h : ArgsRel a1 a2) :
    Rel2 e1 e2 (userAction 24 a1) (userAction 24 a2) (fun v1 v2 => erVal v1 = erVal v2) := by
  unfold userAction
  simp only []
  rauto

set_option maxHeartbeats 4000000 in
set_option maxRecDepth 10000 in
theorem rel_25 (a1 a2 : List ArgV) (h : ArgsRel a1 a2) :
    Rel2 e1 e2 (userAction 25 a1) (userAction 25 a2) (fun v1 v2 => erVal v1 = erVal v2) := by
  unfold userAction
  simp only []
  rauto

set_option maxHeartbeats 4000000 in
set_option maxRecDepth 10000 in
theorem rel_26 (a1 a2 : List ArgV) (h : ArgsRel a1 a2) :
    Rel2 e1 e2 (userAction 26 a1) (userAction 26 a2) (fun v1 v2 => erVal v1 = erVal v2) := by
  unfold userAction
  simp only []
  rauto

set_option maxHeartbeats 4000000 in
set_option maxRecDepth 10000 in
theorem rel_27 (a1 a2 : List ArgV) (h : ArgsRel a1 a2) :
    Rel2 e1 e2 (userAction 27 a1) (userAction 27 a2) (fun v1 v2 => erVal v1 = erVal v2) := by
  unfold userAction
  simp only []
  rauto

set_option maxHeartbeats 4000000 in
set_option maxRecDepth 10000 in
theorem rel_28 (a1 a2 : List ArgV) (h : ArgsRel a1 a2) :
    Rel2 e1 e2 (userAction 28 a1) (userAction 28 a2) (fun v1 v2 => erVal v1 = erVal v2) := by
  unfold userAction
  simp only []
  rauto

set_option maxHeartbeats 4000000 in
set_option maxRecDepth 10000 in
theorem rel_29 (a1 a2 : List ArgV) (h : ArgsRel a1 a2) :
    Rel2 e1 e2 (userAction 29 a1) (userAction 29 a2) (fun v1 v2 => erVal v1 = erVal v2) := by
  unfold userAction
  simp only []
  rauto

set_option maxHeartbeats 4000000 in
set_option maxRecDepth 10000 in
theorem rel_30 (a1 a2 : List ArgV) (h : ArgsRel a1 a2) :
    Rel2 e1 e2 (userAction 30 a1) (userAction 30 a2) (fun v1 v2 => erVal v1 = erVal v2) := by
  unfold userAction
  simp only []
  rauto

set_option maxHeartbeats 4000000 in
set_option maxRecDepth 10000 in
theorem rel_31 (a1 a2 : List ArgV) (h : ArgsRel a1 a2) :
    Rel2 e1 e2 (userAction 31 a1) (userAction 31 a2) (fun v1 v2 => erVal v1 = erVal v2) := by
  unfold userAction
  simp only []
  rauto

set_option maxHeartbeats 4000000 in
set_option maxRecDepth 10000 in
theorem rel_32 (a1 a2 : List ArgV) (h : ArgsRel a1 a2) :
    Rel2 e1 e2 (userAction 32 a1) (userAction 32 a2) (fun v1 v2 => erVal v1 = erVal v2) := by
  unfold userAction
  simp only []
  rauto

set_option maxHeartbeats 4000000 in
set_option maxRecDepth 10000 in
theorem rel_33 (a1 a2 : List ArgV) (h : ArgsRel a1 a2) :
    Rel2 e1 e2 (userAction 33 a1) (userAction 33 a2) (fun v1 v2 => erVal v1 = erVal v2) := by
  unfold userAction
  simp only []
  rauto

set_option maxHeartbeats 4000000 in
set_option maxRecDepth 10000 in
theorem rel_34 (a1 a2 : List ArgV) (h : ArgsRel a1 a2) :
    Rel2 e1 e2 (userAction 34 a1) (userAction 34 a2) (fun v1 v2 => erVal v1 = erVal v2) := by
  unfold userAction
  simp only []
  rauto

set_option maxHeartbeats 4000000 in
set_option maxRecDepth 10000 in
theorem rel_35 (a1 a2 : List ArgV) (h : ArgsRel a1 a2) :
    Rel2 e1 e2 (userAction 35 a1) (userAction 35 a2) (fun v1 v2 => erVal v1 = erVal v2) := by
  unfold userAction
  simp only []
  rauto

set_option maxHeartbeats 4000000 in
set_option maxRecDepth 10000 in
theorem rel_36 (a1 a2 : List ArgV) (h : ArgsRel a1 a2) :
    Rel2 e1 e2 (userAction 36 a1) (userAction 36 a2) (fun v1 v2 => erVal v1 = erVal v2) := by
  unfold userAction
  simp only []
  refine Rel2.bind (rel_nth h _) (fun v11 w11 h11 => ?_)
  refine Rel2.bind (rel_asList h11) (fun l1 l2 hl => ?_)
  refine Rel2.bind (Rel2.mapM _ erArg (fun _ _ hh => rel_asArgV hh) _ _ hl) (fun m1 m2 hm => ?_)
  refine Rel2.bind (rel_any (locAt _ _) (locAt _ _)) (fun vp1 vp2 _ => ?_)
  refine Rel2.bind (rel_nth h _) (fun v14 w14 h14 => ?_)
  refine Rel2.bind (rel_asOpt h14) (fun o1 o2 ho => ?_)
  cases o1 with
  | none =>
    cases o2 with
    | none => rauto
    | some _ => simp at ho
  | some a =>
    cases o2 with
    | none => simp at ho
    | some b =>
      have hab : erVal a = erVal b := by simpa using ho.1
      refine Rel2.bind (rel_asLocTokV hab) (fun ls1 ls2 hls => ?_)
      rw [hls]
      cases parseU32 ls2.2 with
      | ok v => rauto
      | error e => rauto

set_option maxHeartbeats 4000000 in
set_option maxRecDepth 10000 in
theorem rel_37 (a1 a2 : List ArgV) (h : ArgsRel a1 a2) :
    Rel2 e1 e2 (userAction 37 a1) (userAction 37 a2) (fun v1 v2 => erVal v1 = erVal v2) := by
  unfold userAction
  simp only []
  rauto

set_option maxHeartbeats 4000000 in
set_option maxRecDepth 10000 in
theorem rel_38 (a1 a2 : List ArgV) (h : ArgsRel a1 a2) :
    Rel2 e1 e2 (userAction 38 a1) (userAction 38 a2) (fun v1 v2 => erVal v1 = erVal v2) := by
  unfold userAction
  simp only []
  rauto

set_option maxHeartbeats 4000000 in
set_option maxRecDepth 10000 in
theorem rel_39 (a1 a2 : List ArgV) (h : ArgsRel a1 a2) :
    Rel2 e1 e2 (userAction 39 a1) (userAction 39 a2) (fun v1 v2 => erVal v1 = erVal v2) := by
  unfold userAction
  simp only []
  rauto

set_option maxHeartbeats 4000000 in
set_option maxRecDepth 10000 in
theorem rel_40 (a1 a2 : List ArgV) (h : ArgsRel a1 a2) :
    Rel2 e1 e2 (userAction 40 a1) (userAction 40 a2) (fun v1 v2 => erVal v1 = erVal v2) := by
  unfold userAction
  simp only []
  refine Rel2.bind (rel_nth h _) (fun v7 w7 h7 => ?_)
  refine Rel2.bind (rel_asOpt h7) (fun o1 o2 ho => ?_)
  cases o1 with
  | none =>
    cases o2 with
    | none => rauto
    | some _ => simp at ho
  | some a =>
    cases o2 with
    | none => simp at ho
    | some b =>
      have hab : erVal a = erVal b := by simpa using ho.1
      refine Rel2.bind (Rel2.map (Q := fun x y => x = y) (rel_asStr hab) (fun _ _ hh => by rw [hh])) (fun x y hxy => ?_)
      rauto

set_option maxHeartbeats 4000000 in
set_option maxRecDepth 10000 in
theorem rel_41 (a1 a2 : List ArgV) (h : ArgsRel a1 a2) :
    Rel2 e1 e2 (userAction 41 a1) (userAction 41 a2) (fun v1 v2 => erVal v1 = erVal v2) := by
  unfold userAction
  simp only []
  rauto

set_option maxHeartbeats 4000000 in
set_option maxRecDepth 10000 in
theorem rel_50 (a1 a2 : List ArgV) (h : ArgsRel a1 a2) :
    Rel2 e1 e2 (userAction 50 a1) (userAction 50 a2) (fun v1 v2 => erVal v1 = erVal v2) := by
  unfold userAction
  simp only []
  rauto

set_option maxHeartbeats 4000000 in
set_option maxRecDepth 10000 in
theorem rel_51 (a1 a2 : List ArgV) (h : ArgsRel a1 a2) :
    Rel2 e1 e2 (userAction 51 a1) (userAction 51 a2) (fun v1 v2 => erVal v1 = erVal v2) := by
  unfold userAction
  simp only []
  rauto

set_option maxHeartbeats 4000000 in
set_option maxRecDepth 10000 in
theorem rel_52 (a1 a2 : List ArgV) (h : ArgsRel a1 a2) :
    Rel2 e1 e2 (userAction 52 a1) (userAction 52 a2) (fun v1 v2 => erVal v1 = erVal v2) := by
  unfold userAction
  simp only []
  rauto

set_option maxHeartbeats 4000000 in
set_option maxRecDepth 10000 in
theorem rel_53 (a1 a2 : List ArgV) (h : ArgsRel a1 a2) :
    Rel2 e1 e2 (userAction 53 a1) (userAction 53 a2) (fun v1 v2 => erVal v1 = erVal v2) := by
  unfold userAction
  simp only []
  rauto

set_option maxHeartbeats 4000000 in
set_option maxRecDepth 10000 in
theorem rel_54 (a1 a2 : List ArgV) (h : ArgsRel a1 a2) :
    Rel2 e1 e2 (userAction 54 a1) (userAction 54 a2) (fun v1 v2 => erVal v1 = erVal v2) := by
  unfold userAction
  simp only []
  rauto

set_option maxHeartbeats 4000000 in
set_option maxRecDepth 10000 in
theorem rel_55 (a1 a2 : List ArgV) (h : ArgsRel a1 a2) :
    Rel2 e1 e2 (userAction 55 a1) (userAction 55 a2) (fun v1 v2 => erVal v1 = erVal v2) := by
  unfold userAction
  simp only []
  rauto

set_option maxHeartbeats 4000000 in
set_option maxRecDepth 10000 in
theorem rel_56 (a1 a2 : List ArgV) (h : ArgsRel a1 a2) :
    Rel2 e1 e2 (userAction 56 a1) (userAction 56 a2) (fun v1 v2 => erVal v1 = erVal v2) := by
  unfold userAction
  simp only []
  rauto

set_option maxHeartbeats 4000000 in
set_option maxRecDepth 10000 in
theorem rel_57 (a1 a2 : List ArgV) (h : ArgsRel a1 a2) :
    Rel2 e1 e2 (userAction 57 a1) (userAction 57 a2) (fun v1 v2 => erVal v1 = erVal v2) := by
  unfold userAction
  simp only []
  rauto

set_option maxHeartbeats 4000000 in
set_option maxRecDepth 10000 in
theorem rel_58 (a1 a2 : List ArgV) (h : ArgsRel a1 a2) :
    Rel2 e1 e2 (userAction 58 a1) (userAction 58 a2) (fun v1 v2 => erVal v1 = erVal v2) := by
  unfold userAction
  simp only []
  rauto

set_option maxHeartbeats 4000000 in
set_option maxRecDepth 10000 in
theorem rel_59 (a1 a2 : List ArgV) (h : ArgsRel a1 a2) :
    Rel2 e1 e2 (userAction 59 a1) (userAction 59 a2) (fun v1 v2 => erVal v1 = erVal v2) := by
  unfold userAction
  simp only []
  rauto

set_option maxHeartbeats 4000000 in
set_option maxRecDepth 10000 in
theorem rel_60 (a1 a2 : List ArgV) (h : ArgsRel a1 a2) :
    Rel2 e1 e2 (userAction 60 a1) (userAction 60 a2) (fun v1 v2 => erVal v1 = erVal v2) := by
  unfold userAction
  simp only []
  rauto

set_option maxHeartbeats 4000000 in
set_option maxRecDepth 10000 in
theorem rel_61 (a1 a2 : List ArgV) (h : ArgsRel a1 a2) :
    Rel2 e1 e2 (userAction 61 a1) (userAction 61 a2) (fun v1 v2 => erVal v1 = erVal v2) := by
  unfold userAction
  simp only []
  refine Rel2.bind (rel_nth h _) (fun v1 w1 h1 => ?_)
  refine Rel2.bind (rel_asOpt h1) (fun o1 o2 ho => ?_)
  cases o1 with
  | none =>
    cases o2 with
    | none => rauto
    | some _ => simp at ho
  | some a =>
    cases o2 with
    | none => simp at ho
    | some b =>
      have hab : erVal a = erVal b := by simpa using ho.1
      refine Rel2.bind (rel_asList hab) (fun l1 l2 hl => ?_)
      refine Rel2.bind (Rel2.mono (Q := fun x y => x = y) (Rel2.mapM _ (fun x : String × Option String => x)
        (fun _ _ hh => rel_asAnnParamV hh) _ _ hl) (fun r1 r2 hr => by simpa using hr)) (fun x y hxy => ?_)
      rauto

set_option maxHeartbeats 4000000 in
set_option maxRecDepth 10000 in
theorem rel_62 (a1 a2 : List ArgV) (h : ArgsRel a1 a2) :
    Rel2 e1 e2 (userAction 62 a1) (userAction 62 a2) (fun v1 v2 => erVal v1 = erVal v2) := by
  unfold userAction
  simp only []
  rauto

set_option maxHeartbeats 4000000 in
set_option maxRecDepth 10000 in
theorem rel_63 (a1 a2 : List ArgV) (h : ArgsRel a1 a2) :
    Rel2 e1 e2 (userAction 63 a1) (userAction 63 a2) (fun v1 v2 => erVal v1 = erVal v2) := by
  unfold userAction
  simp only []
  rauto

set_option maxHeartbeats 4000000 in
set_option maxRecDepth 10000 in
theorem rel_64 (a1 a2 : List ArgV) (h : ArgsRel a1 a2) :
    Rel2 e1 e2 (userAction 64 a1) (userAction 64 a2) (fun v1 v2 => erVal v1 = erVal v2) := by
  unfold userAction
  simp only []
  rauto

set_option maxHeartbeats 4000000 in
set_option maxRecDepth 10000 in
theorem rel_65 (a1 a2 : List ArgV) (h : ArgsRel a1 a2) :
    Rel2 e1 e2 (userAction 65 a1) (userAction 65 a2) (fun v1 v2 => erVal v1 = erVal v2) := by
  unfold userAction
  simp only []
  rauto

set_option maxHeartbeats 4000000 in
set_option maxRecDepth 10000 in
theorem rel_66 (a1 a2 : List ArgV) (h : ArgsRel a1 a2) :
    Rel2 e1 e2 (userAction 66 a1) (userAction 66 a2) (fun v1 v2 => erVal v1 = erVal v2) := by
  unfold userAction
  simp only []
  rauto

set_option maxHeartbeats 4000000 in
set_option maxRecDepth 10000 in
theorem rel_67 (a1 a2 : List ArgV) (h : ArgsRel a1 a2) :
    Rel2 e1 e2 (userAction 67 a1) (userAction 67 a2) (fun v1 v2 => erVal v1 = erVal v2) := by
  unfold userAction
  simp only []
  rauto

set_option maxHeartbeats 4000000 in
set_option maxRecDepth 10000 in
theorem rel_68 (a1 a2 : List ArgV) (h : ArgsRel a1 a2) :
    Rel2 e1 e2 (userAction 68 a1) (userAction 68 a2) (fun v1 v2 => erVal v1 = erVal v2) := by
  unfold userAction
  simp only []
  rauto

set_option maxHeartbeats 4000000 in
set_option maxRecDepth 10000 in
theorem rel_69 (a1 a2 : List ArgV) (h : ArgsRel a1 a2) :
    Rel2 e1 e2 (userAction 69 a1) (userAction 69 a2) (fun v1 v2 => erVal v1 = erVal v2) := by
  unfold userAction
  simp only []
  rauto

set_option maxHeartbeats 4000000 in
set_option maxRecDepth 10000 in
theorem rel_100 (a1 a2 : List ArgV) (h : ArgsRel a1 a2) :
    Rel2 e1 e2 (userAction 100 a1) (userAction 100 a2) (fun v1 v2 => erVal v1 = erVal v2) := by
  unfold userAction
  simp only []
  rauto

end Aidl.Props.Rel
