import AidlVerif.Props.SkipEntries

/-!
# White space before a token is skipped — for every text, from the table alone

`firstCls r`: the characters a non-empty word of `r` can begin with (an over-approximation computed from
the expression). `first_sound`: a non-empty match begins with such a character. `othersMissWs`: kernel
evaluation over THIS run's lexer table — no entry but the white-space entry can begin with a white-space
character. Hence `bestMatch_ws` (on a text that begins with white space the longest match is the
white-space run, by the white-space entry) and `next_skips_ws`: the lexer passes over leading white space.
-/

namespace Aidl.Props.LexSkip
open Aidl.Regex Aidl.Lexer Aidl.Javadoc Aidl.Props.JavadocTotal Aidl.Props.LexerBounds Aidl.Props.LexerProgress
  Aidl.Props.RegexSound Aidl.Props.JavadocSpec Aidl.Props.SkipEntries

def nullable : Re → Bool
  | .eps => true
  | .cls _ => false
  | .seq a b => nullable a && nullable b
  | .alt a b => nullable a || nullable b
  | .star _ => true

def firstCls : Re → List (Nat × Nat)
  | .eps => []
  | .cls rs => rs
  | .seq a b => firstCls a ++ (if nullable a then firstCls b else [])
  | .alt a b => firstCls a ++ firstCls b
  | .star a => firstCls a

theorem inCls_append (a b : List (Nat × Nat)) (c : Char) : inCls (a ++ b) c = (inCls a c || inCls b c) := by
  simp [inCls, List.any_append]

theorem matches_nil_nullable {r : Re} {w : List Char} (h : Matches r w) : w = [] → nullable r = true := by
  induction h with
  | eps => intro _; rfl
  | cls rs c _ => intro h; cases h
  | seq a b u v _ _ iha ihb =>
    intro h
    have hu : u = [] := by cases u with | nil => rfl | cons x y => cases h
    have hv : v = [] := by subst hu; simpa using h
    simp [nullable, iha hu, ihb hv]
  | altL a b u _ ih => intro h; simp [nullable, ih h]
  | altR a b u _ ih => intro h; simp [nullable, ih h]
  | starNil a => intro _; rfl
  | starCons a u v _ _ _ _ => intro _; rfl

/-- a non-empty word begins with a character of `firstCls` -/
theorem first_sound {r : Re} {w : List Char} (h : Matches r w) : ∀ c t, w = c :: t → inCls (firstCls r) c = true := by
  induction h with
  | eps => intro c t h; cases h
  | cls rs d hd => intro c t h; cases h; exact hd
  | seq a b u v hu _ iha ihb =>
    intro c t h
    simp only [firstCls, inCls_append, Bool.or_eq_true]
    cases u with
    | nil =>
      right
      have hn := matches_nil_nullable hu rfl
      simp only [hn, if_true]
      exact ihb c t (by simpa using h)
    | cons x y =>
      left
      simp only [List.cons_append, List.cons.injEq] at h
      exact iha c y (by rw [h.1])
  | altL a b u _ ih =>
    intro c t h
    simp only [firstCls, inCls_append, Bool.or_eq_true]
    exact Or.inl (ih c t h)
  | altR a b u _ ih =>
    intro c t h
    simp only [firstCls, inCls_append, Bool.or_eq_true]
    exact Or.inr (ih c t h)
  | starNil a => intro c t h; cases h
  | starCons a u v _ _ iha ihs =>
    intro c t h
    cases u with
    | nil => exact ihs c t (by simpa using h)
    | cons x y =>
      simp only [List.cons_append, List.cons.injEq] at h
      exact iha c y (by rw [h.1])

/-- two lists of ranges have no character in common -/
def disjointCls (a b : List (Nat × Nat)) : Bool := a.all fun r => b.all fun s => decide (r.2 < s.1) || decide (s.2 < r.1)

theorem disjoint_sound (a b : List (Nat × Nat)) (h : disjointCls a b = true) (c : Char) (ha : inCls a c = true) : inCls b c = false := by
  cases hb : inCls b c with
  | false => rfl
  | true =>
    unfold inCls at ha hb
    obtain ⟨r, hr, hrc⟩ := List.any_eq_true.mp ha
    obtain ⟨s, hs, hsc⟩ := List.any_eq_true.mp hb
    have := List.all_eq_true.mp (List.all_eq_true.mp h r hr) s hs
    simp only [Bool.and_eq_true, Bool.or_eq_true, decide_eq_true_eq] at hrc hsc this
    omega

/-- an anchored match at a character outside `firstCls` is empty (or none) -/
theorem matchAt_outside (r : Re) (f : Nat) (c : Char) (s : List Char) (p e : Nat) (hc : inCls (firstCls r) c = false)
    (h : matchAt r f (c :: s) p = some e) : e = p := by
  obtain ⟨w, s', hs, hw, he⟩ := matchAt_sound r f _ p e h
  cases w with
  | nil => simpa [utf8Len_nil] using he
  | cons x y =>
    have hx : x = c := by simpa using (List.cons.inj hs).1.symm
    have := first_sound hw x y rfl
    rw [hx, hc] at this; cases this

/-! ### the table of this run -/

/-- the index of the white-space entry in this run's table -/
def wsIdx : Nat := Gen.lexTable.toList.idxOf (wsRe, true)

theorem wsIdx_entry : wsIdx < Gen.lexTable.size ∧ Gen.lexTable[wsIdx]! = (wsRe, true) := by decide

/-- no other entry can begin with a white-space character (kernel evaluation over the regenerated table) -/
def othersMissWs : Bool :=
  (List.range Gen.lexTable.size).all fun i => i == wsIdx || disjointCls wsCls (firstCls Gen.lexTable[i]!.1)

theorem othersMissWs_ok : othersMissWs = true := by decide +kernel

theorem other_entry_at_ws (i : Nat) (hi : i < Gen.lexTable.size) (hne : i ≠ wsIdx) (f : Nat) (c : Char) (s : List Char) (p : Nat)
    (hc : inCls wsCls c = true) :
    matchAt Gen.lexTable[i]!.1 f (c :: s) p = none ∨ matchAt Gen.lexTable[i]!.1 f (c :: s) p = some p := by
  have hall := List.all_eq_true.mp othersMissWs_ok i (List.mem_range.mpr hi)
  have hd : disjointCls wsCls (firstCls Gen.lexTable[i]!.1) = true := by
    simp only [Bool.or_eq_true, beq_iff_eq] at hall
    rcases hall with h | h
    · exact absurd h hne
    · exact h
  have hout := disjoint_sound _ _ hd c hc
  cases h : matchAt Gen.lexTable[i]!.1 f (c :: s) p with
  | none => exact Or.inl rfl
  | some e => exact Or.inr (by rw [matchAt_outside _ f c s p e hout h])

/-! ### the longest match, when one entry alone matches something non-empty -/

def stepBest (table : LexTable) (f : Nat) (s : List Char) (p : Nat) (best : Option (Nat × Nat)) (i : Nat) : Option (Nat × Nat) :=
  match matchAt table[i]!.1 f s p with
  | none => best
  | some e =>
    let len := e - p
    match best with
    | none => some (len, i)
    | some (bl, _) => if len ≥ bl then some (len, i) else best

theorem bestMatch_eq_fold (table : LexTable) (f : Nat) (s : List Char) (p : Nat) :
    bestMatch table f s p = (List.range table.size).foldl (stepBest table f s p) none := rfl

def Good0 (b : Option (Nat × Nat)) : Prop := b = none ∨ ∃ k, b = some (0, k)

theorem fold_single (table : LexTable) (f : Nat) (s : List Char) (p j L : Nat) (hL : 0 < L)
    (hj : matchAt table[j]!.1 f s p = some (p + L))
    (hothers : ∀ i, i ≠ j → matchAt table[i]!.1 f s p = none ∨ matchAt table[i]!.1 f s p = some p) :
    ∀ (l : List Nat) (best : Option (Nat × Nat)), l.Nodup → (Good0 best ∨ (best = some (L, j) ∧ j ∉ l)) →
      (l.foldl (stepBest table f s p) best = some (L, j)) ∨ (Good0 (l.foldl (stepBest table f s p) best) ∧ j ∉ l ∧ Good0 best) := by
  intro l
  induction l with
  | nil =>
    intro best _ h
    rcases h with h | ⟨h, _⟩
    · exact Or.inr ⟨h, by simp, h⟩
    · exact Or.inl h
  | cons i l ih =>
    intro best hnd h
    have hnd' := (List.nodup_cons.mp hnd).2
    have hil := (List.nodup_cons.mp hnd).1
    rw [List.foldl_cons]
    by_cases hij : i = j
    · subst hij
      rcases h with h | ⟨_, hnot⟩
      · -- the entry itself: the best so far is empty or absent
        have hstep : stepBest table f s p best i = some (L, i) := by
          unfold stepBest
          rw [hj]
          have : p + L - p = L := by omega
          rcases h with h | ⟨k, h⟩
          · subst h; simp [this]
          · subst h; simp [this]
        rw [hstep]
        rcases ih (some (L, i)) hnd' (Or.inr ⟨rfl, hil⟩) with h1 | ⟨h1, _, h3⟩
        · exact Or.inl h1
        · rcases h3 with h3 | ⟨k, h3⟩
          · cases h3
          · cases h3; omega
      · exact absurd (List.mem_cons_self) hnot
    · have hstep : (Good0 best → Good0 (stepBest table f s p best i)) ∧ (best = some (L, j) → stepBest table f s p best i = some (L, j)) := by
        unfold stepBest
        rcases hothers i hij with h0 | h0
        · rw [h0]; exact ⟨fun h => h, fun h => h⟩
        · rw [h0]
          have : p - p = 0 := by omega
          constructor
          · intro hg
            rcases hg with hg | ⟨k, hg⟩
            · subst hg; exact Or.inr ⟨i, by simp [this]⟩
            · subst hg; exact Or.inr ⟨i, by simp [this]⟩
          · intro hb
            subst hb
            simp only [this]
            rw [if_neg (by omega)]
      rcases h with h | ⟨h, hnot⟩
      · rcases ih _ hnd' (Or.inl (hstep.1 h)) with h1 | ⟨h1, h2, _⟩
        · exact Or.inl h1
        · exact Or.inr ⟨h1, by simp [h2, Ne.symm hij], h⟩
      · have hnot' : j ∉ l := fun hm => hnot (List.mem_cons_of_mem _ hm)
        rw [hstep.2 h]
        rcases ih _ hnd' (Or.inr ⟨rfl, hnot'⟩) with h1 | ⟨_, _, h3⟩
        · exact Or.inl h1
        · rcases h3 with h3 | ⟨k, h3⟩
          · cases h3
          · cases h3; omega

theorem bestMatch_single (table : LexTable) (f : Nat) (s : List Char) (p j L : Nat) (hjs : j < table.size) (hL : 0 < L)
    (hj : matchAt table[j]!.1 f s p = some (p + L))
    (hothers : ∀ i, i ≠ j → matchAt table[i]!.1 f s p = none ∨ matchAt table[i]!.1 f s p = some p) :
    bestMatch table f s p = some (L, j) := by
  rw [bestMatch_eq_fold]
  rcases fold_single table f s p j L hL hj hothers (List.range table.size) none List.nodup_range (Or.inl (Or.inl rfl)) with h | ⟨_, h, _⟩
  · exact h
  · exact absurd (List.mem_range.mpr hjs) h

/-! ### the lexer passes over leading white space -/

theorem splitBytes_prefix : ∀ (pre rest : List Char), splitBytes (utf8Len pre) (pre ++ rest) = (pre, rest)
  | [], rest => by rw [utf8Len_nil]; cases rest <;> rfl
  | c :: cs, rest => by
    have hpos := utf8Size_pos c
    obtain ⟨n, hn⟩ : ∃ n, utf8Len (c :: cs) = n + 1 := ⟨utf8Len (c :: cs) - 1, by rw [utf8Len_cons]; omega⟩
    rw [hn, List.cons_append, splitBytes]
    have : n + 1 - c.utf8Size = utf8Len cs := by rw [utf8Len_cons] at hn; omega
    rw [this, splitBytes_prefix cs rest]

theorem takeWhile_run {α} (q : α → Bool) : ∀ (run rest : List α), (∀ x ∈ run, q x = true) → (∀ c t, rest = c :: t → q c = false) →
    (run ++ rest).takeWhile q = run
  | [], rest, _, hout => by
    cases rest with
    | nil => rfl
    | cons c t => rw [List.nil_append, List.takeWhile_cons_of_neg (by simp [hout c t rfl])]
  | x :: run, rest, hin, hout => by
    rw [List.cons_append, List.takeWhile_cons_of_pos (hin x (by simp)), takeWhile_run q run rest (fun y hy => hin y (by simp [hy])) hout]

/-- **Leading white space is skipped**: on a text that begins with a (maximal) run of white-space characters the
    lexer of this run's table continues after the run — for every text, whatever follows. -/
theorem next_skips_ws (fuel : Nat) (run rest : List Char) (p : Nat) (hne : run ≠ [])
    (hrun : ∀ c ∈ run, isWsChar c = true) (hout : ∀ c t, rest = c :: t → isWsChar c = false)
    (hf : (run ++ rest).length ≤ fuel + 1) :
    next Gen.lexTable (fuel + 1) (run ++ rest) p = next Gen.lexTable fuel rest (p + utf8Len run) := by
  obtain ⟨c, t, hct⟩ : ∃ c t, run = c :: t := by
    cases run with
    | nil => exact absurd rfl hne
    | cons c t => exact ⟨c, t, rfl⟩
  have hcws : inCls wsCls c = true := hrun c (by rw [hct]; simp)
  have htw : (run ++ rest).takeWhile isWsChar = run := takeWhile_run isWsChar run rest hrun hout
  have hL : 0 < utf8Len run := by rw [hct, utf8Len_cons]; have := utf8Size_pos c; omega
  -- the white-space entry matches the run, no other entry matches anything non-empty
  have hws : matchAt Gen.lexTable[wsIdx]!.1 (fuel + 1) (run ++ rest) p = some (p + utf8Len run) := by
    rw [wsIdx_entry.2]
    have := matchAt_ws (fuel + 1) (run ++ rest) p hf
    rw [htw] at this
    exact this
  have hothers : ∀ i, i ≠ wsIdx → matchAt Gen.lexTable[i]!.1 (fuel + 1) (run ++ rest) p = none
      ∨ matchAt Gen.lexTable[i]!.1 (fuel + 1) (run ++ rest) p = some p := by
    intro i hi
    by_cases his : i < Gen.lexTable.size
    · rw [hct, List.cons_append]
      exact other_entry_at_ws i his hi (fuel + 1) c (t ++ rest) p hcws
    · -- beyond the table: the default entry
      have : Gen.lexTable[i]! = default := by
        rw [getElem!_def]
        have : Gen.lexTable[i]? = none := Array.getElem?_eq_none (by omega)
        rw [this]
      rw [this]
      right
      rw [hct, List.cons_append]
      rfl
  have hbest := bestMatch_single Gen.lexTable (fuel + 1) (run ++ rest) p wsIdx (utf8Len run) wsIdx_entry.1 hL hws hothers
  have hshape : run ++ rest = c :: (t ++ rest) := by rw [hct]; rfl
  rw [hshape, next]
  case x_4 => intro h; cases h
  rw [← hshape, hbest]
  simp only
  rw [wsIdx_entry.2]
  simp only [if_true]
  rw [if_neg (by omega), splitBytes_prefix]

/-! ### … and over comments -/

def lineIdx : Nat := Gen.lexTable.toList.idxOf (lineRe, true)
def blockIdx : Nat := Gen.lexTable.toList.idxOf (blockRe, true)

theorem lineIdx_entry : lineIdx < Gen.lexTable.size ∧ Gen.lexTable[lineIdx]! = (lineRe, true) := by decide
theorem blockIdx_entry : blockIdx < Gen.lexTable.size ∧ Gen.lexTable[blockIdx]! = (blockRe, true) := by decide
theorem line_ne_block : lineIdx ≠ blockIdx := by decide

/-- no entry but the two comment entries can begin with `/` -/
def othersMissSlash : Bool :=
  (List.range Gen.lexTable.size).all fun i => i == lineIdx || i == blockIdx || disjointCls slashCls (firstCls Gen.lexTable[i]!.1)

theorem othersMissSlash_ok : othersMissSlash = true := by decide +kernel

theorem other_entry_at_slash (i : Nat) (hi : i < Gen.lexTable.size) (h1 : i ≠ lineIdx) (h2 : i ≠ blockIdx) (f : Nat) (s : List Char) (p : Nat) :
    matchAt Gen.lexTable[i]!.1 f ('/' :: s) p = none ∨ matchAt Gen.lexTable[i]!.1 f ('/' :: s) p = some p := by
  have hall := List.all_eq_true.mp othersMissSlash_ok i (List.mem_range.mpr hi)
  have hd : disjointCls slashCls (firstCls Gen.lexTable[i]!.1) = true := by
    simp only [Bool.or_eq_true, beq_iff_eq] at hall
    rcases hall with (h | h) | h
    · exact absurd h h1
    · exact absurd h h2
    · exact h
  have hout := disjoint_sound _ _ hd '/' (by decide)
  cases h : matchAt Gen.lexTable[i]!.1 f ('/' :: s) p with
  | none => exact Or.inl rfl
  | some e => exact Or.inr (by rw [matchAt_outside _ f '/' s p e hout h])

/-- the block-comment entry does not match at `//` -/
theorem block_at_line (f : Nat) (t : List Char) (p : Nat) : matchAt blockRe f ('/' :: '/' :: t) p = none := by
  cases h : matchAt blockRe f ('/' :: '/' :: t) p with
  | none => rfl
  | some e =>
    obtain ⟨w, s', hs, hmw, _⟩ := matchAt_sound blockRe f _ p e h
    rw [blockRe_eq] at hmw
    cases hmw with
    | seq _ _ a r ha hr =>
      cases hr with
      | seq _ _ b u hb hu =>
        obtain ⟨ca, rfl, _⟩ := cls_word _ _ ha
        obtain ⟨cb, rfl, hcb⟩ := cls_word _ _ hb
        have hs' : '/' :: '/' :: t = ca :: cb :: (u ++ s') := by simpa using hs
        simp only [List.cons.injEq] at hs'
        obtain ⟨_, h2, _⟩ := hs'
        subst h2
        exact absurd hcb (by decide)

/-- the line-comment entry does not match at `/*` -/
theorem line_at_block (f : Nat) (t : List Char) (p : Nat) : matchAt lineRe f ('/' :: '*' :: t) p = none := by
  cases h : matchAt lineRe f ('/' :: '*' :: t) p with
  | none => rfl
  | some e =>
    obtain ⟨w, s', hs, hmw, _⟩ := matchAt_sound lineRe f _ p e h
    unfold lineRe Re.seqs at hmw
    cases hmw with
    | seq _ _ a r ha hr =>
      cases hr with
      | seq _ _ b u hb hu =>
        obtain ⟨ca, rfl, _⟩ := cls_word _ _ ha
        obtain ⟨cb, rfl, hcb⟩ := cls_word _ _ hb
        have hs' : '/' :: '*' :: t = ca :: cb :: (u ++ s') := by simpa using hs
        simp only [List.cons.injEq] at hs'
        obtain ⟨_, h2, _⟩ := hs'
        subst h2
        exact absurd hcb (by decide)

theorem default_entry (i : Nat) (h : ¬ i < Gen.lexTable.size) (f : Nat) (s : List Char) (p : Nat) :
    matchAt Gen.lexTable[i]!.1 f s p = some p := by
  have : Gen.lexTable[i]! = default := by
    rw [getElem!_def]
    have : Gen.lexTable[i]? = none := Array.getElem?_eq_none (by omega)
    rw [this]
  rw [this]
  rfl

/-- **A line comment is skipped**: `//`, the rest of the line and the line breaks after it. -/
theorem next_skips_line (fuel : Nat) (t : List Char) (p : Nat) (hf : t.length + 2 ≤ fuel + 1) :
    next Gen.lexTable (fuel + 1) ('/' :: '/' :: t) p
      = next Gen.lexTable fuel ((t.dropWhile isNotEol).dropWhile isEol)
          (p + (2 + utf8Len (t.takeWhile isNotEol) + utf8Len ((t.dropWhile isNotEol).takeWhile isEol))) := by
  let L := 2 + utf8Len (t.takeWhile isNotEol) + utf8Len ((t.dropWhile isNotEol).takeWhile isEol)
  have hline : matchAt Gen.lexTable[lineIdx]!.1 (fuel + 1) ('/' :: '/' :: t) p = some (p + L) := by
    rw [lineIdx_entry.2, matchAt_line (fuel + 1) t p (by omega)]
    congr 1
    show p + 2 + _ + _ = p + (2 + _ + _)
    omega
  have hothers : ∀ i, i ≠ lineIdx → matchAt Gen.lexTable[i]!.1 (fuel + 1) ('/' :: '/' :: t) p = none
      ∨ matchAt Gen.lexTable[i]!.1 (fuel + 1) ('/' :: '/' :: t) p = some p := by
    intro i hi
    by_cases his : i < Gen.lexTable.size
    · by_cases hb : i = blockIdx
      · subst hb; rw [blockIdx_entry.2]; exact Or.inl (block_at_line _ t p)
      · exact other_entry_at_slash i his hi hb _ _ p
    · exact Or.inr (default_entry i his _ _ p)
  have hbest := bestMatch_single Gen.lexTable (fuel + 1) ('/' :: '/' :: t) p lineIdx L lineIdx_entry.1 (by show 0 < 2 + _ + _; omega) hline hothers
  rw [next]
  case x_4 => intro h; cases h
  rw [hbest]
  simp only
  rw [lineIdx_entry.2]
  simp only [if_true]
  rw [if_neg (by show ¬ (2 + _ + _ = 0); omega)]
  -- the text splits after the comment
  have hsplit : '/' :: '/' :: t = ('/' :: '/' :: (t.takeWhile isNotEol ++ (t.dropWhile isNotEol).takeWhile isEol))
      ++ (t.dropWhile isNotEol).dropWhile isEol := by
    have h1 : t = t.takeWhile isNotEol ++ t.dropWhile isNotEol := (List.takeWhile_append_dropWhile).symm
    have h2 : t.dropWhile isNotEol = (t.dropWhile isNotEol).takeWhile isEol ++ (t.dropWhile isNotEol).dropWhile isEol :=
      (List.takeWhile_append_dropWhile).symm
    conv => lhs; rw [h1, h2]
    simp [List.append_assoc]
  have hlen : L = utf8Len ('/' :: '/' :: (t.takeWhile isNotEol ++ (t.dropWhile isNotEol).takeWhile isEol)) := by
    show 2 + _ + _ = _
    rw [utf8Len_cons, utf8Len_cons, utf8Len_append]
    have : ('/' : Char).utf8Size = 1 := by decide
    omega
  show next Gen.lexTable fuel (splitBytes L ('/' :: '/' :: t)).2 (p + L) = _
  rw [hlen]
  conv => lhs; rw [hsplit, splitBytes_prefix]
  show next Gen.lexTable fuel ((t.dropWhile isNotEol).dropWhile isEol) _ = _
  rw [← hlen]

/-- **A block comment is skipped**: `/*` up to and including the first `*/`. -/
theorem next_skips_block (fuel : Nat) (u rest : List Char) (p : Nat) (hclose : firstClose false u 0 = some u.length)
    (hf : ('/' :: '*' :: (u ++ rest)).length ≤ fuel + 1) :
    next Gen.lexTable (fuel + 1) ('/' :: '*' :: (u ++ rest)) p = next Gen.lexTable fuel rest (p + utf8Len ('/' :: '*' :: u)) := by
  have hL : 0 < utf8Len ('/' :: '*' :: u) := by rw [utf8Len_cons]; have := utf8Size_pos '/'; omega
  have hblock : matchAt Gen.lexTable[blockIdx]!.1 (fuel + 1) ('/' :: '*' :: (u ++ rest)) p = some (p + utf8Len ('/' :: '*' :: u)) := by
    rw [blockIdx_entry.2]; exact matchAt_block (fuel + 1) u rest p hclose hf
  have hothers : ∀ i, i ≠ blockIdx → matchAt Gen.lexTable[i]!.1 (fuel + 1) ('/' :: '*' :: (u ++ rest)) p = none
      ∨ matchAt Gen.lexTable[i]!.1 (fuel + 1) ('/' :: '*' :: (u ++ rest)) p = some p := by
    intro i hi
    by_cases his : i < Gen.lexTable.size
    · by_cases hl : i = lineIdx
      · subst hl; rw [lineIdx_entry.2]; exact Or.inl (line_at_block _ _ p)
      · exact other_entry_at_slash i his hl hi _ _ p
    · exact Or.inr (default_entry i his _ _ p)
  have hbest := bestMatch_single Gen.lexTable (fuel + 1) _ p blockIdx _ blockIdx_entry.1 hL hblock hothers
  rw [next]
  case x_4 => intro h; cases h
  rw [hbest]
  simp only
  rw [blockIdx_entry.2]
  simp only [if_true]
  rw [if_neg (by omega)]
  have hsplit : '/' :: '*' :: (u ++ rest) = ('/' :: '*' :: u) ++ rest := by simp
  conv => lhs; rw [hsplit, splitBytes_prefix]

end Aidl.Props.LexSkip
