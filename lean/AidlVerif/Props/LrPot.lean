import AidlVerif.Props.LrCert

/-!
# Termination certificate for the LR driver

The translator computes state weights `w` and top-of-stack ranks `r`, and re-expresses the
transition relation and the productions as decision trees (fast to evaluate in the kernel).
NOTHING of it is trusted: `Pot.ok` is an executable check, evaluated by the kernel on the tables of
this run, that

* `next` contains every certified transition (`nextOK`), `info` / `prodsOf` describe the productions
  of the table (`infoOK`);
* every reduction `A → X₁…X_k` decreases the potential `Σ w(stack) + r(top)` by at least one,
  whatever state `q` lies below the right-hand side (checked from below: for every certified
  transition `q --A--> g` and every production of `A`, the path from `q` over `X₁…X_k` is followed
  to the state `t` in which the reduction happens, with the weight of the states entered);
* no EOF action is a shift, and the constants fit the model's step bound `parseFuel` (64 steps per
  character). `w ≤ wMax` and `r ≤ rMax` hold by construction (`wOf`, `rOf` clamp).
-/

namespace Aidl.Lr

structure Pot where
  w : Nat → Nat
  r : Nat → Nat
  wMax : Nat
  rMax : Nat
  next : Nat → List (Nat × Nat)                    -- state ↦ outgoing transitions (symbol id, target)
  info : Nat → Option (List Nat × Nat × Bool)      -- production ↦ (rhs ids, non-terminal, accept)
  prodsOf : Nat → List Nat                         -- non-terminal index ↦ its productions

namespace Pot
variable (T : Tables) (C : Cert) (P : Pot)

def wOf (s : Nat) : Nat := min (P.w s) P.wMax
def rOf (s : Nat) : Nat := min (P.r s) P.rMax

def wSum (states : List Nat) : Nat := (states.map P.wOf).sum

/-- the potential of a state stack (top first) -/
def phi (states : List Nat) : Nat := P.wSum states + P.rOf (states.headD 0)

/-- follow transitions from `q` over the symbols `xs`: the state reached and the weight of the
    states entered -/
def fwd (q : Nat) : List Nat → Nat → Option (Nat × Nat)
  | [], c => some (q, c)
  | x :: xs, c =>
    match (P.next q).lookup x with
    | none => none
    | some s => fwd s xs (c + P.wOf s)

/-- for the certified transition `q --A--> g` (`e = (symbol id, g)`): every production `A → X₁…X_k`
    whose right-hand side can lie on the stack above `q` decreases the potential when reduced -/
def edgePotOK (q : Nat) (e : Nat × Nat) : Bool :=
  if e.1 < T.ncols then true else
  (P.prodsOf (e.1 - T.ncols)).all fun p =>
    match P.info p with
    | none => false
    | some (ids, nt, accept) =>
      accept ||
        match fwd P q ids 0 with
        | none => true
        | some (t, c) =>
          match (P.next q).lookup (T.ncols + nt) with
          | none => false
          | some g => decide (1 + P.wOf g + P.rOf g ≤ c + P.rOf t)

def edgesPotOK : Bool :=
  C.succ.toList.zipIdx.all fun rq => rq.1.all fun e => edgePotOK T P rq.2 e

/-- `next` contains every certified transition -/
def nextOK : Bool :=
  C.succ.toList.zipIdx.all fun rq => rq.1.all fun e => (P.next rq.2).lookup e.1 == some e.2

/-- `info` and `prodsOf` describe the productions of the table -/
def infoOK : Bool :=
  T.prods.toList.zipIdx.all fun pi =>
    P.info pi.2 == some (pi.1.rhsIds, pi.1.nt, pi.1.accept) && (P.prodsOf pi.1.nt).contains pi.2

/-- `EOF_ACTION` never shifts -/
def eofNonPos : Bool := T.eof.toList.all fun a => decide (a ≤ 0)

/-- the constants fit `parseFuel = 64 * (n + 2) + 1024` -/
def fuelOK : Bool := decide (2 * (P.wMax + P.rMax) + 2 ≤ 64)

def ok : Bool := edgesPotOK T C P && nextOK C P && infoOK T P && eofNonPos T && P.fuelOK

end Pot
end Aidl.Lr
