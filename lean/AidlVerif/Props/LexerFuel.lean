import AidlVerif.Props.LexerProgress

/-!
# The step bounds of the lexer model are never felt — for every table and input

The regex matcher iterates `star` at most `fuel` times, the lexer loop skips at most `fuel` matches.
`m_fuel`: once `fuel` exceeds the length of the remaining input the result of a match does not depend
on it (each iteration of `star` must make progress, so there are at most as many iterations as
characters). `next_fuel`: the same for `Matcher::next`. Hence the model's lexer computes the
unbounded semantics: `next table fuel s p = next table (|s| + 1) s p` for every `fuel > |s|`.
-/

namespace Aidl.Props.LexerFuel
open Aidl.Regex Aidl.Lexer Aidl.Javadoc Aidl.Props.JavadocTotal Aidl.Props.LexerBounds Aidl.Props.LexerProgress

theorem Reach.trans {s0 p0 s1 p1 s2 p2} (h1 : Reach s0 p0 s1 p1) (h2 : Reach s1 p1 s2 p2) : Reach s0 p0 s2 p2 := by
  obtain ⟨a, ha, hpa⟩ := h1
  obtain ⟨b, hb, hpb⟩ := h2
  exact ⟨a ++ b, by rw [ha, hb]; simp, by rw [hpb, hpa, utf8Len_append]; omega⟩

theorem Reach.len {s0 p0 s p} (h : Reach s0 p0 s p) : s.length ≤ s0.length ∧ (p0 < p → s.length < s0.length) := by
  obtain ⟨pre, h1, h2⟩ := h
  rw [h1, List.length_append]
  refine ⟨by omega, fun hlt => ?_⟩
  have : 0 < utf8Len pre := by omega
  have := utf8Len_pos_length pre this
  omega

/-- two continuations that agree wherever the matcher can get to from `(s, p)` -/
def Agree (s : List Char) (p : Nat) (k1 k2 : K) : Prop := ∀ s' p', Reach s p s' p' → k1 s' p' = k2 s' p'

theorem Agree.from {s p s' p' k1 k2} (h : Agree s p k1 k2) (hr : Reach s p s' p') : Agree s' p' k1 k2 :=
  fun s'' p'' hr' => h s'' p'' (Reach.trans hr hr')

/-- **the bound on `star` is never felt** -/
theorem m_fuel (r : Re) (f1 f2 : Nat) :
    ∀ (s : List Char) (p : Nat) (k1 k2 : K), s.length < f1 → s.length < f2 → Agree s p k1 k2 →
      m r f1 s p k1 = m r f2 s p k2 := by
  induction r with
  | eps => intro s p k1 k2 _ _ hk; simp only [m]; exact hk s p (Reach.refl s p)
  | cls rs =>
    intro s p k1 k2 _ _ hk
    cases s with
    | nil => simp [m]
    | cons c s' =>
      simp only [m]
      split
      · exact hk _ _ (Reach.refl (c :: s') p).cons
      · rfl
  | seq a b iha ihb =>
    intro s p k1 k2 h1 h2 hk
    simp only [m]
    apply iha s p _ _ h1 h2
    intro s' p' hr
    have := (Reach.len hr).1
    exact ihb s' p' k1 k2 (by omega) (by omega) (hk.from hr)
  | alt a b iha ihb =>
    intro s p k1 k2 h1 h2 hk
    simp only [m]
    rw [iha s p k1 k2 h1 h2 hk, ihb s p k1 k2 h1 h2 hk]
  | star a iha =>
    intro s p k1 k2 h1 h2 hk
    simp only [m]
    -- the bodies agree only on inputs no longer than `s`; restrict by a guard on the length
    have key : ∀ (N : Nat) (s' : List Char), s'.length ≤ N → s'.length ≤ s.length → ∀ (p' n1 n2 : Nat) (k1 k2 : K),
        s'.length < n1 → s'.length < n2 → Agree s' p' k1 k2 →
        starLoop (m a f1) k1 n1 s' p' = starLoop (m a f2) k2 n2 s' p' := by
      intro N
      induction N with
      | zero =>
        intro s' hs hle p' n1 n2 k1 k2 hn1 hn2 hk'
        cases n1 with
        | zero => omega
        | succ n1 =>
          cases n2 with
          | zero => omega
          | succ n2 =>
            unfold starLoop
            have : m a f1 s' p' (fun s'' p'' => if p' < p'' then starLoop (m a f1) k1 n1 s'' p'' else none)
                 = m a f2 s' p' (fun s'' p'' => if p' < p'' then starLoop (m a f2) k2 n2 s'' p'' else none) := by
              apply iha s' p' _ _ (by omega) (by omega)
              intro s'' p'' hr
              dsimp only
              split
              · rename_i hlt
                have := (Reach.len hr).2 hlt
                omega
              · rfl
            rw [this, hk' s' p' (Reach.refl s' p')]
      | succ N ih =>
        intro s' hs hle p' n1 n2 k1 k2 hn1 hn2 hk'
        cases n1 with
        | zero => omega
        | succ n1 =>
          cases n2 with
          | zero => omega
          | succ n2 =>
            unfold starLoop
            have : m a f1 s' p' (fun s'' p'' => if p' < p'' then starLoop (m a f1) k1 n1 s'' p'' else none)
                 = m a f2 s' p' (fun s'' p'' => if p' < p'' then starLoop (m a f2) k2 n2 s'' p'' else none) := by
              apply iha s' p' _ _ (by omega) (by omega)
              intro s'' p'' hr
              dsimp only
              split
              · rename_i hlt
                have := (Reach.len hr).2 hlt
                exact ih s'' (by omega) (by omega) p'' n1 n2 k1 k2 (by omega) (by omega) (hk'.from hr)
              · rfl
            rw [this, hk' s' p' (Reach.refl s' p')]
    exact key s.length s (Nat.le_refl _) (Nat.le_refl _) p f1 f2 k1 k2 h1 h2 hk

theorem matchAt_fuel (r : Re) (f1 f2 : Nat) (s : List Char) (p : Nat) (h1 : s.length < f1) (h2 : s.length < f2) :
    matchAt r f1 s p = matchAt r f2 s p := by
  unfold matchAt
  exact m_fuel r f1 f2 s p _ _ h1 h2 (fun _ _ _ => rfl)

theorem bestMatch_fuel (table : LexTable) (f1 f2 : Nat) (s : List Char) (p : Nat) (h1 : s.length < f1) (h2 : s.length < f2) :
    bestMatch table f1 s p = bestMatch table f2 s p := by
  unfold bestMatch
  congr 1
  funext best i
  rw [matchAt_fuel _ f1 f2 s p h1 h2]

/-- **the lexer's result does not depend on its step bound** once the bound exceeds the input length -/
theorem next_fuel (table : LexTable) :
    ∀ (f1 f2 : Nat) (s : List Char) (p : Nat), s.length < f1 → s.length < f2 → next table f1 s p = next table f2 s p := by
  intro f1
  induction f1 with
  | zero => intro f2 s p h; omega
  | succ f1 ih =>
    intro f2 s p h1 h2
    cases f2 with
    | zero => omega
    | succ f2 =>
      cases s with
      | nil => rw [next, next]
      | cons c cs =>
        rw [next, next]
        case x_4 => intro h; cases h
        case x_4 => intro h; cases h
        dsimp only
        rw [bestMatch_fuel table (f1 + 1) (f2 + 1) (c :: cs) p h1 h2]
        cases hb : bestMatch table (f2 + 1) (c :: cs) p with
        | none => rfl
        | some li =>
          obtain ⟨len, i⟩ := li
          obtain ⟨pre, post, hp1, hp2⟩ := bestMatch_prefix table _ _ p len i hb
          have hsp : splitBytes len (c :: cs) = (pre, post) := by rw [hp1, hp2]; exact splitBytes_prefix pre post
          dsimp only
          rw [hsp]
          dsimp only
          by_cases hskip : table[i]!.2 = true
          · rw [if_pos hskip, if_pos hskip]
            by_cases hz : len = 0
            · rw [if_pos hz, if_pos hz]
            · rw [if_neg hz, if_neg hz]
              have hpos : 0 < utf8Len pre := by omega
              have := utf8Len_pos_length pre hpos
              have hl : (c :: cs).length = pre.length + post.length := by rw [hp1, List.length_append]
              exact ih f2 post (p + len) (by omega) (by omega)
          · rw [if_neg hskip, if_neg hskip]

end Aidl.Props.LexerFuel
