import AidlVerif.Props.ActionsRel

/-!
# The interpreter of the regenerated action table does not look at positions either

`evalAction_rel`: for every table of actions, arguments equal after erasure give results equal
after erasure (generic builders, composite actions with their location plumbing, and the
hand-written actions through `printToLabel`).
-/

namespace Aidl.Props.Rel
open Aidl Aidl.Actions Aidl.Lexer Aidl.Erase Aidl.Props.PL

variable {e1 e2 : Env}

theorem lookup_mem {α β} [BEq α] [LawfulBEq α] {l : List (α × β)} {k : α} {v : β} (h : l.lookup k = some v) : (k, v) ∈ l := by
  induction l with
  | nil => cases h
  | cons x xs ih =>
    obtain ⟨k', v'⟩ := x
    simp only [List.lookup] at h
    split at h
    · rename_i heq
      have : k = k' := by simpa using heq
      cases h; subst this; exact List.mem_cons_self ..
    · exact List.mem_cons_of_mem _ (ih h)

set_option maxHeartbeats 2000000 in
set_option maxRecDepth 100000 in
theorem userAction_rel (print label : Nat) (a1 a2 : List ArgV) (hl : printToLabel.lookup print = some label)
    (h : ArgsRel a1 a2) : Rel2 e1 e2 (userAction label a1) (userAction label a2) (fun v1 v2 => erVal v1 = erVal v2) := by
  have hmem := lookup_mem hl
  unfold printToLabel at hmem
  simp only [List.mem_cons, Prod.mk.injEq, List.mem_nil_iff, or_false] at hmem
  rcases hmem with ⟨_, rfl⟩ | ⟨_, rfl⟩ | ⟨_, rfl⟩ | ⟨_, rfl⟩ | ⟨_, rfl⟩ | ⟨_, rfl⟩ | ⟨_, rfl⟩ | ⟨_, rfl⟩ | ⟨_, rfl⟩ | ⟨_, rfl⟩ | ⟨_, rfl⟩ | ⟨_, rfl⟩ | ⟨_, rfl⟩ | ⟨_, rfl⟩ | ⟨_, rfl⟩ | ⟨_, rfl⟩ | ⟨_, rfl⟩ | ⟨_, rfl⟩ | ⟨_, rfl⟩ | ⟨_, rfl⟩ | ⟨_, rfl⟩ | ⟨_, rfl⟩ | ⟨_, rfl⟩ | ⟨_, rfl⟩ | ⟨_, rfl⟩ | ⟨_, rfl⟩ | ⟨_, rfl⟩ | ⟨_, rfl⟩ | ⟨_, rfl⟩ | ⟨_, rfl⟩ | ⟨_, rfl⟩ | ⟨_, rfl⟩ | ⟨_, rfl⟩ | ⟨_, rfl⟩ | ⟨_, rfl⟩ | ⟨_, rfl⟩ | ⟨_, rfl⟩ | ⟨_, rfl⟩ | ⟨_, rfl⟩ | ⟨_, rfl⟩ | ⟨_, rfl⟩ | ⟨_, rfl⟩ | ⟨_, rfl⟩ | ⟨_, rfl⟩ | ⟨_, rfl⟩ | ⟨_, rfl⟩ | ⟨_, rfl⟩
  · exact rel_16 a1 a2 h
  · exact rel_17 a1 a2 h
  · exact rel_18 a1 a2 h
  · exact rel_19 a1 a2 h
  · exact rel_20 a1 a2 h
  · exact rel_100 a1 a2 h
  · exact rel_21 a1 a2 h
  · exact rel_22 a1 a2 h
  · exact rel_23 a1 a2 h
  · exact rel_24 a1 a2 h
  · exact rel_25 a1 a2 h
  · exact rel_26 a1 a2 h
  · exact rel_27 a1 a2 h
  · exact rel_28 a1 a2 h
  · exact rel_29 a1 a2 h
  · exact rel_30 a1 a2 h
  · exact rel_31 a1 a2 h
  · exact rel_32 a1 a2 h
  · exact rel_33 a1 a2 h
  · exact rel_34 a1 a2 h
  · exact rel_35 a1 a2 h
  · exact rel_36 a1 a2 h
  · exact rel_37 a1 a2 h
  · exact rel_38 a1 a2 h
  · exact rel_39 a1 a2 h
  · exact rel_40 a1 a2 h
  · exact rel_41 a1 a2 h
  · exact rel_50 a1 a2 h
  · exact rel_51 a1 a2 h
  · exact rel_52 a1 a2 h
  · exact rel_53 a1 a2 h
  · exact rel_54 a1 a2 h
  · exact rel_55 a1 a2 h
  · exact rel_56 a1 a2 h
  · exact rel_57 a1 a2 h
  · exact rel_58 a1 a2 h
  · exact rel_59 a1 a2 h
  · exact rel_60 a1 a2 h
  · exact rel_61 a1 a2 h
  · exact rel_62 a1 a2 h
  · exact rel_63 a1 a2 h
  · exact rel_64 a1 a2 h
  · exact rel_65 a1 a2 h
  · exact rel_66 a1 a2 h
  · exact rel_67 a1 a2 h
  · exact rel_68 a1 a2 h
  · exact rel_69 a1 a2 h

theorem erVals_append (a b : List Val) : erVals (a ++ b) = erVals a ++ erVals b := by
  simp [erVals_eq]

theorem evalPrim_rel (p : Prim) (a1 a2 : List ArgV) (h : ArgsRel a1 a2) :
    Rel2 e1 e2 (evalPrim p a1) (evalPrim p a2) (fun v1 v2 => erVal v1 = erVal v2) := by
  unfold evalPrim
  cases p with
  | arg i => exact rel_nth h i
  | some i => exact Rel2.bind (rel_nth h i) (fun v w hv => Rel2.pure _ _ (by simp [erVal, hv]))
  | none => exact Rel2.pure _ _ rfl
  | nil => exact Rel2.pure _ _ rfl
  | sing i => exact Rel2.bind (rel_nth h i) (fun v w hv => Rel2.pure _ _ (by simp [erVal, erVals, hv]))
  | push v e =>
    dsimp only
    refine Rel2.bind (rel_nth h v) (fun l1 l2 hl => ?_)
    refine Rel2.bind (rel_asList hl) (fun m1 m2 hm => ?_)
    refine Rel2.bind (rel_nth h e) (fun x y hx => ?_)
    exact Rel2.pure _ _ (by simp [erVal, erVals_append, erVals, hm, hx])
  | pushOpt v e =>
    dsimp only
    refine Rel2.bind (rel_nth h e) (fun o1 o2 ho => ?_)
    refine Rel2.bind (rel_asOpt ho) (fun p1 p2 hp => ?_)
    cases p1 with
    | none =>
      cases p2 with
      | none => exact rel_nth h v
      | some _ => simp at hp
    | some x =>
      cases p2 with
      | none => simp at hp
      | some y =>
        have hxy : erVal x = erVal y := by simpa using hp.1
        dsimp only
        refine Rel2.bind (rel_nth h v) (fun l1 l2 hl => ?_)
        refine Rel2.bind (rel_asList hl) (fun m1 m2 hm => ?_)
        exact Rel2.pure _ _ (by simp [erVal, erVals_append, erVals, hm, hxy])
  | pair i j =>
    dsimp only
    refine Rel2.bind (rel_nth h i) (fun a b ha => ?_)
    refine Rel2.bind (rel_nth h j) (fun c d hc => ?_)
    exact Rel2.pure _ _ (by simp [erVal, ha, hc])

/-- temporaries of a composite action, equal after erasure -/
def TempsRel (t1 t2 : List (String × ArgV)) : Prop :=
  t1.map (fun p => (p.1, erArgV p.2)) = t2.map (fun p => (p.1, erArgV p.2))

theorem tempsRel_lookup {t1 t2 : List (String × ArgV)} (h : TempsRel t1 t2) (n : String) :
    (t1.lookup n).map erArgV = (t2.lookup n).map erArgV := by
  induction t1 generalizing t2 with
  | nil =>
    cases t2 with
    | nil => rfl
    | cons _ _ => simp [TempsRel] at h
  | cons x xs ih =>
    cases t2 with
    | nil => simp [TempsRel] at h
    | cons y ys =>
      obtain ⟨k1, v1⟩ := x
      obtain ⟨k2, v2⟩ := y
      simp only [TempsRel, List.map_cons, List.cons.injEq, Prod.mk.injEq] at h
      obtain ⟨⟨hk, hv⟩, hrest⟩ := h
      subst hk
      simp only [List.lookup]
      split
      · simp [hv]
      · exact ih hrest

theorem evalArg_rel (sc1 sc2 : Scope) (a1 a2 : List ArgV) (e : ArgExpr) (hs : TempsRel sc1.temps sc2.temps)
    (h : ArgsRel a1 a2) : Rel2 e1 e2 (evalArg sc1 a1 e) (evalArg sc2 a2 e) (fun x y => erArgV x = erArgV y) := by
  cases e with
  | param i =>
    simp only [evalArg]
    have hi : (a1[i]?).map erArgV = (a2[i]?).map erArgV := by
      rw [← List.getElem?_map, ← List.getElem?_map, h]
    cases h1 : a1[i]? with
    | none => exact Rel2.bad_left _ _ _
    | some x =>
      cases h2 : a2[i]? with
      | none => exact Rel2.bad_right _ _ _
      | some y => rw [h1, h2] at hi; exact Rel2.pure _ _ (by simpa using hi)
  | temp n =>
    simp only [evalArg]
    have hl := tempsRel_lookup hs n
    cases h1 : sc1.temps.lookup n with
    | none => exact Rel2.bad_left _ _ _
    | some x =>
      cases h2 : sc2.temps.lookup n with
      | none => exact Rel2.bad_right _ _ _
      | some y => rw [h1, h2] at hl; exact Rel2.pure _ _ (by simpa using hl)
  | loc n =>
    simp only [evalArg]
    cases sc1.locs.lookup n with
    | none => exact Rel2.bad_left _ _ _
    | some x =>
      cases sc2.locs.lookup n with
      | none => exact Rel2.bad_right _ _ _
      | some y => exact Rel2.pure _ _ rfl

/-- `mapM` of two functions over ONE list -/
theorem Rel2.mapM_same {α β γ} (f1 f2 : α → M β) (er : β → γ) :
    ∀ (l : List α), (∀ a ∈ l, Rel2 e1 e2 (f1 a) (f2 a) (fun b1 b2 => er b1 = er b2)) →
      Rel2 e1 e2 (l.mapM f1) (l.mapM f2) (fun r1 r2 => r1.map er = r2.map er) := by
  intro l
  induction l with
  | nil => intro _; rw [List.mapM_nil, List.mapM_nil]; exact Rel2.pure _ _ rfl
  | cons a as ih =>
    intro h
    rw [List.mapM_cons, List.mapM_cons]
    refine Rel2.bind (h a (List.mem_cons_self ..)) (fun x y hxy => ?_)
    refine Rel2.bind (ih (fun b hb => h b (List.mem_cons_of_mem _ hb))) (fun xs ys hxs => ?_)
    exact Rel2.pure _ _ (by simp [hxy, hxs])

theorem runStmts_rel (call : Nat → List ArgV → M Val)
    (hcall : ∀ id v1 v2, ArgsRel v1 v2 → Rel2 e1 e2 (call id v1) (call id v2) (fun r1 r2 => erVal r1 = erVal r2))
    (a1 a2 : List ArgV) (h : ArgsRel a1 a2) :
    ∀ (stmts : List Stmt) (sc1 sc2 : Scope), TempsRel sc1.temps sc2.temps →
      Rel2 e1 e2 (runStmts call a1 sc1 stmts) (runStmts call a2 sc2 stmts) (fun r1 r2 => erVal r1 = erVal r2) := by
  intro stmts
  induction stmts with
  | nil => intro sc1 sc2 _; unfold runStmts; exact Rel2.bad_left _ _ _
  | cons st rest ih =>
    intro sc1 sc2 hs
    cases st with
    | letLoc n e =>
      unfold runStmts
      exact Rel2.bind (rel_any _ _) (fun v w _ => ih _ _ hs)
    | letCall n a as =>
      unfold runStmts
      refine Rel2.bind (Rel2.mapM_same _ _ erArgV as (fun e _ => evalArg_rel sc1 sc2 a1 a2 e hs h)) (fun vs ws hvs => ?_)
      refine Rel2.bind (hcall a vs ws hvs) (fun r s hr => ?_)
      refine ih _ _ ?_
      simp only [TempsRel, List.map_cons, List.cons.injEq, Prod.mk.injEq, true_and]
      exact ⟨by simp [erArgV, hr], hs⟩
    | letTriple n s e =>
      unfold runStmts
      refine Rel2.bind (rel_any _ _) (fun sv sw _ => ?_)
      refine Rel2.bind (rel_any _ _) (fun ev ew _ => ?_)
      have hl := tempsRel_lookup hs n
      cases h1 : sc1.temps.lookup n with
      | none => exact Rel2.bad_left _ _ _
      | some x =>
        cases x with
        | locRef k => exact Rel2.bad_left _ _ _
        | triple xa xv xb =>
          cases h2 : sc2.temps.lookup n with
          | none => exact Rel2.bad_right _ _ _
          | some y =>
            cases y with
            | locRef k => exact Rel2.bad_right _ _ _
            | triple ya yv yb =>
              rw [h1, h2] at hl
              simp only [Option.map_some, Option.some.injEq, erArgV, ArgV.triple.injEq, true_and, and_true] at hl
              refine ih _ _ ?_
              simp only [TempsRel, List.map_cons, List.cons.injEq, Prod.mk.injEq, true_and]
              exact ⟨by simp [erArgV, hl], hs⟩
    | ret a as =>
      unfold runStmts
      refine Rel2.bind (Rel2.mapM_same _ _ erArgV as (fun e _ => evalArg_rel sc1 sc2 a1 a2 e hs h)) (fun vs ws hvs => ?_)
      exact hcall a vs ws hvs

/-- **the actions do not look at positions**: for every table of actions and every nesting bound -/
theorem evalAction_rel (defs : Array ActionDef) :
    ∀ (fuel id : Nat) (a1 a2 : List ArgV), ArgsRel a1 a2 →
      Rel2 e1 e2 (evalAction defs fuel id a1) (evalAction defs fuel id a2) (fun r1 r2 => erVal r1 = erVal r2) := by
  intro fuel
  induction fuel with
  | zero => intro id a1 a2 _; unfold evalAction; exact Rel2.bad_left _ _ _
  | succ f ih =>
    intro id a1 a2 h
    unfold evalAction
    cases hd : defs[id]? with
    | none => exact Rel2.bad_left _ _ _
    | some d =>
      cases d with
      | user ar print =>
        dsimp only
        cases hl : printToLabel.lookup print with
        | none => exact Rel2.bad_left _ _ _
        | some label => exact userAction_rel print label a1 a2 hl h
      | prim ar p => exact evalPrim_rel p a1 a2 h
      | composite ar body => exact runStmts_rel _ (ih) a1 a2 h body {} {} rfl

end Aidl.Props.Rel
