import AidlVerif.Props.LexAccept
import AidlVerif.Props.Examples

/-!
# A checker for the lexical specification, proved sound

`lexesToB f s` scans a text the way the relations of `LexSpec` are written — skipped text (`skipB`), then one lexeme
(`tokenB`) — and returns the lexemes. `lexesToB_sound`: whatever it returns is in `LexesTo`. It uses NO matcher:
only `takeWhile` / `dropWhile` over the character classes, the block-comment scan `firstClose`, and `lastFull` (the
last entry of the table that matches a whole run, a property of the run alone).

It is what makes the hypotheses of `relayout_same_tree` and `layout_accepted` EVALUABLE on a concrete text:
`ex_relayout`, `ex_layout_accepted` below — the two documents of `Examples`, by kernel evaluation of the checker
(the lexer and the parser are never run on the second document). The compiled driver does not link the proof
modules, so per-case evaluation in the suites still goes through `lexToks` (key `samelex`).
-/

namespace Aidl.Props.LexCheck
open Aidl Aidl.Lr Aidl.Actions Aidl.Erase Aidl.Props.LrInv
open Aidl.Regex Aidl.Lexer Aidl.Javadoc Aidl.Props.JavadocTotal Aidl.Props.LexerBounds Aidl.Props.LexerProgress
  Aidl.Props.RegexSound Aidl.Props.JavadocSpec Aidl.Props.SkipEntries Aidl.Props.LexSkip Aidl.Props.LexerFuel Aidl.Props.LexIdent
  Aidl.Props.LexTokens Aidl.Props.LexNumbers Aidl.Props.LexRuns Aidl.Props.LexSpec Aidl.Props.LexUnlex Aidl.Props.LexAccept

/-! ### the last entry that matches a whole run -/

def lastSat (p : Nat → Bool) : Nat → Option Nat
  | 0 => none
  | n + 1 => if p n then some n else lastSat p n

theorem lastSat_spec (p : Nat → Bool) : ∀ (n j : Nat), lastSat p n = some j → j < n ∧ p j = true ∧ ∀ i, i < n → p i = true → i ≤ j
  | 0, j, h => by cases h
  | n + 1, j, h => by
    unfold lastSat at h
    split at h
    · rename_i hp
      cases h
      exact ⟨Nat.lt_succ_self _, hp, fun i hi _ => by omega⟩
    · rename_i hp
      obtain ⟨h1, h2, h3⟩ := lastSat_spec p n j h
      refine ⟨by omega, h2, fun i hi hpi => ?_⟩
      rcases Nat.lt_succ_iff_lt_or_eq.mp hi with h' | h'
      · exact h3 i h' hpi
      · subst h'; exact absurd hpi hp

def lastFull (w : List Char) : Option Nat := lastSat (fun i => fullOn i w) Gen.lexTable.size

/-! ### skipped text -/

theorem fc_take : ∀ (st : Bool) (t : List Char) (i k : Nat), firstClose st t i = some k →
    i < k ∧ k - i ≤ t.length ∧ firstClose st (t.take (k - i)) i = some k
  | _, [], _, _, h => by simp [firstClose] at h
  | st, c :: cs, i, k, h => by
    rw [firstClose] at h
    split at h
    · rename_i h1
      cases h
      refine ⟨by omega, by simp, ?_⟩
      have : i + 1 - i = 1 := by omega
      rw [this, List.take_succ_cons, List.take_zero, firstClose, if_pos h1]
    · rename_i h1
      split at h
      · rename_i h2
        obtain ⟨a, b, c'⟩ := fc_take true cs (i + 1) k h
        have hk : k - i = (k - (i + 1)) + 1 := by omega
        refine ⟨by omega, by simp only [List.length_cons]; omega, ?_⟩
        rw [hk, List.take_succ_cons, firstClose, if_neg h1, if_pos h2]
        exact c'
      · rename_i h2
        obtain ⟨a, b, c'⟩ := fc_take false cs (i + 1) k h
        have hk : k - i = (k - (i + 1)) + 1 := by omega
        refine ⟨by omega, by simp only [List.length_cons]; omega, ?_⟩
        rw [hk, List.take_succ_cons, firstClose, if_neg h1, if_neg h2]
        exact c'

/-- skip white-space runs, line comments and closed block comments, as long as there are any -/
def skipB : Nat → List Char → List Char
  | 0, s => s
  | f + 1, s =>
    match s with
    | [] => []
    | c :: t =>
      if isWsChar c then skipB f ((c :: t).dropWhile isWsChar)
      else if c = '/' then
        match t with
        | '/' :: t' => skipB f ((t'.dropWhile isNotEol).dropWhile isEol)
        | '*' :: t' =>
          match firstClose false t' 0 with
          | some k => skipB f (t'.drop k)
          | none => c :: t
        | _ => c :: t
      else c :: t

theorem skipB_sound : ∀ (f : Nat) (s : List Char), Skips s (skipB f s)
  | 0, s => Skips.done s
  | f + 1, [] => Skips.done []
  | f + 1, c :: t => by
    unfold skipB
    simp only
    split
    · rename_i hws
      have hsplit : c :: t = (c :: t).takeWhile isWsChar ++ (c :: t).dropWhile isWsChar := (List.takeWhile_append_dropWhile).symm
      have hne : (c :: t).takeWhile isWsChar ≠ [] := by rw [List.takeWhile_cons_of_pos hws]; simp
      have := Skips.ws ((c :: t).takeWhile isWsChar) ((c :: t).dropWhile isWsChar) _ hne
        (fun d hd => mem_takeWhile_imp isWsChar (c :: t) d hd)
        (fun d u hd => dropWhile_head_not isWsChar (c :: t) d u hd)
        (skipB_sound f ((c :: t).dropWhile isWsChar))
      rw [← hsplit] at this
      exact this
    · split
      · rename_i hslash
        subst hslash
        split
        · rename_i t'
          exact Skips.line t' _ (skipB_sound f _)
        · rename_i t'
          split
          · rename_i k hk
            obtain ⟨_, hle, htake⟩ := fc_take false t' 0 k hk
            simp only [Nat.sub_zero] at hle htake
            have hlen : (t'.take k).length = k := by rw [List.length_take]; omega
            have := Skips.block (t'.take k) (t'.drop k) _ (by rw [hlen]; exact htake) (skipB_sound f (t'.drop k))
            rw [List.take_append_drop] at this
            exact this
          · exact Skips.done _
        · exact Skips.done _
      · exact Skips.done _

/-! ### one lexeme -/

def wordB (c : Char) (t : List Char) : Option (Nat × List Char × List Char) :=
  (lastFull (c :: t.takeWhile isIdentPart)).map fun j => (j, c :: t.takeWhile isIdentPart, t.dropWhile isIdentPart)

def strB (t : List Char) : Option (Nat × List Char × List Char) :=
  match t.dropWhile isStrBody with
  | d :: rest => if d = '"' then some (strIdx, '"' :: t.takeWhile isStrBody ++ ['"'], rest) else none
  | [] => none

def annB (t : List Char) : Option (Nat × List Char × List Char) :=
  match t with
  | c' :: t' => if inCls identStartCls c' then some (annIdx, '@' :: c' :: t'.takeWhile isIdentPart, t'.dropWhile isIdentPart) else none
  | [] => none

def punctB (c : Char) (t : List Char) : Option (Nat × List Char × List Char) :=
  (punctEntries.find? (fun e => e.2 == c.toNat)).map fun e => (e.1, [c], t)

def numberB (c : Char) (t : List Char) : Option (Nat × List Char × List Char) :=
  if inCls floatStart c then
    (lastFull (c :: t.takeWhile (inCls floatChars))).map fun j => (j, c :: t.takeWhile (inCls floatChars), t.dropWhile (inCls floatChars))
  else none

/-- what follows cannot continue a word of entry `o` that begins with the character `a` -/
def followOk (o a : Nat) : List Char → Bool
  | [] => true
  | d :: _ => !inCls (firstCls (deriv Gen.lexTable[o]!.1 (Char.ofNat a))) d

/-- `-` or `.` followed by what cannot continue a number -/
def sharedB (c : Char) (t : List Char) : Option (Nat × List Char × List Char) :=
  match sharedEntries.find? (fun e => e.2.1 == c.toNat) with
  | some e => if followOk e.2.2 e.2.1 t then some (e.1, [c], t) else none
  | none => none

/-- the lexeme at the start of `c :: t`: (entry, its text, what follows) -/
def tokenB (c : Char) (t : List Char) : Option (Nat × List Char × List Char) :=
  if inCls identStartCls c then wordB c t
  else if c = '"' then strB t
  else if c = '@' then annB t
  else (punctB c t).or ((numberB c t).or (sharedB c t))

theorem wordB_sound (c : Char) (t : List Char) (hc : inCls identStartCls c = true) (j : Nat) (w rest : List Char)
    (h : wordB c t = some (j, w, rest)) : TokenAt (c :: t) j w rest := by
  unfold wordB at h
  simp only [Option.map_eq_some_iff, Prod.mk.injEq] at h
  obtain ⟨j', hj', rfl, rfl, rfl⟩ := h
  obtain ⟨h1, h2, h3⟩ := lastSat_spec _ _ _ hj'
  have hsplit : t = t.takeWhile isIdentPart ++ t.dropWhile isIdentPart := (List.takeWhile_append_dropWhile).symm
  have := TokenAt.word c (t.takeWhile isIdentPart) (t.dropWhile isIdentPart) j' hc
    (fun d hd => mem_takeWhile_imp isIdentPart t d hd) (fun d u hd => dropWhile_head_not isIdentPart t d u hd) h1 h2 h3
  rw [List.cons_append, ← hsplit] at this
  exact this

theorem strB_sound (t : List Char) (j : Nat) (w rest : List Char) (h : strB t = some (j, w, rest)) : TokenAt ('"' :: t) j w rest := by
  unfold strB at h
  split at h
  · rename_i d rest' hd
    split at h
    · rename_i hdq
      subst hdq
      simp only [Option.some.injEq, Prod.mk.injEq] at h
      obtain ⟨rfl, rfl, rfl⟩ := h
      have hsplit : t = t.takeWhile isStrBody ++ '"' :: rest' := by
        rw [← hd]; exact (List.takeWhile_append_dropWhile).symm
      have := TokenAt.str (t.takeWhile isStrBody) rest' (fun d hd => mem_takeWhile_imp isStrBody t d hd)
      rw [List.cons_append, ← hsplit] at this
      exact this
    · cases h
  · cases h

theorem annB_sound (t : List Char) (j : Nat) (w rest : List Char) (h : annB t = some (j, w, rest)) : TokenAt ('@' :: t) j w rest := by
  unfold annB at h
  split at h
  · rename_i c' t'
    split at h
    · rename_i hc'
      simp only [Option.some.injEq, Prod.mk.injEq] at h
      obtain ⟨rfl, rfl, rfl⟩ := h
      have hsplit : t' = t'.takeWhile isIdentPart ++ t'.dropWhile isIdentPart := (List.takeWhile_append_dropWhile).symm
      have := TokenAt.ann c' (t'.takeWhile isIdentPart) (t'.dropWhile isIdentPart) hc'
        (fun d hd => mem_takeWhile_imp isIdentPart t' d hd) (fun d u hd => dropWhile_head_not isIdentPart t' d u hd)
      rw [List.cons_append, List.cons_append, ← hsplit] at this
      exact this
    · cases h
  · cases h

theorem punctB_sound (c : Char) (t : List Char) (j : Nat) (w rest : List Char) (h : punctB c t = some (j, w, rest)) :
    TokenAt (c :: t) j w rest := by
  unfold punctB at h
  simp only [Option.map_eq_some_iff, Prod.mk.injEq] at h
  obtain ⟨e, he, rfl, rfl, rfl⟩ := h
  have hmem := List.mem_of_find?_eq_some he
  have hp := List.find?_some he
  simp only [beq_iff_eq] at hp
  exact TokenAt.punct e.1 e.2 c t hmem hp.symm

theorem numberB_sound (c : Char) (t : List Char) (j : Nat) (w rest : List Char) (h : numberB c t = some (j, w, rest)) :
    TokenAt (c :: t) j w rest := by
  unfold numberB at h
  split at h
  · rename_i hfs
    simp only [Option.map_eq_some_iff, Prod.mk.injEq] at h
    obtain ⟨j', hj', rfl, rfl, rfl⟩ := h
    obtain ⟨h1, h2, h3⟩ := lastSat_spec _ _ _ hj'
    have hsplit : t = t.takeWhile (inCls floatChars) ++ t.dropWhile (inCls floatChars) := (List.takeWhile_append_dropWhile).symm
    have := TokenAt.number c (t.takeWhile (inCls floatChars)) (t.dropWhile (inCls floatChars)) j' hfs
      (fun d u hd => dropWhile_head_not (inCls floatChars) t d u hd) h1 h2 h3
    rw [List.cons_append, ← hsplit] at this
    exact this
  · cases h

theorem sharedB_sound (c : Char) (t : List Char) (j : Nat) (w rest : List Char) (h : sharedB c t = some (j, w, rest)) :
    TokenAt (c :: t) j w rest := by
  unfold sharedB at h
  split at h
  · rename_i e he
    split at h
    · rename_i hfollow
      simp only [Option.some.injEq, Prod.mk.injEq] at h
      obtain ⟨rfl, rfl, rfl⟩ := h
      have hmem := List.mem_of_find?_eq_some he
      have hp := List.find?_some he
      simp only [beq_iff_eq] at hp
      obtain ⟨_, _, hval, _⟩ := shared_facts e.1 e.2.1 e.2.2 hmem
      have hc : Char.ofNat e.2.1 = c := by
        apply Char.toNat_inj.mp
        rw [hval, hp]
      have := TokenAt.shared e.1 e.2.1 e.2.2 t hmem (fun d u hd => by
        subst hd
        simp only [followOk, Bool.not_eq_true'] at hfollow
        exact hfollow)
      rw [hc] at this
      exact this
    · cases h
  · cases h

theorem tokenB_sound (c : Char) (t : List Char) (j : Nat) (w rest : List Char) (h : tokenB c t = some (j, w, rest)) :
    TokenAt (c :: t) j w rest := by
  unfold tokenB at h
  split at h
  · rename_i hc; exact wordB_sound c t hc j w rest h
  · split at h
    · rename_i _ hq; subst hq; exact strB_sound t j w rest h
    · split at h
      · rename_i _ _ hat; subst hat; exact annB_sound t j w rest h
      · cases hp : punctB c t with
        | some x => rw [hp] at h; simp only [Option.some_or, Option.some.injEq] at h; subst h; exact punctB_sound c t j w rest hp
        | none =>
          rw [hp] at h
          simp only [Option.none_or] at h
          cases hn : numberB c t with
          | some x => rw [hn] at h; simp only [Option.some_or, Option.some.injEq] at h; subst h; exact numberB_sound c t j w rest hn
          | none =>
            rw [hn] at h
            simp only [Option.none_or] at h
            exact sharedB_sound c t j w rest h

/-! ### a whole text -/

def lexesToB : Nat → List Char → Option (List (Nat × String))
  | 0, _ => none
  | f + 1, s =>
    match skipB (s.length + 1) s with
    | [] => some []
    | c :: t =>
      match tokenB c t with
      | none => none
      | some (j, w, rest) => (lexesToB f rest).map fun toks => (j, String.ofList w) :: toks

/-- **the checker is sound**: what it returns is in the relation -/
theorem lexesToB_sound : ∀ (f : Nat) (s : List Char) (toks : List (Nat × String)), lexesToB f s = some toks → LexesTo s toks
  | 0, _, _, h => by cases h
  | f + 1, s, toks, h => by
    unfold lexesToB at h
    have hsk := skipB_sound (s.length + 1) s
    split at h
    · rename_i hnil
      cases h
      rw [hnil] at hsk
      exact LexesTo.eof s hsk
    · rename_i c t hct
      rw [hct] at hsk
      split at h
      · cases h
      · rename_i j w rest htok
        simp only [Option.map_eq_some_iff] at h
        obtain ⟨toks', htoks', rfl⟩ := h
        exact LexesTo.tok s (c :: t) w rest j toks' hsk (tokenB_sound c t j w rest htok) (lexesToB_sound f rest toks' htoks')

/-! ### the two documents of `Examples`, through the specification -/

open Aidl.Props.Examples in
/-- the two layouts are texts of the specification, with the same lexemes (kernel evaluation of the CHECKER, not of the lexer) -/
theorem ex_lexesTo : ∃ toks, LexesTo doc1.toList toks ∧ LexesTo doc2.toList toks ∧ 30 < toks.length := by
  have h1 : ∃ toks, lexesToB (doc1.toList.length + 1) doc1.toList = some toks ∧
      lexesToB (doc2.toList.length + 1) doc2.toList = some toks ∧ 30 < toks.length := by
    cases h : lexesToB (doc1.toList.length + 1) doc1.toList with
    | none =>
      have : (lexesToB (doc1.toList.length + 1) doc1.toList).isSome = true := by decide +kernel
      rw [h] at this; cases this
    | some toks =>
      refine ⟨toks, rfl, ?_, ?_⟩
      · have : lexesToB (doc2.toList.length + 1) doc2.toList = lexesToB (doc1.toList.length + 1) doc1.toList := by decide +kernel
        rw [this, h]
      · have : (match lexesToB (doc1.toList.length + 1) doc1.toList with | some t => decide (30 < t.length) | none => false) = true := by
          decide +kernel
        rw [h] at this
        simpa using this
  obtain ⟨toks, a, b, c⟩ := h1
  exact ⟨toks, lexesToB_sound _ _ _ a, lexesToB_sound _ _ _ b, c⟩

open Aidl.Props.Examples in
/-- `relayout_same_tree` applied: no evaluation of the lexer or the parser is involved -/
theorem ex_relayout : ∃ r1 r2, addContentE Driver.Parse.tables (envOf doc1) "1" doc1 = .ok r1
    ∧ addContentE Driver.Parse.tables (envOf doc2) "2" doc2 = .ok r2
    ∧ r1.ast.map erAidl = r2.ast.map erAidl := by
  obtain ⟨toks, h1, h2, _⟩ := ex_lexesTo
  exact relayout_same_tree (envOf doc1) (envOf doc2) "1" "2" doc1 doc2 (envOf_ok doc1) (envOf_ok doc2) toks h1 h2

open Aidl.Props.Examples in
set_option maxRecDepth 1000000 in
theorem ex_cols2 : (lexesToB (doc2.toList.length + 1) doc2.toList).bind (colsOf Driver.Parse.tables)
    = some (parseLoop Driver.Parse.tables (envOf doc1) { input := doc1.toList } (parseFuel doc1)).1.hist := by decide +kernel

open Aidl.Props.Examples in
/-- `layout_accepted` applied to `doc2`: its lexemes come from the checker, their derivability from the accepting run
    on the OTHER layout `doc1` (soundness of the parser model) — `doc2` itself is never run through lexer or parser -/
theorem ex_layout_accepted : ∃ r v, addContentE Driver.Parse.tables (envOf doc2) "2" doc2 = .ok r
    ∧ (parseLoop Driver.Parse.tables (envOf doc2) { input := doc2.toList } (parseFuel doc2)).2 = .accept v
    ∧ (parseLoop Driver.Parse.tables (envOf doc2) { input := doc2.toList } (parseFuel doc2)).1.recovered = false := by
  have h := ex_accepts
  have hc := ex_cols2
  generalize hp : parseLoop Driver.Parse.tables (envOf doc1) { input := doc1.toList } (parseFuel doc1) = r at h hc
  obtain ⟨s, o⟩ := r
  cases o with
  | accept v =>
    have hrec : s.recovered = false := by simpa using h
    have hd := ParseSound.accepted_derives_run (envOf doc1) doc1 (parseFuel doc1) v (by rw [hp]) (by rw [hp]; exact hrec)
    rw [hp] at hd
    cases hl : lexesToB (doc2.toList.length + 1) doc2.toList with
    | none => rw [hl] at hc; cases hc
    | some toks =>
      rw [hl] at hc
      exact layout_accepted (envOf doc2) "2" doc2 (envOf_ok doc2) toks s.hist (lexesToB_sound _ _ _ hl) hc hd
  | _ => cases h

end Aidl.Props.LexCheck
